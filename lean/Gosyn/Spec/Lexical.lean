import Gosyn.Model.Scanner
/-!
Go specification, "Tokens", "Identifiers", "Keywords", "Operators and punctuation".
Part of the trusted base.

  identifier = letter { letter | unicode_digit } .
  letter     = unicode_letter | "_" .

  The following keywords are reserved and may not be used as identifiers.
    break default func interface select case defer go map struct chan else goto package switch
    const fallthrough if range type continue for import return var

  The following character sequences represent operators (including assignment operators) and
  punctuation:
    +  &  +=  &=  &&  ==  !=  (  )      -  |  -=  |=  ||  <  <=  [  ]
    *  ^  *=  ^=  <-  >   >=  {  }      /  << /=  <<= ++  =  :=  ,  ;
    %  >> %=  >>= --  !   ... .  :      &^ &^= ~

  "While breaking the input into tokens, the next token is the longest sequence of characters that
  form a valid token."
-/
namespace Gosyn.Spec
open Gosyn.Gen Gosyn.Model

def specKeywords : List String :=
  ["break", "default", "func", "interface", "select", "case", "defer", "go", "map", "struct",
   "chan", "else", "goto", "package", "switch", "const", "fallthrough", "if", "range", "type",
   "continue", "for", "import", "return", "var"]

def specOperators : List String :=
  ["+", "&", "+=", "&=", "&&", "==", "!=", "(", ")",
   "-", "|", "-=", "|=", "||", "<", "<=", "[", "]",
   "*", "^", "*=", "^=", "<-", ">", ">=", "{", "}",
   "/", "<<", "/=", "<<=", "++", "=", ":=", ",", ";",
   "%", ">>", "%=", ">>=", "--", "!", "...", ".", ":",
   "&^", "&^=", "~"]

/-- `s` is an operator or punctuation token of the spec -/
def IsSpecOp (s : List Char) : Prop := String.ofList s ∈ specOperators
/-- `s` is a keyword of the spec -/
def IsSpecKeyword (s : List Char) : Prop := String.ofList s ∈ specKeywords

/-- identifier syntax over given letter / digit classes (keywords are excluded separately) -/
def IsIdentShape (letter digit : Char → Bool) : List Char → Prop
  | [] => False
  | c :: cs => letter c = true ∧ ∀ d ∈ cs, letter d = true ∨ digit d = true

/-- longest match among operators: `s` is an operator that is a prefix of `cs`, and no longer
    operator is -/
def LongestOp (s cs : List Char) : Prop :=
  IsSpecOp s ∧ s <+: cs ∧ ∀ s', IsSpecOp s' → s' <+: cs → s'.length ≤ s.length

end Gosyn.Spec
