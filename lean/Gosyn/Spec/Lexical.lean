import Gosyn.Model.Scanner
/-!
Go specification, "Tokens", "Identifiers", "Keywords", "Operators and punctuation".
Part of the trusted base.

  identifier = letter { letter | unicode_digit } .
  letter     = unicode_letter | "_" .

  The following keywords are reserved and may not be used as identifiers.
    break default func interface select case defer go map struct chan else goto package switch
    const fallthrough if range type continue for import return var

  The following character sequences represent operators (including assignment operators) and
  punctuation:
    +  &  +=  &=  &&  ==  !=  (  )      -  |  -=  |=  ||  <  <=  [  ]
    *  ^  *=  ^=  <-  >   >=  {  }      /  << /=  <<= ++  =  :=  ,  ;
    %  >> %=  >>= --  !   ... .  :      &^ &^= ~

  "While breaking the input into tokens, the next token is the longest sequence of characters that
  form a valid token."
-/
namespace Gosyn.Spec
open Gosyn.Gen Gosyn.Model

/-- the 25 keywords, spelled as char lists (string literals do not reduce in the kernel) -/
def specKeywords : List (List Char) :=
  [['b', 'r', 'e', 'a', 'k'], ['d', 'e', 'f', 'a', 'u', 'l', 't'], ['f', 'u', 'n', 'c'], ['i', 'n', 't', 'e', 'r', 'f', 'a', 'c', 'e'], ['s', 'e', 'l', 'e', 'c', 't'],
   ['c', 'a', 's', 'e'], ['d', 'e', 'f', 'e', 'r'], ['g', 'o'], ['m', 'a', 'p'], ['s', 't', 'r', 'u', 'c', 't'],
   ['c', 'h', 'a', 'n'], ['e', 'l', 's', 'e'], ['g', 'o', 't', 'o'], ['p', 'a', 'c', 'k', 'a', 'g', 'e'], ['s', 'w', 'i', 't', 'c', 'h'],
   ['c', 'o', 'n', 's', 't'], ['f', 'a', 'l', 'l', 't', 'h', 'r', 'o', 'u', 'g', 'h'], ['i', 'f'], ['r', 'a', 'n', 'g', 'e'], ['t', 'y', 'p', 'e'],
   ['c', 'o', 'n', 't', 'i', 'n', 'u', 'e'], ['f', 'o', 'r'], ['i', 'm', 'p', 'o', 'r', 't'], ['r', 'e', 't', 'u', 'r', 'n'], ['v', 'a', 'r']]

/-- the 48 operators and punctuation tokens, in the order of the table above -/
def specOperators : List (List Char) :=
  [['+'], ['&'], ['+', '='], ['&', '='], ['&', '&'], ['=', '='], ['!', '='], ['('], [')'],
   ['-'], ['|'], ['-', '='], ['|', '='], ['|', '|'], ['<'], ['<', '='], ['['], [']'],
   ['*'], ['^'], ['*', '='], ['^', '='], ['<', '-'], ['>'], ['>', '='], ['{'], ['}'],
   ['/'], ['<', '<'], ['/', '='], ['<', '<', '='], ['+', '+'], ['='], [':', '='], [','], [';'],
   ['%'], ['>', '>'], ['%', '='], ['>', '>', '='], ['-', '-'], ['!'], ['.', '.', '.'], ['.'], [':'],
   ['&', '^'], ['&', '^', '='], ['~']]

/-- `s` is an operator or punctuation token of the spec -/
def IsSpecOp (s : List Char) : Prop := s ∈ specOperators
/-- `s` is a keyword of the spec -/
def IsSpecKeyword (s : List Char) : Prop := s ∈ specKeywords

/-- identifier syntax over given letter / digit classes (keywords are excluded separately) -/
def IsIdentShape (letter digit : Char → Bool) : List Char → Prop
  | [] => False
  | c :: cs => letter c = true ∧ ∀ d ∈ cs, letter d = true ∨ digit d = true

/-- longest match among operators: `s` is an operator that is a prefix of `cs`, and no longer
    operator is -/
instance (s : List Char) : Decidable (IsSpecOp s) := by unfold IsSpecOp; infer_instance
instance (s : List Char) : Decidable (IsSpecKeyword s) := by unfold IsSpecKeyword; infer_instance

def LongestOp (s cs : List Char) : Prop :=
  IsSpecOp s ∧ s <+: cs ∧ ∀ s', IsSpecOp s' → s' <+: cs → s'.length ≤ s.length

end Gosyn.Spec
