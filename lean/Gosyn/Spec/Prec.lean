import Gosyn.Gen.Tables
/-!
Go specification, "Operator precedence":

  Unary operators have the highest precedence. [...] There are five precedence levels for binary
  operators. Multiplication operators bind strongest, followed by addition operators, comparison
  operators, && (logical AND), and finally || (logical OR):

    Precedence    Operator
        5             *  /  %  <<  >>  &  &^
        4             +  -  |  ^
        3             ==  !=  <  <=  >  >=
        2             &&
        1             ||

  Binary operators of the same precedence associate from left to right.

Part of the trusted base.
-/
namespace Gosyn.Spec
open Gosyn.Gen

/-- the table above; 0 = not a binary operator -/
def prec : Operator → Nat
  | .Star | .Quo | .Rem | .Shl | .Shr | .And | .AndNot => 5
  | .Add | .Sub | .Or | .Xor => 4
  | .Equal | .NotEqual | .Less | .LessEqual | .Greater | .GreaterEqual => 3
  | .AndAnd => 2
  | .OrOr => 1
  | _ => 0

/-- binary expression trees over atoms `α` (unary and primary expressions are atoms) -/
inductive T (α : Type) where
  | atom (a : α)
  | bin (o : Operator) (l r : T α)
deriving Repr, DecidableEq

namespace T
variable {α : Type}

/-- every operator occurring in `t` has precedence ≥ p / > p -/
def allGe (p : Nat) : T α → Prop
  | atom _ => True
  | bin o l r => p ≤ prec o ∧ allGe p l ∧ allGe p r
def allGt (p : Nat) : T α → Prop
  | atom _ => True
  | bin o l r => p < prec o ∧ allGt p l ∧ allGt p r

/-- well grouped: in `x op y` everything inside `x` binds at least as tight as `op` (left
    associativity at equal precedence) and everything inside `y` binds strictly tighter -/
def WG : T α → Prop
  | atom _ => True
  | bin o l r => 0 < prec o ∧ allGe (prec o) l ∧ allGt (prec o) r ∧ WG l ∧ WG r

/-- leftmost operand -/
def first : T α → α
  | atom a => a
  | bin _ l _ => first l

/-- the remaining in-order sequence of (operator, operand) -/
def tail : T α → List (Operator × α)
  | atom _ => []
  | bin o l r => tail l ++ (o, first r) :: tail r

end T
end Gosyn.Spec
