import Gosyn.Model.Scanner
/-!
Go specification, "Semicolons":

  When the input is broken into tokens, a semicolon is automatically inserted into the token stream
  immediately after a line's final token if that token is
    * an identifier
    * an integer, floating-point, imaginary, rune, or string literal
    * one of the keywords break, continue, fallthrough, or return
    * one of the operators and punctuation ++, --, ), ], or }

and "Comments": a general comment containing no newlines acts like a space; any other comment acts
like a newline.

This file states that rule declaratively.  It is part of the trusted base.
-/
namespace Gosyn.Spec
open Gosyn.Gen Gosyn.Model

/-- the tokens after which a line end becomes a semicolon -/
def trigger : Token → Bool
  | .literal _ _ => true            -- identifiers and all five literal kinds
  | .keyword k => k = .Break || k = .Continue || k = .FallThrough || k = .Return
  | .operator o => o = .Inc || o = .Dec || o = .ParenRight || o = .BarackRight || o = .BraceRight
  | .comment _ => false

/-- the spec's white space other than newline: space, horizontal tab, carriage return -/
def SpecBlank (c : Char) : Prop := c = ' ' ∨ c = '\t' ∨ c = '\r'

/-- `body` is the text of a general comment after `/*` up to (excluding) its first `*/`:
    no `*/` closes earlier -/
def FirstClose (body : List Char) : Prop := ∀ pre post, body ++ ['*'] ≠ pre ++ ['*', '/'] ++ post

/-- a gap that "acts like a space": blanks (per `B`) and complete general comments without newline -/
inductive InlineGap (B : Char → Prop) : List Char → Prop
  | nil : InlineGap B []
  | blank {c cs} : B c → InlineGap B cs → InlineGap B (c :: cs)
  | comment {body cs} : FirstClose body → '\n' ∉ body → InlineGap B cs →
      InlineGap B ('/' :: '*' :: (body ++ '*' :: '/' :: cs))

/-- what ends a line: end of input, newline, a line comment, or a general comment that reaches a
    newline (or the end of input) before it closes -/
inductive Ender : List Char → Prop
  | eof : Ender []
  | newline {cs} : Ender ('\n' :: cs)
  | lineComment {cs} : Ender ('/' :: '/' :: cs)
  | generalNewline {body cs} : FirstClose body → '\n' ∉ body → Ender ('/' :: '*' :: (body ++ '\n' :: cs))
  | generalOpen {body} : '\n' ∉ body → (∀ pre post, body ≠ pre ++ ['*', '/'] ++ post) →
      Ender ('/' :: '*' :: body)

/-- the text after a token reaches the end of the line (in the spec's sense) -/
def LineEnd (B : Char → Prop) (cs : List Char) : Prop :=
  ∃ gap rest, cs = gap ++ rest ∧ InlineGap B gap ∧ Ender rest

/-- the implementation's blank class (Rust `char::is_whitespace` minus newline) -/
def ImplBlank (c : Char) : Prop := isWhite c = true ∧ c ≠ '\n'

end Gosyn.Spec
