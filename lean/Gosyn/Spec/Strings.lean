import Gosyn.Spec.Numbers
/-!
Go specification, "Rune literals" and "String literals".  Part of the trusted base.

```
rune_lit         = "'" ( unicode_value | byte_value ) "'" .
unicode_value    = unicode_char | little_u_value | big_u_value | escaped_char .
byte_value       = octal_byte_value | hex_byte_value .
octal_byte_value = `\` octal_digit octal_digit octal_digit .
hex_byte_value   = `\` "x" hex_digit hex_digit .
little_u_value   = `\` "u" hex_digit hex_digit hex_digit hex_digit .
big_u_value      = `\` "U" hex_digit × 8 .
escaped_char     = `\` ( "a" | "b" | "f" | "n" | "r" | "t" | "v" | `\` | "'" | `"` ) .

string_lit             = raw_string_lit | interpreted_string_lit .
raw_string_lit         = "`" { unicode_char | newline } "`" .
interpreted_string_lit = `"` { unicode_value | byte_value } `"` .
```
with the prose: `\'` is legal only in rune literals and `\"` only in string literals; an octal
escape must denote a value ≤ 255; `\u`/`\U` must denote a valid code point (≤ 0x10FFFF, no surrogate
half); a rune literal holds exactly one character, which is not a newline and not an unescaped single
quote; an interpreted string may contain any character except newline and unescaped double quote.
-/
namespace Gosyn.Spec

def hexVal (c : Char) : Nat :=
  if '0' ≤ c && c ≤ '9' then c.toNat - 48 else if 'a' ≤ c && c ≤ 'f' then c.toNat - 87 else c.toNat - 55
def numVal (radix : Nat) (ds : List Char) : Nat := ds.foldl (fun acc c => acc * radix + hexVal c) 0

def ValidCodePoint (v : Nat) : Prop := v ≤ 0x10FFFF ∧ ¬ (0xD800 ≤ v ∧ v ≤ 0xDFFF)

def simpleEscapes : List Char := ['a', 'b', 'f', 'n', 'r', 't', 'v', '\\']

/-- one element of a rune literal (`quote = '\''`) or of an interpreted string (`quote = '"'`) -/
inductive Element (quote : Char) : List Char → Prop
  | char {c} : c ≠ '\n' → c ≠ '\\' → c ≠ quote → Element quote [c]
  | escaped {c} : c ∈ simpleEscapes → Element quote ['\\', c]
  | quoteEsc : Element quote ['\\', quote]
  | octal {a b c} : isOct a = true → isOct b = true → isOct c = true → numVal 8 [a, b, c] ≤ 255 →
      Element quote ['\\', a, b, c]
  | hex {a b} : isHex a = true → isHex b = true → Element quote ['\\', 'x', a, b]
  | littleU {ds} : ds.length = 4 → (∀ d ∈ ds, isHex d = true) → ValidCodePoint (numVal 16 ds) →
      Element quote ('\\' :: 'u' :: ds)
  | bigU {ds} : ds.length = 8 → (∀ d ∈ ds, isHex d = true) → ValidCodePoint (numVal 16 ds) →
      Element quote ('\\' :: 'U' :: ds)

/-- concatenation of elements -/
inductive Elements (quote : Char) : List Char → Prop
  | nil : Elements quote []
  | cons {e rest} : Element quote e → Elements quote rest → Elements quote (e ++ rest)

def RuneLit (s : List Char) : Prop := ∃ e, s = '\'' :: (e ++ ['\'']) ∧ Element '\'' e
def InterpretedString (s : List Char) : Prop := ∃ b, s = '"' :: (b ++ ['"']) ∧ Elements '"' b
def RawString (s : List Char) : Prop := ∃ b, s = '`' :: (b ++ ['`']) ∧ '`' ∉ b
def StringLit (s : List Char) : Prop := InterpretedString s ∨ RawString s

end Gosyn.Spec
