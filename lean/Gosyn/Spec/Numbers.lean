import Gosyn.Gen.Tables
/-!
Go specification, "Integer literals", "Floating-point literals", "Imaginary literals", transcribed
production by production.  Part of the trusted base.

```
int_lit        = decimal_lit | binary_lit | octal_lit | hex_lit .
decimal_lit    = "0" | ( "1" … "9" ) [ [ "_" ] decimal_digits ] .
binary_lit     = "0" ( "b" | "B" ) [ "_" ] binary_digits .
octal_lit      = "0" [ "o" | "O" ] [ "_" ] octal_digits .
hex_lit        = "0" ( "x" | "X" ) [ "_" ] hex_digits .
decimal_digits = decimal_digit { [ "_" ] decimal_digit } .      (same for binary, octal, hex)

float_lit         = decimal_float_lit | hex_float_lit .
decimal_float_lit = decimal_digits "." [ decimal_digits ] [ decimal_exponent ] |
                    decimal_digits decimal_exponent |
                    "." decimal_digits [ decimal_exponent ] .
decimal_exponent  = ( "e" | "E" ) [ "+" | "-" ] decimal_digits .
hex_float_lit     = "0" ( "x" | "X" ) hex_mantissa hex_exponent .
hex_mantissa      = [ "_" ] hex_digits "." [ hex_digits ] |
                    [ "_" ] hex_digits |
                    "." hex_digits .
hex_exponent      = ( "p" | "P" ) [ "+" | "-" ] decimal_digits .

imaginary_lit = (decimal_digits | int_lit | float_lit) "i" .
```
-/
namespace Gosyn.Spec
open Gosyn.Gen

def isBin (c : Char) : Bool := c = '0' || c = '1'
def isOct (c : Char) : Bool := '0' ≤ c && c ≤ '7'
def isDec (c : Char) : Bool := '0' ≤ c && c ≤ '9'
def isHex (c : Char) : Bool := ('0' ≤ c && c ≤ '9') || ('a' ≤ c && c ≤ 'f') || ('A' ≤ c && c ≤ 'F')

/-- `V_digits = V_digit { [ "_" ] V_digit }` -/
inductive Digits (V : Char → Bool) : List Char → Prop
  | one {c} : V c = true → Digits V [c]
  | cons {c cs} : V c = true → Digits V cs → Digits V (c :: cs)
  | sep {c cs} : V c = true → Digits V cs → Digits V (c :: '_' :: cs)

/-- `[ "_" ]` -/
def OptU (u : List Char) : Prop := u = [] ∨ u = ['_']
/-- `[ X ]` -/
def Opt (P : List Char → Prop) (s : List Char) : Prop := s = [] ∨ P s
/-- `[ "+" | "-" ]` -/
def OptSign (s : List Char) : Prop := s = [] ∨ s = ['+'] ∨ s = ['-']

def DecimalLit (s : List Char) : Prop :=
  s = ['0'] ∨ ∃ c u ds, s = c :: (u ++ ds) ∧ '1' ≤ c ∧ c ≤ '9' ∧ ((u = [] ∧ ds = []) ∨ (OptU u ∧ Digits isDec ds))
def BinaryLit (s : List Char) : Prop :=
  ∃ b u ds, s = '0' :: b :: (u ++ ds) ∧ (b = 'b' ∨ b = 'B') ∧ OptU u ∧ Digits isBin ds
def OctalLit (s : List Char) : Prop :=
  ∃ o u ds, s = '0' :: (o ++ u ++ ds) ∧ (o = [] ∨ o = ['o'] ∨ o = ['O']) ∧ OptU u ∧ Digits isOct ds
def HexLit (s : List Char) : Prop :=
  ∃ x u ds, s = '0' :: x :: (u ++ ds) ∧ (x = 'x' ∨ x = 'X') ∧ OptU u ∧ Digits isHex ds
def IntLit (s : List Char) : Prop := DecimalLit s ∨ BinaryLit s ∨ OctalLit s ∨ HexLit s

def DecExp (s : List Char) : Prop :=
  ∃ e sg ds, s = e :: (sg ++ ds) ∧ (e = 'e' ∨ e = 'E') ∧ OptSign sg ∧ Digits isDec ds
def DecFloat (s : List Char) : Prop :=
  (∃ a b x, s = a ++ '.' :: (b ++ x) ∧ Digits isDec a ∧ Opt (Digits isDec) b ∧ Opt DecExp x) ∨
  (∃ a x, s = a ++ x ∧ Digits isDec a ∧ DecExp x) ∨
  (∃ b x, s = '.' :: (b ++ x) ∧ Digits isDec b ∧ Opt DecExp x)
def HexExp (s : List Char) : Prop :=
  ∃ p sg ds, s = p :: (sg ++ ds) ∧ (p = 'p' ∨ p = 'P') ∧ OptSign sg ∧ Digits isDec ds
def HexMantissa (m : List Char) : Prop :=
  (∃ u a b, m = u ++ a ++ '.' :: b ∧ OptU u ∧ Digits isHex a ∧ Opt (Digits isHex) b) ∨
  (∃ u a, m = u ++ a ∧ OptU u ∧ Digits isHex a) ∨
  (∃ b, m = '.' :: b ∧ Digits isHex b)
def HexFloat (s : List Char) : Prop :=
  ∃ x m e, s = '0' :: x :: (m ++ e) ∧ (x = 'x' ∨ x = 'X') ∧ HexMantissa m ∧ HexExp e
def FloatLit (s : List Char) : Prop := DecFloat s ∨ HexFloat s

def ImagLit (s : List Char) : Prop :=
  ∃ t, s = t ++ ['i'] ∧ (Digits isDec t ∨ IntLit t ∨ FloatLit t)

/-- `s` is a numeric literal of kind `k` -/
def NumLit (k : LitKind) (s : List Char) : Prop :=
  (k = .Integer ∧ IntLit s) ∨ (k = .Float ∧ FloatLit s) ∨ (k = .Imag ∧ ImagLit s)

end Gosyn.Spec
