import Gosyn.Props.C16
import Gosyn.Props.C11
/-!
C12 — doc comments.  Which comments document a declaration is decided in `Parser::next` by comparing
line numbers: a comment starts a new group when it begins more than one line below the end of the
previous one, the group is dropped when the next token begins more than one line below its end, and
a comment that begins on the line where the previous token ended trails that token.  Those
comparisons are only right if the line numbers are.  Proved here:

* `lineOf_sorted`: on a sorted line table `Scanner::line_of` is the TRUE 1-based line of an offset
  (number of line starts `≤` offset, plus one) — unlike `line_info`, which is one too small from
  line 2 on (C16, K2) and made lines 1 and 2 indistinguishable before the repair;
* `lineOf_mono`: it is monotone in the offset, so "later in the text" never means "on an earlier line";
* `lineOf_same_line`: two offsets get the same number exactly when no line start lies between them.
-/
namespace Gosyn.Props.C12
open Gosyn.Model Gosyn.Props.C16

theorem lineOf_sorted (lines : Array Nat) (pos : Nat) (hs : Sorted lines) :
    ∃ k, k ≤ lines.size ∧ (∀ j, j < k → lines[j]! ≤ pos) ∧ (∀ j, k ≤ j → j < lines.size → pos < lines[j]!) ∧
      lineOfTable lines pos = k + 1 := by
  unfold lineOfTable partitionPoint
  by_cases h0 : lines.size = 0
  · rw [if_pos h0]
    exact ⟨0, by omega, fun j hj => by omega, fun j _ hj => by omega, rfl⟩
  · rw [if_neg h0]
    have hinv := loop_inv lines pos hs lines.size 0 lines.size (Nat.le_refl _)
      ⟨by omega, by omega, fun i hi => by omega, fun i h1 h2 => by omega⟩
    have hb0 := loop_base lines pos lines.size 0 lines.size (.inl rfl)
    dsimp only
    generalize binarySearchLoop lines pos lines.size 0 lines.size = b at hinv hb0
    have hb : b < lines.size := by have := hinv.bound; omega
    by_cases hle : lines[b]! ≤ pos
    · rw [if_pos hle]
      refine ⟨b + 1, by omega, ?_, ?_, rfl⟩
      · intro j hj
        have := sorted_le hs (show j ≤ b by omega) hb
        omega
      · intro j h1 h2
        exact hinv.above j (by omega) h2
    · rw [if_neg hle]
      have hb' : b = 0 := by rcases hb0 with h | h <;> omega
      subst hb'
      refine ⟨0, by omega, fun j hj => by omega, ?_, rfl⟩
      intro j _ h2
      have := sorted_le hs (show 0 ≤ j by omega) h2
      omega

/-- later in the text is never on an earlier line -/
theorem lineOf_mono (lines : Array Nat) (p q : Nat) (hs : Sorted lines) (hpq : p ≤ q) :
    lineOfTable lines p ≤ lineOfTable lines q := by
  obtain ⟨k, hk, h1, h2, e⟩ := lineOf_sorted lines p hs
  obtain ⟨k', hk', h1', h2', e'⟩ := lineOf_sorted lines q hs
  rw [e, e']
  rcases Nat.lt_or_ge k' k with hlt | hge
  · have a := h1 k' hlt
    have b := h2' k' (Nat.le_refl _) (by omega)
    omega
  · omega

/-- two offsets are on the same line exactly when no line start lies in between -/
theorem lineOf_same_line (lines : Array Nat) (p q : Nat) (hs : Sorted lines) (hpq : p ≤ q) :
    lineOfTable lines p = lineOfTable lines q ↔ ∀ j, j < lines.size → ¬ (p < lines[j]! ∧ lines[j]! ≤ q) := by
  obtain ⟨k, hk, h1, h2, e⟩ := lineOf_sorted lines p hs
  obtain ⟨k', hk', h1', h2', e'⟩ := lineOf_sorted lines q hs
  rw [e, e']
  constructor
  · intro heq j hj ⟨ha, hb⟩
    have : k = k' := by omega
    subst this
    rcases Nat.lt_or_ge j k with hlt | hge
    · have := h1 j hlt; omega
    · have := h2' j hge hj; omega
  · intro hno
    rcases Nat.lt_trichotomy k k' with hlt | heq | hgt
    · exfalso
      have a := h2 k (Nat.le_refl _) (by omega)
      have b := h1' k hlt
      exact hno k (by omega) ⟨a, b⟩
    · omega
    · exfalso
      have a := h1 k' hgt
      have b := h2' k' (Nat.le_refl _) (by omega)
      omega

/-- the numbers of the unit test table: offsets 20 and 50 with line starts [10, 20, 30] are on lines 3 and 4 -/
example : lineOfTable #[10, 20, 30] 20 = 3 ∧ lineOfTable #[10, 20, 30] 50 = 4 ∧ lineOfTable #[10, 20, 30] 5 = 1 := by decide

end Gosyn.Props.C12
