import Gosyn.Props.C07b
import Gosyn.Props.C09d
import Gosyn.Props.C10c
/-!
C09 / C10 / C07, whole inputs — **every literal token of every scanned source is a literal of the spec**.
`Props/C09d.lean` and `Props/C10c.lean` speak about one call of `scan_token`; the tiling of
`Props/C07b.lean` records, for every token of the list the token loop returns, that it is what `scan_token`
answers on the text starting at its offset.  Hence, for every source text and every token of the result:

* `tiling_numbers`: a token of kind Integer / Float / Imag is an `int_lit` / `float_lit` / `imaginary_lit`
  of `Spec/Numbers.lean` of exactly that kind;
* `tiling_runes`, `tiling_strings`: a Char token is a `rune_lit`, a String token a `string_lit` of
  `Spec/Strings.lean`;
* `tiling_operators`: an operator token is the longest operator of the spec that starts at its offset
  (and the text there does not open a comment);
and all of them stand verbatim at their offset (`tiling_text_at`).  `scanTokens_literals` puts it together for
the loop's result.
-/
namespace Gosyn.Props.C09e
open Gosyn.Gen Gosyn.Model Gosyn.Spec
open Gosyn.Props.C07b Gosyn.Props.C07 Gosyn.Props.C09 Gosyn.Props.C10

/-- every pair of a tiling that is not an automatic semicolon is what `scan_token` returns on the text that
    starts at its offset -/
theorem tiling_scanned {p : Nat} {cs : List Char} {toks : List (Nat × Token)} (h : Tiling p cs toks) :
    ∀ q t, (q, t) ∈ toks → t = .operator .SemiColon ∨ ∃ rest, scanToken (t.text ++ rest) = .ok (t, t.text.length) := by
  induction h with
  | done => intro q t hm; cases hm
  | auto p cs toks _ ih =>
    intro q t hm
    rcases List.mem_cons.1 hm with he | hm
    · cases he; exact .inl rfl
    · exact ih q t hm
  | tok p ws t cs toks hw hne hs _ ih =>
    intro q t' hm
    rcases List.mem_cons.1 hm with he | hm
    · cases he; exact .inr ⟨cs, hs⟩
    · exact ih q t' hm

/-- which branch of `scan_token` a literal token comes from, read off its kind -/
theorem scanToken_literal_branch {cs : List Char} {k : LitKind} {t : List Char} {n : Nat}
    (h : scanToken cs = .ok (.literal k t, n)) :
    (k = .Ident) ∨ (k = .Char ∧ ∃ body, cs = '\'' :: body) ∨
    (k = .String ∧ ∃ c body, cs = c :: body ∧ (c = '"' ∨ c = '`')) ∨
    ((k = .Integer ∨ k = .Float ∨ k = .Imag) ∧ Dispatch cs) := by
  cases h3 : opFromChars (cs.take 3) with
  | some op => unfold scanToken at h; simp [h3] at h
  | none =>
    by_cases hc1 : cs.take 2 = ['/', '/']
    · unfold scanToken at h; simp [h3, hc1] at h
    · by_cases hc2 : cs.take 2 = ['/', '*']
      · unfold scanToken at h; simp [h3, hc2] at h
        split at h <;> simp at h
      · cases h2 : opFromChars (cs.take 2) with
        | some op => unfold scanToken at h; simp [h3, hc1, hc2, h2] at h
        | none =>
          rw [scanToken_tail h3 hc1 hc2 h2] at h
          cases cs with
          | nil => simp at h
          | cons c tl =>
            have hdS : ∀ x, tl.head? = some x → (isDecimalDigit c || (decide (c = '.') && isDecimalDigit x)) = true →
                Dispatch (c :: tl) := by
              intro x hx hd
              refine ⟨c, tl, rfl, ?_⟩
              simp only [Bool.or_eq_true, Bool.and_eq_true, decide_eq_true_eq] at hd
              rcases hd with hd | ⟨rfl, hd⟩
              · exact .inl hd
              · right
                refine ⟨rfl, ?_⟩
                cases tl with
                | nil => simp at hx
                | cons d tl' =>
                  simp only [List.head?_cons, Option.some.injEq] at hx
                  subst hx
                  exact ⟨d, tl', rfl, hd⟩
            have hdN : (isDecimalDigit c || (decide (c = '.') && false)) = true → Dispatch (c :: tl) := by
              intro hd
              refine ⟨c, tl, rfl, .inl ?_⟩
              simpa using hd
            simp only at h
            repeat' split at h
            all_goals (first | (cases h; done) | skip)
            all_goals (simp only [Except.ok.injEq, Prod.mk.injEq] at h)
            all_goals (obtain ⟨htok, _⟩ := h)
            all_goals (first | (cases htok; done) | skip)
            all_goals (simp only [Token.literal.injEq] at htok; obtain ⟨rfl, rfl⟩ := htok)
            all_goals first
              | exact .inl rfl
              | exact .inr (.inr (.inr ⟨scanLitNumber_kind ‹_›, hdS _ ‹_› ‹_›⟩))
              | exact .inr (.inr (.inr ⟨scanLitNumber_kind ‹_›, hdN ‹_›⟩))
              | exact .inr (.inl ⟨rfl, tl, by simp_all⟩)
              | exact .inr (.inr (.inl ⟨rfl, c, tl, rfl, by simp_all⟩))

/-- **C09, whole input**: every number token of a tiling is a numeric literal of the spec, of the kind the
    token carries -/
theorem tiling_numbers {p : Nat} {cs : List Char} {toks : List (Nat × Token)} (h : Tiling p cs toks)
    {q : Nat} {k : LitKind} {t : List Char} (hm : (q, .literal k t) ∈ toks)
    (hk : k = .Integer ∨ k = .Float ∨ k = .Imag) : NumLit k t := by
  rcases tiling_scanned h q _ hm with he | ⟨rest, hs⟩
  · cases he
  · simp only [Token.text] at hs
    have hd : Dispatch (t ++ rest) := by
      rcases scanToken_literal_branch hs with h1 | ⟨h1, _⟩ | ⟨h1, _⟩ | ⟨_, hd⟩
      · subst h1; simp at hk
      · subst h1; simp at hk
      · subst h1; simp at hk
      · exact hd
    obtain ⟨k', t', htok, hnum, _, _⟩ := scanToken_number_sound _ hd _ _ hs
    simp only [Token.literal.injEq] at htok
    obtain ⟨rfl, rfl⟩ := htok
    exact hnum

/-- **C10, whole input**: every rune token of a tiling is a `rune_lit` of the spec -/
theorem tiling_runes {p : Nat} {cs : List Char} {toks : List (Nat × Token)} (h : Tiling p cs toks)
    {q : Nat} {t : List Char} (hm : (q, .literal .Char t) ∈ toks) : RuneLit t := by
  rcases tiling_scanned h q _ hm with he | ⟨rest, hs⟩
  · cases he
  · simp only [Token.text] at hs
    rcases scanToken_literal_branch hs with h1 | ⟨_, body, hb⟩ | ⟨h1, _⟩ | ⟨h1, _⟩
    · cases h1
    · rw [hb] at hs
      exact ((scanToken_rune_iff body t).1 hs).1
    · cases h1
    · simp at h1

/-- **C10, whole input**: every string token of a tiling is a `string_lit` of the spec -/
theorem tiling_strings {p : Nat} {cs : List Char} {toks : List (Nat × Token)} (h : Tiling p cs toks)
    {q : Nat} {t : List Char} (hm : (q, .literal .String t) ∈ toks) : StringLit t := by
  rcases tiling_scanned h q _ hm with he | ⟨rest, hs⟩
  · cases he
  · simp only [Token.text] at hs
    rcases scanToken_literal_branch hs with h1 | ⟨h1, _⟩ | ⟨_, c, body, hb, hc⟩ | ⟨h1, _⟩
    · cases h1
    · cases h1
    · rw [hb] at hs
      exact ((scanToken_string_iff c body t hc).1 hs).1
    · simp at h1

/-- **C07, whole input**: every operator token of a tiling is the automatic semicolon or the longest
    operator of the spec at its place -/
theorem tiling_operators {p : Nat} {cs : List Char} {toks : List (Nat × Token)} (h : Tiling p cs toks)
    {q : Nat} {o : Operator} (hm : (q, .operator o) ∈ toks) :
    o = .SemiColon ∨ ∃ rest, LongestOp o.str (o.str ++ rest) := by
  rcases tiling_scanned h q _ hm with he | ⟨rest, hs⟩
  · simp only [Token.operator.injEq] at he; exact .inl he
  · exact .inr ⟨rest, op_longest_match_spec hs⟩

/-- **C07, whole input**: every keyword token is one of the spec's keywords standing as a maximal word, and
    every identifier token is a maximal letter / digit run that is no keyword -/
theorem tiling_words {p : Nat} {cs : List Char} {toks : List (Nat × Token)} (h : Tiling p cs toks)
    {q : Nat} {tok : Token} (hm : (q, tok) ∈ toks)
    (hk : (∃ k, tok = .keyword k) ∨ (∃ x, tok = .literal .Ident x)) :
    ∃ rest, scanIdentifier (tok.text ++ rest) = tok.text ∧
      ((∃ k, tok = .keyword k) ↔ IsSpecKeyword (scanIdentifier (tok.text ++ rest))) := by
  rcases tiling_scanned h q _ hm with he | ⟨rest, hs⟩
  · subst he; rcases hk with ⟨k, hk⟩ | ⟨x, hk⟩ <;> cases hk
  · refine ⟨rest, ?_, word_keyword_iff hs hk⟩
    rcases hk with ⟨k, rfl⟩ | ⟨x, rfl⟩
    · exact (keyword_is_maximal_run hs).1.symm
    · exact (ident_is_maximal_run hs).1.symm

/-- the loop's result: all of the above for every source text scanned without an error -/
theorem scanTokens_literals (src : Array Char) (profile : Profile)
    (h : (scanTokens { src := src, profile := profile }).err = none) :
    ∀ q tok, (q, tok) ∈ (scanTokens { src := src, profile := profile }).toks →
      (∀ k t, tok = .literal k t → (k = .Integer ∨ k = .Float ∨ k = .Imag) → NumLit k t) ∧
      (∀ t, tok = .literal .Char t → RuneLit t) ∧
      (∀ t, tok = .literal .String t → StringLit t) ∧
      (∀ o, tok = .operator o → o = .SemiColon ∨ ∃ rest, LongestOp o.str (o.str ++ rest)) := by
  intro q tok hm
  have ht := scanTokens_tiles src profile h
  refine ⟨?_, ?_, ?_, ?_⟩
  · intro k t he hk; subst he; exact tiling_numbers ht hm hk
  · intro t he; subst he; exact tiling_runes ht hm
  · intro t he; subst he; exact tiling_strings ht hm
  · intro o he; subst he; exact tiling_operators ht hm

end Gosyn.Props.C09e
