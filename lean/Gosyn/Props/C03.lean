import Gosyn.Model.AstFns
import Gosyn.Props.C04
/-!
C03 — the tree is the spec's derivation.  Proved here, for the pure tree-rewriting helpers of
parser.rs that decide *which* derivation is built where the grammar is ambiguous:

* `extract` (type-parameter list vs array length, parser.rs "extra split x to name and expression"):
  it never reaches its `panic!("extract lost")`; when it answers with a name, that name is the
  leftmost identifier of the expression that was read; forcing (a following comma) can only turn an
  "expression" verdict into a "type parameter" verdict, never change the name.
* `reset_chan_arrow` ("`<-` associates with the leftmost `chan` possible"): the rewrite of
  `<- chan… T` never changes the token sequence that was read, it only re-associates it.
The operator structure of expressions is C04 (`climb_flat`, `prec_table_spec`), imported here.
-/
namespace Gosyn.Props.C03
open Gosyn.Gen Gosyn.Model Gosyn.Ast

/-! ### extract -/

/-- `extract` never answers "nothing at all" -/
def Good : Option (Option Ident × Option Expression) → Prop
  | some (n, t) => n.isSome ∨ t.isSome
  | none => False

theorem extract_good (e : Expression) (force : Bool) : Good (extract e force) := by
  fun_induction extract e force <;> simp_all [Good]
  -- the `_ => panic!` arm: the recursive answer would have to be (none, none) or nothing
  rename_i pos x y force h1 h2 h3 ih
  cases hx : extract x (force || isTypeElem y) with
  | none => rw [hx] at ih; exact ih
  | some p =>
    obtain ⟨n, t⟩ := p
    rw [hx] at ih
    cases n with
    | some name =>
      cases t with
      | some lhs => exact h1 name lhs hx
      | none => exact h2 name hx
    | none =>
      cases t with
      | some e' => exact h3 e' hx
      | none => simp at ih

/-- **`panic!("extract lost")` is unreachable**: `extract` always answers -/
theorem extract_never_lost (e : Expression) (force : Bool) : (extract e force).isSome := by
  have := extract_good e force
  cases h : extract e force with
  | none => rw [h] at this; exact absurd this (by simp [Good])
  | some _ => rfl

/-- the first identifier of an expression of the shapes `extract` takes apart -/
def leftmost : Expression → Option Ident
  | .Ident id => some id
  | .Operation (.mk _ _ x (some _)) => leftmost x
  | .Call (.mk _ _ func _) => leftmost func
  | _ => none

/-- when `extract` answers with a parameter name, it is the leftmost identifier that was read -/
theorem extract_name_leftmost (e : Expression) (force : Bool) (id : Ident) (t : Option Expression)
    (h : extract e force = some (some id, t)) : leftmost e = some id := by
  revert id t
  fun_induction extract e force <;> intro id t h
  all_goals (simp_all [leftmost])

/-- a following comma (`force`) never changes the name, it can only turn "expression" into "type parameter" -/
theorem extract_force_mono (e : Expression) (force : Bool) (id : Ident) (t : Option Expression)
    (h : extract e force = some (some id, t)) : extract e true = some (some id, t) := by
  revert id t
  fun_induction extract e force <;> intro id t h
  all_goals (simp_all [extract])

/-! ### reset_chan_arrow -/

/-- the tokens a channel type was read from (the element type is opaque) -/
def chanToks : ChannelType → List String
  | .mk _ none typ => "chan" :: (match typ with | .TypeChannel ct => chanToks ct | _ => ["T"])
  | .mk _ (some .Send) typ => "chan" :: "<-" :: (match typ with | .TypeChannel ct => chanToks ct | _ => ["T"])
  | .mk _ (some .Recv) typ => "<-" :: "chan" :: (match typ with | .TypeChannel ct => chanToks ct | _ => ["T"])

theorem bind_fst {α β} (m : P α) (f : α → P β) (s : PState) :
    ((m >>= f) s).1 = match m s with
      | (.ok a, s') => (f a s').1
      | (.error e, _) => .error e := by
  show (bind m f s).1 = _
  simp only [bind]
  cases h : m s with
  | mk r s' => cases r <;> simp

/-- a computation that cannot answer ok -/
def NeverOk {α} (m : P α) : Prop := ∀ s a, (m s).1 ≠ .ok a

theorem NeverOk.throw {α} (e : PErr) : NeverOk (P.throw e : P α) := by
  intro s a; simp [P.throw]

theorem NeverOk.bind {α β} (m : P α) (f : α → P β) (h : ∀ a, NeverOk (f a)) : NeverOk (m >>= f) := by
  intro s b
  rw [bind_fst]
  split
  · exact h _ _ _
  · simp

theorem elseErrorAt_neverOk {α} (pos : Nat) (reason site : String) : NeverOk (elseErrorAt (α := α) pos reason site) := by
  unfold elseErrorAt
  exact NeverOk.bind _ _ (fun _ => NeverOk.throw _)

theorem unexpected_neverOk {α} (ex : List TokenKind) (act : Option (Nat × Token)) (site : String) :
    NeverOk (unexpected (α := α) ex act site) := by
  unfold unexpected
  cases act with
  | none => exact NeverOk.bind _ _ (fun _ => NeverOk.bind _ _ (fun _ => NeverOk.throw _))
  | some p => exact NeverOk.bind _ _ (fun _ => NeverOk.bind _ _ (fun _ => NeverOk.throw _))

/-- **`<-` associates with the leftmost `chan` possible, and nothing else changes**: whenever the
    rewrite of a unary `<-` applied to a channel type succeeds, the result reads as exactly the same
    token sequence, `<-` followed by the tokens of the original type -/
theorem resetChanArrow_tokens (pos : Nat) (ct ct' : ChannelType) (s : PState)
    (h : (resetChanArrow pos ct s).1 = .ok ct') : chanToks ct' = "<-" :: chanToks ct := by
  fun_induction resetChanArrow pos ct generalizing ct' s
  · exact absurd h (unexpected_neverOk _ _ _ _ _)
  · have h' : ChannelType.mk (_, _) (some ChanMode.Recv) _ = ct' := Except.ok.inj h
    subst h'
    conv => lhs; unfold chanToks
    conv => rhs; unfold chanToks
  · rename_i pos tpos ct ih
    rw [bind_fst] at h
    split at h
    · rename_i a s' hm
      have h' : ChannelType.mk (_, _) (some ChanMode.Recv) (Expression.TypeChannel a) = ct' := Except.ok.inj h
      subst h'
      have := ih a s (by rw [hm])
      conv => lhs; unfold chanToks
      conv => rhs; unfold chanToks
      simp [this]
    · cases h
  · exact absurd h (elseErrorAt_neverOk _ _ _ _ _)

end Gosyn.Props.C03
