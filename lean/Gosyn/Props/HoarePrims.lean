import Gosyn.Props.Hoare
/-! Specifications of the non-recursive helpers of parser.rs (`Model/Monad.lean`, `Model/AstFns.lean`). -/
namespace Gosyn.Props.Hoare
open Gosyn.Gen Gosyn.Model Gosyn.Ast

variable {src : Array Char}

abbrev Tr : PState → Prop := fun _ => True

macro_rules | `(tactic| hspecOld) => `(tactic| exact T.get)


theorem inv_level {s : PState} (hi : Inv src s) (l : Int) : Inv src { s with exprLevel := l } :=
  hi.congr rfl rfl rfl rfl (fun _ h => h)

/-- what a comment token returned by the scanner satisfies w.r.t. the comments already listed -/
@[reducible] def CommentFacts (a : Option (Nat × Token)) (s : PState) : Prop :=
  ∀ p t, a = some (p, .comment t) → (∀ c ∈ s.comments.toList, c.pos < p) ∧ p < s.scan.pos ∧
    RealComment s.scan.src ⟨p, String.ofList t⟩

theorem incExprLevel_spec : T src Tr incExprLevel (fun _ _ => True) := by
  unfold incExprLevel
  hoare

theorem decExprLevel_spec : T src Tr decExprLevel (fun _ _ => True) := by
  unfold decExprLevel
  hoare

theorem current_spec {R : PState → Prop} : T src R current (fun a s => a = s.current ∧ R s) :=
  T.read (fun s => s.current)

/-- the current token is only ever set to a token of the source (or to nothing) -/
theorem setCurrentReal_spec {R : PState → Prop} (c : Option (Nat × Token)) (hc : TokReal src c) :
    T src R (setCurrent c) (fun _ _ => True) := by
  intro s hi _
  exact ⟨hi.setCurrent c hc, trivial⟩

theorem setCurrent_spec : T src Tr (setCurrent none) (fun _ _ => True) :=
  setCurrentReal_spec none TokReal.none

/-- the token taken from the parser is a token of the source -/
theorem takeCurrent_spec : T src Tr takeCurrent (fun c _ => TokReal src c) := by
  intro s hi _
  exact ⟨hi.setCurrent none TokReal.none, hi.cur⟩

theorem errorAt_scan_loc (s2 : Scanner) (pos : Nat) (reason : String) (e : ScanErr)
    (h : s2.errorAt pos reason = .scan e) : s2.lineInfo pos = .ok e.loc := by
  unfold Scanner.errorAt at h
  cases hl : s2.lineInfo pos with
  | ok loc =>
    rw [hl] at h
    simp only [SErr.scan.injEq] at h
    rw [← h]
  | error x =>
    obtain ⟨loc, hl'⟩ := Gosyn.Props.C16.lineInfo_total s2.profile s2.lines pos
    have : s2.lineInfo pos = .ok loc := hl'
    rw [this] at hl; cases hl

/-- a scanner error carries the location `line_info` computes on the table the scanner is left with -/
theorem nextToken_error_loc (sc : Scanner) (e : ScanErr) (h : sc.nextToken.1 = .error (.scan e)) :
    ∃ pos, sc.nextToken.2.lineInfo pos = .ok e.loc := by
  unfold Scanner.nextToken at h ⊢
  split
  · rename_i hc; rw [if_pos hc] at h; cases h
  · rename_i hc
    rw [if_neg hc] at h
    simp only at h ⊢
    split
    · rename_i h2; rw [if_pos h2] at h; cases h
    · rename_i h2
      rw [if_neg h2] at h
      split
      · rename_i f hf
        rw [hf] at h
        simp only at h ⊢
        split at h
        · cases h
        · simp only [Except.error.injEq] at h
          exact ⟨_, errorAt_scan_loc _ _ _ _ h⟩
      · rename_i tok n hs
        rw [hs] at h
        cases h

/-- `scan_next` from any state over `src`: afterwards the invariant holds -/
theorem scanNext_establishes (s : PState) (hs : Inv0 src s) :
    match scanNext s with
    | (.ok a, s') => Inv src s' ∧ CommentFacts a s' ∧ TokReal src a
    | (.error e, s') => ErrOK e s' ∧ Inv0 src s' := by
  have e : scanNext s = liftS s.scan.nextToken.1
      { s with prevPos := s.scan.preback, scan := s.scan.nextToken.2, steps := s.steps + 1 } := rfl
  rw [e]
  have hsrc : s.scan.nextToken.2.src = src := by rw [nextToken_src, hs.src_eq]
  have hmono := nextToken_pos_mono s.scan
  have h0 : Inv0 src { s with prevPos := s.scan.preback, scan := s.scan.nextToken.2, steps := s.steps + 1 } :=
    ⟨hsrc, hs.sorted, fun c hc => Nat.lt_of_lt_of_le (hs.below c hc) hmono, hs.real, hs.cur, hs.lead⟩
  cases hr : s.scan.nextToken.1 with
  | ok v =>
    refine ⟨⟨h0, ?_⟩, ?_, ?_⟩
    rotate_left 2
    · intro p t hv
      subst hv
      exact ⟨s.scan, s.scan.nextToken.2, hs.src_eq, by rw [← hr]⟩
    · intro sc h1 h2 h3
      exact nextToken_ok_congr s.scan sc (by rw [hs.src_eq, h1]) h2.symm h3.symm ⟨v, hr⟩
    · intro p t hv
      subst hv
      have hnt : s.scan.nextToken = (.ok (some (p, .comment t)), s.scan.nextToken.2) := by
        rw [← hr]
      obtain ⟨h1, h2⟩ := nextToken_comment s.scan _ p t hnt
      exact ⟨fun c hc => Nat.lt_of_lt_of_le (hs.below c hc) h1, h2,
        ⟨s.scan, s.scan.nextToken.2, t, by rw [hsrc, hs.src_eq], hnt, rfl⟩⟩
  | error er =>
    cases er with
    | scan e' =>
      refine ⟨?_, h0⟩
      exact nextToken_error_loc s.scan e' hr
    | panic site => exact absurd hr (Gosyn.Props.C01.nextToken_no_panic s.scan site)

theorem scanNext_spec : T src Tr scanNext (fun a s => CommentFacts a s ∧ TokReal src a) := by
  intro s hi _
  have := scanNext_establishes (src := src) s hi.toInv0
  cases hsn : scanNext s with
  | mk r s1 =>
    rw [hsn] at this
    cases r with
    | error e => exact this
    | ok a => exact this

theorem trueLine_spec {R : PState → Prop} (pos : Nat) : T src R (trueLine pos) (fun _ s => R s) :=
  (T.read (fun s => lineOfTable s.scan.lines pos)).post (fun _ _ h => h.2)

/-- pushing a freshly scanned comment keeps the list strictly increasing and before the scanner -/
theorem push_comment_inv {s : PState} (hi : Inv src s) (c : Comment)
    (h1 : ∀ x ∈ s.comments.toList, x.pos < c.pos) (h2 : c.pos < s.scan.pos) (h3 : RealComment src c) :
    Inv src { s with comments := s.comments.push c } := by
  refine ⟨⟨hi.src_eq, ?_, ?_, ?_, hi.cur, hi.lead⟩, hi.mark⟩
  · simp only [Array.toList_push, List.map_append, List.map_cons, List.map_nil]
    rw [List.pairwise_append]
    refine ⟨hi.sorted, by simp, ?_⟩
    intro a ha b hb
    simp only [List.mem_singleton] at hb
    subst hb
    obtain ⟨x, hx, rfl⟩ := List.mem_map.1 ha
    exact h1 x hx
  · intro x hx
    simp only [Array.toList_push, List.mem_append, List.mem_singleton] at hx
    rcases hx with hx | rfl
    · exact hi.below x hx
    · exact h2
  · intro x hx
    simp only [Array.toList_push, List.mem_append, List.mem_singleton] at hx
    rcases hx with hx | rfl
    · exact hi.real x hx
    · exact h3

theorem T.push_comment {R : PState → Prop} (c : Comment)
    (h : ∀ s, R s → (∀ x ∈ s.comments.toList, x.pos < c.pos) ∧ c.pos < s.scan.pos ∧ RealComment s.scan.src c) :
    T src R (P.modify fun s => { s with comments := s.comments.push c }) (fun _ _ => True) := by
  intro s hi hr
  obtain ⟨h1, h2, h3⟩ := h s hr
  exact ⟨push_comment_inv hi c h1 h2 (hi.src_eq ▸ h3), trivial⟩

theorem commentLoop_spec : ∀ (fuel line : Nat) (trailing : Option Nat) (posTok : Option (Nat × Token)),
    TokReal src posTok →
    T src (CommentFacts posTok) (commentLoop fuel line trailing posTok) (fun r _ => TokReal src r) := by
  intro fuel
  induction fuel with
  | zero => intro line trailing posTok _; unfold commentLoop; exact T.throw _ (fun _ _ => trivial)
  | succ n ih =>
    intro line trailing posTok hreal
    unfold commentLoop
    split
    · rename_i pos text
      refine T.extractI (p := RealComment src ⟨pos, String.ofList text⟩)
        (fun s hi hr => hi.src_eq ▸ (hr pos text rfl).2.2) (fun hrc => ?_)
      refine T.bind (trueLine_spec pos) (fun startLine => ?_)
      dsimp only
      refine T.ite (fun _ => T.bind (T.clearLeadF (fun _ h => h)) (fun _ => ?_)) (fun _ => ?_)
      all_goals (
        refine T.bind scanPosition_spec (fun ended => ?_)
        refine T.bind (trueLine_spec ended) (fun line' => ?_)
        refine T.bind (Q1 := fun _ _ => True)
          (T.pre (T.push_comment _ (fun s h => h)) (fun s hs => (hs.2 pos text rfl))) (fun _ => ?_)
        hoare
        all_goals first
          | exact T.extract (p := TokReal src _) (fun s h => h.2) (fun hp => (ih _ _ _ hp).pre (fun s h => h.1))
          | skip)
    · exact T.pure _ (fun _ _ => hreal)

open P in
/-- the part of `next` after the first scan -/
def nextTail (trailing : Option Nat) (posTok : Option (Nat × Token)) : P Unit := do
  let fuel := (← get).scan.src.size + 2
  let posTok ← commentLoop fuel 0 trailing posTok
  let s ← get
  if let some comment := s.leadComments.back? then
    let commentEndPos := comment.pos + comment.text.length
    let commentEndLine ← trueLine commentEndPos
    if let some (pos, _) := posTok then
      let tokenStartLine ← trueLine pos
      if tokenStartLine > commentEndLine + 1 then modify fun s => { s with leadComments := #[] }
  setCurrent posTok

open P in
theorem next_eq : next = (do
  let trailing ← if (← get).started then do pure (some (← trueLine (← scanPosition))) else pure none
  modify fun s => { s with started := true }
  let posTok ← scanNext
  nextTail trailing posTok) := rfl

theorem nextTail_spec (tr : Option Nat) (pt : Option (Nat × Token)) (hreal : TokReal src pt) :
    T src (CommentFacts pt) (nextTail tr pt) (fun _ _ => True) := by
  unfold nextTail
  refine T.bind T.get (fun st => ?_)
  refine T.bindP ((commentLoop_spec _ _ _ _ hreal).pre (fun s h => h.2)) ⟨fun posTok hpt => ?_⟩
  hoare
  all_goals first | exact setCurrentReal_spec _ hpt | skip

theorem next_spec : T src Tr next (fun _ _ => True) := by
  rw [next_eq]
  hoare
  all_goals first
    | exact T.extract (p := TokReal src _) (fun s h => h.2) (fun hp => (nextTail_spec _ _ hp).pre (fun s h => h.1))
    | skip

theorem preback_spec {R : PState → Prop} : T src R preback (fun a _ => GoodMark src a) := by
  intro s hi _
  exact ⟨hi, hi.mark⟩

theorem currentIs_spec {R : PState → Prop} (k : TokenKind) : T src R (currentIs k) (fun _ s => R s) := by
  unfold currentIs
  refine T.bind current_spec (fun c => ?_)
  split <;> exact T.pure _ (fun _ h => h.2)

theorem currentNot_spec {R : PState → Prop} (k : TokenKind) : T src R (currentNot k) (fun _ s => R s) := by
  unfold currentNot
  exact T.bind (currentIs_spec k) (fun _ => T.pure _ (fun _ h => h))

theorem currentKind_spec {R : PState → Prop} :
    T src R currentKind (fun k s => (∃ p t, s.current = some (p, t) ∧ t.kind = k) ∧ R s) := by
  unfold currentKind
  refine T.bind current_spec (fun c => ?_)
  split
  · rename_i p t
    exact T.pure _ (fun s h => ⟨⟨p, t, h.1.symm, rfl⟩, h.2⟩)
  · exact elseError_spec _ _

theorem currentPos_spec {R : PState → Prop} : T src R currentPos (fun _ s => R s) := by
  unfold currentPos
  refine T.bind current_spec (fun c => ?_)
  split
  · exact T.pure _ (fun _ h => h.2)
  · exact (scanPosition_spec).post (fun _ _ h => h.2.2)

/-- `goback` to a good mark, from a state of which the mark is not known to be good -/
theorem goback_establishes (prev : Nat × Bool) (hg : GoodMark src prev) (s : PState) (hs : Inv0 src s) :
    match goback prev s with
    | (.ok _, s') => Inv src s'
    | (.error e, s') => ErrOK e s' ∧ Inv0 src s' := by
  have hsrc : (s.scan.goback prev).src = src := hs.src_eq
  obtain ⟨v, hv⟩ := hg (s.scan.goback prev) hsrc rfl rfl
  let s1 : PState := { s with
    comments := s.comments.filter (·.pos < prev.1),
    leadComments := s.leadComments.filter (·.pos < prev.1),
    scan := s.scan.goback prev }
  have h01 : Inv0 src s1 := by
    refine ⟨hsrc, ?_, ?_, ?_, hs.cur, ?_⟩
    rotate_left 3
    · intro c hc
      have hc' : c ∈ (s.leadComments.filter (·.pos < prev.1)).toList := hc
      rw [Array.toList_filter, List.mem_filter] at hc'
      exact hs.lead c hc'.1
    rotate_left 2
    · intro c hc
      have hc' : c ∈ (s.comments.filter (·.pos < prev.1)).toList := hc
      rw [Array.toList_filter, List.mem_filter] at hc'
      exact hs.real c hc'.1
    · show ((s.comments.filter (·.pos < prev.1)).toList.map (·.pos)).Pairwise (· < ·)
      rw [Array.toList_filter]
      exact (hs.sorted.sublist ((List.filter_sublist).map _))
    · intro c hc
      have hc' : c ∈ (s.comments.filter (·.pos < prev.1)).toList := hc
      rw [Array.toList_filter, List.mem_filter] at hc'
      have : c.pos < prev.1 := by simpa using hc'.2
      exact this
  have e : goback prev s = (match scanNext s1 with
      | (.ok c, s2) => setCurrent c s2
      | (.error _, s2) => (.error (.panic "goback: unwrap on Err"), s2)) := by
    show (Bind.bind (P.modify _) fun _ => Bind.bind (P.attempt scanNext) _) s = _
    simp only [Bind.bind, P.modify, P.attempt]
    cases scanNext s1 with
    | mk r s2 => cases r <;> rfl
  rw [e]
  have e2 : scanNext s1 = liftS s1.scan.nextToken.1
      { s1 with prevPos := s1.scan.preback, scan := s1.scan.nextToken.2, steps := s1.steps + 1 } := rfl
  have hv' : s1.scan.nextToken.1 = .ok v := hv
  have hest := scanNext_establishes (src := src) s1 h01
  rw [e2, hv'] at hest ⊢
  simp only [liftS] at hest ⊢
  have hp : ∀ st : PState, (Pure.pure v : P (Option (Nat × Token))) st = (.ok v, st) := fun _ => rfl
  rw [hp] at hest ⊢
  simp only at hest ⊢
  exact hest.1.setCurrent v hest.2.2

/-- after a caught error: going back to a good mark re-establishes the invariant -/
theorem T0.goback_bind {β} {R : PState → Prop} (prev : Nat × Bool) (hg : GoodMark src prev) {k : Unit → P β}
    {Q : β → PState → Prop} (hk : T src Tr (k ()) Q) : T0 src R (goback prev >>= k) Q := by
  intro s hs _
  have := goback_establishes prev hg s hs
  show match (Bind.bind (goback prev) k) s with
    | (.ok a, s') => Inv src s' ∧ Q a s'
    | (.error e, s') => ErrOK e s' ∧ Inv0 src s'
  simp only [Bind.bind]
  cases hgb : goback prev s with
  | mk r s1 =>
    rw [hgb] at this
    cases r with
    | error e => exact this
    | ok a => exact hk s1 this trivial

/-- after a caught error: a step that does not look at the mark (level bookkeeping), then an error -/
theorem T0.modify_throw {β} {R : PState → Prop} (f : PState → PState)
    (hf : ∀ s, (f s).scan = s.scan ∧ (f s).comments = s.comments ∧ (f s).current = s.current ∧
      (f s).leadComments = s.leadComments)
    (e : PErr) (he : ∀ s, R s → ErrOK e s)
    {Q : β → PState → Prop} : T0 src R (P.modify f >>= fun _ => (P.throw e : P β)) Q := by
  intro s hs hr
  show match (Bind.bind (P.modify f) fun _ => (P.throw e : P β)) s with
    | (.ok a, s') => Inv src s' ∧ Q a s'
    | (.error e, s') => ErrOK e s' ∧ Inv0 src s'
  simp only [Bind.bind, P.modify, P.throw]
  exact ⟨(he s hr).congr (hf s).1, hs.congr (hf s).1 (hf s).2.1 (hf s).2.2.1 (by rw [(hf s).2.2.2]; exact fun _ h => h)⟩

macro_rules | `(tactic| hstep0) => `(tactic| (with_reducible refine T0.goback_bind _ (by assumption) ?_))
macro_rules | `(tactic| hstep0) => `(tactic| (unfold decExprLevel; refine T0.modify_throw _ ?_ _ ?_; (intro _; exact ⟨rfl, rfl, rfl, rfl⟩); (intros; simp_all)))

theorem goback_spec (prev : Nat × Bool) (hg : GoodMark src prev) : T src Tr (goback prev) (fun _ _ => True) := by
  intro s hi _
  have := goback_establishes prev hg s hi.toInv0
  cases hgb : goback prev s with
  | mk r s1 =>
    rw [hgb] at this
    cases r with
    | error e => exact this
    | ok a => exact ⟨this, trivial⟩
macro_rules | `(tactic| hspecOld) => `(tactic| exact T.anyQ (goback_spec _ (by assumption)))

/-- an offset at which the scanner, started in some state over `src`, produces a token of kind `k` -/
def RealPos (src : Array Char) (k : TokenKind) (pos : Nat) : Prop :=
  ∃ tok, tokIs tok k = true ∧ RealTok src pos tok

/-- **positions come from tokens**: the offset `expect(k)` returns (the source of the keyword, operator and
    bracket positions in the tree) is the offset of a source token of kind `k` -/
theorem expect_spec (k : TokenKind) (site : String) : T src Tr (expect k site) (fun pos _ => RealPos src k pos) := by
  unfold expect
  refine T.bindP takeCurrent_spec ⟨fun cur hcur => ?_⟩
  split
  · rename_i pos tok
    split
    · rename_i hk
      exact T.bind (T.anyQ next_spec) (fun _ => T.pure _ (fun _ _ => ⟨tok, hk, hcur _ _ rfl⟩))
    · hoare
  · hoare

theorem skipped_spec (k : TokenKind) : T src Tr (skipped k) (fun _ _ => True) := by
  unfold skipped
  hoare

/-- **documentation is made of comments of the source**: what `drain_comments` hands to a declaration, spec or
    field is a list of comment tokens of the source (at their offsets, with their text) -/
theorem drainComments_spec : T src Tr drainComments (fun cs _ => ∀ c ∈ cs, RealComment src c) := by
  unfold drainComments
  refine T.bind T.getInv (fun st => ?_)
  refine T.extract (p := Inv src st) (fun s h => by rw [h.1]; exact h.2.1) (fun hinv => ?_)
  refine T.bind (Q1 := fun _ _ => True) ?_ (fun _ => T.pure _ (fun _ _ => hinv.lead))
  refine T.set _ ?_
  intro s hi hr
  obtain ⟨rfl, _⟩ := hr
  exact ⟨hi.congr rfl rfl rfl rfl (fun _ h => (List.not_mem_nil h).elim), trivial⟩

theorem lineEndComment_spec : T src Tr lineEndComment (fun _ _ => True) := by
  unfold lineEndComment
  refine T.bind currentPos_spec (fun pos => ?_)
  refine T.bind (trueLine_spec pos) (fun line0 => ?_)
  refine T.bindP preback_spec ⟨fun start hstart => ?_⟩
  refine T.bind (currentIs_spec _) (fun b => ?_)
  dsimp only
  refine T.ite (fun _ => T.pure _ (fun _ _ => trivial)) (fun _ => ?_)
  refine T.bind (T.anyQ scanNext_spec) (fun tok => ?_)
  split
  · hoare
  · rename_i p text
    refine T.bind (T.clearLeadF (fun _ h => h)) (fun _ => ?_)
    refine T.bind (trueLine_spec p) (fun line1 => ?_)
    refine T.ite (fun _ => ?_) (fun _ => ?_)
    · refine T.bind (Q1 := fun _ _ => True)
        (T.pre (T.push_comment _ (fun s h => h)) (fun s hs => (hs.1 p text rfl))) (fun _ => ?_)
      hoare
    · hoare
  · hoare

/-- an identifier node whose name and offset are those of an identifier token of the source -/
def RealIdent (src : Array Char) (id : Ident) : Prop :=
  ∃ name, id.name = String.ofList name ∧ RealTok src id.pos (.literal .Ident name)

/-- a literal node whose kind, text and offset are those of a literal token of the source -/
def RealLit (src : Array Char) (l : BasicLit) : Prop :=
  ∃ value, l.value = String.ofList value ∧ RealTok src l.pos (.literal l.kind value)

def RealStr (src : Array Char) (l : StringLit) : Prop :=
  ∃ value, l.value = String.ofList value ∧ RealTok src l.pos (.literal .String value)

/-- **no identifier is invented**: every `Ident` the parser creates carries the text and the offset of an
    identifier token that the scanner produces from the source -/
theorem identifier_spec (site : String) : T src Tr (identifier site) (fun id _ => RealIdent src id) := by
  unfold identifier
  refine T.bindP takeCurrent_spec ⟨fun cur hcur => ?_⟩
  split
  · rename_i pos name
    exact T.bind (T.anyQ next_spec) (fun _ => T.pure _ (fun _ _ => ⟨name, rfl, hcur _ _ rfl⟩))
  · hoare

theorem loopFuel_spec {R : PState → Prop} : T src R loopFuel (fun _ s => R s) := by
  unfold loopFuel
  exact T.bind T.get (fun _ => T.pure _ (fun _ h => h.2))

theorem identifierListLoop_spec : ∀ (fuel : Nat) (acc : List Ident), acc ≠ [] →
    T src Tr (identifierListLoop fuel acc) (fun l _ => l ≠ []) := by
  intro fuel
  induction fuel with
  | zero => intro acc _; unfold identifierListLoop; exact T.throw _ (fun _ _ => trivial)
  | succ n ih =>
    intro acc hacc
    unfold identifierListLoop
    hoare
    · exact T.anyQ (ih _ (by simp))

theorem identifierListLoop_real_spec : ∀ (fuel : Nat) (acc : List Ident), acc ≠ [] → (∀ id ∈ acc, RealIdent src id) →
    T src Tr (identifierListLoop fuel acc) (fun l _ => l ≠ [] ∧ ∀ id ∈ l, RealIdent src id) := by
  intro fuel
  induction fuel with
  | zero => intro acc _ _; unfold identifierListLoop; exact T.throw _ (fun _ _ => trivial)
  | succ n ih =>
    intro acc hacc hreal
    unfold identifierListLoop
    refine T.bind (skipped_spec _) (fun b => ?_)
    refine T.ite (fun _ => ?_) (fun _ => T.pure _ (fun _ _ => ⟨hacc, hreal⟩))
    refine T.bindP (T.anyQ (identifier_spec _)) ⟨fun id hid => ?_⟩
    refine T.anyQ (ih _ (by simp) ?_)
    intro x hx
    simp only [List.mem_append, List.mem_singleton] at hx
    rcases hx with hx | rfl
    · exact hreal x hx
    · exact hid

theorem identifierList_spec (first : Option Ident) :
    T src Tr (identifierList first) (fun l _ => l ≠ []) := by
  unfold identifierList
  hoare
  all_goals first | exact T.anyQ (identifierListLoop_spec _ _ (by simp)) | skip

/-- a fresh identifier list (names of a var / const spec, of a field, of a parameter group): every name is an
    identifier token of the source -/
theorem identifierList_none_spec :
    T src Tr (identifierList none) (fun l _ => l ≠ [] ∧ ∀ id ∈ l, RealIdent src id) := by
  unfold identifierList
  dsimp only
  refine T.bindP (T.anyQ (identifier_spec _)) ⟨fun first hfirst => ?_⟩
  refine T.bind loopFuel_spec (fun fuel => ?_)
  refine T.anyQ (identifierListLoop_real_spec _ _ (by simp) ?_)
  intro x hx
  simp only [List.mem_singleton] at hx
  subst hx
  exact hfirst

theorem stringLiteralOrNone_spec : T src Tr stringLiteralOrNone (fun _ _ => True) := by
  unfold stringLiteralOrNone
  hoare

theorem stringLiteral_spec : T src Tr stringLiteral (fun l _ => RealStr src l) := by
  unfold stringLiteral
  refine T.bindP takeCurrent_spec ⟨fun cur hcur => ?_⟩
  split
  · rename_i pos value
    exact T.bind (T.anyQ next_spec) (fun _ => T.pure _ (fun _ _ => ⟨value, rfl, hcur _ _ rfl⟩))
  · hoare

/-! ### what "a token of the source" means on the text alone -/

theorem rest_drop (sc : Scanner) (k : Nat) : sc.rest.drop k = sc.src.toList.drop (sc.pos + k) := by
  unfold Scanner.rest
  simp [List.drop_drop, Nat.add_comm]
  rw [List.take_of_length_le (by simp)]
  simp [List.drop_drop, Nat.add_comm]

/-- the text of a literal or identifier token stands verbatim in the source at the token's offset -/
theorem RealTok.lit_at {src : Array Char} {p : Nat} {k : LitKind} {txt : List Char}
    (h : RealTok src p (.literal k txt)) : txt <+: src.toList.drop p := by
  obtain ⟨sc, sc', hsrc, hnt⟩ := h
  rcases Gosyn.Props.C05.nextToken_at_pos sc sc' p (.literal k txt) hnt with ⟨h1, _⟩ | ⟨j, hp, _, hpre, _⟩
  · cases h1
  · rw [rest_drop, ← hp, hsrc] at hpre
    exact hpre

/-- C05 / C06 for identifier leaves, at creation: name and offset are the source's -/
theorem RealIdent.verbatim {src : Array Char} {id : Ident} (h : RealIdent src id) :
    ∃ name, id.name = String.ofList name ∧ name <+: src.toList.drop id.pos := by
  obtain ⟨name, hn, ht⟩ := h
  exact ⟨name, hn, ht.lit_at⟩

theorem RealLit.verbatim {src : Array Char} {l : BasicLit} (h : RealLit src l) :
    ∃ value, l.value = String.ofList value ∧ value <+: src.toList.drop l.pos := by
  obtain ⟨v, hv, ht⟩ := h
  exact ⟨v, hv, ht.lit_at⟩

theorem RealStr.verbatim {src : Array Char} {l : StringLit} (h : RealStr src l) :
    ∃ value, l.value = String.ofList value ∧ value <+: src.toList.drop l.pos := by
  obtain ⟨v, hv, ht⟩ := h
  exact ⟨v, hv, ht.lit_at⟩

/-- an offset returned by `expect(k)` holds the text of a token of kind `k` (or stands for an automatically
    inserted semicolon, which has no text) -/
theorem RealPos.text_at {src : Array Char} {k : TokenKind} {pos : Nat} (h : RealPos src k pos) :
    ∃ tok, tokIs tok k = true ∧
      (tok = .operator .SemiColon ∨ tok.text <+: src.toList.drop pos) := by
  obtain ⟨tok, hk, sc, sc', hsrc, hnt⟩ := h
  refine ⟨tok, hk, ?_⟩
  rcases Gosyn.Props.C05.nextToken_at_pos sc sc' pos tok hnt with ⟨h1, _, _, hp, _⟩ | ⟨j, hp, _, hpre, _⟩
  · left
    exact h1
  · right
    rw [rest_drop, ← hp, hsrc] at hpre
    exact hpre

/-! ### `Expression::pos()` never meets `List` -/

/-- `Expression::pos()` is implemented for this expression (ast.rs: `List(_) => unimplemented!()`) -/
def PosOK (e : Expression) : Prop := ∃ p, exprPos e = .ok p

theorem exprPosP_spec {R : PState → Prop} (e : Expression) (h : PosOK e) :
    T src R (exprPosP e) (fun _ s => R s) := by
  obtain ⟨p, hp⟩ := h
  unfold exprPosP
  rw [hp]
  exact T.pure _ (fun _ h => h)
macro_rules | `(tactic| hspecOld) => `(tactic| exact exprPosP_spec _ (by hside))

/-- a field list whose `pos()` is implemented: bracketed, or empty, or starting with a named field or
    a field whose type has a position -/
def FLOK : FieldList → Prop
  | .mk (some _) _ => True
  | .mk none [] => True
  | .mk none (.mk name typ _ _ :: _) => name ≠ [] ∨ PosOK typ

theorem fieldListPos_spec {R : PState → Prop} (fl : FieldList) (h : FLOK fl) (hne : fl.list ≠ []) :
    T src R (fieldListPos fl) (fun _ s => R s) := by
  unfold fieldListPos
  split
  · exact T.pure _ (fun _ h => h)
  · exact absurd rfl hne
  · rename_i name typ _ _ _
    split
    · exact T.pure _ (fun _ h => h)
    · have : PosOK typ := by
        rcases h with h | h
        · exact absurd rfl h
        · exact h
      exact exprPosP_spec _ this

theorem checkFieldList_go_spec (pos n : Nat) (named trailing : Bool) : ∀ (l : List Field) (index : Nat),
    T src Tr (checkFieldList.go trailing named pos n l index) (fun _ _ => True) := by
  intro l
  induction l with
  | nil => intro index; unfold checkFieldList.go; exact T.pure _ (fun _ _ => trivial)
  | cons f fs ih =>
    intro index
    unfold checkFieldList.go
    hoare
    all_goals exact T.anyQ (ih _)

theorem checkFieldList_spec (fl : FieldList) (trailing : Bool) (h : FLOK fl) :
    T src Tr (checkFieldList fl trailing) (fun r _ => r = fl) := by
  unfold checkFieldList
  split
  · exact T.pure _ (fun _ _ => rfl)
  · rename_i first rest hl
    refine T.bind (fieldListPos_spec fl h (by rw [hl]; simp)) (fun pos => ?_)
    refine T.bind (T.anyQ (checkFieldList_go_spec _ _ _ _ _ _)) (fun _ => ?_)
    exact T.pure _ (fun _ _ => rfl)
macro_rules | `(tactic| hspecOld) => `(tactic| exact T.anyQ (checkFieldList_spec _ _ (by hside)))

theorem resetChanArrow_spec (pos : Nat) (ct : ChannelType) :
    T src Tr (resetChanArrow pos ct) (fun _ _ => True) := by
  fun_induction resetChanArrow pos ct
  · exact unexpected_spec _ _ _
  · exact T.pure _ (fun _ _ => trivial)
  · rename_i ih
    exact T.bind ih (fun _ => T.pure _ (fun _ _ => trivial))
  · exact elseErrorAt_spec _ _ _

theorem checkSingleExpr_spec (list : List Expression) (h : ∀ e ∈ list, PosOK e) :
    T src Tr (checkSingleExpr list) (fun e _ => PosOK e) := by
  unfold checkSingleExpr
  have hrev : ∀ e ∈ list.reverse, PosOK e := fun e he => h e (by simpa using he)
  generalize list.reverse = rl at hrev
  cases rl with
  | nil => simp only; hoare
  | cons x rest =>
    cases rest with
    | nil => simp only; exact T.pure _ (fun _ _ => hrev x (by simp))
    | cons y ys =>
      simp only
      have hrev2 : ∀ e ∈ (y :: ys).reverse, PosOK e := fun e he => hrev e (by
        have : e ∈ y :: ys := List.mem_reverse.1 he
        exact List.mem_cons_of_mem _ this)
      generalize (y :: ys).reverse = rr at hrev2
      cases rr with
      | nil => simp only; hoare
      | cons f fs =>
        simp only
        have := hrev2 f (by simp)
        hoare
macro_rules | `(tactic| hspecOld) => `(tactic| exact T.anyQ (checkSingleExpr_spec _ (by hside)))

theorem checkAssignStmt_spec : ∀ (l : List Expression), (∀ e ∈ l, PosOK e) →
    T src Tr (checkAssignStmt l) (fun _ _ => True) := by
  intro l
  induction l with
  | nil => intro _; unfold checkAssignStmt; exact T.pure _ (fun _ _ => trivial)
  | cons e es ih =>
    intro h
    unfold checkAssignStmt
    have he : PosOK e := h e (by simp)
    split
    · exact ih (fun x hx => h x (by simp [hx]))
    · hoare
macro_rules | `(tactic| hspecOld) => `(tactic| exact T.anyQ (checkAssignStmt_spec _ (by hside)))

theorem isTypeSwitch_spec (st : Option Statement) : T src Tr (isTypeSwitch st) (fun _ _ => True) := by
  unfold isTypeSwitch
  hoare

theorem checkBrace_spec (e : Expression) : T src Tr (checkBrace e) (fun _ _ => True) := by
  unfold checkBrace
  hoare

end Gosyn.Props.Hoare
