import Gosyn.Props.C10
/-!
C10, full strength for rune literals and interpreted strings: the scanner accepts exactly the
spec's `rune_lit` / `interpreted_string_lit` (Spec/Strings.lean) and keeps the text verbatim.

* `scanRune_complete` / `scanRune_sound`: `scan_rune` reads exactly one *element* of the spec (a
  character other than newline, backslash and the enclosing quote; a simple escape; the escaped
  enclosing quote; `\ooo` ≤ 255; `\xhh`; `\uhhhh` / `\Uhhhhhhhh` denoting a valid code point) — or,
  inside a string, the closing quote;
* `rune_iff_spec`: `scan_lit_rune` accepts iff the text starts with `'`, one element, `'`;
* `string_iff_spec`: `scan_lit_string` on `"`… accepts iff a sequence of elements is followed by `"`.
-/
namespace Gosyn.Props.C10
open Gosyn.Gen Gosyn.Model Gosyn.Spec

theorem char_le_iff (a b : Char) : (a ≤ b) ↔ a.toNat ≤ b.toNat := by
  rw [Char.le_def, UInt32.le_iff_toNat_le]; rfl

theorem isHex_eq (c : Char) : isHexDigit c = isHex c := by
  simp [isHexDigit, isHex, isDecimalDigit]
theorem isOct_eq (c : Char) : isOctalDigit c = isOct c := rfl
theorem digitVal_eq (c : Char) : digitVal c = hexVal c := by
  simp [digitVal, hexVal, isDecimalDigit]
theorem parseRadix_eq (r : Nat) (ds : List Char) : parseRadix r ds = numVal r ds := by
  simp [parseRadix, numVal, digitVal_eq]

theorem hexVal_le (c : Char) (h : isHex c = true) : hexVal c ≤ 15 := by
  unfold isHex at h
  unfold hexVal
  simp only [Bool.or_eq_true, Bool.and_eq_true, decide_eq_true_eq, char_le_iff] at h ⊢
  have e0 : ('0' : Char).toNat = 48 := rfl
  have e9 : ('9' : Char).toNat = 57 := rfl
  have ea : ('a' : Char).toNat = 97 := rfl
  have ef : ('f' : Char).toNat = 102 := rfl
  have eA : ('A' : Char).toNat = 65 := rfl
  have eF : ('F' : Char).toNat = 70 := rfl
  rw [e0, e9, ea, ef, eA, eF] at h
  rw [e0, e9, ea, ef]
  split
  · omega
  · split <;> omega

theorem validScalar_iff (v : Nat) : validScalar v = true ↔ ValidCodePoint v := by
  simp [validScalar, ValidCodePoint]; omega

/-- the code's escape table (regenerated from `is_escaped_char`) is the spec's list plus the two quotes -/
theorem escaped_table : escapedChars = ['a', 'b', 'f', 'n', 'r', 't', 'v', '\\', '\'', '"'] := by decide

theorem isEscaped_iff (c : Char) : isEscapedChar c = true ↔ c ∈ simpleEscapes ∨ c = '\'' ∨ c = '"' := by
  simp only [isEscapedChar, escaped_table, simpleEscapes, List.contains_cons, List.contains_nil, Bool.or_false, Bool.or_eq_true, beq_iff_eq, List.mem_cons, List.not_mem_nil, or_false, or_assoc]

theorem matchN_complete (valid : Char → Bool) (ds rest : List Char) (hv : ∀ d ∈ ds, valid d = true) :
    matchN valid ds.length (ds ++ rest) = .ok ds := by
  induction ds with
  | nil => simp [matchN]
  | cons d ds ih =>
    have hd : valid d = true := hv d (by simp)
    simp only [List.length_cons, List.cons_append, matchN, hd, if_true]
    rw [ih (fun x hx => hv x (by simp [hx]))]

/-- an octal digit is not one of the letters that select another escape form -/
theorem oct_not_letter (a : Char) (h : isOct a = true) : a ≠ 'x' ∧ a ≠ 'u' ∧ a ≠ 'U' := by
  refine ⟨?_, ?_, ?_⟩ <;> (intro e; subst e; simp [isOct] at h)

def QuoteOK (q : Char) : Prop := q = '\'' ∨ q = '"'

/-- the `numeric` closure of `scan_rune`, as a function -/
def numericOK (radix : Nat) (lead ds : List Char) : Bool :=
  (radix ≠ 8 || parseRadix radix (lead ++ ds) ≤ 255) && validScalar (parseRadix radix (lead ++ ds))

theorem scanRune_escape (q n2 : Char) (after : List Char) :
    scanRune q ('\\' :: n2 :: after) =
      (let numeric (radix : Nat) (count : Nat) (valid : Char → Bool) (lead : List Char) : Except Fail (List Char) :=
        match matchN valid count after with
        | .error e => .error e
        | .ok ds =>
          if numericOK radix lead ds then .ok ('\\' :: n2 :: ds)
          else .error { off := 0, reason := "invalid Unicode code point" }
      if n2 = 'x' then numeric 16 2 isHexDigit []
      else if n2 = 'u' then numeric 16 4 isHexDigit []
      else if n2 = 'U' then numeric 16 8 isHexDigit []
      else if isOctalDigit n2 then numeric 8 2 isOctalDigit [n2]
      else if isEscapedChar n2 && (n2 = q || !(n2 = '\'' || n2 = '"')) then .ok ['\\', n2]
      else .error { off := 0, reason := "unknown escape sequence" }) := by
  rfl

theorem two_hex_small (a b : Char) (ha : isHex a = true) (hb : isHex b = true) : numVal 16 [a, b] ≤ 255 := by
  have := hexVal_le a ha; have := hexVal_le b hb
  simp [numVal]; omega

/-- **completeness**: every element of the spec, followed by anything, is read as exactly that element -/
theorem scanRune_complete (q : Char) (hq : QuoteOK q) (e rest : List Char) (he : Element q e) :
    scanRune q (e ++ rest) = .ok e := by
  cases he with
  | @char c h1 h2 h3 =>
    simp only [List.cons_append, List.nil_append]
    unfold scanRune
    split
    · rename_i heq; cases heq
    · rename_i heq; simp at heq; exact absurd heq.1 h2
    · rename_i heq; simp at heq; exact absurd heq.1 h2
    · have : ¬ (c = '\'' ∧ q = '\'') := by rintro ⟨rfl, rfl⟩; exact h3 rfl
      simp_all
  | @escaped c hc =>
    simp only [List.cons_append, List.nil_append]
    rw [scanRune_escape]
    have hx : c ≠ 'x' ∧ c ≠ 'u' ∧ c ≠ 'U' ∧ isOctalDigit c = false ∧ c ≠ '\'' ∧ c ≠ '"' := by
      simp [simpleEscapes] at hc
      rcases hc with rfl | rfl | rfl | rfl | rfl | rfl | rfl | rfl <;> decide
    have hesc : isEscapedChar c = true := (isEscaped_iff c).2 (.inl hc)
    simp [hx.1, hx.2.1, hx.2.2.1, hx.2.2.2.1, hx.2.2.2.2.1, hx.2.2.2.2.2, hesc]
  | quoteEsc =>
    simp only [List.cons_append, List.nil_append]
    rw [scanRune_escape]
    rcases hq with rfl | rfl <;> simp [isOctalDigit, isEscapedChar, escaped_table]
  | @octal a b c ha hb hc hv =>
    simp only [List.cons_append, List.nil_append]
    rw [scanRune_escape]
    obtain ⟨n1, n2, n3⟩ := oct_not_letter a ha
    have hm := matchN_complete isOctalDigit [b, c] rest (by intro d hd; simp at hd; rcases hd with rfl | rfl <;> assumption)
    simp only [List.length_cons, List.length_nil, List.cons_append, List.nil_append] at hm
    have hval : numericOK 8 [a] [b, c] = true := by
      simp only [numericOK, parseRadix_eq, List.cons_append, List.nil_append]
      have : validScalar (numVal 8 [a, b, c]) = true := (validScalar_iff _).2 ⟨by omega, by omega⟩
      simp [hv, this]
    simp only [n1, n2, n3, if_false, isOct_eq, ha, if_true, hm, hval]
  | @hex a b ha hb =>
    simp only [List.cons_append, List.nil_append]
    rw [scanRune_escape]
    have hm := matchN_complete isHexDigit [a, b] rest (by intro d hd; simp at hd; rcases hd with rfl | rfl <;> simp [isHex_eq, *])
    simp only [List.length_cons, List.length_nil, List.cons_append, List.nil_append] at hm
    have hval : numericOK 16 [] [a, b] = true := by
      simp only [numericOK, parseRadix_eq, List.nil_append]
      have := two_hex_small a b ha hb
      have : validScalar (numVal 16 [a, b]) = true := (validScalar_iff _).2 ⟨by omega, by omega⟩
      simp [this]
    simp only [if_true, hm, hval]
  | @littleU ds hl hh hv =>
    simp only [List.cons_append, List.nil_append]
    rw [scanRune_escape]
    have hm := matchN_complete isHexDigit ds rest (by intro d hd; simp [isHex_eq, hh d hd])
    rw [hl] at hm
    have hval : numericOK 16 [] ds = true := by
      simp only [numericOK, parseRadix_eq, List.nil_append]
      simp [(validScalar_iff _).2 hv]
    have : ('u' : Char) ≠ 'x' := by decide
    simp only [this, if_false, if_true, hm, hval]
  | @bigU ds hl hh hv =>
    simp only [List.cons_append, List.nil_append]
    rw [scanRune_escape]
    have hm := matchN_complete isHexDigit ds rest (by intro d hd; simp [isHex_eq, hh d hd])
    rw [hl] at hm
    have hval : numericOK 16 [] ds = true := by
      simp only [numericOK, parseRadix_eq, List.nil_append]
      simp [(validScalar_iff _).2 hv]
    have h1 : ('U' : Char) ≠ 'x' := by decide
    have h2 : ('U' : Char) ≠ 'u' := by decide
    simp only [h1, h2, if_false, if_true, hm, hval]

theorem numeric_sound {n2 : Char} {after r : List Char} {radix count : Nat} {valid : Char → Bool} {lead : List Char}
    (h : (match matchN valid count after with
        | .error e => (.error e : Except Fail (List Char))
        | .ok ds => if numericOK radix lead ds then .ok ('\\' :: n2 :: ds)
                    else .error { off := 0, reason := "invalid Unicode code point" }) = .ok r) :
    ∃ ds, r = '\\' :: n2 :: ds ∧ ds.length = count ∧ (∀ d ∈ ds, valid d = true) ∧ numericOK radix lead ds = true := by
  split at h
  · cases h
  · rename_i ds hm
    obtain ⟨_, h2, h3⟩ := matchN_prefix valid count after ds hm
    split at h
    · rename_i hv
      simp only [Except.ok.injEq] at h
      exact ⟨ds, h.symm, h2, h3, hv⟩
    · cases h

/-- **soundness**: whatever `scan_rune` reads is an element of the spec — or, inside a string, the
    closing quote -/
theorem scanRune_sound (q : Char) (hq : QuoteOK q) (cs r : List Char) (h : scanRune q cs = .ok r) :
    (r = [q] ∧ q = '"') ∨ Element q r := by
  cases cs with
  | nil => simp [scanRune] at h
  | cons c tl =>
    by_cases hc : c = '\\'
    · subst hc
      cases tl with
      | nil => simp [scanRune] at h
      | cons n2 after =>
        rw [scanRune_escape] at h
        simp only at h
        right
        split at h
        · rename_i hx; subst hx
          obtain ⟨ds, rfl, hl, hv, hn⟩ := numeric_sound h
          match ds, hl with
          | [a, b], _ =>
            exact .hex (by simpa [isHex_eq] using hv a (by simp)) (by simpa [isHex_eq] using hv b (by simp))
        · split at h
          · rename_i _ hx; subst hx
            obtain ⟨ds, rfl, hl, hv, hn⟩ := numeric_sound h
            refine .littleU hl (fun d hd => by simpa [isHex_eq] using hv d hd) ?_
            simp only [numericOK, parseRadix_eq, List.nil_append, Bool.and_eq_true] at hn
            exact (validScalar_iff _).1 hn.2
          · split at h
            · rename_i _ _ hx; subst hx
              obtain ⟨ds, rfl, hl, hv, hn⟩ := numeric_sound h
              refine .bigU hl (fun d hd => by simpa [isHex_eq] using hv d hd) ?_
              simp only [numericOK, parseRadix_eq, List.nil_append, Bool.and_eq_true] at hn
              exact (validScalar_iff _).1 hn.2
            · split at h
              · rename_i _ _ _ ho
                obtain ⟨ds, rfl, hl, hv, hn⟩ := numeric_sound h
                match ds, hl with
                | [a, b], _ =>
                  simp only [numericOK, parseRadix_eq, List.cons_append, List.nil_append, Bool.and_eq_true,
                    Bool.or_eq_true, decide_eq_true_eq] at hn
                  refine .octal (by simpa [isOct_eq] using ho) (hv a (by simp)) (hv b (by simp)) ?_
                  rcases hn.1 with hne | hle
                  · exact absurd rfl hne
                  · exact hle
              · split at h
                · rename_i _ _ _ _ he
                  simp only [Except.ok.injEq] at h; subst h
                  simp only [Bool.and_eq_true, Bool.or_eq_true, decide_eq_true_eq, Bool.not_eq_true',
                    Bool.or_eq_false_iff, decide_eq_false_iff_not] at he
                  obtain ⟨hesc, hq'⟩ := he
                  rcases (isEscaped_iff n2).1 hesc with hs | hs | hs
                  · exact .escaped hs
                  · rcases hq' with rfl | ⟨h1, _⟩
                    · exact .quoteEsc
                    · exact absurd hs h1
                  · rcases hq' with rfl | ⟨_, h2⟩
                    · exact .quoteEsc
                    · exact absurd hs h2
                · cases h
    · -- an ordinary character
      have : scanRune q (c :: tl) =
          (if c = '\'' && q = '\'' then .error { off := 0, reason := "empty rune literal" }
           else if c ≠ '\n' then .ok [c] else .error { off := 0, reason := "unexpected character" }) := by
        unfold scanRune
        split
        · rename_i heq; cases heq
        · rename_i heq; simp at heq; exact absurd heq.1 hc
        · rename_i heq; simp at heq; exact absurd heq.1 hc
        · rename_i c' tl' _ _ heq
          simp at heq; obtain ⟨rfl, rfl⟩ := heq; rfl
      rw [this] at h
      split at h
      · cases h
      · rename_i hq1
        split at h
        · rename_i hnl
          simp only [Except.ok.injEq] at h; subst h
          by_cases hcq : c = q
          · subst hcq
            rcases hq with rfl | rfl
            · simp at hq1
            · exact .inl ⟨rfl, rfl⟩
          · exact .inr (.char hnl hc hcq)
        · cases h

/-! ### rune literals -/

/-- **`scan_lit_rune` accepts exactly `'` element `'`**, and returns that text verbatim -/
theorem rune_iff_spec (body t : List Char) :
    scanLitRune ('\'' :: body) = .ok t ↔
      ∃ e rest, body = e ++ '\'' :: rest ∧ Element '\'' e ∧ t = '\'' :: (e ++ ['\'']) := by
  constructor
  · intro h
    unfold scanLitRune at h
    simp only [List.drop_succ_cons, List.drop_zero] at h
    split at h
    · cases h
    · rename_i rune hr
      have hel : Element '\'' rune := by
        rcases scanRune_sound '\'' (.inl rfl) body rune hr with ⟨_, hq⟩ | he
        · cases hq
        · exact he
      obtain ⟨⟨rest, hrest⟩, _⟩ := scanRune_prefix _ _ _ hr
      have hd : List.drop (1 + rune.length) ('\'' :: body) = rest := by
        rw [← hrest, Nat.add_comm]; simp
      rw [hd] at h
      split at h
      · rename_i hh
        simp only [Except.ok.injEq] at h; subst h
        cases rest with
        | nil => simp at hh
        | cons d rest' =>
          simp at hh; subst hh
          exact ⟨rune, rest', hrest.symm, hel, rfl⟩
      · cases h
      · cases h
  · rintro ⟨e, rest, rfl, he, rfl⟩
    unfold scanLitRune
    simp only [List.drop_succ_cons, List.drop_zero]
    rw [scanRune_complete '\'' (.inl rfl) e _ he]
    simp only
    have hd : List.drop (1 + e.length) ('\'' :: (e ++ '\'' :: rest)) = '\'' :: rest := by
      rw [Nat.add_comm]; simp
    rw [hd]
    simp

/-- accepted rune literals are exactly the spec's `rune_lit` -/
theorem rune_sound (body t : List Char) (h : scanLitRune ('\'' :: body) = .ok t) : RuneLit t := by
  obtain ⟨e, rest, _, he, rfl⟩ := (rune_iff_spec body t).1 h
  exact ⟨e, rfl, he⟩

theorem rune_complete (t rest : List Char) (h : RuneLit t) : scanLitRune (t ++ rest) = .ok t := by
  obtain ⟨e, rfl, he⟩ := h
  have := (rune_iff_spec (e ++ '\'' :: rest) ('\'' :: (e ++ ['\'']))).2 ⟨e, rest, rfl, he, rfl⟩
  simpa using this

/-! ### interpreted strings -/

theorem element_ne_quote (e : List Char) (h : Element '"' e) : e ≠ ['"'] := by
  cases h <;> simp_all

theorem element_length_pos (q : Char) (e : List Char) (h : Element q e) : 1 ≤ e.length := by
  cases h <;> simp

theorem scanRune_quote (rest : List Char) : scanRune '"' ('"' :: rest) = .ok ['"'] := by
  simp [scanRune]

theorem strBody_complete (b : List Char) (hb : Elements '"' b) : ∀ (rest : List Char) (fuel : Nat),
    b.length + 1 ≤ fuel → strBody fuel (b ++ '"' :: rest) = .ok (b ++ ['"'], true) := by
  induction hb with
  | nil =>
    intro rest fuel hf
    obtain ⟨f, rfl⟩ : ∃ f, fuel = f + 1 := ⟨fuel - 1, by simp at hf; omega⟩
    simp [strBody, scanRune_quote]
  | @cons e rest' he _ ih =>
    intro rest fuel hf
    obtain ⟨f, rfl⟩ : ∃ f, fuel = f + 1 := ⟨fuel - 1, by omega⟩
    have hpos := element_length_pos _ _ he
    have hne : e ++ rest' ++ '"' :: rest ≠ [] := by
      cases e with
      | nil => simp at hpos
      | cons c e' => simp
    have hsr : scanRune '"' (e ++ rest' ++ '"' :: rest) = .ok e := by
      rw [List.append_assoc]; exact scanRune_complete '"' (.inr rfl) e _ he
    cases hcs : e ++ rest' ++ '"' :: rest with
    | nil => exact absurd hcs hne
    | cons c tl =>
      rw [← hcs]
      unfold strBody
      rw [hcs]
      simp only
      rw [← hcs, hsr]
      simp only [element_ne_quote e he, if_false]
      have hd : List.drop e.length (e ++ rest' ++ '"' :: rest) = rest' ++ '"' :: rest := by
        rw [List.append_assoc]; simp
      rw [hd, ih rest f (by simp at hf ⊢; omega)]
      simp

theorem strBody_sound : ∀ (fuel : Nat) (cs r : List Char), strBody fuel cs = .ok (r, true) →
    ∃ b rest, cs = b ++ '"' :: rest ∧ Elements '"' b ∧ r = b ++ ['"'] := by
  intro fuel
  induction fuel with
  | zero => intro cs r h; simp [strBody] at h
  | succ f ih =>
    intro cs r h
    cases cs with
    | nil => simp [strBody] at h
    | cons c tl =>
      unfold strBody at h
      split at h
      · cases h
      · rename_i rune hr
        obtain ⟨⟨rest0, hrest0⟩, _⟩ := scanRune_prefix _ _ _ hr
        split at h
        · rename_i hq
          simp only [Except.ok.injEq, Prod.mk.injEq] at h
          obtain ⟨rfl, _⟩ := h
          subst hq
          exact ⟨[], rest0, by simpa using hrest0.symm, .nil, by simp⟩
        · rename_i hnq
          split at h
          · cases h
          · rename_i r' t' hrec
            simp only [Except.ok.injEq, Prod.mk.injEq] at h
            obtain ⟨rfl, rfl⟩ := h
            have hdrop : List.drop rune.length (c :: tl) = rest0 := by rw [← hrest0]; simp
            rw [hdrop] at hrec
            obtain ⟨b', rest, hb1, hb2, rfl⟩ := ih rest0 r' hrec
            have hel : Element '"' rune := by
              rcases scanRune_sound '"' (.inr rfl) _ _ hr with ⟨hq, _⟩ | he
              · exact absurd hq hnq
              · exact he
            refine ⟨rune ++ b', rest, ?_, .cons hel hb2, by simp⟩
            rw [← hrest0, hb1]; simp

/-- **`scan_lit_string` on an interpreted string accepts exactly `"` elements `"`**, verbatim -/
theorem string_iff_spec (body t : List Char) :
    scanLitString ('"' :: body) = .ok t ↔
      ∃ b rest, body = b ++ '"' :: rest ∧ Elements '"' b ∧ t = '"' :: (b ++ ['"']) := by
  have hq : ('"' : Char) ≠ '`' := by decide
  unfold scanLitString
  simp only [hq, if_false]
  constructor
  · intro h
    split at h
    · cases h
    · rename_i text terminated hb
      split at h
      · rename_i ht
        simp only [Except.ok.injEq] at h; subst h
        subst ht
        obtain ⟨b, rest, h1, h2, rfl⟩ := strBody_sound _ _ _ hb
        exact ⟨b, rest, h1, h2, rfl⟩
      · cases h
  · rintro ⟨b, rest, rfl, hb, rfl⟩
    rw [strBody_complete b hb rest _ (by simp)]
    rfl

/-- accepted interpreted strings are exactly the spec's `interpreted_string_lit` -/
theorem string_sound (body t : List Char) (h : scanLitString ('"' :: body) = .ok t) : InterpretedString t := by
  obtain ⟨b, rest, _, hb, rfl⟩ := (string_iff_spec body t).1 h
  exact ⟨b, rfl, hb⟩

theorem string_complete (t rest : List Char) (h : InterpretedString t) : scanLitString (t ++ rest) = .ok t := by
  obtain ⟨b, rfl, hb⟩ := h
  have := (string_iff_spec (b ++ '"' :: rest) ('"' :: (b ++ ['"']))).2 ⟨b, rest, rfl, hb, rfl⟩
  simpa using this

/-- raw strings: the same pair of statements (from `raw_iff_spec`) -/
theorem raw_complete (t rest : List Char) (h : RawString t) : scanLitString (t ++ rest) = .ok t := by
  obtain ⟨b, rfl, hb⟩ := h
  have := (raw_iff_spec (b ++ '`' :: rest) ('`' :: (b ++ ['`']))).2 ⟨b, rest, rfl, hb, rfl⟩
  simpa using this

/-- **C10 for string literals, both directions**: a text that starts with a quote or a back quote is
    accepted as a string literal `t` iff `t` is a `string_lit` of the spec and a prefix of the text -/
theorem stringLit_iff (c : Char) (body t : List Char) (hc : c = '"' ∨ c = '`') :
    scanLitString (c :: body) = .ok t ↔ StringLit t ∧ t <+: c :: body := by
  constructor
  · intro h
    refine ⟨?_, string_text_is_source _ _ h⟩
    rcases hc with rfl | rfl
    · exact .inl (string_sound body t h)
    · exact .inr (raw_sound body t h)
  · rintro ⟨hs, ⟨rest, hr⟩⟩
    rw [← hr]
    rcases hs with hs | hs
    · exact string_complete t rest hs
    · exact raw_complete t rest hs

end Gosyn.Props.C10
