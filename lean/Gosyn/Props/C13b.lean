import Gosyn.Props.C15b
import Gosyn.Props.C08
/-!
C13, scanner side, for the whole remaining text — **the blanks in front of the text never change the token
sequence, as long as "contains a newline" is kept**.  `Props/C13.lean` shows that leading white space does
not influence the *next* token; with the pure form of the loop (`scanRel`, `Props/C15b.lean`) the statement
extends to everything that follows, the automatic semicolon included:

* `lineEndedS_gap`: the look-ahead over a white gap answers "line ended" iff the gap contains a newline or
  the text behind it ends the line;
* `stepRel_gap`: two texts that differ only in a leading white gap of the same newline-ness step alike:
  same token (or both end, or both fail), same flag, and remaining texts that again differ at most in such
  a gap;
* `scanRel_gap` / `scan_gap`: hence the same token sequence (offsets aside), and both fail or both succeed.
-/
namespace Gosyn.Props.C13b
open Gosyn.Gen Gosyn.Model
open Gosyn.Props.C07b Gosyn.Props.C15b Gosyn.Props.C08

def White (ws : List Char) : Prop := ∀ c ∈ ws, isWhite c = true

theorem skipCount_gap (ws r : List Char) (hw : White ws) : skipCount (ws ++ r) = ws.length + skipCount r := by
  induction ws with
  | nil => simp
  | cons c ws ih =>
    have hc : isWhite c = true := hw c (by simp)
    have := ih (fun d hd => hw d (by simp [hd]))
    simp only [List.cons_append, skipCount, hc, if_true, this, List.length_cons]
    omega

theorem lineEndedS_gap (ws r : List Char) (hw : White ws) :
    lineEndedS (ws ++ r) = if '\n' ∈ ws then true else lineEndedS r := by
  induction ws with
  | nil => simp
  | cons c ws ih =>
    have ih := ih (fun d hd => hw d (by simp [hd]))
    by_cases hc : c = '\n'
    · subst hc; simp [lineEndedS]
    · rw [List.cons_append, lineEndedS_blank ⟨hw c (by simp), hc⟩, ih]
      have : ('\n' ∈ c :: ws) ↔ ('\n' ∈ ws) := by
        simp only [List.mem_cons]
        constructor
        · rintro (h | h)
          · exact absurd h.symm hc
          · exact h
        · exact .inr
      by_cases hm : '\n' ∈ ws
      · simp [hm]
      · have : '\n' ∉ c :: ws := fun h => hm (this.1 h)
        simp [hm, this]

/-- the two texts differ at most in a leading white gap, newline-ness kept -/
def GapEq (a b : List Char) : Prop :=
  ∃ ws ws' r, a = ws ++ r ∧ b = ws' ++ r ∧ White ws ∧ White ws' ∧ ('\n' ∈ ws ↔ '\n' ∈ ws')

theorem GapEq.refl (a : List Char) : GapEq a a := ⟨[], [], a, rfl, rfl, by simp [White], by simp [White], Iff.rfl⟩

/-- results of one step that agree up to the gap -/
def StepEq : Except Unit (Option (Nat × Token × List Char × Bool)) →
    Except Unit (Option (Nat × Token × List Char × Bool)) → Prop
  | .ok none, .ok none => True
  | .error _, .error _ => True
  | .ok (some (_, t, r, b)), .ok (some (_, t', r', b')) => t = t' ∧ b = b' ∧ GapEq r r'
  | _, _ => False

theorem stepRel_gap (a b : List Char) (semi : Bool) (h : GapEq a b) : StepEq (stepRel a semi) (stepRel b semi) := by
  obtain ⟨ws, ws', r, rfl, rfl, hw, hw', hn⟩ := h
  unfold stepRel
  have hl : lineEndedS (ws ++ r) = lineEndedS (ws' ++ r) := by
    rw [lineEndedS_gap _ _ hw, lineEndedS_gap _ _ hw']
    by_cases hm : '\n' ∈ ws
    · simp [hm, hn.1 hm]
    · have : '\n' ∉ ws' := fun h => hm (hn.2 h)
      simp [hm, this]
  rw [← hl]
  by_cases hc : (semi && lineEndedS (ws ++ r)) = true
  · rw [if_pos hc, if_pos hc]
    exact ⟨rfl, rfl, ws, ws', r, rfl, rfl, hw, hw', hn⟩
  · rw [if_neg hc, if_neg hc]
    simp only
    rw [skipCount_gap _ _ hw, skipCount_gap _ _ hw']
    have e1 : (ws ++ r).drop (ws.length + skipCount r) = r.drop (skipCount r) := by
      rw [← List.drop_drop]; simp
    have e2 : (ws' ++ r).drop (ws'.length + skipCount r) = r.drop (skipCount r) := by
      rw [← List.drop_drop]; simp
    rw [e1, e2]
    by_cases hnil : r.drop (skipCount r) = []
    · rw [if_pos hnil, if_pos hnil]; trivial
    · rw [if_neg hnil, if_neg hnil]
      cases hs : scanToken (r.drop (skipCount r)) with
      | error f => trivial
      | ok v => obtain ⟨tok, n⟩ := v; exact ⟨rfl, rfl, GapEq.refl _⟩

theorem map_snd_shift (d : Nat) (l : List (Nat × Token)) : (shift d l).map Prod.snd = l.map Prod.snd := by
  simp [shift, List.map_map, Function.comp_def]

/-- the loop: same tokens (offsets aside), same outcome, for every bound on the number of steps -/
theorem scanRel_gap (fuel : Nat) (a b : List Char) (semi : Bool) (h : GapEq a b) :
    (scanRel fuel a semi).1.map Prod.snd = (scanRel fuel b semi).1.map Prod.snd ∧
      (scanRel fuel a semi).2 = (scanRel fuel b semi).2 := by
  induction fuel generalizing a b semi with
  | zero => simp [scanRel]
  | succ fuel ih =>
    have hs := stepRel_gap a b semi h
    unfold scanRel
    cases ha : stepRel a semi with
    | error e =>
      cases hb : stepRel b semi with
      | error e' => simp
      | ok v => rw [ha, hb] at hs; cases v <;> simp [StepEq] at hs
    | ok va =>
      cases hb : stepRel b semi with
      | error e' => rw [ha, hb] at hs; cases va <;> simp [StepEq] at hs
      | ok vb =>
        rw [ha, hb] at hs
        cases va with
        | none =>
          cases vb with
          | none => simp
          | some y => simp [StepEq] at hs
        | some x =>
          cases vb with
          | none => simp [StepEq] at hs
          | some y =>
            obtain ⟨k, t, r, f⟩ := x
            obtain ⟨k', t', r', f'⟩ := y
            simp only [StepEq] at hs
            obtain ⟨rfl, rfl, hg⟩ := hs
            obtain ⟨i1, i2⟩ := ih r r' f hg
            refine ⟨?_, i2⟩
            simp only [List.map_cons, map_snd_shift, i1]

/-- more steps allowed changes nothing once the loop has ended by itself -/
theorem scanRel_mono (fuel : Nat) (r : List Char) (semi : Bool) (h : (scanRel fuel r semi).2.2 = false) :
    scanRel (fuel + 1) r semi = scanRel fuel r semi := by
  induction fuel generalizing r semi with
  | zero => simp [scanRel] at h
  | succ fuel ih =>
    unfold scanRel at h ⊢
    cases hs : stepRel r semi with
    | error e => rfl
    | ok v =>
      cases v with
      | none => rfl
      | some x =>
        obtain ⟨k, t, r', f⟩ := x
        rw [hs] at h
        simp only at h ⊢
        rw [ih r' f h]

theorem scanRel_mono' (fuel m : Nat) (r : List Char) (semi : Bool) (h : (scanRel fuel r semi).2.2 = false) :
    scanRel (fuel + m) r semi = scanRel fuel r semi := by
  induction m with
  | zero => rfl
  | succ m ih =>
    rw [← Nat.add_assoc, scanRel_mono _ _ _ (by rw [ih]; exact h), ih]

/-- **C13, scanner side**: two scanner states whose remaining texts differ only in the white space in front —
    any blanks, tabs, carriage returns, newlines, in any number, provided one gap contains a newline iff the
    other does — with the same flag, return the same token sequence, and both fail or both succeed -/
theorem scan_gap (a b : Scanner) (h : GapEq a.rest b.rest) (hm : a.semi = b.semi) :
    (scanTokens a).toks.map Prod.snd = (scanTokens b).toks.map Prod.snd ∧
      (scanTokens a).err.isSome = (scanTokens b).err.isSome := by
  obtain ⟨a1, a2, a3⟩ := scanTokensAcc_rel (scanFuel a) a []
  obtain ⟨b1, b2, b3⟩ := scanTokensAcc_rel (scanFuel b) b []
  rw [hm] at a1 a2 a3
  have fa : (scanRel (scanFuel a) a.rest b.semi).2.2 = false := by rw [← a3]; exact scanTokens_fuel a
  have fb : (scanRel (scanFuel b) b.rest b.semi).2.2 = false := by rw [← b3]; exact scanTokens_fuel b
  have ea := scanRel_mono' (scanFuel a) (scanFuel b) a.rest b.semi fa
  have eb := scanRel_mono' (scanFuel b) (scanFuel a) b.rest b.semi fb
  have hg := scanRel_gap (scanFuel a + scanFuel b) a.rest b.rest b.semi h
  rw [ea, Nat.add_comm, eb] at hg
  unfold scanTokens
  constructor
  · rw [a1, b1]
    simp only [List.reverse_nil, List.nil_append, map_snd_shift]
    exact hg.1
  · rw [a2, b2]
    exact congrArg Prod.fst hg.2

end Gosyn.Props.C13b
