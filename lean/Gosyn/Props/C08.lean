import Gosyn.Spec.Semicolon
/-!
C08: the scanner's look-ahead `line_ended` (`lineEndedS` / `generalS`) decides exactly the Go
specification's "the rest of the line acts like a line end" (`Spec.LineEnd`), and the code's
semicolon-trigger table agrees with the specification's list except for `package`.
-/
namespace Gosyn.Props.C08
open Gosyn.Gen Gosyn.Model Gosyn.Spec

/-! ### character facts -/

theorem isWhite_slash : isWhite '/' = false := by decide
theorem isWhite_space : isWhite ' ' = true := by decide
theorem isWhite_tab : isWhite '\t' = true := by decide
theorem isWhite_cr : isWhite '\r' = true := by decide
theorem isWhite_nl : isWhite '\n' = true := by decide

theorem implBlank_of_specBlank {c : Char} (h : SpecBlank c) : ImplBlank c := by
  rcases h with rfl | rfl | rfl
  · exact ⟨isWhite_space, by decide⟩
  · exact ⟨isWhite_tab, by decide⟩
  · exact ⟨isWhite_cr, by decide⟩

/-! ### `*/` does not occur -/

/-- `body` contains no `*/` -/
def NoClose (body : List Char) : Prop := ∀ pre post, body ≠ pre ++ ['*', '/'] ++ post

theorem noClose_nil : NoClose [] := by
  intro pre post h
  have := congrArg List.length h
  simp at this

theorem noClose_of_firstClose {body : List Char} (h : FirstClose body) : NoClose body := by
  intro pre post heq
  apply h pre (post ++ ['*'])
  rw [heq]
  simp

theorem firstClose_of_noClose {body : List Char} (h : NoClose body) : FirstClose body := by
  intro pre post heq
  rcases List.eq_nil_or_concat post with rfl | ⟨post', x, rfl⟩
  · have h2 : body ++ ['*'] = (pre ++ ['*']) ++ ['/'] := by simp [heq]
    have h3 := (List.append_inj' h2 rfl).2
    simp at h3
  · have h2 : body ++ ['*'] = (pre ++ ['*', '/'] ++ post') ++ [x] := by simp [heq]
    exact h pre post' (List.append_inj' h2 rfl).1

theorem noClose_tail {c : Char} {body : List Char} (h : NoClose (c :: body)) : NoClose body := by
  intro pre post heq
  apply h (c :: pre) post
  simp [heq]

/-- prepending a char keeps `NoClose` unless it completes a `*/` -/
theorem noClose_cons {c : Char} {body : List Char} (h : NoClose body)
    (hc : c = '*' → ∀ tl, body ≠ '/' :: tl) : NoClose (c :: body) := by
  intro pre post heq
  cases pre with
  | nil =>
    simp at heq
    exact hc heq.1 post heq.2
  | cons p pre' =>
    simp at heq
    exact h pre' post (by simp [heq.2])

/-! ### unfolding the two scanners -/

theorem generalS_nil : generalS [] = true := by simp [generalS]
theorem generalS_nl (cs : List Char) : generalS ('\n' :: cs) = true := by simp [generalS]
theorem generalS_close (cs : List Char) : generalS ('*' :: '/' :: cs) = lineEndedS cs := by
  simp [generalS]

/-- any other char is skipped -/
theorem generalS_step {c : Char} {cs : List Char} (hc : c ≠ '\n')
    (hstar : c = '*' → ∀ tl, cs ≠ '/' :: tl) : generalS (c :: cs) = generalS cs := by
  conv => lhs; unfold generalS
  split <;> simp_all

theorem lineEndedS_nil : lineEndedS [] = true := by simp [lineEndedS]
theorem lineEndedS_nl (cs : List Char) : lineEndedS ('\n' :: cs) = true := by simp [lineEndedS]
theorem lineEndedS_line (cs : List Char) : lineEndedS ('/' :: '/' :: cs) = true := by
  simp [lineEndedS]
theorem lineEndedS_general (cs : List Char) : lineEndedS ('/' :: '*' :: cs) = generalS cs := by
  simp [lineEndedS]

/-- the fall-through arm -/
theorem lineEndedS_step {c : Char} {cs : List Char} (hc : c ≠ '\n')
    (h1 : c = '/' → ∀ tl, cs ≠ '/' :: tl) (h2 : c = '/' → ∀ tl, cs ≠ '*' :: tl) :
    lineEndedS (c :: cs) = (if isWhite c then lineEndedS cs else false) := by
  conv => lhs; unfold lineEndedS
  split <;> simp_all

theorem lineEndedS_blank {c : Char} {cs : List Char} (h : ImplBlank c) :
    lineEndedS (c :: cs) = lineEndedS cs := by
  have hs : c ≠ '/' := by
    intro hc
    have h1 := h.1
    rw [hc, isWhite_slash] at h1
    exact absurd h1 (by simp)
  rw [lineEndedS_step h.2 (fun hc => absurd hc hs) (fun hc => absurd hc hs), h.1]
  simp

/-! ### running the comment scanner over a comment body -/

/-- the comment scanner skips a newline-free, `*/`-free body (when what follows cannot complete a
    `*/` begun by the body's last char) -/
theorem generalS_skip (body tail : List Char) (hnl : '\n' ∉ body) (hnc : NoClose body)
    (ht : ∀ tl, tail ≠ '/' :: tl) : generalS (body ++ tail) = generalS tail := by
  induction body with
  | nil => simp
  | cons c body ih =>
    have hc : c ≠ '\n' := by intro h; apply hnl; simp [h]
    have hnl' : '\n' ∉ body := by intro h; apply hnl; simp [h]
    rw [List.cons_append, generalS_step hc, ih hnl' (noClose_tail hnc)]
    intro hstar tl heq
    cases body with
    | nil => exact ht tl (by simpa using heq)
    | cons d body' =>
      simp at heq
      exact hnc [] body' (by simp [hstar, heq.1])

theorem generalS_body (body : List Char) (hfc : FirstClose body) (hnl : '\n' ∉ body)
    (rest : List Char) : generalS (body ++ '*' :: '/' :: rest) = lineEndedS rest := by
  rw [generalS_skip body _ hnl (noClose_of_firstClose hfc) (by simp), generalS_close]

theorem generalS_newline (body : List Char) (hfc : FirstClose body) (hnl : '\n' ∉ body)
    (rest : List Char) : generalS (body ++ '\n' :: rest) = true := by
  rw [generalS_skip body _ hnl (noClose_of_firstClose hfc) (by simp), generalS_nl]

theorem generalS_open (body : List Char) (hnc : NoClose body) (hnl : '\n' ∉ body) :
    generalS body = true := by
  have := generalS_skip body [] hnl hnc (by simp)
  simpa [generalS_nil] using this

/-! ### (←) the specification's line ends are accepted -/

theorem lineEndedS_of_ender {cs : List Char} (h : Ender cs) : lineEndedS cs = true := by
  cases h with
  | eof => exact lineEndedS_nil
  | newline => exact lineEndedS_nl _
  | lineComment => exact lineEndedS_line _
  | generalNewline hfc hnl => rw [lineEndedS_general]; exact generalS_newline _ hfc hnl _
  | generalOpen hnl hnc => rw [lineEndedS_general]; exact generalS_open _ hnc hnl

theorem lineEndedS_gap {gap : List Char} (hg : InlineGap ImplBlank gap) (rest : List Char) :
    lineEndedS (gap ++ rest) = lineEndedS rest := by
  induction hg with
  | nil => simp
  | blank hb _ ih => rw [List.cons_append, lineEndedS_blank hb, ih]
  | @comment body cs hfc hnl _ ih =>
    have : '/' :: '*' :: (body ++ '*' :: '/' :: cs) ++ rest
        = '/' :: '*' :: (body ++ '*' :: '/' :: (cs ++ rest)) := by simp
    rw [this, lineEndedS_general, generalS_body body hfc hnl, ih]

theorem lineEndedS_of_spec {cs : List Char} (h : LineEnd ImplBlank cs) : lineEndedS cs = true := by
  obtain ⟨gap, rest, rfl, hg, he⟩ := h
  rw [lineEndedS_gap hg]
  exact lineEndedS_of_ender he

/-! ### (→) whatever is accepted is a line end of the specification -/

/-- what the comment scanner's `true` means, for the text after `/*` -/
def GenSpec (B : Char → Prop) (cs : List Char) : Prop :=
  ∃ body, '\n' ∉ body ∧ NoClose body ∧
    ((∃ rest, cs = body ++ '\n' :: rest) ∨ cs = body ∨
      (∃ rest, cs = body ++ '*' :: '/' :: rest ∧ LineEnd B rest))

theorem lineEnd_of_genSpec {B : Char → Prop} {cs : List Char} (h : GenSpec B cs) :
    LineEnd B ('/' :: '*' :: cs) := by
  obtain ⟨body, hnl, hnc, h | h | h⟩ := h
  · obtain ⟨rest, rfl⟩ := h
    exact ⟨[], _, rfl, .nil, .generalNewline (firstClose_of_noClose hnc) hnl⟩
  · subst h
    exact ⟨[], _, rfl, .nil, .generalOpen hnl hnc⟩
  · obtain ⟨rest, rfl, gap, rest', rfl, hg, he⟩ := h
    exact ⟨'/' :: '*' :: (body ++ '*' :: '/' :: gap), rest', by simp,
      .comment (firstClose_of_noClose hnc) hnl hg, he⟩

theorem genSpec_cons {B : Char → Prop} {c : Char} {cs : List Char} (hc : c ≠ '\n')
    (hstar : c = '*' → ∀ tl, cs ≠ '/' :: tl) (h : GenSpec B cs) : GenSpec B (c :: cs) := by
  obtain ⟨body, hnl, hnc, h⟩ := h
  refine ⟨c :: body, ?_, ?_, ?_⟩
  · intro hm
    rcases List.mem_cons.1 hm with h' | h'
    · exact hc h'.symm
    · exact hnl h'
  · apply noClose_cons hnc
    intro hs tl hb
    subst hb
    rcases h with ⟨rest, rfl⟩ | rfl | ⟨rest, rfl, _⟩
    · exact hstar hs _ (List.cons_append ..)
    · exact hstar hs _ rfl
    · exact hstar hs _ (List.cons_append ..)
  · rcases h with ⟨rest, rfl⟩ | rfl | ⟨rest, rfl, hl⟩
    · exact .inl ⟨rest, by simp⟩
    · exact .inr (.inl rfl)
    · exact .inr (.inr ⟨rest, by simp, hl⟩)

theorem spec_of_scan :
    (∀ cs, lineEndedS cs = true → LineEnd ImplBlank cs) ∧
    (∀ cs, generalS cs = true → GenSpec ImplBlank cs) := by
  apply lineEndedS.mutual_induct
  · intro _; exact ⟨[], [], rfl, .nil, .eof⟩
  · intro tl _; exact ⟨[], _, rfl, .nil, .newline⟩
  · intro tl _; exact ⟨[], _, rfl, .nil, .lineComment⟩
  · intro cs ih h
    rw [lineEndedS_general] at h
    exact lineEnd_of_genSpec (ih h)
  · intro c cs hnl h1 h2 hw ih h
    rw [lineEndedS_step hnl (fun hc tl he => h1 tl hc he) (fun hc tl he => h2 tl hc he), hw] at h
    simp at h
    obtain ⟨gap, rest, rfl, hg, he⟩ := ih h
    exact ⟨c :: gap, rest, by simp, .blank ⟨hw, hnl⟩ hg, he⟩
  · intro c cs hnl h1 h2 hw h
    rw [lineEndedS_step hnl (fun hc tl he => h1 tl hc he) (fun hc tl he => h2 tl hc he)] at h
    simp [hw] at h
  · intro _; exact ⟨[], by simp, noClose_nil, .inr (.inl rfl)⟩
  · intro tl _; exact ⟨[], by simp, noClose_nil, .inl ⟨tl, by simp⟩⟩
  · intro cs ih h
    rw [generalS_close] at h
    exact ⟨[], by simp, noClose_nil, .inr (.inr ⟨cs, by simp, ih h⟩)⟩
  · intro c cs hnl hs ih h
    have hs' : c = '*' → ∀ tl, cs ≠ '/' :: tl := fun hc tl he => hs tl hc he
    rw [generalS_step hnl hs'] at h
    exact genSpec_cons hnl hs' (ih h)

/-! ### 1. the look-ahead is the specification's rule (implementation's blank class) -/

theorem lineEnded_iff_spec (cs : List Char) :
    lineEndedS cs = true ↔ Spec.LineEnd Spec.ImplBlank cs :=
  ⟨spec_of_scan.1 cs, lineEndedS_of_spec⟩

/-! ### 2. the same for the specification's own blank class -/

/-- the blank class only matters on the chars of the gap -/
theorem inlineGap_mono {B B' : Char → Prop} {gap : List Char} (hg : InlineGap B gap)
    (h : ∀ c ∈ gap, B c → B' c) : InlineGap B' gap := by
  induction hg with
  | nil => exact .nil
  | blank hb _ ih =>
    exact .blank (h _ (by simp) hb) (ih (fun c hc => h c (by simp [hc])))
  | comment hfc hnl _ ih =>
    exact .comment hfc hnl (ih (fun c hc => h c (by simp [hc])))

theorem lineEnded_iff_spec_blanks (cs : List Char)
    (h : ∀ c ∈ cs, isWhite c = true → (c = ' ' ∨ c = '\t' ∨ c = '\r' ∨ c = '\n')) :
    lineEndedS cs = true ↔ Spec.LineEnd Spec.SpecBlank cs := by
  rw [lineEnded_iff_spec]
  constructor
  · rintro ⟨gap, rest, rfl, hg, he⟩
    refine ⟨gap, rest, rfl, inlineGap_mono hg ?_, he⟩
    intro c hc hb
    rcases h c (by simp [hc]) hb.1 with h' | h' | h' | h'
    · exact .inl h'
    · exact .inr (.inl h')
    · exact .inr (.inr h')
    · exact absurd h' hb.2
  · rintro ⟨gap, rest, rfl, hg, he⟩
    exact ⟨gap, rest, rfl, inlineGap_mono hg (fun _ _ hb => implBlank_of_specBlank hb), he⟩

/-! ### 3. the trigger table -/

theorem trigger_table_partial :
    ∀ tok, tok ≠ .keyword .Package → tryInsertSemicolon tok = Spec.trigger tok := by
  intro tok h
  cases tok with
  | comment t => rfl
  | literal k t => rfl
  | operator o => cases o <;> rfl
  | keyword k => cases k <;> first | rfl | exact absurd rfl h

theorem trigger_package_cex :
    tryInsertSemicolon (.keyword .Package) = true ∧ Spec.trigger (.keyword .Package) = false :=
  ⟨rfl, rfl⟩

/-! ### 4. non-vacuity -/

/-- a newline-free general comment followed by a token: not a line end, on both sides -/
example : lineEndedS "/* c */ x".toList = false ∧ ¬ LineEnd ImplBlank "/* c */ x".toList := by
  have hb : lineEndedS "/* c */ x".toList = false := by decide
  refine ⟨hb, fun hl => ?_⟩
  rw [← lineEnded_iff_spec, hb] at hl
  exact absurd hl (by simp)

/-- a general comment holding a newline: a line end, on both sides -/
example : lineEndedS "/* \n */ x".toList = true ∧ LineEnd ImplBlank "/* \n */ x".toList := by
  have hb : lineEndedS "/* \n */ x".toList = true := by decide
  exact ⟨hb, (lineEnded_iff_spec _).1 hb⟩

/-- … and for the specification's blank class (the input's white space is spaces and a newline) -/
example : LineEnd SpecBlank "/* \n */ x".toList := by
  refine (lineEnded_iff_spec_blanks _ ?_).1 (by decide)
  decide

/-- a blank, a closed newline-free comment, then the end of input: a line end -/
example : LineEnd SpecBlank " /* c */".toList :=
  (lineEnded_iff_spec_blanks _ (by decide)).1 (by decide)

end Gosyn.Props.C08

#print axioms Gosyn.Props.C08.lineEnded_iff_spec
#print axioms Gosyn.Props.C08.lineEnded_iff_spec_blanks
#print axioms Gosyn.Props.C08.trigger_table_partial
#print axioms Gosyn.Props.C08.trigger_package_cex

/-! ### 5. the pending-semicolon flag (whole scanner step) -/
namespace Gosyn.Props.C08
open Gosyn.Gen Gosyn.Model Gosyn.Spec

/-- with the flag set and the line ended (in the spec's sense), the next token is the automatic
    semicolon, placed at the current position; nothing is consumed and the flag is cleared -/
theorem synthetic_semicolon (s : Scanner) (h1 : s.semi = true) (h2 : Spec.LineEnd Spec.ImplBlank s.rest) :
    s.nextToken = (.ok (some (s.pos, .operator .SemiColon)), { s with semi := false }) := by
  have hl : s.lineEnded = true := (lineEnded_iff_spec _).2 h2
  unfold Scanner.nextToken
  simp [h1, hl]

/-- without the flag, or when the line has not ended, no semicolon is invented: whatever token comes
    next is scanned from the text (its text is found in the source, `Props.C05.nextToken_at_pos`) -/
theorem no_synthetic_semicolon (s : Scanner) (h : s.semi = false ∨ ¬ Spec.LineEnd Spec.ImplBlank s.rest) :
    s.nextToken = (let s1 := ({ s with semi := false } : Scanner).skipWhitespace
      if s1.pos ≥ s1.src.size then (.ok none, s1)
      else match scanToken s1.rest with
        | .error f =>
          let s2 := { s1 with lines := s1.lines ++ (newlineStarts s1.pos f.scanned).toArray }
          (.error (if f.panic then .panic f.reason else s2.errorAt (s2.pos + f.off) f.reason), s2)
        | .ok (tok, n) =>
          (.ok (some (s1.pos, tok)),
            { (s1.addTokenCrossLine tok) with pos := (s1.addTokenCrossLine tok).pos + n, semi := tryInsertSemicolon tok })) := by
  have hc : (s.semi && s.lineEnded) = false := by
    rcases h with h | h
    · simp [h]
    · have : s.lineEnded = false := by
        cases hl : s.lineEnded with
        | false => rfl
        | true => exact absurd ((lineEnded_iff_spec _).1 hl) h
      simp [this]
  unfold Scanner.nextToken
  simp only [hc, Bool.false_eq_true, if_false]
  split <;> rfl

/-- **the flag is set exactly after a trigger token**: after any token scanned from the text the
    pending-semicolon flag equals the code's trigger table on that token (`trigger_table_partial`: the
    spec's list, except `package`) -/
theorem flag_after_token (s s' : Scanner) (p : Nat) (tok : Token)
    (h : s.nextToken = (.ok (some (p, tok)), s'))
    (hreal : ¬ (s.semi = true ∧ s.lineEnded = true)) : s'.semi = tryInsertSemicolon tok := by
  unfold Scanner.nextToken at h
  split at h
  · rename_i hc
    simp only [Bool.and_eq_true] at hc
    exact absurd hc hreal
  · simp only at h
    split at h
    · simp at h
    · split at h
      · simp at h
      · simp only [Prod.mk.injEq, Except.ok.injEq, Option.some.injEq] at h
        obtain ⟨⟨_, rfl⟩, rfl⟩ := h
        rfl

/-- after the automatic semicolon the flag is clear: no second semicolon for the same line end -/
theorem flag_after_synthetic (s : Scanner) (h1 : s.semi = true) (h2 : s.lineEnded = true) :
    s.nextToken.2.semi = false := by
  unfold Scanner.nextToken
  simp [h1, h2]

/-- backtracking restores the flag that was saved with the position -/
theorem goback_restores_flag (s : Scanner) (pre : Nat × Bool) :
    (s.goback pre).semi = pre.2 ∧ (s.goback pre).pos = pre.1 := ⟨rfl, rfl⟩

theorem preback_saves_flag (s : Scanner) : s.preback = (s.pos, s.semi) := rfl

end Gosyn.Props.C08
