import Gosyn.Props.C12c
/-!
C11 — no comment is skipped by `Parser::next`.

`next_comments`: a successful call of the model's `next` asks the scanner for tokens until one is not a
comment; **every comment token the scanner returns on the way is appended to `comments`, in that order, with
its offset and verbatim text, and nothing else is appended**; the token that ends the walk is the new
current token and the scanner is left right after it.  (`CommentsFrom` is the walk, stated on the scanner
alone.)  Together with `goback_comments` (going back forgets exactly the comments that will be read again)
this is the mechanism behind "every comment exactly once"; that the parser's calls of `next` and `goback`
add up to one pass over the file is what the comments-vs-scan oracle decides (DESIGN §11.7).
-/
namespace Gosyn.Props.C11b
open Gosyn.Gen Gosyn.Model Gosyn.Ast
open Gosyn.Props.C12c

/-- the scanner's walk over a run of comment tokens: `pt` is the token in hand at scanner state `sc`; the
    walk lists the comments met and ends with the first token that is not a comment -/
inductive CommentsFrom : Option (Nat × Token) → Scanner → List Comment → Option (Nat × Token) → Scanner → Prop
  | done (pt : Option (Nat × Token)) (sc : Scanner) (h : ∀ p t, pt ≠ some (p, .comment t)) :
      CommentsFrom pt sc [] pt sc
  | step (p : Nat) (t : List Char) (sc sc1 : Scanner) (pt1 : Option (Nat × Token)) (cs : List Comment)
      (r : Option (Nat × Token)) (sc' : Scanner)
      (h : sc.nextToken = (.ok pt1, sc1)) (rest : CommentsFrom pt1 sc1 cs r sc') :
      CommentsFrom (some (p, .comment t)) sc ({ pos := p, text := String.ofList t } :: cs) r sc'

theorem commentLoop_scans (fuel : Nat) : ∀ (line : Nat) (trailing : Option Nat) (pt : Option (Nat × Token))
    (s : PState) (r : Option (Nat × Token)) (s' : PState),
    commentLoop fuel line trailing pt s = (.ok r, s') →
    ∃ run : List Comment, s'.comments = s.comments ++ run.toArray ∧ CommentsFrom pt s.scan run r s'.scan := by
  induction fuel with
  | zero =>
    intro line trailing pt s r s' h
    simp [commentLoop, P.throw] at h
  | succ fuel ih =>
    intro line trailing pt s r s' h
    by_cases hc : ∃ pos text, pt = some (pos, .comment text)
    · obtain ⟨pos, text, rfl⟩ := hc
      rw [commentLoop_comment] at h
      obtain ⟨pt', s2, hsn, hloop⟩ := bind_ok h
      obtain ⟨sc', hnt, hs2⟩ := scanNext_ok hsn
      dsimp only at hnt
      obtain ⟨run, h1, h2⟩ := ih _ _ pt' s2 r s' hloop
      refine ⟨_ :: run, ?_, CommentsFrom.step pos text s.scan sc' pt' run r s'.scan hnt (by rw [hs2] at h2; exact h2)⟩
      rw [h1, hs2]; simp
    · have : commentLoop (fuel + 1) line trailing pt s = (.ok pt, s) := by
        unfold commentLoop
        split
        · rename_i pos text; exact absurd ⟨pos, text, rfl⟩ hc
        · rfl
      rw [this] at h
      cases h
      exact ⟨[], by simp, CommentsFrom.done pt s.scan (fun p t hr => hc ⟨p, t, hr⟩)⟩

/-- **`next` appends exactly the comment tokens the scanner returns before the next other token** -/
theorem next_comments (s s' : PState) (h : next s = (.ok (), s')) :
    ∃ (run : List Comment) (pt : Option (Nat × Token)) (sc1 : Scanner),
      s.scan.nextToken = (.ok pt, sc1) ∧ CommentsFrom pt sc1 run s'.current s'.scan ∧
      s'.comments = s.comments ++ run.toArray := by
  rw [next_eq] at h
  unfold nextTail at h
  obtain ⟨u, s1, h1, h⟩ := bind_ok h
  simp only [P.modify, Prod.mk.injEq] at h1
  obtain ⟨-, rfl⟩ := h1
  obtain ⟨pt, s2, h2, h⟩ := bind_ok h
  obtain ⟨sc', hnt, hs2⟩ := scanNext_ok h2
  dsimp only at hnt
  obtain ⟨st3, s3, h3, h⟩ := bind_ok h
  simp only [P.get, Prod.mk.injEq, Except.ok.injEq] at h3
  obtain ⟨rfl, rfl⟩ := h3
  obtain ⟨pt', s4, h4, h⟩ := bind_ok h
  rw [finishP_eq] at h
  simp only [Prod.mk.injEq, true_and] at h
  obtain ⟨run, r1, r2⟩ := commentLoop_scans _ _ _ pt s2 pt' s4 h4
  refine ⟨run, pt, sc', hnt, ?_, ?_⟩
  · rw [← h]; rw [hs2] at r2; exact r2
  · rw [← h]; rw [hs2] at r1; exact r1

/-- the walk lists comment tokens only, each at the offset and with the text the scanner gave, in scan order
    (offsets strictly increase) -/
theorem CommentsFrom.increasing {pt : Option (Nat × Token)} {sc : Scanner} {run : List Comment}
    {r : Option (Nat × Token)} {sc' : Scanner} (h : CommentsFrom pt sc run r sc')
    (lo : Nat) (hpt : ∀ p t, pt = some (p, .comment t) → lo ≤ p ∧ p < sc.pos) :
    (run.map (·.pos)).Pairwise (· < ·) ∧ ∀ c ∈ run, lo ≤ c.pos := by
  induction h generalizing lo with
  | done pt sc h => simp
  | step p t sc sc1 pt1 cs r sc' hnt rest ih =>
    obtain ⟨h1, h2⟩ := hpt p t rfl
    have hnext : ∀ p' t', pt1 = some (p', .comment t') → sc.pos ≤ p' ∧ p' < sc1.pos := by
      intro p' t' e; subst e
      exact Gosyn.Props.Hoare.nextToken_comment sc sc1 p' t' hnt
    obtain ⟨i1, i2⟩ := ih sc.pos hnext
    refine ⟨?_, ?_⟩
    · simp only [List.map_cons, List.pairwise_cons]
      refine ⟨?_, i1⟩
      intro x hx
      obtain ⟨c, hc, rfl⟩ := List.mem_map.1 hx
      have := i2 c hc
      show p < c.pos
      omega
    · intro c hc
      rcases List.mem_cons.1 hc with rfl | hc
      · exact h1
      · have := i2 c hc; omega

end Gosyn.Props.C11b
