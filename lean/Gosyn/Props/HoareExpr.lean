import Gosyn.Props.HoareTbl
/-! Whole-parser invariant, part 2: expressions. -/
namespace Gosyn.Props.Hoare
open Gosyn.Gen Gosyn.Model Gosyn.Ast

variable {src : Array Char} {r : Tbl} [hr : TblOK src r]

/-! ### expressions -/

theorem expressionListBody_spec : T src Tr (expressionListBody r) (fun l _ => ∀ e ∈ l, ExprOK e) := by
  unfold expressionListBody
  refine T.bindP TblOK.expression ⟨fun first hf => ?_⟩
  refine T.bind loopFuel_spec (fun fuel => ?_)
  exact T.anyQ (commaList_spec _ ExprOK TblOK.expression _ _ (by simpa using hf))

theorem expressionBody_spec : T src Tr (expressionBody r) (fun e _ => ExprOK e) := by
  unfold expressionBody
  hoare

theorem parseNextLevelExprBody_spec : T src Tr (parseNextLevelExprBody r) (fun e _ => ExprOK e) := by
  unfold parseNextLevelExprBody
  hoare

set_option maxHeartbeats 400000 in
theorem binaryExpressionBody_go_spec (prec : Nat) : ∀ fuel x, ExprOK x →
    T src Tr (binaryExpressionBody.go r prec fuel x) (fun e _ => ExprOK e) := by
  intro fuel
  induction fuel with
  | zero => intro x _; unfold binaryExpressionBody.go; exact T.throw _ (fun _ _ => trivial)
  | succ n ih =>
    intro x hx
    unfold binaryExpressionBody.go
    hoare
    all_goals first | exact T.anyQ (ih _ (by simp_all)) | skip

theorem binaryExpressionBody_spec (p : Option Expression) (prec : Nat) (hp : ∀ e, p = some e → ExprOK e) :
    T src Tr (binaryExpressionBody r p prec) (fun e _ => ExprOK e) := by
  unfold binaryExpressionBody
  cases p with
  | none =>
    simp only
    hoare
    all_goals first | exact T.anyQ (binaryExpressionBody_go_spec _ _ _ (by assumption)) | skip
  | some e =>
    have he := hp e rfl
    simp only
    hoare
    all_goals first | exact T.anyQ (binaryExpressionBody_go_spec _ _ _ (by subst_vars; assumption)) | skip

theorem unaryExpressionBody_spec : T src Tr (unaryExpressionBody r) (fun e _ => ExprOK e) := by
  unfold unaryExpressionBody
  hoare

theorem operandBody_spec : T src Tr (operandBody r) (fun e _ => ExprOK e) := by
  unfold operandBody
  hoare

theorem parseLitValueBody_go_spec : ∀ fuel acc, T src Tr (parseLitValueBody.go r fuel acc) (fun _ _ => True) := by
  intro fuel
  induction fuel with
  | zero => intro acc; unfold parseLitValueBody.go; exact T.throw _ (fun _ _ => trivial)
  | succ n ih => intro acc; unfold parseLitValueBody.go; hloop ih

theorem parseLitValueBody_spec : T src Tr (parseLitValueBody r) (fun _ _ => True) := by
  unfold parseLitValueBody
  hoare
  all_goals first | exact T.anyQ (parseLitValueBody_go_spec _ _) | skip
  hoare

theorem parseElementBody_spec : T src Tr (parseElementBody r) (fun _ _ => True) := by
  unfold parseElementBody
  hoare

theorem parseElementValueBody_spec : T src Tr (parseElementValueBody r) (fun _ _ => True) := by
  unfold parseElementValueBody
  hoare

theorem parseResultBody_spec : T src Tr (parseResultBody r) (fun fl _ => FLOK fl) := by
  unfold parseResultBody
  hoare

theorem paramsListBody_go_spec (cl : Operator) : ∀ fuel acc, T src Tr (paramsListBody.go r cl fuel acc) (fun _ _ => True) := by
  intro fuel
  induction fuel with
  | zero => intro acc; unfold paramsListBody.go; exact T.throw _ (fun _ _ => trivial)
  | succ n ih => intro acc; unfold paramsListBody.go; hloop ih

theorem paramsListBody_spec (op cl : Operator) : T src Tr (paramsListBody r op cl) (fun fl _ => FLOK fl) := by
  unfold paramsListBody
  hoare
  all_goals first | exact T.anyQ (paramsListBody_go_spec _ _ _) | skip
  hoare

theorem arrayOrTypeargsBody_spec : T src Tr (arrayOrTypeargsBody r) (fun e _ => ExprOK e) := by
  unfold arrayOrTypeargsBody
  hoare

theorem qualifiedIdentBody_spec (name : Option Ident) : T src Tr (qualifiedIdentBody r name) (fun e _ => ExprOK e) := by
  unfold qualifiedIdentBody
  hoare

theorem typeInstanceBody_spec (left : Expression) : T src Tr (typeInstanceBody r left) (fun e _ => ExprOK e) := by
  unfold typeInstanceBody
  hoare


end Gosyn.Props.Hoare
