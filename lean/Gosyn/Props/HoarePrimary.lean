import Gosyn.Props.HoareTbl
/-! Whole-parser invariant, part 2: primary expressions. -/
namespace Gosyn.Props.Hoare
open Gosyn.Gen Gosyn.Model Gosyn.Ast

variable {src : Array Char} {r : Tbl} [hr : TblOK src r]

theorem callArgsLoop_spec : ∀ fuel args ewc, T src Tr (callArgsLoop r fuel args ewc) (fun _ _ => True) := by
  intro fuel
  induction fuel with
  | zero => intro args ewc; unfold callArgsLoop; exact T.throw _ (fun _ _ => trivial)
  | succ n ih => intro args ewc; unfold callArgsLoop; hloop ih

set_option maxHeartbeats 4000000 in
/-- the three `unreachable!` / `unwrap` sites of `primary_expression` (index, slice) are not reached:
    `parse_slice_index_or_type_inst` answers only with the shapes they handle -/
theorem primaryExpressionBody_go_spec : ∀ fuel x, ExprOK x →
    T src Tr (primaryExpressionBody.go r fuel x) (fun e _ => ExprOK e) := by
  intro fuel
  induction fuel with
  | zero => intro x _; unfold primaryExpressionBody.go; exact T.throw _ (fun _ _ => trivial)
  | succ n ih =>
    intro x hx
    unfold primaryExpressionBody.go
    hoare
    all_goals first | exact T.anyQ (ih _ (by simp_all)) | exact T.anyQ (callArgsLoop_spec _ _ _) | skip
    hoare
    all_goals first | exact T.anyQ (ih _ (by simp_all)) | skip
    · exfalso
      obtain ⟨_, h2, _, _⟩ := ‹SliceOK _›
      obtain ⟨i, hi, _⟩ := h2 ‹_›
      exact ‹∀ (i : Expression), _ = some (some i) → False› i hi
    · exfalso
      obtain ⟨_, _, h3, _⟩ := ‹SliceOK _›
      have hl := h3 ‹_›
      have n3 := ‹_ = 3 → False›
      have n2 := ‹_ = 2 → False›
      have n1 := ‹_ = 1 → False›
      generalize (List.length _) = k at hl n1 n2 n3
      have : k = 1 ∨ k = 2 ∨ k = 3 := by omega
      rcases this with h | h | h
      · exact n1 h
      · exact n2 h
      · exact n3 h
    · exfalso
      obtain ⟨h1, _, _, _⟩ := ‹SliceOK _›
      rcases h1 with h | h | h
      · exact ‹_ = none → False› h
      · exact ‹_ = some Operator.Comma → False› h
      · exact ‹_ = some Operator.Colon → False› h

theorem primaryExpressionBody_spec (p : Option Expression) (hp : ∀ e, p = some e → ExprOK e) :
    T src Tr (primaryExpressionBody r p) (fun e _ => ExprOK e) := by
  unfold primaryExpressionBody
  cases p with
  | none =>
    simp only
    hoare
    all_goals first | exact T.anyQ (primaryExpressionBody_go_spec _ _ (by assumption)) | skip
  | some e =>
    have he := hp e rfl
    simp only
    hoare
    all_goals first | exact T.anyQ (primaryExpressionBody_go_spec _ _ (by subst_vars; assumption)) | skip


end Gosyn.Props.Hoare
