import Gosyn.Props.C15f
/-! C15 — bodies that restore the nesting level given a table of callees that restore it (group 2 of 3; see C15f). -/
namespace Gosyn.Props.C15c
open Gosyn.Gen Gosyn.Model Gosyn.Ast
open Gosyn.Props.C15 Gosyn.Props.C12c

set_option maxHeartbeats 1600000 in
theorem parseConstSpecBody_t (r : Tbl) (h : TblLP r) (i : Nat) : LQ (parseConstSpecBody r i) 0 := by
  unfold parseConstSpecBody
  lq

set_option maxHeartbeats 1600000 in
theorem parseMethodElemBody_t (r : Tbl) (h : TblLP r)  : LQ (parseMethodElemBody r) 0 := by
  unfold parseMethodElemBody
  lq

set_option maxHeartbeats 1600000 in
theorem expressionBody_t (r : Tbl) (h : TblLP r)  : LQ (expressionBody r) 0 := by
  unfold expressionBody
  lq

set_option maxHeartbeats 1600000 in
theorem parseElementBody_t (r : Tbl) (h : TblLP r)  : LQ (parseElementBody r) 0 := by
  unfold parseElementBody
  lq

set_option maxHeartbeats 1600000 in
theorem arrayOrTypeargsBody_t (r : Tbl) (h : TblLP r)  : LQ (arrayOrTypeargsBody r) 0 := by
  unfold arrayOrTypeargsBody
  lq

set_option maxHeartbeats 1600000 in
theorem parseIfStmtBody_t (r : Tbl) (h : TblLP r)  : LQ (parseIfStmtBody r) 0 := by
  unfold parseIfStmtBody
  lq

end Gosyn.Props.C15c
