import Gosyn.Spec.Lexical
/-!
C07 — tokenisation: the operator and keyword tables of the code (regenerated from `token.rs` into
`Gen/Tables.lean` on every run) are the specification's, operators are recognised by longest match,
keywords are never identifiers and nothing else is a keyword.

The theorems are about `scanToken` (the model of `scan_token`, scanner.rs) and about the generated
tables, so an edit of a table entry in `token.rs` breaks a proof here rather than a sample.
-/
namespace Gosyn.Props.C07
open Gosyn.Gen Gosyn.Model Gosyn.Spec

/-! ### 1. the tables are the specification's -/

/-- every operator string of the code is one of the spec's 48, … -/
theorem op_table_sound : ∀ o : Operator, IsSpecOp o.str := by
  intro o; cases o <;> decide

/-- … every one of the spec's 48 is in the code's table, … -/
theorem op_table_complete : ∀ s ∈ specOperators, ∃ o : Operator, o.str = s := by
  have h : specOperators.all (fun s => (opFromChars s).isSome) = true := by decide
  intro s hs
  have := List.all_eq_true.1 h s hs
  obtain ⟨o, ho⟩ := Option.isSome_iff_exists.1 this
  exact ⟨o, by simpa [opFromChars] using List.find?_some ho⟩

/-- … and no two operators share a string (so the table is a bijection with the spec's list). -/
theorem op_str_injective : ∀ a b : Operator, a.str = b.str → a = b := by
  intro a b; cases a <;> cases b <;> first | (intro; rfl) | (intro h; exact absurd h (by decide))

theorem op_count : Operator.all.length = 48 ∧ specOperators.length = 48 := by decide

theorem kw_table_sound : ∀ k : Keyword, IsSpecKeyword k.str := by
  intro k; cases k <;> decide

theorem kw_table_complete : ∀ s ∈ specKeywords, ∃ k : Keyword, k.str = s := by
  have h : specKeywords.all (fun s => (kwFromChars s).isSome) = true := by decide
  intro s hs
  have := List.all_eq_true.1 h s hs
  obtain ⟨k, hk⟩ := Option.isSome_iff_exists.1 this
  exact ⟨k, by simpa [kwFromChars] using List.find?_some hk⟩

theorem kw_str_injective : ∀ a b : Keyword, a.str = b.str → a = b := by
  intro a b; cases a <;> cases b <;> first | (intro; rfl) | (intro h; exact absurd h (by decide))

theorem kw_count : Keyword.all.length = 25 ∧ specKeywords.length = 25 := by decide

/-! ### 2. table lookup (`Operator::from_str`, `Keyword::from_str`) is exact -/

theorem opFromChars_str : ∀ o : Operator, opFromChars o.str = some o := by
  intro o; cases o <;> decide

theorem kwFromChars_str : ∀ k : Keyword, kwFromChars k.str = some k := by
  intro k; cases k <;> decide

theorem opFromChars_some {cs : List Char} {o : Operator} (h : opFromChars cs = some o) : o.str = cs := by
  unfold opFromChars at h
  have := List.find?_some h
  simpa using this

theorem kwFromChars_some {cs : List Char} {k : Keyword} (h : kwFromChars cs = some k) : k.str = cs := by
  unfold kwFromChars at h
  have := List.find?_some h
  simpa using this

theorem opFromChars_iff (cs : List Char) (o : Operator) : opFromChars cs = some o ↔ o.str = cs :=
  ⟨opFromChars_some, fun h => h ▸ opFromChars_str o⟩

/-- a word is a keyword token exactly when it is one of the spec's 25 -/
theorem kwFromChars_iff_spec (cs : List Char) : (kwFromChars cs).isSome ↔ IsSpecKeyword cs := by
  constructor
  · intro h
    obtain ⟨k, hk⟩ := Option.isSome_iff_exists.1 h
    rw [← kwFromChars_some hk]; exact kw_table_sound k
  · intro h
    obtain ⟨k, hk⟩ := kw_table_complete _ h
    rw [← hk, kwFromChars_str]; rfl

theorem op_len : ∀ o : Operator, 1 ≤ o.str.length ∧ o.str.length ≤ 3 := by
  intro o; cases o <;> decide

/-- no operator starts a comment, … -/
theorem op_not_comment : ∀ o : Operator, o.str.take 2 ≠ ['/', '/'] ∧ o.str.take 2 ≠ ['/', '*'] := by
  intro o; cases o <;> decide

/-! ### 3. longest match -/

theorem prefix_eq_take {s cs : List Char} (h : s <+: cs) : s = cs.take s.length := by
  obtain ⟨t, rfl⟩ := h
  simp

/-- an operator of the code that is a prefix of the input is found by the lookup of that length -/
theorem lookup_of_prefix {o : Operator} {cs : List Char} (h : o.str <+: cs) :
    opFromChars (cs.take o.str.length) = some o := by
  rw [← prefix_eq_take h]; exact opFromChars_str o

/-- the decision tree of `scan_token`, as far as the result's token kind is concerned -/
theorem scanToken_tail {cs : List Char} (h3 : opFromChars (cs.take 3) = none)
    (hc1 : cs.take 2 ≠ ['/', '/']) (hc2 : cs.take 2 ≠ ['/', '*']) (h2 : opFromChars (cs.take 2) = none) :
    scanToken cs = (match cs with
      | [] => .error { off := 0, reason := "index out of bounds: indices[pos] (next_nstr)", panic := true }
      | next0 :: tl =>
        let next1IsDigit := match tl.head? with | some c => isDecimalDigit c | none => false
        if isDecimalDigit next0 || (next0 = '.' && next1IsDigit) then
          match scanLitNumber cs with
          | .ok (k, text, n) => .ok (.literal k text, n)
          | .error e => .error e
        else if next0 = '\'' then
          match scanLitRune cs with
          | .ok r => .ok (.literal .Char r, r.length)
          | .error e => .error e
        else if next0 = '"' || next0 = '`' then
          match scanLitString cs with
          | .ok r => .ok (.literal .String r, r.length)
          | .error e => .error e
        else if isLetterC next0 then
          let ident := scanIdentifier cs
          match kwFromChars ident with
          | some k => .ok (.keyword k, ident.length)
          | none => .ok (.literal .Ident ident, ident.length)
        else match opFromChars [next0] with
          | some op => .ok (.operator op, op.str.length)
          | none => .error { off := 0, reason := "unresolved character" }) := by
  unfold scanToken
  simp only [h3, h2, hc1, hc2, if_false]
  cases cs <;> rfl

theorem op_cases {cs : List Char} {o : Operator} {n : Nat}
    (h : scanToken cs = .ok (.operator o, n)) :
    n = o.str.length ∧ (opFromChars (cs.take 3) = some o ∨
      (opFromChars (cs.take 3) = none ∧ opFromChars (cs.take 2) = some o) ∨
      (opFromChars (cs.take 3) = none ∧ opFromChars (cs.take 2) = none ∧ ∃ c tl, cs = c :: tl ∧ opFromChars [c] = some o)) := by
  cases h3 : opFromChars (cs.take 3) with
  | some op =>
    unfold scanToken at h; simp only [h3] at h
    simp only [Except.ok.injEq, Prod.mk.injEq, Token.operator.injEq] at h
    obtain ⟨rfl, rfl⟩ := h; simp
  | none =>
    by_cases hc1 : cs.take 2 = ['/', '/']
    · unfold scanToken at h; simp [h3, hc1] at h
    · by_cases hc2 : cs.take 2 = ['/', '*']
      · unfold scanToken at h; simp [h3, hc2] at h
        split at h <;> first | (cases h; done) | (simp at h; done)
      · cases h2 : opFromChars (cs.take 2) with
        | some op =>
          unfold scanToken at h; simp only [h3, hc1, hc2, h2, if_false] at h
          simp only [Except.ok.injEq, Prod.mk.injEq, Token.operator.injEq] at h
          obtain ⟨rfl, rfl⟩ := h; simp
        | none =>
          rw [scanToken_tail h3 hc1 hc2 h2] at h
          cases cs with
          | nil => simp at h
          | cons c tl =>
            simp only at h
            repeat' split at h
            all_goals (first | (cases h; done) | (simp at h; done) | skip)
            all_goals (simp only [Except.ok.injEq, Prod.mk.injEq, Token.operator.injEq] at h)
            all_goals (obtain ⟨rfl, rfl⟩ := h)
            all_goals simp_all

/-! the number scanner only ever answers Integer, Float or Imag -/
def NumKind (r : Except Fail (LitKind × List Char × Nat)) : Prop :=
  ∀ k t n, r = .ok (k, t, n) → k = .Integer ∨ k = .Float ∨ k = .Imag
theorem numFinish_kind (radix cs numlit isFloat) : NumKind (numFinish radix cs numlit isFloat) := by
  intro k t n h; unfold numFinish at h
  repeat' split at h
  all_goals (first | (cases h; done) | (simp at h; obtain ⟨rfl, _⟩ := h; simp))
theorem numExp_kind (radix cs mant facPart expPart) : NumKind (numExp radix cs mant facPart expPart) := by
  intro k t n h; unfold numExp at h
  repeat' split at h
  all_goals (first | (cases h; done) | exact numFinish_kind _ _ _ _ k t n h)
theorem numMant_kind (radix cs intPart facPart) : NumKind (numMant radix cs intPart facPart) := by
  intro k t n h; unfold numMant at h; simp only at h
  repeat' split at h
  all_goals (first | (cases h; done) | exact numExp_kind _ _ _ _ _ k t n h)
theorem scanLitNumber_kind {cs : List Char} {k : LitKind} {t : List Char} {n : Nat}
    (h : scanLitNumber cs = .ok (k, t, n)) : k = .Integer ∨ k = .Float ∨ k = .Imag := by
  unfold scanLitNumber scanLitNumberWith at h; simp only at h
  repeat' split at h
  all_goals (first | (cases h; done) | exact numMant_kind _ _ _ _ k t n h)

/-- the same split for a keyword or identifier result -/
theorem word_tail {cs : List Char} {tok : Token} {n : Nat} (h : scanToken cs = .ok (tok, n))
    (hk : (∃ k, tok = .keyword k) ∨ (∃ x, tok = .literal .Ident x)) :
    ∃ c tl, cs = c :: tl ∧ isLetterC c = true ∧ n = (scanIdentifier cs).length ∧
      (match kwFromChars (scanIdentifier cs) with
        | some k => tok = .keyword k
        | none => tok = .literal .Ident (scanIdentifier cs)) := by
  cases h3 : opFromChars (cs.take 3) with
  | some op =>
    unfold scanToken at h; simp only [h3] at h
    rcases hk with ⟨k, rfl⟩ | ⟨x, rfl⟩ <;> simp at h
  | none =>
    by_cases hc1 : cs.take 2 = ['/', '/']
    · unfold scanToken at h; simp [h3, hc1] at h
      rcases hk with ⟨k, rfl⟩ | ⟨x, rfl⟩ <;> simp at h
    · by_cases hc2 : cs.take 2 = ['/', '*']
      · unfold scanToken at h; simp [h3, hc2] at h
        split at h <;> first | (cases h; done) | (rcases hk with ⟨k, rfl⟩ | ⟨x, rfl⟩ <;> simp at h)
      · cases h2 : opFromChars (cs.take 2) with
        | some op =>
          unfold scanToken at h; simp only [h3, hc1, hc2, h2, if_false] at h
          rcases hk with ⟨k, rfl⟩ | ⟨x, rfl⟩ <;> simp at h
        | none =>
          rw [scanToken_tail h3 hc1 hc2 h2] at h
          cases cs with
          | nil => simp at h
          | cons c tl =>
            simp only at h
            repeat' split at h
            all_goals (first | (cases h; done) | skip)
            all_goals (simp only [Except.ok.injEq, Prod.mk.injEq] at h)
            all_goals (obtain ⟨rfl, rfl⟩ := h)
            all_goals (first
              | (refine ⟨c, tl, rfl, by assumption, rfl, ?_⟩; simp_all; done)
              | (exfalso; rcases hk with ⟨k, hk⟩ | ⟨x, hk⟩ <;> simp at hk; done)
              | (exfalso; rename_i hnum; have hkind := scanLitNumber_kind hnum
                 rcases hk with ⟨k, hk⟩ | ⟨x, hk⟩ <;> simp at hk
                 obtain ⟨rfl, _⟩ := hk; simp at hkind))

/-- **longest match**: whenever `scan_token` answers with an operator, that operator is a prefix of
    the remaining input, the scanner advances by its length, and no operator of the table that is
    also a prefix is longer. -/
theorem op_longest_match {cs : List Char} {o : Operator} {n : Nat}
    (h : scanToken cs = .ok (.operator o, n)) :
    n = o.str.length ∧ o.str <+: cs ∧ ∀ o' : Operator, o'.str <+: cs → o'.str.length ≤ o.str.length := by
  obtain ⟨hn, hc⟩ := op_cases h
  refine ⟨hn, ?_⟩
  rcases hc with h3 | ⟨h3, h2⟩ | ⟨h3, h2, c, tl, rfl, h1⟩
  · have hs := opFromChars_some h3
    refine ⟨by rw [hs]; exact List.take_prefix 3 cs, ?_⟩
    intro o' hp
    have h1 := (op_len o').2
    have h2 : o'.str.length ≤ cs.length := hp.length_le
    rw [hs, List.length_take]; omega
  · have hs := opFromChars_some h2
    refine ⟨by rw [hs]; exact List.take_prefix 2 cs, ?_⟩
    intro o' hp
    have hl := lookup_of_prefix hp
    have h1 := op_len o'
    have hlen : o'.str.length ≤ cs.length := hp.length_le
    rw [hs, List.length_take]
    by_cases h33 : o'.str.length = 3
    · rw [h33, h3] at hl; simp at hl
    · by_cases hc : cs.length ≤ 1
      · have : cs.take 3 = cs.take 2 := by
          rw [List.take_of_length_le (by omega), List.take_of_length_le (by omega)]
        rw [this, h2] at h3; simp at h3
      · omega
  · have hs := opFromChars_some h1
    refine ⟨by rw [hs]; exact ⟨tl, rfl⟩, ?_⟩
    intro o' hp
    have hl := lookup_of_prefix hp
    have hb := op_len o'
    rw [hs]
    by_cases h33 : o'.str.length = 3
    · rw [h33, h3] at hl; simp at hl
    · by_cases h22 : o'.str.length = 2
      · rw [h22, h2] at hl; simp at hl
      · simp; omega

/-- the same against the specification's own operator list -/
theorem op_longest_match_spec {cs : List Char} {o : Operator} {n : Nat}
    (h : scanToken cs = .ok (.operator o, n)) : LongestOp o.str cs := by
  obtain ⟨_, hp, hmax⟩ := op_longest_match h
  refine ⟨op_table_sound o, hp, ?_⟩
  intro s' hs' hp'
  obtain ⟨o', ho'⟩ := op_table_complete _ hs'
  rw [← ho'] at hp' ⊢
  exact hmax o' hp'

/-! ### 4. identifiers and keywords -/

/-- whenever `scan_token` answers with a keyword, the maximal letter/digit run at the input is that
    keyword's spelling — so a keyword followed by more identifier characters (`forx`, `func_`) is not
    a keyword, and the token advances by the whole run -/
theorem keyword_is_maximal_run {cs : List Char} {k : Keyword} {n : Nat}
    (h : scanToken cs = .ok (.keyword k, n)) :
    k.str = scanIdentifier cs ∧ n = k.str.length := by
  obtain ⟨c, tl, rfl, _, hn, hm⟩ := word_tail h (.inl ⟨k, rfl⟩)
  split at hm
  · rename_i k' hk
    simp only [Token.keyword.injEq] at hm
    subst hm
    have := kwFromChars_some hk
    exact ⟨this, by rw [hn, this]⟩
  · simp at hm

/-- whenever `scan_token` answers with an identifier, its text is the maximal letter/digit run, it
    starts with a letter, and it is none of the 25 keywords -/
theorem ident_is_maximal_run {cs : List Char} {x : List Char} {n : Nat}
    (h : scanToken cs = .ok (.literal .Ident x, n)) :
    x = scanIdentifier cs ∧ n = x.length ∧ ¬ IsSpecKeyword x ∧ (∃ c tl, cs = c :: tl ∧ isLetterC c = true) := by
  obtain ⟨c, tl, rfl, hl, hn, hm⟩ := word_tail h (.inr ⟨x, rfl⟩)
  split at hm
  · simp at hm
  · rename_i hk
    simp only [Token.literal.injEq, true_and] at hm
    subst hm
    refine ⟨rfl, hn, ?_, c, tl, rfl, hl⟩
    intro hkw
    have := (kwFromChars_iff_spec _).2 hkw
    rw [hk] at this; simp at this

/-- a word of the input becomes a keyword token iff it is one of the spec's 25 keywords -/
theorem word_keyword_iff {cs : List Char} {tok : Token} {n : Nat} (h : scanToken cs = .ok (tok, n))
    (hk : (∃ k, tok = .keyword k) ∨ (∃ x, tok = .literal .Ident x)) :
    (∃ k, tok = .keyword k) ↔ IsSpecKeyword (scanIdentifier cs) := by
  obtain ⟨c, tl, rfl, _, _, hm⟩ := word_tail h hk
  rw [← kwFromChars_iff_spec]
  split at hm
  · rename_i k hk'; simp [hk', hm]
  · rename_i hk'; simp [hk', hm]

/-! ### 5. non-vacuity -/

instance {ε α} [DecidableEq ε] [DecidableEq α] : DecidableEq (Except ε α)
  | .ok a, .ok b => if h : a = b then isTrue (h ▸ rfl) else isFalse (fun e => h (Except.ok.inj e))
  | .error a, .error b => if h : a = b then isTrue (h ▸ rfl) else isFalse (fun e => h (Except.error.inj e))
  | .ok _, .error _ => isFalse (fun e => nomatch e)
  | .error _, .ok _ => isFalse (fun e => nomatch e)

example : scanToken "<<=x".toList = .ok (.operator .ShlAssign, 3) := by decide
example : scanToken "<<x".toList = .ok (.operator .Shl, 2) := by decide
example : scanToken "<-x".toList = .ok (.operator .Arrow, 2) := by decide
example : scanToken "&^=".toList = .ok (.operator .AndNotAssign, 3) := by decide
example : LongestOp Operator.ShlAssign.str "<<=x".toList :=
  op_longest_match_spec (cs := "<<=x".toList) (o := .ShlAssign) (n := 3) (by decide)
example : scanToken "for x".toList = .ok (.keyword .For, 3) := by decide
example : scanToken "forx y".toList = .ok (.literal .Ident "forx".toList, 4) := by decide

end Gosyn.Props.C07
