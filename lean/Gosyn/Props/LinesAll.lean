import Gosyn.Props.Lines
import Gosyn.Props.C07b
/-!
The line table after a whole text.  `Props/Lines.lean` keeps the table exact over one `next_token`; carried
through the token loop of `Model/ScanAll.lean`:

* `scanTokens_lines`: when the loop ends without an error, the scanner stands at the end of the text and its
  line table is exactly the list of offsets that follow the text's newlines, in order — whatever mixture of
  white space, comments, raw strings and CR LF line ends the newlines sit in;
* `scanTokens_lines_sorted`: hence `line_of` / `line_info` are evaluated on a strictly increasing table
  (hypothesis of `C16.lineInfo_sorted`, `C12.lineOf_sorted`) at every point of the loop.
-/
namespace Gosyn.Props.LinesAll
open Gosyn.Gen Gosyn.Model
open Gosyn.Props.Lines Gosyn.Props.C07b

theorem nextToken_none_pos {s s' : Scanner} (h : s.nextToken = (.ok none, s')) : s'.pos ≥ s'.src.size := by
  unfold Scanner.nextToken at h
  split at h
  · simp at h
  · simp only at h
    split at h
    · rename_i hge
      simp only [Prod.mk.injEq, true_and] at h
      rw [← h]; exact hge
    · split at h <;> simp at h

theorem scanTokensAcc_lines (fuel : Nat) (s : Scanner) (acc : List (Nat × Token)) (hl : LinesOK s)
    (he : (scanTokensAcc fuel s acc).err = none) (hf : (scanTokensAcc fuel s acc).fuelOut = false) :
    LinesOK (scanTokensAcc fuel s acc).final ∧ (scanTokensAcc fuel s acc).final.src = s.src ∧
      (scanTokensAcc fuel s acc).final.pos = s.src.size := by
  induction fuel generalizing s acc with
  | zero => simp [scanTokensAcc] at hf
  | succ fuel ih =>
    unfold scanTokensAcc at he hf ⊢
    split at he
    · rename_i pt s' hn
      have hsrc : s'.src = s.src := by have := nextToken_src s; rw [hn] at this; exact this
      simp only [hn] at hf ⊢
      have := ih s' (pt :: acc) (linesOK_next s s' _ hl hn) he hf
      rw [hsrc] at this
      exact this
    · rename_i s' hn
      have hsrc : s'.src = s.src := by have := nextToken_src s; rw [hn] at this; exact this
      simp only [hn]
      have hok := linesOK_next s s' _ hl hn
      have hge := nextToken_none_pos hn
      exact ⟨hok, hsrc, by have := hok.1; rw [hsrc] at this hge; omega⟩
    · simp at he

/-- **the table after a whole text is the text's line-start table** -/
theorem scanTokens_lines (src : Array Char) (profile : Profile)
    (h : (scanTokens { src := src, profile := profile }).err = none) :
    (scanTokens { src := src, profile := profile }).final.lines.toList = newlineStarts 0 src.toList := by
  have h0 : LinesOK ({ src := src, profile := profile } : Scanner) := by
    have := linesOK_init src
    exact ⟨this.1, this.2⟩
  obtain ⟨hok, hsrc, hpos⟩ := scanTokensAcc_lines _ _ [] h0 h (scanTokens_fuel _)
  have := hok.2
  unfold scanTokens
  rw [this, hsrc, hpos]
  congr 1
  exact List.take_of_length_le (by simp)

theorem scanTokens_lines_sorted (src : Array Char) (profile : Profile)
    (h : (scanTokens { src := src, profile := profile }).err = none) :
    Gosyn.Props.C16.Sorted (scanTokens { src := src, profile := profile }).final.lines := by
  have h0 : LinesOK ({ src := src, profile := profile } : Scanner) := by
    have := linesOK_init src
    exact ⟨this.1, this.2⟩
  exact sorted_of_linesOK _ (scanTokensAcc_lines _ _ [] h0 h (scanTokens_fuel _)).1

/-! ### `line_of` is the true line number -/

theorem newlineStarts_length (a : Nat) (cs : List Char) : (newlineStarts a cs).length = cs.count '\n' := by
  induction cs generalizing a with
  | nil => simp [newlineStarts]
  | cons c cs ih =>
    simp only [newlineStarts]
    by_cases hc : c = '\n'
    · subst hc; simp [ih]
    · simp [hc, ih]

/-- in a list that is `≤ pos` on its first `k` entries and `> pos` after them, exactly `k` entries are `≤ pos` -/
theorem filter_length_of_split (l : List Nat) (pos k : Nat) (hk : k ≤ l.length)
    (h1 : ∀ j, j < k → ∀ x, l[j]? = some x → x ≤ pos) (h2 : ∀ j, k ≤ j → ∀ x, l[j]? = some x → pos < x) :
    (l.filter (· ≤ pos)).length = k := by
  induction l generalizing k with
  | nil => simp at hk; simp [hk]
  | cons a l ih =>
    cases k with
    | zero =>
      have : ∀ x ∈ a :: l, ¬ (x ≤ pos) := by
        intro x hx
        obtain ⟨j, hj⟩ := List.getElem?_of_mem hx
        have := h2 j (Nat.zero_le _) x hj
        omega
      rw [List.filter_eq_nil_iff.2 (by simpa using this)]
      rfl
    | succ k =>
      have ha : a ≤ pos := h1 0 (by omega) a (by simp)
      have := ih k (by simp at hk; omega)
        (fun j hj x hx => h1 (j + 1) (by omega) x (by simpa using hx))
        (fun j hj x hx => h2 (j + 1) (by omega) x (by simpa using hx))
      simp [List.filter, ha, this]

/-- **`line_of` is the true line number**: in every state with an exact table (every state the token loop
    passes through), for every offset up to the scanner position, `line_of` answers one plus the number of
    newlines of the text before that offset -/
theorem lineOf_true (s : Scanner) (h : LinesOK s) (pos : Nat) (hp : pos ≤ s.pos) :
    lineOfTable s.lines pos = 1 + (s.src.toList.take pos).count '\n' := by
  obtain ⟨k, hk, h1, h2, e, _⟩ := lineOf_reachable s h pos
  rw [e]
  have hcount : (s.lines.toList.filter (· ≤ pos)).length = k := by
    apply filter_length_of_split _ _ _ (by simpa using hk)
    · intro j hj x hx
      have hjs : j < s.lines.size := by omega
      have := h1 j hj
      rw [getElem!_pos s.lines j hjs] at this
      have hx' : s.lines.toList[j]? = some s.lines[j] := by simp [hjs]
      rw [hx'] at hx; cases hx; exact this
    · intro j hj x hx
      have hjs : j < s.lines.size := by
        have := (List.getElem?_eq_some_iff.1 hx).1; simpa using this
      have := h2 j hj hjs
      rw [getElem!_pos s.lines j hjs] at this
      have hx' : s.lines.toList[j]? = some s.lines[j] := by simp [hjs]
      rw [hx'] at hx; cases hx; exact this
  rw [h.2, filter_newlineStarts, newlineStarts_length] at hcount
  simp only [Nat.sub_zero, List.take_take] at hcount
  rw [Nat.min_eq_left hp] at hcount
  omega

theorem filter_eq_take_of_split (l : List Nat) (pos k : Nat) (hk : k ≤ l.length)
    (h1 : ∀ j, j < k → ∀ x, l[j]? = some x → x ≤ pos) (h2 : ∀ j, k ≤ j → ∀ x, l[j]? = some x → pos < x) :
    l.filter (· ≤ pos) = l.take k := by
  induction l generalizing k with
  | nil => simp
  | cons a l ih =>
    cases k with
    | zero =>
      have : ∀ x ∈ a :: l, ¬ (x ≤ pos) := by
        intro x hx
        obtain ⟨j, hj⟩ := List.getElem?_of_mem hx
        have := h2 j (Nat.zero_le _) x hj
        omega
      rw [List.filter_eq_nil_iff.2 (by simpa using this)]
      rfl
    | succ k =>
      have ha : a ≤ pos := h1 0 (by omega) a (by simp)
      have := ih k (by simp at hk; omega)
        (fun j hj x hx => h1 (j + 1) (by omega) x (by simpa using hx))
        (fun j hj x hx => h2 (j + 1) (by omega) x (by simpa using hx))
      simp [List.filter, ha, this]

/-- **`line_info` in readable form** (C16): in every state with an exact table, for every offset up to the
    scanner position, the column is the distance from the offset that follows the last newline before it (the
    offset itself on the first line), and the line is the number of newlines before it — the true line minus
    one — except on the first line, where it is 1 (known finding K2) -/
theorem lineInfo_true (s : Scanner) (h : LinesOK s) (pos : Nat) (hp : pos ≤ s.pos) :
    s.lineInfo pos = .ok (match (newlineStarts 0 (s.src.toList.take pos)).getLast? with
      | none => (1, pos)
      | some start => ((s.src.toList.take pos).count '\n', pos - start)) := by
  obtain ⟨k, hk, h1, h2, _, e⟩ := lineOf_reachable s h pos
  rw [e]
  have hf : s.lines.toList.filter (· ≤ pos) = s.lines.toList.take k := by
    apply filter_eq_take_of_split _ _ _ (by simpa using hk)
    · intro j hj x hx
      have hjs : j < s.lines.size := by omega
      have := h1 j hj
      rw [getElem!_pos s.lines j hjs] at this
      have hx' : s.lines.toList[j]? = some s.lines[j] := by simp [hjs]
      rw [hx'] at hx; cases hx; exact this
    · intro j hj x hx
      have hjs : j < s.lines.size := by
        have := (List.getElem?_eq_some_iff.1 hx).1; simpa using this
      have := h2 j hj hjs
      rw [getElem!_pos s.lines j hjs] at this
      have hx' : s.lines.toList[j]? = some s.lines[j] := by simp [hjs]
      rw [hx'] at hx; cases hx; exact this
  have hns : newlineStarts 0 (s.src.toList.take pos) = s.lines.toList.take k := by
    rw [← hf, h.2, filter_newlineStarts]
    simp only [Nat.sub_zero, List.take_take]
    rw [Nat.min_eq_left hp]
  have hcnt : (s.src.toList.take pos).count '\n' = k := by
    rw [← newlineStarts_length 0, hns]; simp; omega
  rw [hns]
  by_cases hk0 : k = 0
  · subst hk0; simp
  · have hkl : k - 1 < s.lines.size := by omega
    have hlast : (s.lines.toList.take k).getLast? = some s.lines[k - 1] := by
      rw [List.getLast?_eq_getElem?]
      simp only [List.length_take, Array.length_toList, Nat.min_eq_left hk]
      rw [List.getElem?_take_of_lt (by omega)]
      simp [hkl]
    rw [hlast, if_neg hk0, getElem!_pos s.lines (k - 1) hkl, hcnt]

/-- after a whole text: `line_of` is the true line number of every offset of the text -/
theorem scanTokens_lineOf_true (src : Array Char) (profile : Profile)
    (h : (scanTokens { src := src, profile := profile }).err = none) (pos : Nat) (hp : pos ≤ src.size) :
    lineOfTable (scanTokens { src := src, profile := profile }).final.lines pos =
      1 + (src.toList.take pos).count '\n' := by
  have h0 : LinesOK ({ src := src, profile := profile } : Scanner) := by
    have := linesOK_init src
    exact ⟨this.1, this.2⟩
  obtain ⟨hok, hsrc, hpos⟩ := scanTokensAcc_lines _ _ [] h0 h (scanTokens_fuel _)
  have := lineOf_true _ hok pos (by rw [hpos]; exact hp)
  rw [hsrc] at this
  exact this

end Gosyn.Props.LinesAll
