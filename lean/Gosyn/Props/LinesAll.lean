import Gosyn.Props.Lines
import Gosyn.Props.C07b
/-!
The line table after a whole text.  `Props/Lines.lean` keeps the table exact over one `next_token`; carried
through the token loop of `Model/ScanAll.lean`:

* `scanTokens_lines`: when the loop ends without an error, the scanner stands at the end of the text and its
  line table is exactly the list of offsets that follow the text's newlines, in order — whatever mixture of
  white space, comments, raw strings and CR LF line ends the newlines sit in;
* `scanTokens_lines_sorted`: hence `line_of` / `line_info` are evaluated on a strictly increasing table
  (hypothesis of `C16.lineInfo_sorted`, `C12.lineOf_sorted`) at every point of the loop.
-/
namespace Gosyn.Props.LinesAll
open Gosyn.Gen Gosyn.Model
open Gosyn.Props.Lines Gosyn.Props.C07b

theorem nextToken_none_pos {s s' : Scanner} (h : s.nextToken = (.ok none, s')) : s'.pos ≥ s'.src.size := by
  unfold Scanner.nextToken at h
  split at h
  · simp at h
  · simp only at h
    split at h
    · rename_i hge
      simp only [Prod.mk.injEq, true_and] at h
      rw [← h]; exact hge
    · split at h <;> simp at h

theorem scanTokensAcc_lines (fuel : Nat) (s : Scanner) (acc : List (Nat × Token)) (hl : LinesOK s)
    (he : (scanTokensAcc fuel s acc).err = none) (hf : (scanTokensAcc fuel s acc).fuelOut = false) :
    LinesOK (scanTokensAcc fuel s acc).final ∧ (scanTokensAcc fuel s acc).final.src = s.src ∧
      (scanTokensAcc fuel s acc).final.pos = s.src.size := by
  induction fuel generalizing s acc with
  | zero => simp [scanTokensAcc] at hf
  | succ fuel ih =>
    unfold scanTokensAcc at he hf ⊢
    split at he
    · rename_i pt s' hn
      have hsrc : s'.src = s.src := by have := nextToken_src s; rw [hn] at this; exact this
      simp only [hn] at hf ⊢
      have := ih s' (pt :: acc) (linesOK_next s s' _ hl hn) he hf
      rw [hsrc] at this
      exact this
    · rename_i s' hn
      have hsrc : s'.src = s.src := by have := nextToken_src s; rw [hn] at this; exact this
      simp only [hn]
      have hok := linesOK_next s s' _ hl hn
      have hge := nextToken_none_pos hn
      exact ⟨hok, hsrc, by have := hok.1; rw [hsrc] at this hge; omega⟩
    · simp at he

/-- **the table after a whole text is the text's line-start table** -/
theorem scanTokens_lines (src : Array Char) (profile : Profile)
    (h : (scanTokens { src := src, profile := profile }).err = none) :
    (scanTokens { src := src, profile := profile }).final.lines.toList = newlineStarts 0 src.toList := by
  have h0 : LinesOK ({ src := src, profile := profile } : Scanner) := by
    have := linesOK_init src
    exact ⟨this.1, this.2⟩
  obtain ⟨hok, hsrc, hpos⟩ := scanTokensAcc_lines _ _ [] h0 h (scanTokens_fuel _)
  have := hok.2
  unfold scanTokens
  rw [this, hsrc, hpos]
  congr 1
  exact List.take_of_length_le (by simp)

theorem scanTokens_lines_sorted (src : Array Char) (profile : Profile)
    (h : (scanTokens { src := src, profile := profile }).err = none) :
    Gosyn.Props.C16.Sorted (scanTokens { src := src, profile := profile }).final.lines := by
  have h0 : LinesOK ({ src := src, profile := profile } : Scanner) := by
    have := linesOK_init src
    exact ⟨this.1, this.2⟩
  exact sorted_of_linesOK _ (scanTokensAcc_lines _ _ [] h0 h (scanTokens_fuel _)).1

end Gosyn.Props.LinesAll
