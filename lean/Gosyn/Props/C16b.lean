import Gosyn.Props.LinesAll
import Gosyn.Props.C09
import Gosyn.Props.C10
/-!
C16, scanner side — **a scanner error is reported at the true place**.  When `next_token` fails, the code
locates the error with `line_info(token start + off)` on the table as it stands, after entering the line
starts of the text it had read before failing (`scanned`: the body of an unterminated string).  Shown here:

* `scanToken_region`: for every failure of `scan_token` that is not a panic, the `off` chars the location
  points past lie within the text and contain exactly the newlines of `scanned` (numeric failures point into
  the digits, which hold no newline; the unterminated string points at its end and has entered all its lines);
* `nextToken_error_true`: hence, from every state with an exact line table (every state the token loop passes
  through), the location of the error is `line_info` **on an exact table** of an offset not beyond it, which
  `LinesAll.lineInfo_true` reads off: true column, and the number of newlines before the offset as line
  (true line minus one; 1 on the first line — K2).
-/
namespace Gosyn.Props.C16b
open Gosyn.Gen Gosyn.Model
open Gosyn.Props.Lines Gosyn.Props.LinesAll Gosyn.Props.C09 Gosyn.Props.C10

/-- the first `off` chars of the text hold exactly the newlines of `scanned` -/
def RegionOK (cs : List Char) (f : Fail) : Prop :=
  f.off ≤ cs.length ∧ ∀ a, newlineStarts a (cs.take f.off) = newlineStarts a f.scanned

theorem region_zero (cs : List Char) (f : Fail) (h0 : f.off = 0) (hs : f.scanned = []) : RegionOK cs f := by
  refine ⟨by omega, fun a => ?_⟩
  rw [h0, hs]; simp

theorem newlineStarts_noNL (a : Nat) (l : List Char) (h : '\n' ∉ l) : newlineStarts a l = [] := by
  induction l generalizing a with
  | nil => rfl
  | cons c l ih =>
    have hc : c ≠ '\n' := fun e => h (by simp [e])
    simp only [newlineStarts, hc, if_false]
    exact ih _ (fun hm => h (by simp [hm]))

theorem prefix_take {p cs : List Char} (h : p <+: cs) : cs.take p.length = p := by
  obtain ⟨t, rfl⟩ := h; simp

theorem region_prefix (cs p : List Char) (f : Fail) (hp : p <+: cs) (hn : '\n' ∉ p) (ho : f.off = p.length)
    (hs : f.scanned = []) : RegionOK cs f := by
  refine ⟨by rw [ho]; exact hp.length_le, fun a => ?_⟩
  rw [ho, prefix_take hp, hs, newlineStarts_noNL a p hn]; rfl

theorem scanDigits_noNL (V : Char → Bool) (hV : V '\n' = false) (cs : List Char) : '\n' ∉ scanDigits V cs := by
  intro h
  rcases scanDigitsGo_chars V true cs _ h with h | h
  · rw [hV] at h; cases h
  · exact absurd h (by decide)

theorem numPrefix_noNL (cs : List Char) : '\n' ∉ (numPrefix cs).2 := by
  unfold numPrefix
  split
  · simp
  · simp
  · dsimp only
    split
    · rename_i h
      intro hm
      rcases List.mem_append.1 hm with hm | hm
      · simp only [Bool.or_eq_true, decide_eq_true_eq] at h
        rcases h with h | h <;> rw [h] at hm <;> simp at hm
      · exact scanDigits_noNL _ (by decide) _ hm
    · split
      · rename_i h
        intro hm
        rcases List.mem_append.1 hm with hm | hm
        · simp only [Bool.or_eq_true, decide_eq_true_eq] at h
          rcases h with h | h <;> rw [h] at hm <;> simp at hm
        · exact scanDigits_noNL _ (by decide) _ hm
      · split
        · rename_i h
          intro hm
          rcases List.mem_append.1 hm with hm | hm
          · simp only [Bool.or_eq_true, decide_eq_true_eq] at h
            rcases h with h | h <;> rw [h] at hm <;> simp at hm
          · exact scanDigits_noNL _ (by decide) _ hm
        · exact scanDigits_noNL _ (by decide) _

theorem facPartOf_noNL (radix : Nat) (cs : List Char) : '\n' ∉ facPartOf radix cs := by
  unfold facPartOf
  split
  · intro hm
    rcases List.mem_cons.1 hm with hm | hm
    · exact absurd hm (by decide)
    · split at hm
      · exact scanDigits_noNL _ (by decide) _ hm
      · exact scanDigits_noNL _ (by decide) _ hm
  · simp

theorem expPartOf_noNL (cs : List Char) : '\n' ∉ expPartOf cs := by
  unfold expPartOf
  split
  · rename_i e r
    split
    · rename_i he
      have hne : e ≠ '\n' := by
        intro h; subst h; simp at he
      split
      · rename_i sg r'
        split
        · rename_i hsg
          have hsn : sg ≠ '\n' := by intro h; subst h; simp at hsg
          intro hm
          simp only [List.mem_cons] at hm
          rcases hm with hm | hm | hm
          · exact hne hm.symm
          · exact hsn hm.symm
          · exact scanDigits_noNL _ (by decide) _ hm
        · intro hm
          simp only [List.mem_cons] at hm
          rcases hm with hm | hm
          · exact hne hm.symm
          · exact scanDigits_noNL _ (by decide) _ hm
      · intro hm; simp at hm; exact hne hm.symm
    · simp
  · simp

theorem numFinish_region {radix cs numlit fl f} (h : numFinish radix cs numlit fl = .error f) :
    f.off = 0 ∧ f.scanned = [] := by
  unfold numFinish at h
  repeat' first | split at h | dsimp only at h
  all_goals (first | (cases h; done) | skip)
  all_goals (simp only [Except.error.injEq] at h; subst h; exact ⟨rfl, rfl⟩)

theorem numExp_region {radix cs mant fac exp f} (hp : mant ++ exp <+: cs) (hn : '\n' ∉ mant ++ exp)
    (h : numExp radix cs mant fac exp = .error f) : RegionOK cs f := by
  unfold numExp at h
  repeat' first | split at h | dsimp only at h
  all_goals first
    | (simp only [Except.error.injEq] at h; subst h
       exact region_prefix cs (mant ++ exp) _ hp hn (by simp) rfl)
    | (obtain ⟨h0, hs⟩ := numFinish_region h; exact region_zero cs f h0 hs)

theorem numMant_region {radix cs ip fp f} (hp : ip ++ fp <+: cs) (hn : '\n' ∉ ip ++ fp)
    (h : numMant radix cs ip fp = .error f) : RegionOK cs f := by
  unfold numMant at h
  simp only at h
  repeat' first | split at h | dsimp only at h
  all_goals first
    | (simp only [Except.error.injEq] at h; subst h
       exact region_prefix cs (ip ++ fp) _ hp hn (by simp) rfl)
    | (refine numExp_region (prefix_append_drop hp (expPartOf_prefix _)) ?_ h
       intro hm
       rcases List.mem_append.1 hm with hm | hm
       · exact hn hm
       · exact expPartOf_noNL _ hm)

theorem scanLitNumber_region {cs f} (h : scanLitNumber cs = .error f) : RegionOK cs f := by
  unfold scanLitNumber scanLitNumberWith at h
  have hip := numPrefix_prefix cs
  have hin := numPrefix_noNL cs
  repeat' first | split at h | dsimp only at h
  all_goals first
    | (simp only [Except.error.injEq] at h; subst h
       exact region_prefix cs (numPrefix cs).2 _ hip hin rfl rfl)
    | (simp only [Except.error.injEq] at h; subst h
       exact region_zero cs _ rfl rfl)
    | (refine numMant_region (prefix_append_drop hip (facPartOf_prefix _ _)) ?_ h
       intro hm
       rcases List.mem_append.1 hm with hm | hm
       · exact hin hm
       · exact facPartOf_noNL _ _ hm)

theorem rawBody_prefix (body : List Char) : (rawBody body).1 <+: body := by
  induction body with
  | nil => simp [rawBody]
  | cons c cs ih =>
    unfold rawBody
    split
    · rename_i hc; subst hc; exact ⟨cs, rfl⟩
    · obtain ⟨t, ht⟩ := ih
      exact ⟨t, by simp [ht]⟩

theorem region_scanned (cs p : List Char) (f : Fail) (hp : p <+: cs) (ho : f.off = p.length)
    (hs : f.scanned = p) : RegionOK cs f := by
  refine ⟨by rw [ho]; exact hp.length_le, fun a => ?_⟩
  rw [ho, prefix_take hp, hs]

theorem scanRune_fail {q cs f} (h : scanRune q cs = .error f) : f.off = 0 ∧ f.scanned = [] ∧ f.panic = false := by
  have hm : ∀ valid n l e, matchN valid n l = .error e → e.off = 0 ∧ e.scanned = [] ∧ e.panic = false := by
    intro valid n
    induction n with
    | zero => intro l e h; simp [matchN] at h
    | succ n ih =>
      intro l e h
      cases l with
      | nil => simp only [matchN, Except.error.injEq] at h; subst h; exact ⟨rfl, rfl, rfl⟩
      | cons c l =>
        simp only [matchN] at h
        split at h
        · split at h
          · cases h
          · rename_i e' he; simp only [Except.error.injEq] at h; subst h; exact ih l _ he
        · simp only [Except.error.injEq] at h; subst h; exact ⟨rfl, rfl, rfl⟩
  unfold scanRune at h
  repeat' first | split at h | dsimp only at h
  all_goals first
    | (cases h; done)
    | (simp only [Except.error.injEq] at h; subst h; exact ⟨rfl, rfl, rfl⟩)
    | (simp only [Except.error.injEq] at h; subst h; exact hm _ _ _ _ ‹_›)

theorem strBody_fail {fuel cs f} (h : strBody fuel cs = .error f) : f.off = 0 ∧ f.scanned = [] ∧ f.panic = false := by
  induction fuel generalizing cs with
  | zero => simp [strBody] at h
  | succ fuel ih =>
    cases cs with
    | nil => simp [strBody] at h
    | cons c cs =>
      simp only [strBody] at h
      split at h
      · rename_i e he; simp only [Except.error.injEq] at h; subst h; exact scanRune_fail he
      · split at h
        · cases h
        · split at h
          · rename_i e he; simp only [Except.error.injEq] at h; subst h; exact ih he
          · cases h

theorem scanLitString_region {cs f} (h : scanLitString cs = .error f) (hp : f.panic = false) : RegionOK cs f := by
  unfold scanLitString at h
  cases cs with
  | nil => simp only [Except.error.injEq] at h; subst h; simp at hp
  | cons quote body =>
    simp only at h
    by_cases hq : quote = '`'
    · simp only [hq, if_true] at h
      split at h
      · cases h
      · simp only [Except.error.injEq] at h; subst h
        obtain ⟨t, ht⟩ := rawBody_prefix body
        exact region_scanned _ ('`' :: (rawBody body).1) _ ⟨t, by rw [hq]; simp [ht]⟩ (by simp; omega) rfl
    · simp only [hq, if_false] at h
      split at h
      · rename_i e he
        simp only [Except.error.injEq] at h; subst h
        obtain ⟨h0, hs, _⟩ := strBody_fail he
        exact region_zero _ _ h0 hs
      · rename_i text terminated he
        split at h
        · cases h
        · simp only [Except.error.injEq] at h; subst h
          obtain ⟨t, ht⟩ := strBody_prefix _ _ _ _ he
          exact region_scanned _ (quote :: text) _ ⟨t, by simp [ht]⟩ (by simp; omega) rfl

theorem scanLitRune_fail {cs f} (h : scanLitRune cs = .error f) : f.off = 0 ∧ f.scanned = [] := by
  unfold scanLitRune at h
  repeat' first | split at h | dsimp only at h
  all_goals first
    | (cases h; done)
    | (simp only [Except.error.injEq] at h; subst h; exact ⟨rfl, rfl⟩)
    | (simp only [Except.error.injEq] at h; subst h
       exact ⟨(scanRune_fail ‹scanRune _ _ = Except.error _›).1, (scanRune_fail ‹scanRune _ _ = Except.error _›).2.1⟩)

/-- **where a failure of `scan_token` points**: not beyond the text, past exactly the newlines of `scanned` -/
theorem scanToken_region {cs : List Char} {f : Fail} (h : scanToken cs = .error f) (hp : f.panic = false) :
    RegionOK cs f := by
  cases h3 : opFromChars (cs.take 3) with
  | some op => unfold scanToken at h; simp [h3] at h
  | none =>
    by_cases hc1 : cs.take 2 = ['/', '/']
    · unfold scanToken at h; simp [h3, hc1] at h
    · by_cases hc2 : cs.take 2 = ['/', '*']
      · unfold scanToken at h; simp [h3, hc2] at h
        split at h
        · cases h
        · rename_i e he
          simp only [Except.error.injEq] at h; subst h
          unfold scanGeneralComment at he
          split at he
          · cases he
          · simp only [Except.error.injEq] at he; subst he; exact region_zero _ _ rfl rfl
      · cases h2 : opFromChars (cs.take 2) with
        | some op => unfold scanToken at h; simp [h3, hc1, hc2, h2] at h
        | none =>
          rw [Gosyn.Props.C07.scanToken_tail h3 hc1 hc2 h2] at h
          cases cs with
          | nil => simp only [Except.error.injEq] at h; subst h; simp at hp
          | cons c tl =>
            simp only at h
            repeat' split at h
            all_goals (first | (cases h; done) | skip)
            all_goals (simp only [Except.error.injEq] at h; subst h)
            all_goals first
              | exact region_zero _ _ rfl rfl
              | exact scanLitNumber_region ‹scanLitNumber _ = Except.error _›
              | exact scanLitString_region ‹scanLitString _ = Except.error _› hp
              | exact region_zero _ _ (scanLitRune_fail ‹scanLitRune _ = Except.error _›).1 (scanLitRune_fail ‹scanLitRune _ = Except.error _›).2

/-- **a scanner error is reported at the true place**: from a state with an exact line table, the location
    carried by a scanning error is, for some offset `q` of the text at or after the current position (the start
    of the failing token plus the failure's offset), the true column of `q` and the number of newlines before `q`
    (the true line minus one; 1 on the first line — known finding K2) -/
theorem nextToken_error_true (s s' : Scanner) (h : LinesOK s) (e : ScanErr)
    (hn : s.nextToken = (.error (.scan e), s')) :
    ∃ q, s.pos ≤ q ∧ q ≤ s.src.size ∧
      e.loc = (match (newlineStarts 0 (s.src.toList.take q)).getLast? with
        | none => (1, q)
        | some start => ((s.src.toList.take q).count '\n', q - start)) := by
  have h1 : LinesOK (Scanner.skipWhitespace { s with semi := false }) := linesOK_skip _ ⟨h.1, h.2⟩
  have hpos1 : s.pos ≤ (Scanner.skipWhitespace { s with semi := false }).pos := by
    simp [Scanner.skipWhitespace]
  have hsrc1 : (Scanner.skipWhitespace { s with semi := false }).src = s.src := by simp [Scanner.skipWhitespace]
  unfold Scanner.nextToken at hn
  split at hn
  · simp at hn
  · simp only at hn
    split at hn
    · simp at hn
    · generalize hs1 : Scanner.skipWhitespace { s with semi := false } = s1 at hn h1 hpos1 hsrc1
      split at hn
      · rename_i f hf
        simp only [Prod.mk.injEq, Except.error.injEq] at hn
        obtain ⟨hn, _⟩ := hn
        by_cases hp : f.panic = true
        · simp [hp] at hn
        · have hp' : f.panic = false := by simpa using hp
          simp only [hp', Bool.false_eq_true, if_false] at hn
          obtain ⟨hoff, hnl⟩ := scanToken_region hf hp'
          have hlen := Gosyn.Props.Lines.rest_length s1
          have hle : s1.pos + f.off ≤ s1.src.size := by have := h1.1; omega
          have h3 := linesOK_advance s1 f.off false h1 hle
          rw [hnl s1.pos] at h3
          have hli := lineInfo_true _ h3 (s1.pos + f.off) (Nat.le_refl _)
          unfold Scanner.errorAt at hn
          have hsame : ({ s1 with lines := s1.lines ++ (newlineStarts s1.pos f.scanned).toArray } : Scanner).lineInfo (s1.pos + f.off)
              = ({ s1 with pos := s1.pos + f.off, semi := false, lines := s1.lines ++ (newlineStarts s1.pos f.scanned).toArray } : Scanner).lineInfo (s1.pos + f.off) := rfl
          rw [hsame, hli] at hn
          simp only [SErr.scan.injEq] at hn
          refine ⟨s1.pos + f.off, by omega, by rw [← hsrc1]; exact hle, ?_⟩
          subst hn
          simp only [hsrc1]
          cases (newlineStarts 0 (List.take (s1.pos + f.off) s.src.toList)).getLast? <;> rfl
      · first | (cases hn; done) | (simp at hn; done)

open Gosyn.Props.C07b in
theorem scanTokensAcc_error_true (fuel : Nat) (s : Scanner) (acc : List (Nat × Token)) (hl : LinesOK s) (e : ScanErr)
    (he : (scanTokensAcc fuel s acc).err = some (.scan e)) :
    ∃ q, q ≤ s.src.size ∧
      e.loc = (match (newlineStarts 0 (s.src.toList.take q)).getLast? with
        | none => (1, q)
        | some start => ((s.src.toList.take q).count '\n', q - start)) := by
  induction fuel generalizing s acc with
  | zero => simp [scanTokensAcc] at he
  | succ fuel ih =>
    unfold scanTokensAcc at he
    split at he
    · rename_i pt s' hn
      have hsrc : s'.src = s.src := by have := nextToken_src s; rw [hn] at this; exact this
      have := ih s' _ (linesOK_next s s' _ hl hn) he
      rw [hsrc] at this
      exact this
    · simp at he
    · rename_i e' s' hn
      simp only [Option.some.injEq] at he
      subst he
      obtain ⟨q, _, hq, hloc⟩ := nextToken_error_true s s' hl e hn
      exact ⟨q, hq, hloc⟩

/-- **C16, scanner side, whole text**: when the token loop ends in a scanning error, the error's location is,
    for some offset `q` of the text, the true column of `q` and the number of newlines before `q` (the true line
    minus one; 1 on the first line — K2) -/
theorem scanTokens_error_true (src : Array Char) (profile : Profile) (e : ScanErr)
    (he : (scanTokens { src := src, profile := profile }).err = some (.scan e)) :
    ∃ q, q ≤ src.size ∧
      e.loc = (match (newlineStarts 0 (src.toList.take q)).getLast? with
        | none => (1, q)
        | some start => ((src.toList.take q).count '\n', q - start)) := by
  have h0 : LinesOK ({ src := src, profile := profile } : Scanner) := by
    have := linesOK_init src
    exact ⟨this.1, this.2⟩
  exact scanTokensAcc_error_true _ _ [] h0 e he

end Gosyn.Props.C16b
