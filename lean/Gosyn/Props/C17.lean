import Gosyn.Model.Utf8
import Gosyn.Model.Scanner
/-!
C17 — the only `unsafe` of the crate is `from_utf8_unchecked` in `Scanner::next_nstr`.

`Model/Utf8.lean` models `next_nstr` at the byte level exactly as written (`indices`, byte slice) and
proves that for every source, every position inside it and every `n` the slice is the UTF-8 encoding
of the next `n` chars — hence valid UTF-8 — and that neither index can be out of range.  The scanner
model (`Model/Scanner.lean`) uses the char-level view `cs.take n`; the theorems below are what
licenses that.
-/
namespace Gosyn.Props.C17
open Gosyn.Model Gosyn.Model.Utf8

/-- full statement: every slice handed to `from_utf8_unchecked` is valid UTF-8 -/
def C17_full : Prop :=
  ∀ (src : List Char) (pos n : Nat), pos < src.length → valid (nextNstrBytes src pos n)

theorem C17_holds : C17_full := fun src pos n h => nextNstr_valid src pos n h

/-- the bytes are those of the chars the scanner model works with -/
theorem nstr_is_take (src : List Char) (pos n : Nat) (h : pos < src.length) :
    nextNstrBytes src pos n = enc ((src.drop pos).take n) := nextNstr_eq src pos n h

/-- `next_token` tests `pos >= chars.len()` before it calls `scan_token`, and `scan_token` is the only
    caller of `next_nstr` besides `scan_lit_number` (which runs inside `scan_token`): whenever the
    model's `nextToken` reaches `scanToken`, the remaining input is non-empty, which is the hypothesis
    `pos < src.length` of `C17_holds`. -/
theorem rest_nonempty_of_inside (s : Scanner) (h : s.pos < s.src.size) : s.rest ≠ [] := by
  unfold Scanner.rest
  intro hnil
  have : (s.src.extract s.pos s.src.size).toList.length = 0 := by rw [hnil]; rfl
  simp at this
  omega

/-- the version of the code before the repair violated the property -/
theorem C17_old_cex : ¬ valid (nextNstrBytesOld ['a', 'é'] 0 2) := old_cex

example : valid (nextNstrBytes ['a', 'é', '世', '😀'] 1 2) := nextNstr_valid _ 1 2 (by decide)

end Gosyn.Props.C17
