import Gosyn.Props.C10b
import Gosyn.Props.C07
/-!
C10 at the token level: a text that starts with a quote is handed to the rune / string scanner (no
operator or comment rule fires first), so `scan_token` returns a `Char` / `String` literal token with
text `t` exactly when `t` is a `rune_lit` / `string_lit` of the spec that starts the text.
-/
namespace Gosyn.Props.C10
open Gosyn.Gen Gosyn.Model Gosyn.Spec Gosyn.Props.C07

def headNotQuote : List Char → Bool
  | c :: _ => c != '\'' && c != '"' && c != '`'
  | [] => true

/-- no operator starts with a quote character -/
theorem op_quote_table : ∀ o : Operator, headNotQuote o.str = true := by
  intro o; cases o <;> rfl

theorem opFromChars_quote (c : Char) (tl : List Char) (hq : c = '\'' ∨ c = '"' ∨ c = '`') :
    opFromChars (c :: tl) = none := by
  cases h : opFromChars (c :: tl) with
  | none => rfl
  | some o =>
    have hs := opFromChars_some h
    have := op_quote_table o
    rw [hs] at this
    rcases hq with rfl | rfl | rfl <;> simp [headNotQuote] at this

theorem scanToken_quote (c : Char) (tl : List Char) (hq : c = '\'' ∨ c = '"' ∨ c = '`') :
    scanToken (c :: tl) =
      if c = '\'' then
        (match scanLitRune (c :: tl) with
         | .ok r => .ok (.literal .Char r, r.length)
         | .error e => .error e)
      else
        (match scanLitString (c :: tl) with
         | .ok r => .ok (.literal .String r, r.length)
         | .error e => .error e) := by
  have h3 : opFromChars ((c :: tl).take 3) = none := opFromChars_quote c _ hq
  have h2 : opFromChars ((c :: tl).take 2) = none := opFromChars_quote c _ hq
  have hne : c ≠ '/' := by rcases hq with rfl | rfl | rfl <;> decide
  have hc1 : (c :: tl).take 2 ≠ ['/', '/'] := by
    intro e; simp only [List.take_succ_cons, List.cons.injEq] at e; exact hne e.1
  have hc2 : (c :: tl).take 2 ≠ ['/', '*'] := by
    intro e; simp only [List.take_succ_cons, List.cons.injEq] at e; exact hne e.1
  rw [scanToken_tail h3 hc1 hc2 h2]
  have hnd : isDecimalDigit c = false := by rcases hq with rfl | rfl | rfl <;> decide
  have hndot : c ≠ '.' := by rcases hq with rfl | rfl | rfl <;> decide
  simp only [hnd, hndot, decide_false, Bool.false_and, Bool.or_self, Bool.false_eq_true, if_false]
  rcases hq with rfl | rfl | rfl
  · simp only [if_true]; rfl
  · simp only [show ('"' : Char) ≠ '\'' by decide, if_false, decide_true, Bool.true_or, if_true]; rfl
  · simp only [show ('`' : Char) ≠ '\'' by decide, if_false, decide_true, Bool.or_true, if_true]; rfl

/-- **C10 at the token level, runes**: `scan_token` returns the rune token `t` iff `t` is a `rune_lit` of
    the spec that starts the text -/
theorem scanToken_rune_iff (body t : List Char) :
    scanToken ('\'' :: body) = .ok (.literal .Char t, t.length) ↔ RuneLit t ∧ t <+: '\'' :: body := by
  rw [scanToken_quote '\'' body (.inl rfl)]
  simp only [if_true]
  constructor
  · intro h
    cases hs : scanLitRune ('\'' :: body) with
    | error e => rw [hs] at h; cases h
    | ok r =>
      rw [hs] at h
      simp only [Except.ok.injEq, Prod.mk.injEq, Token.literal.injEq, true_and] at h
      obtain ⟨rfl, _⟩ := h
      exact ⟨rune_sound body r hs, rune_text_is_source _ _ hs rfl⟩
  · rintro ⟨hl, hp⟩
    obtain ⟨rest, hr⟩ := hp
    have := rune_complete t rest hl
    rw [hr] at this
    rw [this]

/-- **C10 at the token level, strings** (both quote kinds) -/
theorem scanToken_string_iff (c : Char) (body t : List Char) (hc : c = '"' ∨ c = '`') :
    scanToken (c :: body) = .ok (.literal .String t, t.length) ↔ StringLit t ∧ t <+: c :: body := by
  have hne : c ≠ '\'' := by rcases hc with rfl | rfl <;> decide
  rw [scanToken_quote c body (.inr hc)]
  simp only [hne, if_false]
  rw [← stringLit_iff c body t hc]
  constructor
  · intro h
    cases hs : scanLitString (c :: body) with
    | error e => rw [hs] at h; cases h
    | ok r =>
      rw [hs] at h
      simp only [Except.ok.injEq, Prod.mk.injEq, Token.literal.injEq, true_and] at h
      rw [h.1]
  · intro h
    rw [h]

end Gosyn.Props.C10
