import Gosyn.Props.C12b
import Gosyn.Props.LinesAll
import Gosyn.Props.Hoare
/-!
C12 — which comments form the documentation group, part 2: `Parser::next` computes the rule.

`next_run`: from every parser state whose scanner has an exact line table (every state the parser passes
through: `Props/Lines.lean`), a successful call of the model's `next` appends a run of comments to
`comments`, and the pending documentation afterwards is exactly `finish (leadRun … run)` of
`Props/C12b.lean`, computed on the TRUE lines of the source (`srcLine`: one plus the number of newlines
before an offset) with each comment starting at its offset and ending after its text; the line registers
start at 0 and at the true line on which the scanner stood (the end of the previous token), or unset on
the first call.  The sentences proved about the fold in C12b are thereby sentences about the model of
parser.rs:163-196, for every source text: `next_cut`, `next_near`, `next_chained`, `next_trailing`.
-/
namespace Gosyn.Props.C12c
open Gosyn.Gen Gosyn.Model Gosyn.Ast
open Gosyn.Props.Lines Gosyn.Props.LinesAll Gosyn.Props.C12b

/-- the true 1-based line of an offset -/
def srcLine (src : Array Char) (pos : Nat) : Nat := 1 + (src.toList.take pos).count '\n'
/-- the line on which a comment starts / on which its text ends -/
def cSL (src : Array Char) (c : Comment) : Nat := srcLine src c.pos
def cEL (src : Array Char) (c : Comment) : Nat := srcLine src (c.pos + c.text.length)

theorem srcLine_mono (src : Array Char) {p q : Nat} (h : p ≤ q) : srcLine src p ≤ srcLine src q := by
  unfold srcLine
  have : (src.toList.take p).Sublist (src.toList.take q) := (List.take_sublist_take_left h ..)
  have := this.count_le '\n'
  omega

theorem srcLine_pos (src : Array Char) (p : Nat) : 1 ≤ srcLine src p := by unfold srcLine; omega

/-- one turn of the comment loop, as a state equation -/
theorem commentLoop_comment (fuel line : Nat) (trailing : Option Nat) (pos : Nat) (text : List Char) (s : PState) :
    commentLoop (fuel + 1) line trailing (some (pos, .comment text)) s =
      (scanNext >>= fun pt' =>
        commentLoop fuel (lineOfTable s.scan.lines s.scan.pos)
          (if trailing = some (lineOfTable s.scan.lines pos) then some (lineOfTable s.scan.lines s.scan.pos) else none) pt')
        { s with
          comments := s.comments.push { pos, text := String.ofList text },
          leadComments :=
            if trailing = some (lineOfTable s.scan.lines pos)
            then (if lineOfTable s.scan.lines pos > line + 1 then #[] else s.leadComments)
            else (if lineOfTable s.scan.lines pos > line + 1 then #[] else s.leadComments).push
              { pos, text := String.ofList text } } := by
  conv => lhs; unfold commentLoop
  by_cases h1 : lineOfTable s.scan.lines pos > line + 1 <;> by_cases h2 : trailing = some (lineOfTable s.scan.lines pos) <;>
    simp [bind, pure, trueLine, scanPosition, P.get, P.modify, h1, h2]

/-- inversion of a successful bind -/
theorem bind_ok {α β} {m : P α} {f : α → P β} {s s' : PState} {b : β}
    (h : (m >>= f) s = (.ok b, s')) : ∃ a s1, m s = (.ok a, s1) ∧ f a s1 = (.ok b, s') := by
  simp only [bind] at h
  cases hm : m s with
  | mk r s1 =>
    rw [hm] at h
    cases r with
    | ok a => exact ⟨a, s1, rfl, h⟩
    | error e => cases h

theorem scanNext_ok {s s' : PState} {r : Option (Nat × Token)} (h : scanNext s = (.ok r, s')) :
    ∃ sc', s.scan.nextToken = (.ok r, sc') ∧
      s' = { s with prevPos := s.scan.preback, scan := sc', steps := s.steps + 1 } := by
  unfold scanNext at h
  simp only [bind, P.get, P.set] at h
  cases hr : s.scan.nextToken with
  | mk r0 sc =>
    rw [hr] at h
    cases r0 with
    | ok a =>
      simp only [liftS, pure] at h
      cases h
      exact ⟨sc, rfl, rfl⟩
    | error e => cases e <;> simp [liftS, P.throw] at h

/-- what the loop knows about the token in hand: it lies at or after `lo`, not beyond the scanner, and a
    comment ends exactly where the scanner stands -/
def Hpt (lo : Nat) (pt : Option (Nat × Token)) (s : PState) : Prop :=
  ∀ p tok, pt = some (p, tok) → lo ≤ p ∧ p ≤ s.scan.pos ∧ ∀ t, tok = .comment t → p + t.length = s.scan.pos

theorem hpt_of_next {sc sc' : Scanner} {r : Option (Nat × Token)} (h : sc.nextToken = (.ok r, sc'))
    (s2 : PState) (hs : s2.scan = sc') : Hpt sc.pos r s2 := by
  intro p tok hr
  subst hr
  rw [hs]
  rcases Gosyn.Props.C05.nextToken_at_pos sc sc' p tok h with ⟨h1, _, _, hp, hp'⟩ | ⟨k, hp, _, _, hs'⟩
  · refine ⟨by omega, by omega, ?_⟩
    intro t ht; rw [ht] at h1; cases h1
  · refine ⟨by omega, by omega, ?_⟩
    intro t ht; rw [ht] at hs'; simpa [Token.text] using hs'.symm

theorem ofList_length (t : List Char) : (String.ofList t).length = t.length := by simp

/-- **the comment loop of `next` is the fold** -/
theorem commentLoop_run (fuel : Nat) : ∀ (line : Nat) (trailing : Option Nat) (pt : Option (Nat × Token))
    (s : PState) (lo : Nat), LinesOK s.scan → Hpt lo pt s →
    ∀ r s', commentLoop fuel line trailing pt s = (.ok r, s') →
    ∃ run : List Comment,
      s'.comments = s.comments ++ run.toArray ∧
      s'.leadComments.toList =
        (leadRun (cSL s.scan.src) (cEL s.scan.src) ⟨s.leadComments.toList, line, trailing⟩ run).lead ∧
      LinesOK s'.scan ∧ s'.scan.src = s.scan.src ∧ s.scan.pos ≤ s'.scan.pos ∧
      (∀ c ∈ run, lo ≤ c.pos ∧ c.pos + c.text.length ≤ s'.scan.pos) ∧
      (∀ p t, r ≠ some (p, .comment t)) ∧ Hpt lo r s' ∧ s'.started = s.started := by
  induction fuel with
  | zero =>
    intro line trailing pt s lo _ _ r s' h
    simp [commentLoop, P.throw] at h
  | succ fuel ih =>
    intro line trailing pt s lo hl hpt r s' h
    by_cases hc : ∃ pos text, pt = some (pos, .comment text)
    · obtain ⟨pos, text, rfl⟩ := hc
      rw [commentLoop_comment] at h
      obtain ⟨hlo, hle, hend⟩ := hpt pos (.comment text) rfl
      have hend := hend text rfl
      obtain ⟨pt', s2, hsn, hloop⟩ := bind_ok h
      obtain ⟨sc', hnt, hs2⟩ := scanNext_ok hsn
      dsimp only at hnt
      have hl' : LinesOK sc' := linesOK_next _ _ _ hl hnt
      have hsrc : sc'.src = s.scan.src := by
        have := Gosyn.Props.C07b.nextToken_src s.scan; rw [hnt] at this; exact this
      have hmono : s.scan.pos ≤ sc'.pos := by
        have := Gosyn.Props.Hoare.nextToken_pos_mono s.scan; rw [hnt] at this; exact this
      have hs2scan : s2.scan = sc' := by rw [hs2]
      have hpt' : Hpt lo pt' s2 := by
        have := hpt_of_next hnt s2 hs2scan
        intro p tok hr
        obtain ⟨a, b, c⟩ := this p tok hr
        exact ⟨by omega, b, c⟩
      obtain ⟨run, h1, h2, h3, h4, h5, h6, h7, h8, h9⟩ :=
        ih _ _ pt' s2 lo (by rw [hs2scan]; exact hl') hpt' r s' hloop
      have e1 : lineOfTable s.scan.lines pos = srcLine s.scan.src pos := lineOf_true s.scan hl pos hle
      have e2 : lineOfTable s.scan.lines s.scan.pos = srcLine s.scan.src (pos + text.length) := by
        rw [hend]; exact lineOf_true s.scan hl s.scan.pos (Nat.le_refl _)
      let c : Comment := { pos := pos, text := String.ofList text }
      have hstate : (⟨s2.leadComments.toList, lineOfTable s.scan.lines s.scan.pos,
            if trailing = some (lineOfTable s.scan.lines pos) then some (lineOfTable s.scan.lines s.scan.pos) else none⟩ : LS Comment) =
          leadStep (cSL s.scan.src) (cEL s.scan.src) ⟨s.leadComments.toList, line, trailing⟩ c := by
        have hsl : cSL s.scan.src c = lineOfTable s.scan.lines pos := e1.symm
        have hel : cEL s.scan.src c = lineOfTable s.scan.lines s.scan.pos := by
          rw [e2]; simp [cEL, c]
        rw [hs2]
        unfold leadStep resetLead
        rw [hsl, hel]
        by_cases a1 : trailing = some (lineOfTable s.scan.lines pos) <;>
          by_cases a2 : lineOfTable s.scan.lines pos > line + 1 <;> simp [a1, a2, c]
      refine ⟨c :: run, ?_, ?_, h3, by rw [h4, hs2scan, hsrc], by rw [hs2scan] at h5; omega, ?_, h7, h8, ?_⟩
      · rw [h1, hs2]; simp [c]
      · rw [h2, hs2scan, hsrc, hstate]; rfl
      · intro x hx
        rcases List.mem_cons.1 hx with rfl | hx
        · refine ⟨hlo, ?_⟩
          have : c.text.length = text.length := by simp [c]
          rw [hs2scan] at h5
          show pos + c.text.length ≤ _
          omega
        · exact h6 x hx
      · rw [h9, hs2]
    · have : commentLoop (fuel + 1) line trailing pt s = (.ok pt, s) := by
        unfold commentLoop
        split
        · rename_i pos text; exact absurd ⟨pos, text, rfl⟩ hc
        · rfl
      rw [this] at h
      cases h
      refine ⟨[], by simp, rfl, hl, rfl, Nat.le_refl _, by simp, ?_, hpt, rfl⟩
      intro p t hr; exact hc ⟨p, t, hr⟩

/-- the test after the loop (parser.rs:186-194) and the assignment of `current` -/
def finishP (posTok : Option (Nat × Token)) : P Unit := do
  let s ← P.get
  if let some comment := s.leadComments.back? then
    let commentEndPos := comment.pos + comment.text.length
    let commentEndLine ← trueLine commentEndPos
    if let some (pos, _) := posTok then
      let tokenStartLine ← trueLine pos
      if tokenStartLine > commentEndLine + 1 then P.modify fun s => { s with leadComments := #[] }
  setCurrent posTok

def nextTail (trailing : Option Nat) : P Unit := do
  P.modify fun s => { s with started := true }
  let posTok ← scanNext
  let fuel := (← P.get).scan.src.size + 2
  let posTok ← commentLoop fuel 0 trailing posTok
  finishP posTok

theorem next_eq (s : PState) :
    next s = nextTail (if s.started then some (lineOfTable s.scan.lines s.scan.pos) else none) s := by
  unfold next nextTail finishP
  by_cases h : s.started = true
  · simp only [bind, P.get, h, if_true, scanPosition, trueLine, pure]
    rfl
  · simp only [bind, P.get, h, pure]
    rfl

theorem finishP_eq (posTok : Option (Nat × Token)) (s : PState) :
    finishP posTok s = (.ok (), { s with
      current := posTok,
      leadComments :=
        match s.leadComments.back?, posTok with
        | some c, some (pos, _) =>
          if lineOfTable s.scan.lines pos > lineOfTable s.scan.lines (c.pos + c.text.length) + 1 then #[]
          else s.leadComments
        | _, _ => s.leadComments }) := by
  unfold finishP
  cases hb : s.leadComments.back? with
  | none => simp [bind, P.get, hb, setCurrent, P.modify]
  | some c =>
    cases posTok with
    | none => simp [bind, P.get, hb, setCurrent, P.modify, trueLine, pure]
    | some pt =>
      obtain ⟨pos, tok⟩ := pt
      by_cases hg : lineOfTable s.scan.lines pos > lineOfTable s.scan.lines (c.pos + c.text.length) + 1 <;>
        simp [bind, P.get, hb, setCurrent, P.modify, trueLine, pure, hg]

/-- the pending documentation lies before the scanner (kept by `next`; true of the empty list) -/
def LeadBelow (s : PState) : Prop := ∀ c ∈ s.leadComments.toList, c.pos + c.text.length ≤ s.scan.pos

/-- **`Parser::next` computes the rule of C12b on the true line numbers of the source** -/
theorem next_run (s s' : PState) (hl : LinesOK s.scan) (hlead : LeadBelow s)
    (h : next s = (.ok (), s')) :
    ∃ run : List Comment,
      s'.comments = s.comments ++ run.toArray ∧
      s'.leadComments.toList =
        finish (cEL s.scan.src)
          (leadRun (cSL s.scan.src) (cEL s.scan.src)
            ⟨s.leadComments.toList, 0, if s.started then some (srcLine s.scan.src s.scan.pos) else none⟩ run).lead
          (s'.current.map fun pt => srcLine s.scan.src pt.1) ∧
      LinesOK s'.scan ∧ s'.scan.src = s.scan.src ∧ LeadBelow s' ∧
      (∀ c ∈ run, s.scan.pos ≤ c.pos) ∧ (∀ p t, s'.current ≠ some (p, .comment t)) := by
  rw [next_eq] at h
  unfold nextTail at h
  obtain ⟨u, s1, h1, h⟩ := bind_ok h
  simp only [P.modify, Prod.mk.injEq, Except.ok.injEq] at h1
  obtain ⟨-, rfl⟩ := h1
  obtain ⟨pt, s2, h2, h⟩ := bind_ok h
  obtain ⟨sc', hnt, hs2⟩ := scanNext_ok h2
  dsimp only at hnt
  obtain ⟨st3, s3, h3, h⟩ := bind_ok h
  simp only [P.get, Prod.mk.injEq, Except.ok.injEq] at h3
  obtain ⟨rfl, rfl⟩ := h3
  obtain ⟨pt', s4, h4, h⟩ := bind_ok h
  rw [finishP_eq] at h
  simp only [Prod.mk.injEq, Except.ok.injEq, true_and] at h
  have hl' : LinesOK sc' := linesOK_next _ _ _ hl hnt
  have hsrc : sc'.src = s.scan.src := by
    have := Gosyn.Props.C07b.nextToken_src s.scan; rw [hnt] at this; exact this
  have hmono : s.scan.pos ≤ sc'.pos := by
    have := Gosyn.Props.Hoare.nextToken_pos_mono s.scan; rw [hnt] at this; exact this
  have hs2scan : s2.scan = sc' := by rw [hs2]
  have hs2lead : s2.leadComments = s.leadComments := by rw [hs2]
  have hs2com : s2.comments = s.comments := by rw [hs2]
  have hpt : Hpt s.scan.pos pt s2 := hpt_of_next hnt s2 hs2scan
  obtain ⟨run, r1, r2, r3, r4, r5, r6, r7, r8, r9⟩ :=
    commentLoop_run _ 0 _ pt s2 s.scan.pos (by rw [hs2scan]; exact hl') hpt pt' s4 h4
  rw [hs2scan, hsrc] at r2 r4
  rw [hs2scan] at r5
  rw [hs2lead] at r2
  rw [hs2com] at r1
  have etr : (if s.started = true then some (lineOfTable s.scan.lines s.scan.pos) else none) =
      (if s.started = true then some (srcLine s.scan.src s.scan.pos) else none) := by
    have := lineOf_true s.scan hl s.scan.pos (Nat.le_refl _)
    unfold srcLine; rw [this]
  rw [etr] at r2
  -- the comments pending after the loop lie before the scanner
  have hbelow : ∀ c ∈ s4.leadComments.toList, c.pos + c.text.length ≤ s4.scan.pos := by
    intro c hc
    rw [r2] at hc
    rcases leadRun_subset _ _ _ run c hc with h' | h'
    · have := hlead c h'; omega
    · exact (r6 c h').2
  have hfin : s'.leadComments.toList =
      finish (cEL s.scan.src) s4.leadComments.toList (pt'.map fun pt => srcLine s.scan.src pt.1) := by
    rw [← h]
    dsimp only
    unfold finish
    rw [Array.getLast?_toList]
    cases hb : s4.leadComments.back? with
    | none => simp
    | some c =>
      cases pt' with
      | none => simp
      | some q =>
        obtain ⟨pos, tok⟩ := q
        have hc : c ∈ s4.leadComments.toList := by
          have := Array.getLast?_toList (xs := s4.leadComments); rw [hb] at this
          exact List.mem_of_getLast? this
        have e1 : lineOfTable s4.scan.lines pos = srcLine s.scan.src pos := by
          have := lineOf_true s4.scan r3 pos (r8 pos tok rfl).2.1
          rw [r4] at this; exact this
        have e2 : lineOfTable s4.scan.lines (c.pos + c.text.length) = cEL s.scan.src c := by
          have := lineOf_true s4.scan r3 _ (hbelow c hc)
          rw [r4] at this; exact this
        simp only [Option.map_some, e1, e2]
        split <;> simp
  refine ⟨run, ?_, ?_, ?_, ?_, ?_, ?_, ?_⟩
  · rw [← h]; exact r1
  · rw [hfin, r2]
    congr 1
    rw [← h]
  · rw [← h]; exact r3
  · rw [← h]; exact r4
  · intro c hc
    have hsub := finish_sub (cEL s.scan.src) s4.leadComments.toList _ c (by rw [← hfin]; exact hc)
    have := hbelow c hsub
    rw [← h]; exact this
  · intro c hc; exact (r6 c hc).1
  · rw [← h]; exact r7

/-- the run of `next_run` is the list of comments the call appended to `comments`: the statement for that list -/
theorem next_lead (s s' : PState) (run : List Comment) (hl : LinesOK s.scan) (hlead : LeadBelow s)
    (h : next s = (.ok (), s')) (hrun : s'.comments = s.comments ++ run.toArray) :
    s'.leadComments.toList =
      finish (cEL s.scan.src)
        (leadRun (cSL s.scan.src) (cEL s.scan.src)
          ⟨s.leadComments.toList, 0, if s.started then some (srcLine s.scan.src s.scan.pos) else none⟩ run).lead
        (s'.current.map fun pt => srcLine s.scan.src pt.1) ∧
    (∀ c ∈ run, s.scan.pos ≤ c.pos) := by
  obtain ⟨run0, a1, a2, _, _, _, a6, _⟩ := next_run s s' hl hlead h
  have : run0 = run := by
    have := congrArg Array.toList (a1.symm.trans hrun)
    simpa using this
  subst this
  exact ⟨a2, a6⟩

/-! ### the property's sentences, for the model of `Parser::next` on every source text -/

/-- **a blank line cuts the group** -/
theorem next_cut (s s' : PState) (xs ys : List Comment) (c d : Comment) (hl : LinesOK s.scan) (hlead : LeadBelow s)
    (h : next s = (.ok (), s')) (hrun : s'.comments = s.comments ++ (xs ++ c :: d :: ys).toArray)
    (hgap : cSL s.scan.src d > cEL s.scan.src c + 1) :
    ∀ x ∈ s'.leadComments.toList, x ∈ d :: ys := by
  intro x hx
  rw [(next_lead s s' _ hl hlead h hrun).1] at hx
  exact cut _ _ _ xs ys c d hgap x (finish_sub _ _ _ x hx)

/-- **the documentation ends on the token's line or on the line directly above it** -/
theorem next_near (s s' : PState) (c : Comment) (p : Nat) (tok : Token) (hl : LinesOK s.scan) (hlead : LeadBelow s)
    (h : next s = (.ok (), s')) (hc : s'.leadComments.toList.getLast? = some c) (hcur : s'.current = some (p, tok)) :
    srcLine s.scan.src p ≤ cEL s.scan.src c + 1 := by
  obtain ⟨run, _, a2, _⟩ := next_run s s' hl hlead h
  rw [a2, hcur] at hc
  exact finish_near _ _ c _ hc

/-- **comments trailing the previous token are never documentation** -/
theorem next_trailing (s s' : PState) (ts ys : List Comment) (hl : LinesOK s.scan) (hlead : LeadBelow s)
    (h : next s = (.ok (), s')) (hrun : s'.comments = s.comments ++ (ts ++ ys).toArray) (hst : s.started = true)
    (hch : TrailChain (cSL s.scan.src) (cEL s.scan.src) (srcLine s.scan.src s.scan.pos) ts) :
    ∀ x ∈ s'.leadComments.toList, x ∈ s.leadComments.toList ∨ x ∈ ys := by
  intro x hx
  rw [(next_lead s s' _ hl hlead h hrun).1] at hx
  have := finish_sub _ _ _ x hx
  exact trailing_chain _ _ _ _ ts ys (by simp [hst]) hch x this

/-- **what is pending is an unbroken run** (entry condition: nothing pending, or the previous token ended on
    line 2 or below — in a file the package clause has drained line 1 before a second token is read) -/
theorem next_chained (s s' : PState) (hl : LinesOK s.scan) (hlead : LeadBelow s)
    (h : next s = (.ok (), s')) (hc : Chained (cSL s.scan.src) (cEL s.scan.src) s.leadComments.toList)
    (hentry : s.leadComments.toList = [] ∨ 2 ≤ srcLine s.scan.src s.scan.pos) :
    Chained (cSL s.scan.src) (cEL s.scan.src) s'.leadComments.toList := by
  obtain ⟨run, _, a2, _, _, _, a6, _⟩ := next_run s s' hl hlead h
  rw [a2]
  refine finish_chained _ _ _ _ (run_chained _ _ _ run hc rfl ?_)
  rcases hentry with h0 | h2
  · exact .inl h0
  · refine .inr (fun c hc => ?_)
    have := srcLine_mono s.scan.src (a6 c hc)
    unfold cSL; omega

theorem finish_keep {α} (el : α → Nat) (lead : List α) (c : α) (l : Nat) (hc : lead.getLast? = some c)
    (h : l ≤ el c + 1) : finish el lead (some l) = lead := by
  unfold finish; rw [hc]; simp; omega

/-- **the attached group is the documentation, whole and alone**: the comments read are `xs` (not empty), then
    after a blank line the unbroken run `g0 :: gs`, and the token starts at most one line below its end -/
theorem next_attached (s s' : PState) (xs gs : List Comment) (g0 last : Comment) (p : Nat) (tok : Token)
    (hl : LinesOK s.scan) (hlead : LeadBelow s) (h : next s = (.ok (), s'))
    (hrun : s'.comments = s.comments ++ (xs ++ g0 :: gs).toArray) (hne : xs ≠ [])
    (hbreak : cSL s.scan.src g0 >
      (leadRun (cSL s.scan.src) (cEL s.scan.src)
        ⟨s.leadComments.toList, 0, if s.started then some (srcLine s.scan.src s.scan.pos) else none⟩ xs).line + 1)
    (hu : Unbroken (cSL s.scan.src) (cEL s.scan.src) (cEL s.scan.src g0) gs)
    (hlast : (g0 :: gs).getLast? = some last) (hcur : s'.current = some (p, tok))
    (hnear : srcLine s.scan.src p ≤ cEL s.scan.src last + 1) :
    s'.leadComments.toList = g0 :: gs := by
  rw [(next_lead s s' _ hl hlead h hrun).1, attached_group' _ _ _ xs gs g0 hne hbreak hu, hcur]
  exact finish_keep _ _ last _ hlast hnear

/-- the line register after a non-empty run is the line on which its last comment ends -/
theorem leadRun_line_last {α} (sl el : α → Nat) (st : LS α) (xs : List α) (x : α) :
    (leadRun sl el st (xs ++ [x])).line = el x := by
  rw [leadRun_append]; exact leadStep_line sl el _ x

end Gosyn.Props.C12c
