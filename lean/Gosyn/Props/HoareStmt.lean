import Gosyn.Props.HoareTbl
/-! Whole-parser invariant, part 3: statements. -/
namespace Gosyn.Props.Hoare
open Gosyn.Gen Gosyn.Model Gosyn.Ast

variable {src : Array Char} {r : Tbl} [hr : TblOK src r]

/-! ### statements -/

theorem stmtListStop_spec : T src Tr stmtListStop (fun _ _ => True) := by
  unfold stmtListStop
  hoare

theorem parseStmtListBody_go_spec : ∀ fuel acc, T src Tr (parseStmtListBody.go r fuel acc) (fun _ _ => True) := by
  intro fuel
  induction fuel with
  | zero => intro acc; unfold parseStmtListBody.go; exact T.throw _ (fun _ _ => trivial)
  | succ n ih => intro acc; unfold parseStmtListBody.go; hloop ih

theorem parseStmtListBody_spec : T src Tr (parseStmtListBody r) (fun _ _ => True) := by
  unfold parseStmtListBody
  hoare

theorem parseRangeExpr_spec : T src Tr (parseRangeExpr r) (fun _ _ => True) := by
  unfold parseRangeExpr
  hoare

theorem stmtOK_assign_range (p : Nat) (op : Operator) (l : List Expression) (a : RangeExpr) :
    StmtOK (.Assign (.mk p op l [.Range a])) := by simp [StmtOK]

theorem stmtOK_assign_of_exprOK (p : Nat) (op : Operator) (l rt : List Expression) (h : ∀ e ∈ rt, ExprOK e) :
    StmtOK (.Assign (.mk p op l rt)) := by
  cases rt with
  | nil => simp [StmtOK]
  | cons x xs =>
    have hx := h x (by simp)
    cases x <;> simp [StmtOK]
    rename_i a
    exact absurd rfl (hx.2.2 a)

set_option maxHeartbeats 4000000 in
theorem parseSimpleStmtBody_spec : T src Tr (parseSimpleStmtBody r) (fun st _ => StmtOK st) := by
  unfold parseSimpleStmtBody
  hoare
  all_goals first
    | (refine T.pure _ (fun _ _ => ?_); subst_vars; exact stmtOK_assign_range _ _ _ _)
    | (refine T.pure _ (fun _ _ => ?_); exact stmtOK_assign_of_exprOK _ _ _ _ (by assumption))
    | (refine T.pure _ (fun _ _ => ?_); simp [StmtOK]; done)
    | skip

/-- `parse_decl` is entered only on `var`, `type` or `const` (parser.rs: `_ => unreachable!()`) -/
theorem parseDeclStmt_spec (p : Nat) (kw : Keyword) (hk : kw = .Var ∨ kw = .Type ∨ kw = .Const) :
    T src (fun s => s.current = some (p, .keyword kw)) (parseDeclStmt r) (fun _ _ => True) := by
  unfold parseDeclStmt
  refine T.bind current_spec (fun c => ?_)
  refine T.extract (p := c = some (p, .keyword kw)) (fun s h => by rw [h.1, h.2]) (fun hc => ?_)
  subst hc
  rcases hk with rfl | rfl | rfl <;> simp only <;> hoare

theorem parseBlockStmtBody_go_spec : ∀ fuel acc, T src Tr (parseBlockStmtBody.go r fuel acc) (fun _ _ => True) := by
  intro fuel
  induction fuel with
  | zero => intro acc; unfold parseBlockStmtBody.go; exact T.throw _ (fun _ _ => trivial)
  | succ n ih => intro acc; unfold parseBlockStmtBody.go; hloop ih

theorem parseBlockStmtBody_spec : T src Tr (parseBlockStmtBody r) (fun _ _ => True) := by
  unfold parseBlockStmtBody
  hoare

theorem parseGoStmt_spec : T src Tr (parseGoStmt r) (fun _ _ => True) := by
  unfold parseGoStmt
  hoare

theorem parseDeferStmt_spec : T src Tr (parseDeferStmt r) (fun _ _ => True) := by
  unfold parseDeferStmt
  hoare

theorem parseReturnStmt_spec : T src Tr (parseReturnStmt r) (fun _ _ => True) := by
  unfold parseReturnStmt
  hoare

theorem parseBranchStmt_spec (key : Keyword) : T src Tr (parseBranchStmt key) (fun _ _ => True) := by
  unfold parseBranchStmt
  hoare

theorem parseSelectStmt_spec : T src Tr (parseSelectStmt r) (fun _ _ => True) := by
  unfold parseSelectStmt
  hoare

set_option maxHeartbeats 4000000 in
theorem parseStmtBody_spec : T src Tr (parseStmtBody r) (fun _ _ => True) := by
  unfold parseStmtBody
  hoare
  all_goals first
    | exact ((parseDeclStmt_spec _ _ (by simp)).pre (fun s h => h.1.symm)).post (fun _ _ _ => trivial)
    | skip
  hoare

theorem parseCaseBlockBody_go_spec (ta : Bool) : ∀ fuel acc,
    T src Tr (parseCaseBlockBody.go r ta fuel acc) (fun _ _ => True) := by
  intro fuel
  induction fuel with
  | zero => intro acc; unfold parseCaseBlockBody.go; exact T.throw _ (fun _ _ => trivial)
  | succ n ih => intro acc; unfold parseCaseBlockBody.go; hloop ih

theorem parseCaseBlockBody_spec (ta : Bool) : T src Tr (parseCaseBlockBody r ta) (fun _ _ => True) := by
  unfold parseCaseBlockBody
  hoare

set_option maxHeartbeats 4000000 in
theorem parseCommStmtBody_spec : T src Tr (parseCommStmtBody r) (fun _ _ => True) := by
  unfold parseCommStmtBody
  hoare

theorem parseCommBlockBody_go_spec : ∀ fuel acc, T src Tr (parseCommBlockBody.go r fuel acc) (fun _ _ => True) := by
  intro fuel
  induction fuel with
  | zero => intro acc; unfold parseCommBlockBody.go; exact T.throw _ (fun _ _ => trivial)
  | succ n ih => intro acc; unfold parseCommBlockBody.go; hloop ih

theorem parseCommBlockBody_spec : T src Tr (parseCommBlockBody r) (fun _ _ => True) := by
  unfold parseCommBlockBody
  hoare


end Gosyn.Props.Hoare
