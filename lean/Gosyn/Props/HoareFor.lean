import Gosyn.Props.HoareTbl
namespace Gosyn.Props.Hoare
open Gosyn.Gen Gosyn.Model Gosyn.Ast
variable {src : Array Char} {r : Tbl} [hr : TblOK src r]

theorem range_last (apos : Nat) (aop : Operator) (left right : List Expression)
    (h1 : StmtOK (.Assign (.mk apos aop left right))) (h2 : assignIsRange (.Assign (.mk apos aop left right)) = true) :
    ∃ pos1 expr, right.getLast? = some (.Range (.mk pos1 expr)) := by
  cases right with
  | nil => simp [assignIsRange] at h2
  | cons x xs =>
    cases x <;> simp [assignIsRange] at h2
    rename_i a
    have : xs = [] := by simpa [StmtOK] using h1
    subst this
    cases a with
    | mk p e => exact ⟨p, e, rfl⟩

theorem isRange_assign (st : Statement) (h : assignIsRange st = true) :
    ∃ apos aop left right, st = .Assign (.mk apos aop left right) := by
  cases st <;> simp [assignIsRange] at h
  rename_i a
  cases a with
  | mk p o l rt => exact ⟨p, o, l, rt, rfl⟩

set_option maxHeartbeats 16000000 in
/-- the two `unreachable!()` of `parse_for_stmt` are not reached: an assignment that `is_range` was
    built by `parse_simple_stmt` with the `range` clause as its only right-hand side -/
theorem parseForStmtBody_spec : T src Tr (parseForStmtBody r) (fun _ _ => True) := by
  unfold parseForStmtBody
  hoare
  · exfalso
    obtain ⟨p1, e, h⟩ := range_last _ _ _ _ ‹StmtOK _› ‹assignIsRange _ = true›
    exact ‹∀ (pos1 : Nat) (expr : Expression), _ = some (Expression.Range (RangeExpr.mk pos1 expr)) → False› p1 e h
  · exfalso
    obtain ⟨p, o, l, rt, h⟩ := isRange_assign _ ‹assignIsRange _ = true›
    exact ‹∀ (apos : Nat) (aop : Operator) (left right : List Expression), _ = Statement.Assign (AssignStmt.mk apos aop left right) → False› p o l rt h

end Gosyn.Props.Hoare
