import Gosyn.Props.C09
import Gosyn.Props.C10b
/-!
C09, towards full strength: the digit-run scanner against the spec's
`V_digits = V_digit { [ "_" ] V_digit }`, in both directions, and from there the literal forms.
-/
namespace Gosyn.Props.C09
open Gosyn.Gen Gosyn.Model Gosyn.Spec

/-- what may follow a digit run without extending it -/
def Stop (V : Char → Bool) (rest : List Char) : Prop := ∀ c, rest.head? = some c → V c = false ∧ c ≠ '_'

theorem endsWith_cons (c : Char) (r : List Char) (x : Char) (h : r ≠ []) : endsWith (c :: r) x = endsWith r x := by
  cases r with
  | nil => exact absurd rfl h
  | cons d r' => simp [endsWith, List.getLast?_cons_cons]

theorem digits_ne_nil {V : Char → Bool} {ds : List Char} (h : Digits V ds) : ds ≠ [] := by
  cases h <;> simp

theorem digits_head {V : Char → Bool} {ds : List Char} (h : Digits V ds) : ∃ c tl, ds = c :: tl ∧ V c = true := by
  cases h with
  | one hv => exact ⟨_, _, rfl, hv⟩
  | cons hv _ => exact ⟨_, _, rfl, hv⟩
  | sep hv _ => exact ⟨_, _, rfl, hv⟩

theorem digits_last {V : Char → Bool} {ds : List Char} (h : Digits V ds) (hu : V '_' = false) : endsWith ds '_' = false := by
  induction h with
  | @one c hv =>
    simp only [endsWith, List.getLast?_singleton]
    by_cases hc : c = '_'
    · subst hc; rw [hu] at hv; cases hv
    · simp [hc]
  | @cons c cs hv hd ih => rw [endsWith_cons _ _ _ (digits_ne_nil hd)]; exact ih
  | @sep c cs hv hd ih =>
    rw [endsWith_cons _ _ _ (by simp), endsWith_cons _ _ _ (digits_ne_nil hd)]; exact ih

theorem go_us (V : Char → Bool) (u : Bool) (cs : List Char) :
    scanDigitsGo V u ('_' :: cs) = if u then '_' :: scanDigitsGo V false cs else [] := by
  cases u <;> simp [scanDigitsGo]

theorem go_digit (V : Char → Bool) (u : Bool) (c : Char) (cs : List Char) (hc : c ≠ '_') :
    scanDigitsGo V u (c :: cs) = if V c then c :: scanDigitsGo V true cs else [] := by
  cases hv : V c <;> simp [scanDigitsGo, hc, hv]

/-- **soundness of the digit-run scanner**: a run that does not end in `_` is empty, a `V_digits` of the
    spec, or — when a separator is allowed in front (directly after a prefix) — `_` followed by one -/
theorem scanDigitsGo_sound (V : Char → Bool) (hu : V '_' = false) : ∀ (cs : List Char) (u : Bool),
    endsWith (scanDigitsGo V u cs) '_' = false →
    scanDigitsGo V u cs = [] ∨ Digits V (scanDigitsGo V u cs) ∨
      (u = true ∧ ∃ ds, scanDigitsGo V u cs = '_' :: ds ∧ Digits V ds) := by
  intro cs
  induction cs with
  | nil => intro u _; left; simp [scanDigitsGo]
  | cons c cs ih =>
    intro u hend
    by_cases hc : c = '_'
    · subst hc
      rw [go_us] at hend ⊢
      cases u with
      | false => left; rfl
      | true =>
        simp only [if_true] at hend ⊢
        by_cases hnil : scanDigitsGo V false cs = []
        · rw [hnil] at hend; simp [endsWith] at hend
        · rw [endsWith_cons _ _ _ hnil] at hend
          rcases ih false hend with h0 | hd | ⟨hf, _⟩
          · exact absurd h0 hnil
          · right; right; exact ⟨trivial, _, rfl, hd⟩
          · cases hf
    · rw [go_digit V u c cs hc] at hend ⊢
      cases hv : V c with
      | false => left; simp
      | true =>
        simp only [hv, if_true] at hend ⊢
        by_cases hnil : scanDigitsGo V true cs = []
        · rw [hnil]; right; left; exact .one hv
        · rw [endsWith_cons _ _ _ hnil] at hend
          rcases ih true hend with h0 | hd | ⟨_, ds, hds, hdd⟩
          · exact absurd h0 hnil
          · right; left; exact .cons hv hd
          · right; left; rw [hds]; exact .sep hv hdd

/-- **completeness**: a `V_digits` of the spec followed by something that cannot extend it is taken whole -/
theorem scanDigitsGo_complete (V : Char → Bool) (hu : V '_' = false) (ds : List Char) (hd : Digits V ds) :
    ∀ (u : Bool) (rest : List Char), Stop V rest → scanDigitsGo V u (ds ++ rest) = ds := by
  induction hd with
  | @one c hv =>
    intro u rest hs
    have hc : c ≠ '_' := by intro e; subst e; rw [hu] at hv; cases hv
    simp only [List.cons_append, List.nil_append]
    rw [go_digit V u c rest hc, hv]
    simp only [if_true, List.cons.injEq, true_and]
    cases rest with
    | nil => simp [scanDigitsGo]
    | cons d rest' =>
      have := hs d rfl
      simp [scanDigitsGo, this.1, this.2]
  | @cons c cs hv hd ih =>
    intro u rest hs
    have hc : c ≠ '_' := by intro e; subst e; rw [hu] at hv; cases hv
    simp only [List.cons_append]
    rw [go_digit V u c _ hc, hv]
    simp [ih _ rest hs]
  | @sep c cs hv hd ih =>
    intro u rest hs
    have hc : c ≠ '_' := by intro e; subst e; rw [hu] at hv; cases hv
    simp only [List.cons_append]
    rw [go_digit V u c _ hc, hv, go_us]
    simp [ih _ rest hs]

theorem scanDigits_complete (V : Char → Bool) (hu : V '_' = false) (ds rest : List Char) (hd : Digits V ds)
    (hs : Stop V rest) : scanDigits V (ds ++ rest) = ds := scanDigitsGo_complete V hu ds hd true rest hs

/-- with the optional separator in front (directly after a base prefix) -/
theorem scanDigits_complete_u (V : Char → Bool) (hu : V '_' = false) (u ds rest : List Char) (hou : OptU u)
    (hd : Digits V ds) (hs : Stop V rest) : scanDigits V (u ++ ds ++ rest) = u ++ ds := by
  rcases hou with rfl | rfl
  · simpa using scanDigits_complete V hu ds rest hd hs
  · simp only [List.cons_append, List.nil_append, scanDigits]
    rw [go_us]
    simp [scanDigitsGo_complete V hu ds hd false rest hs]

theorem isDec_u : isDecimalDigit '_' = false := by decide
theorem isHexD_u : isHexDigit '_' = false := by decide
theorem isBinD_u : isBinaryDigit '_' = false := by decide

theorem isDec_eq (c : Char) : isDecimalDigit c = isDec c := rfl
theorem isBin_eq (c : Char) : isBinaryDigit c = isBin c := rfl

theorem scanDigits_nonempty (V : Char → Bool) (c : Char) (tl : List Char) (hv : V c = true) (hc : c ≠ '_') :
    scanDigits V (c :: tl) = c :: scanDigitsGo V true tl := by
  simp [scanDigits, go_digit V true c tl hc, hv]

/-- a run that starts with a digit and does not end in `_` is a `V_digits` -/
theorem run_digits (V : Char → Bool) (hu : V '_' = false) (c : Char) (tl : List Char) (hv : V c = true)
    (hend : endsWith (scanDigits V (c :: tl)) '_' = false) : Digits V (scanDigits V (c :: tl)) := by
  have hc : c ≠ '_' := by intro e; subst e; rw [hu] at hv; cases hv
  rcases scanDigitsGo_sound V hu (c :: tl) true hend with h | h | ⟨_, ds, h, _⟩
  · rw [show scanDigitsGo V true (c :: tl) = scanDigits V (c :: tl) from rfl, scanDigits_nonempty V c tl hv hc] at h
    cases h
  · exact h
  · rw [show scanDigitsGo V true (c :: tl) = scanDigits V (c :: tl) from rfl, scanDigits_nonempty V c tl hv hc] at h
    simp at h; exact absurd h.1 hc

/-- a run taken directly after a base prefix: empty, or `[ "_" ] V_digits` -/
theorem run_after_prefix (V : Char → Bool) (hu : V '_' = false) (cs : List Char)
    (hend : endsWith (scanDigits V cs) '_' = false) :
    scanDigits V cs = [] ∨ ∃ u ds, scanDigits V cs = u ++ ds ∧ OptU u ∧ Digits V ds := by
  rcases scanDigitsGo_sound V hu cs true hend with h | h | ⟨_, ds, h, hd⟩
  · exact .inl h
  · exact .inr ⟨[], _, rfl, .inl rfl, h⟩
  · exact .inr ⟨['_'], ds, h, .inr rfl, hd⟩

/-! ### the exponent -/

/-- the checks `num_exp` makes on a non-empty exponent part -/
def ExpChecks (x : List Char) : Prop :=
  (match x.getLast? with | some c => isDecimalDigit c = true | none => False) ∧
  ((x.drop 1).find? (fun ch => ch ≠ '+' && ch ≠ '-')) ≠ some '_'

theorem getLast_cons_ne (c : Char) (r : List Char) (h : r ≠ []) : (c :: r).getLast? = r.getLast? := by
  cases r with
  | nil => exact absurd rfl h
  | cons d r' => simp [List.getLast?_cons_cons]

/-- **soundness of the exponent scanner**: a non-empty exponent part that passes the checks is
    marker, optional sign, `decimal_digits` -/
theorem exp_sound (rest : List Char) (hne : expPartOf rest ≠ []) (hck : ExpChecks (expPartOf rest)) :
    ∃ m sg ds, expPartOf rest = m :: (sg ++ ds) ∧ (m = 'e' ∨ m = 'E' ∨ m = 'p' ∨ m = 'P') ∧ OptSign sg ∧ Digits isDec ds := by
  unfold expPartOf at hne hck ⊢
  cases rest with
  | nil => simp at hne
  | cons m r =>
    simp only at hne hck ⊢
    by_cases hm : (m = 'e' || m = 'E' || m = 'p' || m = 'P') = true
    · simp only [hm, if_true] at hne hck ⊢
      have hm' : m = 'e' ∨ m = 'E' ∨ m = 'p' ∨ m = 'P' := by simpa [or_assoc] using hm
      cases r with
      | nil =>
        simp only [ExpChecks, List.getLast?_singleton] at hck
        exfalso
        have := hck.1
        rcases hm' with rfl | rfl | rfl | rfl <;> simp [isDecimalDigit] at this
      | cons sg r' =>
        simp only at hck ⊢
        by_cases hs : (sg = '+' || sg = '-') = true
        · simp only [hs, if_true] at hck ⊢
          have hs' : sg = '+' ∨ sg = '-' := by simpa using hs
          -- the digits after the sign
          cases hrun : scanDigits isDecimalDigit r' with
          | nil =>
            rw [hrun] at hck
            exfalso
            have := hck.1
            simp only [List.getLast?_cons_cons, List.getLast?_singleton] at this
            rcases hs' with rfl | rfl <;> simp [isDecimalDigit] at this
          | cons d ds =>
            rw [hrun] at hck
            have hlast : (m :: sg :: d :: ds).getLast? = (d :: ds).getLast? := by
              simp [List.getLast?_cons_cons]
            have hend : endsWith (scanDigits isDecimalDigit r') '_' = false := by
              rw [hrun]
              have h1 := hck.1
              rw [hlast] at h1
              unfold endsWith
              cases hl : (d :: ds).getLast? with
              | none => simp
              | some z =>
                rw [hl] at h1
                simp only at h1
                by_cases hz : z = '_'
                · subst hz; simp [isDecimalDigit] at h1
                · simp [hz]
            have hd0 : d ≠ '_' := by
              intro e; subst e
              have := hck.2
              have hsg : ¬ (sg ≠ '+' ∧ sg ≠ '-') := by rcases hs' with rfl | rfl <;> simp
              simp [List.find?, hsg] at this
            rcases scanDigitsGo_sound isDecimalDigit isDec_u r' true hend with h | h | ⟨_, ds', h, _⟩
            · rw [show scanDigitsGo isDecimalDigit true r' = scanDigits isDecimalDigit r' from rfl, hrun] at h; cases h
            · rw [show scanDigitsGo isDecimalDigit true r' = scanDigits isDecimalDigit r' from rfl, hrun] at h
              exact ⟨m, [sg], d :: ds, rfl, hm', by rcases hs' with rfl | rfl <;> simp [OptSign], h⟩
            · rw [show scanDigitsGo isDecimalDigit true r' = scanDigits isDecimalDigit r' from rfl, hrun] at h
              simp at h; exact absurd h.1 hd0
        · simp only [hs, Bool.false_eq_true, if_false] at hck ⊢
          cases hrun : scanDigits isDecimalDigit (sg :: r') with
          | nil =>
            rw [hrun] at hck
            exfalso
            have := hck.1
            simp only [List.getLast?_singleton] at this
            rcases hm' with rfl | rfl | rfl | rfl <;> simp [isDecimalDigit] at this
          | cons d ds =>
            rw [hrun] at hck
            have hlast : (m :: d :: ds).getLast? = (d :: ds).getLast? := by simp [List.getLast?_cons_cons]
            have hend : endsWith (scanDigits isDecimalDigit (sg :: r')) '_' = false := by
              rw [hrun]
              have h1 := hck.1
              rw [hlast] at h1
              unfold endsWith
              cases hl : (d :: ds).getLast? with
              | none => simp
              | some z =>
                rw [hl] at h1
                simp only at h1
                by_cases hz : z = '_'
                · subst hz; simp [isDecimalDigit] at h1
                · simp [hz]
            have hd0 : d ≠ '_' := by
              intro e; subst e
              have := hck.2
              simp [List.find?] at this
            rcases scanDigitsGo_sound isDecimalDigit isDec_u (sg :: r') true hend with h | h | ⟨_, ds', h, _⟩
            · rw [show scanDigitsGo isDecimalDigit true (sg :: r') = scanDigits isDecimalDigit (sg :: r') from rfl, hrun] at h; cases h
            · rw [show scanDigitsGo isDecimalDigit true (sg :: r') = scanDigits isDecimalDigit (sg :: r') from rfl, hrun] at h
              exact ⟨m, [], d :: ds, rfl, hm', .inl rfl, h⟩
            · rw [show scanDigitsGo isDecimalDigit true (sg :: r') = scanDigits isDecimalDigit (sg :: r') from rfl, hrun] at h
              simp at h; exact absurd h.1 hd0
    · simp [hm] at hne

/-! ### inversion of the staged number scanner -/

/-- everything a successful `scan_lit_number` has checked, and what it returns -/
structure Facts (radix : Nat) (intPart cs : List Char) (k : LitKind) (t : List Char) where
  int_end : endsWith intPart '_' = false
  oct89 : ¬ (radix = 8 ∧ (intPart.contains '8' = true ∨ intPart.contains '9' = true))
  dot28 : ¬ ((cs.drop intPart.length).head? = some '.' ∧ (radix = 2 ∨ radix = 8))
  fac_lead : (facPartOf radix (cs.drop intPart.length)).take 2 ≠ ['.', '_']
  fac_end : endsWith (facPartOf radix (cs.drop intPart.length)) '_' = false
  mant_ne : intPart ++ facPartOf radix (cs.drop intPart.length) ≠ []
  mant_digits : ¬ (radix ≠ 10 ∧ intPart.length = 2 ∧ (facPartOf radix (cs.drop intPart.length)).length ≤ 1)
  no_e : ¬ (radix ≠ 10 ∧ ((cs.drop (intPart ++ facPartOf radix (cs.drop intPart.length)).length).head? = some 'e' ∨
                          (cs.drop (intPart ++ facPartOf radix (cs.drop intPart.length)).length).head? = some 'E'))
  no_p : ¬ (radix ≠ 16 ∧ ((cs.drop (intPart ++ facPartOf radix (cs.drop intPart.length)).length).head? = some 'p' ∨
                          (cs.drop (intPart ++ facPartOf radix (cs.drop intPart.length)).length).head? = some 'P'))
  exp_ok : expPartOf (cs.drop (intPart ++ facPartOf radix (cs.drop intPart.length)).length) ≠ [] →
             ExpChecks (expPartOf (cs.drop (intPart ++ facPartOf radix (cs.drop intPart.length)).length))
  hex_exp : ¬ (radix = 16 ∧ facPartOf radix (cs.drop intPart.length) ≠ [] ∧
               expPartOf (cs.drop (intPart ++ facPartOf radix (cs.drop intPart.length)).length) = [])
  result :
    let fac := facPartOf radix (cs.drop intPart.length)
    let exp := expPartOf (cs.drop (intPart ++ fac).length)
    let numlit := intPart ++ fac ++ exp
    (k = .Imag ∧ t = numlit ++ ['i']) ∨
    (k = .Float ∧ t = numlit ∧ (fac ≠ [] ∨ exp ≠ [])) ∨
    (k = .Integer ∧ t = numlit ∧ fac = [] ∧ exp = [] ∧
      ¬ (radix = 10 ∧ numlit.length > 1 ∧ numlit.head? = some '0' ∧ (numlit.contains '8' = true ∨ numlit.contains '9' = true)))

theorem numFinish_inv {radix : Nat} {cs numlit : List Char} {isFloat : Bool} {k t n}
    (h : numFinish radix cs numlit isFloat = .ok (k, t, n)) :
    (k = .Imag ∧ t = numlit ++ ['i']) ∨ (k = .Float ∧ t = numlit ∧ isFloat = true) ∨
    (k = .Integer ∧ t = numlit ∧ isFloat = false ∧
      ¬ (radix = 10 ∧ numlit.length > 1 ∧ numlit.head? = some '0' ∧ (numlit.contains '8' = true ∨ numlit.contains '9' = true))) := by
  unfold numFinish at h
  split at h
  · simp only [Except.ok.injEq, Prod.mk.injEq] at h
    exact .inl ⟨h.1.symm, h.2.1.symm⟩
  · split at h
    · rename_i hf
      simp only [Except.ok.injEq, Prod.mk.injEq] at h
      exact .inr (.inl ⟨h.1.symm, h.2.1.symm, hf⟩)
    · rename_i hf
      split at h
      · cases h
      · rename_i hc
        simp only [Except.ok.injEq, Prod.mk.injEq] at h
        refine .inr (.inr ⟨h.1.symm, h.2.1.symm, by simpa using hf, ?_⟩)
        intro ⟨h1, h2, h3, h4⟩
        apply hc
        simp only [Bool.and_eq_true, Bool.or_eq_true, decide_eq_true_eq]
        exact ⟨⟨⟨h1, h2⟩, h3⟩, h4⟩

theorem ite_err {α : Type} {c : Prop} [Decidable c] {e : Fail} {X : Except Fail α} {v : α}
    (h : (if c then .error e else X) = .ok v) : ¬ c ∧ X = .ok v := by
  by_cases hc : c
  · rw [if_pos hc] at h; cases h
  · rw [if_neg hc] at h; exact ⟨hc, h⟩

theorem facts_of_ok {radix : Nat} {intPart cs : List Char} {k : LitKind} {t : List Char} {n : Nat}
    (h : scanLitNumberWith radix intPart cs = .ok (k, t, n)) : Facts radix intPart cs k t := by
  unfold scanLitNumberWith at h
  obtain ⟨h1, h⟩ := ite_err h
  obtain ⟨h2, h⟩ := ite_err h
  simp only at h
  obtain ⟨h3, h⟩ := ite_err h
  obtain ⟨h4, h⟩ := ite_err h
  unfold numMant at h
  simp only at h
  obtain ⟨h5, h⟩ := ite_err h
  obtain ⟨h6, h⟩ := ite_err h
  obtain ⟨h7, h⟩ := ite_err h
  obtain ⟨h8, h⟩ := ite_err h
  unfold numExp at h
  obtain ⟨h9, h⟩ := ite_err h
  obtain ⟨h10, h⟩ := ite_err h
  obtain ⟨h11, h⟩ := ite_err h
  have hf := numFinish_inv h
  simp only [Bool.and_eq_true, Bool.or_eq_true, decide_eq_true_eq, Bool.not_eq_true', bne_iff_ne, ne_eq,
    List.isEmpty_eq_false_iff, List.isEmpty_iff, Bool.not_eq_true] at h1 h2 h3 h4 h5 h6 h7 h8 h9 h10 h11
  refine ⟨h1, h2, h3, fun a => h4 (.inl a), ?_, h5, fun ⟨a, b, c⟩ => h6 ⟨⟨a, b⟩, c⟩, h7, h8, ?_, fun ⟨a, b, c⟩ => h10 ⟨⟨a, b⟩, c⟩, ?_⟩
  · cases he : endsWith (facPartOf radix (List.drop intPart.length cs)) '_' with
    | false => rfl
    | true => exact absurd (.inr he) h4
  · intro hne
    refine ⟨?_, fun a => h11 (.inl a)⟩
    cases hl : (expPartOf (cs.drop (intPart ++ facPartOf radix (cs.drop intPart.length)).length)).getLast? with
    | none => exfalso; apply h9; rw [hl]; exact ⟨hne, rfl⟩
    | some c =>
      simp only
      cases hc : isDecimalDigit c with
      | true => rfl
      | false => exfalso; apply h9; rw [hl]; exact ⟨hne, hc⟩
  · simp only
    rcases hf with hf | hf | hf
    · exact .inl hf
    · refine .inr (.inl ⟨hf.1, hf.2.1, ?_⟩)
      have := hf.2.2
      simp only [Bool.or_eq_true, Bool.not_eq_true', List.isEmpty_eq_false_iff] at this
      exact this
    · refine .inr (.inr ⟨hf.1, hf.2.1, ?_, ?_, hf.2.2.2⟩)
      · have := hf.2.2.1
        simp only [Bool.or_eq_false_iff, Bool.not_eq_false', List.isEmpty_iff] at this
        exact this.1
      · have := hf.2.2.1
        simp only [Bool.or_eq_false_iff, Bool.not_eq_false', List.isEmpty_iff] at this
        exact this.2

/-! ### helper facts -/

theorem digits_tail {V : Char → Bool} {c : Char} {tl : List Char} (h : Digits V (c :: tl)) (ht : tl ≠ []) :
    ∃ u ds, tl = u ++ ds ∧ OptU u ∧ Digits V ds := by
  cases h with
  | one _ => exact absurd rfl ht
  | cons _ hd => exact ⟨[], _, rfl, .inl rfl, hd⟩
  | sep _ hd => exact ⟨['_'], _, rfl, .inr rfl, hd⟩

theorem digits_mono {V W : Char → Bool} {ds : List Char} (h : Digits V ds)
    (hw : ∀ d ∈ ds, V d = true → W d = true) : Digits W ds := by
  induction h with
  | one hv => exact .one (hw _ (by simp) hv)
  | cons hv _ ih => exact .cons (hw _ (by simp) hv) (ih (fun d hd => hw d (by simp [hd])))
  | sep hv _ ih => exact .sep (hw _ (by simp) hv) (ih (fun d hd => hw d (by simp [hd])))

theorem dec_not89_oct (d : Char) (h : isDec d = true) (h8 : d ≠ '8') (h9 : d ≠ '9') : isOct d = true := by
  unfold isDec at h
  unfold isOct
  simp only [Bool.and_eq_true, decide_eq_true_eq, Gosyn.Props.C10.char_le_iff] at h ⊢
  have e0 : ('0' : Char).toNat = 48 := rfl
  have e9 : ('9' : Char).toNat = 57 := rfl
  have e7 : ('7' : Char).toNat = 55 := rfl
  rw [e0, e9] at h
  rw [e0, e7]
  have n8 : d.toNat ≠ 56 := by
    intro e; apply h8; apply Char.ext; apply UInt32.toNat_inj.1; simpa using e
  have n9 : d.toNat ≠ 57 := by
    intro e; apply h9; apply Char.ext; apply UInt32.toNat_inj.1; simpa using e
  omega

theorem dec_nonzero (c : Char) (h : isDec c = true) (h0 : c ≠ '0') : '1' ≤ c ∧ c ≤ '9' := by
  unfold isDec at h
  simp only [Bool.and_eq_true, decide_eq_true_eq, Gosyn.Props.C10.char_le_iff] at h ⊢
  have e0 : ('0' : Char).toNat = 48 := rfl
  have e9 : ('9' : Char).toNat = 57 := rfl
  have e1 : ('1' : Char).toNat = 49 := rfl
  rw [e0, e9] at h
  rw [e1, e9]
  have n0 : c.toNat ≠ 48 := by
    intro e; apply h0; apply Char.ext; apply UInt32.toNat_inj.1; simpa using e
  omega

theorem expPartOf_head (rest : List Char) (h : expPartOf rest ≠ []) :
    ∃ m, rest.head? = some m ∧ (expPartOf rest).head? = some m ∧ (m = 'e' ∨ m = 'E' ∨ m = 'p' ∨ m = 'P') := by
  unfold expPartOf at h ⊢
  cases rest with
  | nil => simp at h
  | cons m r =>
    simp only at h ⊢
    by_cases hm : (m = 'e' || m = 'E' || m = 'p' || m = 'P') = true
    · have hm' : m = 'e' ∨ m = 'E' ∨ m = 'p' ∨ m = 'P' := by simpa [or_assoc] using hm
      simp only [hm, if_true]
      refine ⟨m, rfl, ?_, hm'⟩
      cases r with
      | nil => rfl
      | cons sg r' => simp only; split <;> rfl
    · simp [hm] at h

theorem facPartOf_dot (radix : Nat) (rest : List Char) (h : rest.head? = some '.') :
    facPartOf radix rest = '.' :: scanDigits (if radix = 16 then isHexDigit else isDecimalDigit) (rest.drop 1) := by
  simp [facPartOf, h]

theorem facPartOf_nodot (radix : Nat) (rest : List Char) (h : rest.head? ≠ some '.') : facPartOf radix rest = [] := by
  simp [facPartOf, h]

theorem endsWith_append_ne (a b : List Char) (x : Char) (hb : b ≠ []) : endsWith (a ++ b) x = endsWith b x := by
  unfold endsWith
  rw [List.getLast?_append]
  cases hl : b.getLast? with
  | none => exact absurd (List.getLast?_eq_none_iff.1 hl) hb
  | some y => simp

/-- the fraction part, when it passed its two checks: `.` followed by nothing or by a `V_digits` -/
theorem fac_sound (V : Char → Bool) (hu : V '_' = false) (rest : List Char)
    (hl : ('.' :: scanDigits V rest).take 2 ≠ ['.', '_']) (he : endsWith ('.' :: scanDigits V rest) '_' = false) :
    scanDigits V rest = [] ∨ Digits V (scanDigits V rest) := by
  by_cases hn : scanDigits V rest = []
  · exact .inl hn
  · rw [endsWith_cons _ _ _ hn] at he
    rcases run_after_prefix V hu rest he with h | ⟨u, ds, h, hou, hd⟩
    · exact .inl h
    · rcases hou with rfl | rfl
      · right; rw [h]; exact hd
      · exfalso; apply hl; rw [h]; simp

/-! ### the fraction and the exponent, from the facts -/

theorem isHexD_eq : isHexDigit = isHex := funext Gosyn.Props.C10.isHex_eq

abbrev facOf (radix : Nat) (intPart cs : List Char) : List Char := facPartOf radix (cs.drop intPart.length)
abbrev expOf (radix : Nat) (intPart cs : List Char) : List Char :=
  expPartOf (cs.drop (intPart ++ facPartOf radix (cs.drop intPart.length)).length)

theorem fac_shape {radix intPart cs k t} (F : Facts radix intPart cs k t) :
    facOf radix intPart cs = [] ∨
    ∃ b, facOf radix intPart cs = '.' :: b ∧ (b = [] ∨ Digits (if radix = 16 then isHex else isDec) b) := by
  by_cases hd : (cs.drop intPart.length).head? = some '.'
  · right
    have e := facPartOf_dot radix _ hd
    have hl := F.fac_lead
    have he := F.fac_end
    rw [e] at hl he
    refine ⟨_, e, ?_⟩
    by_cases hr : radix = 16
    · simp only [hr, if_true] at hl he ⊢
      rcases fac_sound isHexDigit isHexD_u _ hl he with h | h
      · exact .inl h
      · right; rw [isHexD_eq] at h; exact h
    · simp only [hr, if_false] at hl he ⊢
      exact fac_sound isDecimalDigit isDec_u _ hl he
  · exact .inl (facPartOf_nodot radix _ hd)

theorem exp_shape {radix intPart cs k t} (F : Facts radix intPart cs k t) :
    expOf radix intPart cs = [] ∨
    ∃ m sg ds, expOf radix intPart cs = m :: (sg ++ ds) ∧ OptSign sg ∧ Digits isDec ds ∧
      ((radix = 10 ∧ (m = 'e' ∨ m = 'E')) ∨ (radix = 16 ∧ (m = 'p' ∨ m = 'P'))) := by
  by_cases hn : expOf radix intPart cs = []
  · exact .inl hn
  · right
    obtain ⟨m, sg, ds, he, hm, hs, hd⟩ := exp_sound _ hn (F.exp_ok hn)
    obtain ⟨m', hh, hh2, _⟩ := expPartOf_head _ hn
    have hmm : m' = m := by
      have : expOf radix intPart cs = m :: (sg ++ ds) := he
      simp only [expOf] at this
      rw [this] at hh2
      simpa using hh2.symm
    subst hmm
    refine ⟨m', sg, ds, he, hs, hd, ?_⟩
    have ne := F.no_e
    have np := F.no_p
    rw [hh] at ne np
    rcases hm with rfl | rfl | rfl | rfl
    · left; exact ⟨Decidable.byContradiction fun h => ne ⟨h, .inl rfl⟩, .inl rfl⟩
    · left; exact ⟨Decidable.byContradiction fun h => ne ⟨h, .inr rfl⟩, .inr rfl⟩
    · right; exact ⟨Decidable.byContradiction fun h => np ⟨h, .inl rfl⟩, .inl rfl⟩
    · right; exact ⟨Decidable.byContradiction fun h => np ⟨h, .inr rfl⟩, .inr rfl⟩

/-! ### soundness, radix 10 -/

theorem float_dec {a fac exp : List Char} (ha : Digits isDec a)
    (hf : fac = [] ∨ ∃ b, fac = '.' :: b ∧ (b = [] ∨ Digits isDec b))
    (hx : exp = [] ∨ ∃ m sg ds, exp = m :: (sg ++ ds) ∧ OptSign sg ∧ Digits isDec ds ∧ (m = 'e' ∨ m = 'E'))
    (hne : fac ≠ [] ∨ exp ≠ []) : DecFloat (a ++ fac ++ exp) := by
  have hx' : Opt DecExp exp := by
    rcases hx with h | ⟨m, sg, ds, h, hs, hd, hm⟩
    · exact .inl h
    · exact .inr ⟨m, sg, ds, h, hm, hs, hd⟩
  rcases hf with hf | ⟨b, hf, hb⟩
  · subst hf
    rcases hne with h | h
    · exact absurd rfl h
    · rcases hx' with h' | h'
      · exact absurd h' h
      · exact .inr (.inl ⟨a, exp, by simp, ha, h'⟩)
  · subst hf
    exact .inl ⟨a, b, exp, by simp, ha, hb, hx'⟩

theorem int_dec {c : Char} {a' : List Char} (hc : isDec c = true) (ha : Digits isDec (c :: a'))
    (h89 : ¬ ((c :: a').length > 1 ∧ (c :: a').head? = some '0' ∧
              ((c :: a').contains '8' = true ∨ (c :: a').contains '9' = true))) : IntLit (c :: a') := by
  by_cases h0 : c = '0'
  · subst h0
    cases a' with
    | nil => exact .inl (.inl rfl)
    | cons d a'' =>
      obtain ⟨u, ds, e, hu, hd⟩ := digits_tail ha (by simp)
      right; right; left
      refine ⟨[], u, ds, by simp [e], .inl rfl, hu, ?_⟩
      have hno : ¬ ('8' ∈ ('0' :: d :: a'') ∨ '9' ∈ ('0' :: d :: a'')) := by
        intro hm
        apply h89
        refine ⟨by simp, rfl, ?_⟩
        simpa [List.contains_iff_mem] using hm
      refine digits_mono hd (fun x hx hv => dec_not89_oct x hv ?_ ?_)
      · intro e8; subst e8; apply hno; left
        have : '8' ∈ u ++ ds := by simp [hx]
        rw [← e] at this; simp [this]
      · intro e9; subst e9; apply hno; right
        have : '9' ∈ u ++ ds := by simp [hx]
        rw [← e] at this; simp [this]
  · have hr := dec_nonzero c hc h0
    left
    right
    cases a' with
    | nil => exact ⟨c, [], [], rfl, hr.1, hr.2, .inl ⟨rfl, rfl⟩⟩
    | cons d a'' =>
      obtain ⟨u, ds, e, hu, hd⟩ := digits_tail ha (by simp)
      exact ⟨c, u, ds, by rw [e], hr.1, hr.2, .inr ⟨hu, hd⟩⟩

theorem sound_dec (c : Char) (tl : List Char) (hc : isDec c = true) (k : LitKind) (t : List Char)
    (F : Facts 10 (scanDigits isDecimalDigit (c :: tl)) (c :: tl) k t) : NumLit k t := by
  have hcu : c ≠ '_' := by intro e; subst e; exact absurd hc (by decide)
  have ha : Digits isDec (scanDigits isDecimalDigit (c :: tl)) := run_digits _ isDec_u c tl hc F.int_end
  have hae := scanDigits_nonempty isDecimalDigit c tl hc hcu
  have hf := fac_shape F
  have hx := exp_shape F
  have hres := F.result
  simp only [show ¬ ((10 : Nat) = 16) by decide, if_false] at hf
  have hx' : expOf 10 (scanDigits isDecimalDigit (c :: tl)) (c :: tl) = [] ∨
      ∃ m sg ds, expOf 10 (scanDigits isDecimalDigit (c :: tl)) (c :: tl) = m :: (sg ++ ds) ∧ OptSign sg ∧
        Digits isDec ds ∧ (m = 'e' ∨ m = 'E') := by
    rcases hx with h | ⟨m, sg, ds, h, hs, hd, hm⟩
    · exact .inl h
    · right
      rcases hm with ⟨_, hm⟩ | ⟨h16, _⟩
      · exact ⟨m, sg, ds, h, hs, hd, hm⟩
      · exact absurd h16 (by decide)
  simp only [facOf, expOf] at hf hx'
  rcases hres with ⟨hk, ht⟩ | ⟨hk, ht, hne⟩ | ⟨hk, ht, hf0, hx0, h89⟩
  · -- imaginary
    right; right
    refine ⟨hk, _, ht, ?_⟩
    by_cases hne : facPartOf 10 (List.drop (scanDigits isDecimalDigit (c :: tl)).length (c :: tl)) ≠ [] ∨
        expPartOf (List.drop (scanDigits isDecimalDigit (c :: tl) ++
          facPartOf 10 (List.drop (scanDigits isDecimalDigit (c :: tl)).length (c :: tl))).length (c :: tl)) ≠ []
    · exact .inr (.inr (.inl (float_dec ha hf hx' hne)))
    · have h1 : facPartOf 10 (List.drop (scanDigits isDecimalDigit (c :: tl)).length (c :: tl)) = [] :=
        Decidable.byContradiction fun h => hne (.inl h)
      have h2 : expPartOf (List.drop (scanDigits isDecimalDigit (c :: tl) ++
          facPartOf 10 (List.drop (scanDigits isDecimalDigit (c :: tl)).length (c :: tl))).length (c :: tl)) = [] :=
        Decidable.byContradiction fun h => hne (.inr h)
      rw [h2, h1]
      simp only [List.append_nil]
      exact .inl ha
  · right; left
    exact ⟨hk, by rw [ht]; exact .inl (float_dec ha hf hx' hne)⟩
  · left
    refine ⟨hk, ?_⟩
    rw [ht]
    rw [hx0, hf0] at h89 ⊢
    simp only [List.append_nil] at h89 ⊢
    rw [hae] at ha h89 ⊢
    exact int_dec hc ha (fun h => h89 ⟨trivial, h⟩)

/-! ### soundness, `.` first -/

theorem sound_dot (d : Char) (tl : List Char) (hd : isDec d = true) (k : LitKind) (t : List Char)
    (F : Facts 10 [] ('.' :: d :: tl) k t) : NumLit k t := by
  have hdu : d ≠ '_' := by intro e; subst e; exact absurd hd (by decide)
  have hf := fac_shape F
  have hx := exp_shape F
  have hres := F.result
  have hfe : facPartOf 10 (List.drop ([] : List Char).length ('.' :: d :: tl)) =
      '.' :: d :: scanDigitsGo isDecimalDigit true tl := by
    rw [facPartOf_dot 10 _ rfl]
    simp only [show ¬ ((10 : Nat) = 16) by decide, if_false, List.length_nil, List.drop_zero, List.drop_succ_cons]
    rw [scanDigits_nonempty isDecimalDigit d tl hd hdu]
  simp only [facOf, expOf, show ¬ ((10 : Nat) = 16) by decide, if_false] at hf hx
  have hb : Digits isDec (d :: scanDigitsGo isDecimalDigit true tl) := by
    rcases hf with h | ⟨b, h, hb⟩
    · rw [hfe] at h; cases h
    · rw [hfe] at h
      have : d :: scanDigitsGo isDecimalDigit true tl = b := by simpa using h
      subst this
      rcases hb with h' | h'
      · cases h'
      · exact h'
  have hx' : Opt DecExp (expPartOf (List.drop (([] : List Char) ++
      facPartOf 10 (List.drop ([] : List Char).length ('.' :: d :: tl))).length ('.' :: d :: tl))) := by
    rcases hx with h | ⟨m, sg, ds, h, hs, hdd, hm⟩
    · exact .inl h
    · right
      rcases hm with ⟨_, hm⟩ | ⟨h16, _⟩
      · exact ⟨m, sg, ds, h, hm, hs, hdd⟩
      · exact absurd h16 (by decide)
  have hfl : FloatLit (([] : List Char) ++ facPartOf 10 (List.drop ([] : List Char).length ('.' :: d :: tl)) ++
      expPartOf (List.drop (([] : List Char) ++
        facPartOf 10 (List.drop ([] : List Char).length ('.' :: d :: tl))).length ('.' :: d :: tl))) := by
    left; right; right
    refine ⟨_, _, ?_, hb, hx'⟩
    rw [hfe]; rfl
  rcases hres with ⟨hk, ht⟩ | ⟨hk, ht, _⟩ | ⟨_, _, hf0, _⟩
  · exact .inr (.inr ⟨hk, _, ht, .inr (.inr hfl)⟩)
  · exact .inr (.inl ⟨hk, by rw [ht]; exact hfl⟩)
  · rw [hfe] at hf0; cases hf0

/-! ### soundness, `0b` and `0o` -/

theorem sound_28 (radix : Nat) (hr : radix = 2 ∨ radix = 8) (V : Char → Bool) (hVu : V '_' = false)
    (p : Char) (rest : List Char) (k : LitKind) (t : List Char)
    (F : Facts radix ('0' :: p :: scanDigits V rest) ('0' :: p :: rest) k t) :
    ∃ u ds, scanDigits V rest = u ++ ds ∧ OptU u ∧ Digits V ds ∧
      ((k = .Integer ∧ t = '0' :: p :: (u ++ ds)) ∨ (k = .Imag ∧ t = '0' :: p :: (u ++ ds) ++ ['i'])) := by
  have h10 : radix ≠ 10 := by rcases hr with rfl | rfl <;> decide
  have h16 : radix ≠ 16 := by rcases hr with rfl | rfl <;> decide
  have hf0 : facOf radix ('0' :: p :: scanDigits V rest) ('0' :: p :: rest) = [] := by
    apply facPartOf_nodot
    intro h
    exact F.dot28 ⟨h, hr⟩
  have hx0 : expOf radix ('0' :: p :: scanDigits V rest) ('0' :: p :: rest) = [] := by
    rcases exp_shape F with h | ⟨m, sg, ds, _, _, _, hm⟩
    · exact h
    · rcases hm with ⟨h, _⟩ | ⟨h, _⟩
      · exact absurd h h10
      · exact absurd h h16
  have hrun : scanDigits V rest ≠ [] := by
    intro h
    apply F.mant_digits
    refine ⟨h10, by simp [h], ?_⟩
    have : facPartOf radix (List.drop ('0' :: p :: scanDigits V rest).length ('0' :: p :: rest)) = [] := hf0
    rw [this]; simp
  have hend : endsWith (scanDigits V rest) '_' = false := by
    have := F.int_end
    rw [endsWith_cons _ _ _ (by simp), endsWith_cons _ _ _ hrun] at this
    exact this
  rcases run_after_prefix V hVu rest hend with h | ⟨u, ds, h, hu, hd⟩
  · exact absurd h hrun
  · refine ⟨u, ds, h, hu, hd, ?_⟩
    have hres := F.result
    simp only [facOf, expOf] at hf0 hx0
    rcases hres with ⟨hk, ht⟩ | ⟨_, _, hne⟩ | ⟨hk, ht, _⟩
    · right
      rw [hx0, hf0] at ht
      simp only [List.append_nil] at ht
      rw [h] at ht
      exact ⟨hk, ht⟩
    · rcases hne with hne | hne
      · exact absurd hf0 hne
      · exact absurd hx0 hne
    · left
      rw [hx0, hf0] at ht
      simp only [List.append_nil] at ht
      rw [h] at ht
      exact ⟨hk, ht⟩

theorem sound_bin (b : Char) (hb : b = 'b' ∨ b = 'B') (rest : List Char) (k : LitKind) (t : List Char)
    (F : Facts 2 ('0' :: b :: scanDigits isBinaryDigit rest) ('0' :: b :: rest) k t) : NumLit k t := by
  obtain ⟨u, ds, _, hu, hd, hr⟩ := sound_28 2 (.inl rfl) isBinaryDigit isBinD_u b rest k t F
  have hl : BinaryLit ('0' :: b :: (u ++ ds)) := ⟨b, u, ds, rfl, hb, hu, hd⟩
  rcases hr with ⟨hk, ht⟩ | ⟨hk, ht⟩
  · exact .inl ⟨hk, by rw [ht]; exact .inr (.inl hl)⟩
  · exact .inr (.inr ⟨hk, _, ht, .inr (.inl (.inr (.inl hl)))⟩)

theorem sound_oct (o : Char) (ho : o = 'o' ∨ o = 'O') (rest : List Char) (k : LitKind) (t : List Char)
    (F : Facts 8 ('0' :: o :: scanDigits isDecimalDigit rest) ('0' :: o :: rest) k t) : NumLit k t := by
  obtain ⟨u, ds, he, hu, hd, hr⟩ := sound_28 8 (.inr rfl) isDecimalDigit isDec_u o rest k t F
  have h89 := F.oct89
  have hd' : Digits isOct ds := by
    refine digits_mono hd (fun x hx hv => dec_not89_oct x hv ?_ ?_)
    · intro e; subst e; apply h89; refine ⟨rfl, .inl ?_⟩
      rw [he]; simp [List.contains_iff_mem, hx]
    · intro e; subst e; apply h89; refine ⟨rfl, .inr ?_⟩
      rw [he]; simp [List.contains_iff_mem, hx]
  have hl : OctalLit ('0' :: o :: (u ++ ds)) := by
    refine ⟨[o], u, ds, by simp, ?_, hu, hd'⟩
    rcases ho with rfl | rfl
    · exact .inr (.inl rfl)
    · exact .inr (.inr rfl)
  rcases hr with ⟨hk, ht⟩ | ⟨hk, ht⟩
  · exact .inl ⟨hk, by rw [ht]; exact .inr (.inr (.inl hl))⟩
  · exact .inr (.inr ⟨hk, _, ht, .inr (.inl (.inr (.inr (.inl hl))))⟩)

/-! ### soundness, `0x` -/

theorem sound_hex (x : Char) (hxx : x = 'x' ∨ x = 'X') (rest : List Char) (k : LitKind) (t : List Char)
    (F : Facts 16 ('0' :: x :: scanDigits isHexDigit rest) ('0' :: x :: rest) k t) : NumLit k t := by
  have hf := fac_shape F
  have hx := exp_shape F
  have hres := F.result
  dsimp only at hres
  have hmd := F.mant_digits
  have hhe := F.hex_exp
  simp only [facOf, expOf, if_true] at hf hx
  -- the integer run
  have hrun : scanDigits isHexDigit rest = [] ∨
      ∃ u ds, scanDigits isHexDigit rest = u ++ ds ∧ OptU u ∧ Digits isHex ds := by
    by_cases hr : scanDigits isHexDigit rest = []
    · exact .inl hr
    · have hend : endsWith (scanDigits isHexDigit rest) '_' = false := by
        have := F.int_end
        rw [endsWith_cons _ _ _ (by simp), endsWith_cons _ _ _ hr] at this
        exact this
      rcases run_after_prefix isHexDigit isHexD_u rest hend with h | ⟨u, ds, h, hu, hd⟩
      · exact .inl h
      · right; rw [isHexD_eq] at hd; exact ⟨u, ds, h, hu, hd⟩
  have hxe : expPartOf (List.drop (('0' :: x :: scanDigits isHexDigit rest) ++
        facPartOf 16 (List.drop ('0' :: x :: scanDigits isHexDigit rest).length ('0' :: x :: rest))).length
        ('0' :: x :: rest)) = [] ∨
      HexExp (expPartOf (List.drop (('0' :: x :: scanDigits isHexDigit rest) ++
        facPartOf 16 (List.drop ('0' :: x :: scanDigits isHexDigit rest).length ('0' :: x :: rest))).length
        ('0' :: x :: rest))) := by
    rcases hx with h | ⟨m, sg, ds, h, hs, hd, hm⟩
    · exact .inl h
    · right
      rcases hm with ⟨h10, _⟩ | ⟨_, hm⟩
      · exact absurd h10 (by decide)
      · exact ⟨m, sg, ds, h, hm, hs, hd⟩
  generalize hfe : facPartOf 16 (List.drop ('0' :: x :: scanDigits isHexDigit rest).length ('0' :: x :: rest)) = fac
    at hf hxe hres hmd hhe
  generalize hee : expPartOf (List.drop (('0' :: x :: scanDigits isHexDigit rest) ++ fac).length ('0' :: x :: rest)) = ex
    at hxe hres hhe hx
  -- classification of the whole literal
  have hcls : (fac = [] ∧ ex = [] ∧ HexLit ('0' :: x :: scanDigits isHexDigit rest)) ∨
      ((fac ≠ [] ∨ ex ≠ []) ∧ HexFloat ('0' :: x :: scanDigits isHexDigit rest ++ fac ++ ex)) := by
    rcases hf with hf | ⟨b, hf, hb⟩
    · subst hf
      have hne : scanDigits isHexDigit rest ≠ [] := by
        intro h; apply hmd; exact ⟨by decide, by simp [h], by simp⟩
      rcases hrun with h | ⟨u, ds, h, hu, hd⟩
      · exact absurd h hne
      · rcases hxe with he | he
        · left; exact ⟨rfl, he, x, u, ds, by rw [h], hxx, hu, hd⟩
        · right
          refine ⟨.inr (by intro e; rw [e] at he; obtain ⟨_, _, _, h', _⟩ := he; cases h'), ?_⟩
          exact ⟨x, u ++ ds, ex, by rw [h]; simp, hxx, .inr (.inl ⟨u, ds, rfl, hu, hd⟩), he⟩
    · subst hf
      right
      have he : HexExp ex := by
        rcases hxe with he | he
        · exact absurd ⟨rfl, by simp, he⟩ hhe
        · exact he
      refine ⟨.inl (by simp), ?_⟩
      rcases hrun with h | ⟨u, ds, h, hu, hd⟩
      · have hbne : Digits isHex b := by
          rcases hb with hb | hb
          · subst hb; exfalso; apply hmd; exact ⟨by decide, by simp [h], by simp⟩
          · exact hb
        exact ⟨x, '.' :: b, ex, by rw [h]; simp, hxx, .inr (.inr ⟨b, rfl, hbne⟩), he⟩
      · exact ⟨x, u ++ ds ++ '.' :: b, ex, by rw [h]; simp, hxx, .inl ⟨u, ds, b, rfl, hu, hd, hb⟩, he⟩
  rcases hres with ⟨hk, ht⟩ | ⟨hk, ht, hne⟩ | ⟨hk, ht, hf0, hx0, _⟩
  · refine .inr (.inr ⟨hk, _, ht, ?_⟩)
    rcases hcls with ⟨h1, h2, hl⟩ | ⟨_, hl⟩
    · subst h1; subst h2; simp only [List.append_nil]
      exact .inr (.inl (.inr (.inr (.inr hl))))
    · exact .inr (.inr (.inr hl))
  · rcases hcls with ⟨h1, h2, _⟩ | ⟨_, hl⟩
    · rcases hne with h | h
      · exact absurd h1 h
      · exact absurd h2 h
    · exact .inr (.inl ⟨hk, by rw [ht]; exact .inr hl⟩)
  · rcases hcls with ⟨_, _, hl⟩ | ⟨hne, _⟩
    · subst hf0; subst hx0
      simp only [List.append_nil] at ht
      exact .inl ⟨hk, by rw [ht]; exact .inr (.inr (.inr hl))⟩
    · rcases hne with h | h
      · exact absurd hf0 h
      · exact absurd hx0 h

/-! ### the dispatch -/

theorem numPrefix_digit (c : Char) (tl : List Char) (hc : isDecimalDigit c = true) :
    (∃ b rest, tl = b :: rest ∧ c = '0' ∧ (b = 'b' ∨ b = 'B') ∧
        numPrefix (c :: tl) = (2, '0' :: b :: scanDigits isBinaryDigit rest)) ∨
    (∃ b rest, tl = b :: rest ∧ c = '0' ∧ (b = 'o' ∨ b = 'O') ∧
        numPrefix (c :: tl) = (8, '0' :: b :: scanDigits isDecimalDigit rest)) ∨
    (∃ b rest, tl = b :: rest ∧ c = '0' ∧ (b = 'x' ∨ b = 'X') ∧
        numPrefix (c :: tl) = (16, '0' :: b :: scanDigits isHexDigit rest)) ∨
    numPrefix (c :: tl) = (10, scanDigits isDecimalDigit (c :: tl)) := by
  have hdot : c ≠ '.' := by intro e; subst e; exact absurd hc (by decide)
  unfold numPrefix
  split
  · rename_i h; cases h
  · rename_i h; simp only [List.cons.injEq] at h; exact absurd h.1 hdot
  · cases tl with
    | nil => right; right; right; simp
    | cons b rest =>
      simp only [List.take_succ_cons, List.take_zero, List.cons.injEq, and_true, Bool.or_eq_true, decide_eq_true_eq,
        List.drop_succ_cons, List.drop_zero]
      by_cases h2 : (c = '0' ∧ b = 'b') ∨ (c = '0' ∧ b = 'B')
      · left
        rw [if_pos h2]
        rcases h2 with ⟨rfl, rfl⟩ | ⟨rfl, rfl⟩
        · exact ⟨_, _, ⟨rfl, rfl⟩, rfl, .inl rfl, rfl⟩
        · exact ⟨_, _, ⟨rfl, rfl⟩, rfl, .inr rfl, rfl⟩
      · rw [if_neg h2]
        by_cases h8 : (c = '0' ∧ b = 'o') ∨ (c = '0' ∧ b = 'O')
        · right; left
          rw [if_pos h8]
          rcases h8 with ⟨rfl, rfl⟩ | ⟨rfl, rfl⟩
          · exact ⟨_, _, ⟨rfl, rfl⟩, rfl, .inl rfl, rfl⟩
          · exact ⟨_, _, ⟨rfl, rfl⟩, rfl, .inr rfl, rfl⟩
        · rw [if_neg h8]
          by_cases h16 : (c = '0' ∧ b = 'x') ∨ (c = '0' ∧ b = 'X')
          · right; right; left
            rw [if_pos h16]
            rcases h16 with ⟨rfl, rfl⟩ | ⟨rfl, rfl⟩
            · exact ⟨_, _, ⟨rfl, rfl⟩, rfl, .inl rfl, rfl⟩
            · exact ⟨_, _, ⟨rfl, rfl⟩, rfl, .inr rfl, rfl⟩
          · rw [if_neg h16]
            right; right; right; trivial

/-- the condition under which `scan_token` calls `scan_lit_number` -/
def Dispatch (cs : List Char) : Prop :=
  ∃ c tl, cs = c :: tl ∧ (isDecimalDigit c = true ∨ (c = '.' ∧ ∃ d tl', tl = d :: tl' ∧ isDecimalDigit d = true))

/-- **soundness of the number scanner** (C09, forward direction, at full strength): whatever
    `scan_lit_number` accepts, with the kind it reports, is derivable from the spec's `int_lit`,
    `float_lit` or `imaginary_lit` production for that kind -/
theorem number_sound (cs : List Char) (k : LitKind) (t : List Char) (n : Nat) (hd : Dispatch cs)
    (h : scanLitNumber cs = .ok (k, t, n)) : NumLit k t := by
  obtain ⟨c, tl, rfl, hc⟩ := hd
  unfold scanLitNumber at h
  rcases hc with hc | ⟨rfl, d, tl', rfl, hd⟩
  · rcases numPrefix_digit c tl hc with ⟨b, rest, rfl, rfl, hb, e⟩ | ⟨b, rest, rfl, rfl, hb, e⟩ |
      ⟨b, rest, rfl, rfl, hb, e⟩ | e
    · rw [e] at h; exact sound_bin b hb rest k t (facts_of_ok h)
    · rw [e] at h; exact sound_oct b hb rest k t (facts_of_ok h)
    · rw [e] at h; exact sound_hex b hb rest k t (facts_of_ok h)
    · rw [e] at h; exact sound_dec c tl hc k t (facts_of_ok h)
  · have e : numPrefix ('.' :: d :: tl') = (10, []) := rfl
    rw [e] at h
    exact sound_dot d tl' hd k t (facts_of_ok h)

end Gosyn.Props.C09
