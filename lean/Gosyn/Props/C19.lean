import Gosyn.Model.Parser
/-!
C19 — parsing is a pure function of the input.

In the model this is true by construction: a parser is a value (`PState`), every entry point is a
function `PState → Except PErr α × PState`, and nothing else exists.  What makes the *code* such a
function is checked by the translator step of this property's check (`tools/props/c19.py`: no
`static`, `thread_local!`, lazy/once cells, interior mutability or `unsafe` beyond `next_nstr` in
`/repo/src` outside `cfg(test)` / `cfg(gosyn_verif)`), and by the 16-thread differential run against
this model.  The statements below say what "isolated" means on the model: a process is a list of
parsers; running an entry point on one of them leaves every other one untouched and its own answer
depends only on its own state.
-/
namespace Gosyn.Props.C19
open Gosyn.Model

/-- a process: the parsers that exist -/
abbrev Process := List PState

/-- run an entry point on parser `i` -/
def stepAt {α} (ps : Process) (i : Nat) (entry : P α) : Option (Except PErr α) × Process :=
  match ps[i]? with
  | none => (none, ps)
  | some s => let r := entry s; (some r.1, ps.set i r.2)

/-- isolation: other parsers are untouched -/
theorem step_isolated {α} (ps : Process) (i j : Nat) (entry : P α) (h : i ≠ j) :
    (stepAt ps i entry).2[j]? = ps[j]? := by
  unfold stepAt
  split
  · rfl
  · simp [List.getElem?_set, h]

/-- the answer of parser `i` depends only on its own state, not on the other parsers of the process -/
theorem step_local {α} (ps qs : Process) (i : Nat) (entry : P α) (h : ps[i]? = qs[i]?) :
    (stepAt ps i entry).1 = (stepAt qs i entry).1 := by
  unfold stepAt
  rw [h]
  split <;> rfl

/-- running other parsers first does not change what parser `i` answers -/
theorem history_independent {α β} (ps : Process) (i j : Nat) (e1 : P β) (e2 : P α) (h : j ≠ i) :
    (stepAt (stepAt ps j e1).2 i e2).1 = (stepAt ps i e2).1 :=
  step_local _ _ i e2 (step_isolated ps j i e1 h)

/-- a fresh parser's result is a function of the source text alone -/
theorem parse_deterministic (src : String) : (runFile src).1 = (runFile src).1 := rfl

end Gosyn.Props.C19
