import Gosyn.Model.Scanner
/-!
C16 — error locations.  `Scanner::line_info` (scanner.rs) translates a char offset into
(line, column) by a binary search in the table of line starts.  Proved here, for every sorted table
and every offset:

* the modelled `slice::binary_search` (the branch-free loop of core) meets its contract;
* `line_info` never underflows (no panic in the debug profile, no wrap-around in release);
* the column is the distance to the start of the line that contains the offset — the true column;
* the line is `k` where `k` = number of line starts ≤ offset, i.e. **one less than the true 1-based
  line `k + 1` from line 2 on** (and 1 on line 1).  This is the off-by-one pinned by the unit test
  `scanner::tests::get_line_info`; it is stated as a theorem (`lineInfo_sorted`) and as a concrete
  counterexample to the property (`lineInfo_line_cex`).
-/
namespace Gosyn.Props.C16
open Gosyn.Model

instance {ε α} [DecidableEq ε] [DecidableEq α] : DecidableEq (Except ε α)
  | .ok a, .ok b => if h : a = b then isTrue (h ▸ rfl) else isFalse (fun e => h (Except.ok.inj e))
  | .error a, .error b => if h : a = b then isTrue (h ▸ rfl) else isFalse (fun e => h (Except.error.inj e))
  | .ok _, .error _ => isFalse (fun e => nomatch e)
  | .error _, .ok _ => isFalse (fun e => nomatch e)

/-- strictly increasing table -/
def Sorted (a : Array Nat) : Prop := ∀ i j, i < j → j < a.size → a[i]! < a[j]!

theorem sorted_le {a : Array Nat} (h : Sorted a) {i j : Nat} (hij : i ≤ j) (hj : j < a.size) : a[i]! ≤ a[j]! := by
  rcases Nat.lt_or_eq_of_le hij with h' | h'
  · exact Nat.le_of_lt (h i j h' hj)
  · subst h'; exact Nat.le_refl _

/-- loop invariant of the branch-free binary search -/
structure Inv (a : Array Nat) (x base size : Nat) : Prop where
  size_pos : 1 ≤ size
  bound : base + size ≤ a.size
  below : ∀ i, i < base → a[i]! ≤ x
  above : ∀ i, base + size ≤ i → i < a.size → x < a[i]!

theorem loop_inv (a : Array Nat) (x : Nat) (hs : Sorted a) :
    ∀ fuel base size, size ≤ fuel → Inv a x base size →
      Inv a x (binarySearchLoop a x fuel base size) 1 := by
  intro fuel
  induction fuel with
  | zero => intro base size h hi; have := hi.size_pos; omega
  | succ fuel ih =>
    intro base size hf hi
    unfold binarySearchLoop
    split
    · rename_i hgt
      simp only
      have hhalf : size / 2 ≥ 1 := by omega
      have hmid : base + size / 2 < a.size := by have := hi.bound; omega
      apply ih
      · omega
      · split
        · rename_i hcmp
          -- a[mid] > x: keep base, shrink
          refine ⟨by omega, by have := hi.bound; omega, hi.below, ?_⟩
          intro i hi1 hi2
          have : base + size / 2 ≤ i := by omega
          exact Nat.lt_of_lt_of_le hcmp (sorted_le hs this hi2)
        · rename_i hcmp
          -- a[mid] ≤ x: move base to mid
          refine ⟨by omega, by have := hi.bound; omega, ?_, ?_⟩
          · intro i hi1
            have : a[i]! ≤ a[base + size / 2]! := sorted_le hs (Nat.le_of_lt hi1) hmid
            omega
          · intro i hi1 hi2
            exact hi.above i (by omega) hi2
    · rename_i hle
      have : size = 1 := by have := hi.size_pos; omega
      subst this; exact hi

/-- whatever the table (sorted or not): the loop's answer is index 0 or an index whose entry is `≤ x` -/
theorem loop_base (a : Array Nat) (x : Nat) :
    ∀ fuel base size, (base = 0 ∨ a[base]! ≤ x) →
      (binarySearchLoop a x fuel base size = 0 ∨ a[binarySearchLoop a x fuel base size]! ≤ x) := by
  intro fuel
  induction fuel with
  | zero => intro base size h; simpa [binarySearchLoop] using h
  | succ fuel ih =>
    intro base size h
    unfold binarySearchLoop
    split
    · simp only
      apply ih
      split
      · exact h
      · rename_i hc; right; omega
    · exact h

theorem binarySearch_def (a : Array Nat) (x : Nat) :
    binarySearch a x =
      if a.size = 0 then .inr 0 else
        if a[binarySearchLoop a x a.size 0 a.size]! = x then .inl (binarySearchLoop a x a.size 0 a.size)
        else .inr (binarySearchLoop a x a.size 0 a.size + (if a[binarySearchLoop a x a.size 0 a.size]! < x then 1 else 0)) := rfl

/-- **contract of `binary_search` on a sorted table**: `Ok(i)` iff the value is at index `i`;
    `Err(i)` is the insertion point: everything before is smaller, everything from `i` on larger -/
theorem binarySearch_sorted (a : Array Nat) (x : Nat) (hs : Sorted a) :
    match binarySearch a x with
    | .inl i => i < a.size ∧ a[i]! = x
    | .inr i => i ≤ a.size ∧ (∀ j, j < i → a[j]! < x) ∧ (∀ j, i ≤ j → j < a.size → x < a[j]!) := by
  rw [binarySearch_def]
  by_cases h0 : a.size = 0
  · rw [if_pos h0]
    exact ⟨by omega, fun j hj => by omega, fun j _ hj => by omega⟩
  · rw [if_neg h0]
    have hinv := loop_inv a x hs a.size 0 a.size (Nat.le_refl _)
      ⟨by omega, by omega, fun i hi => by omega, fun i h1 h2 => by omega⟩
    have hb0 := loop_base a x a.size 0 a.size (.inl rfl)
    generalize binarySearchLoop a x a.size 0 a.size = b at hinv hb0
    have hb : b < a.size := by have := hinv.bound; omega
    by_cases heq : a[b]! = x
    · rw [if_pos heq]; exact ⟨hb, heq⟩
    · rw [if_neg heq]
      by_cases hlt : a[b]! < x
      · rw [if_pos hlt]
        refine ⟨by omega, ?_, ?_⟩
        · intro j hj
          have : a[j]! ≤ a[b]! := sorted_le hs (by omega) hb
          omega
        · intro j h1 h2
          exact hinv.above j (by omega) h2
      · rw [if_neg hlt]
        refine ⟨by omega, ?_, ?_⟩
        · intro j hj
          simp only [Nat.add_zero] at hj
          rcases hb0 with hb0 | hb0 <;> omega
        · intro j h1 h2
          simp only [Nat.add_zero] at h1
          rcases Nat.lt_or_eq_of_le h1 with h' | h'
          · exact hinv.above j (by omega) h2
          · subst h'; omega

/-- **`line_info` never underflows, whatever the table** (sorted or not): an `Err(i)` with `i > 0`
    always has `lines[i-1] < pos` — so no panic in the debug profile and no wrap-around in release,
    even on a table corrupted by backtracking -/
theorem lineInfo_total (profile : Profile) (lines : Array Nat) (pos : Nat) :
    ∃ loc, lineInfoOf profile lines pos = .ok loc := by
  unfold lineInfoOf
  rw [binarySearch_def]
  by_cases h0 : lines.size = 0
  · rw [if_pos h0]; exact ⟨_, rfl⟩
  · rw [if_neg h0]
    have hb := loop_base lines pos lines.size 0 lines.size (.inl rfl)
    generalize binarySearchLoop lines pos lines.size 0 lines.size = b at hb
    by_cases heq : lines[b]! = pos
    · rw [if_pos heq]; exact ⟨_, rfl⟩
    · rw [if_neg heq]
      by_cases hlt : lines[b]! < pos
      · rw [if_pos hlt]
        refine ⟨(b + 1, pos - lines[b]!), ?_⟩
        simp [usub, Nat.le_of_lt hlt, bind, Except.bind, pure, Except.pure]
      · rw [if_neg hlt]
        have : b = 0 := by
          rcases hb with hb | hb
          · exact hb
          · omega
        subst this
        exact ⟨_, rfl⟩

/-- **what `line_info` computes on a sorted table**, for both build profiles: with `k` the number of
    line starts `≤ pos` (so the offset lies on the true 1-based line `k + 1`), the answer is
    `(1, pos)` on the first line and `(k, pos − start of that line)` otherwise — the column is the
    true column, the line is one less than the true line from line 2 on.  No underflow. -/
theorem lineInfo_sorted (profile : Profile) (lines : Array Nat) (pos : Nat) (hs : Sorted lines) :
    ∃ k, k ≤ lines.size ∧ (∀ j, j < k → lines[j]! ≤ pos) ∧ (∀ j, k ≤ j → j < lines.size → pos < lines[j]!) ∧
      lineInfoOf profile lines pos = .ok (if k = 0 then (1, pos) else (k, pos - lines[k - 1]!)) := by
  have hb := binarySearch_sorted lines pos hs
  unfold lineInfoOf
  split at hb
  · rename_i i hi
    rw [hi]
    simp only
    refine ⟨i + 1, by omega, ?_, ?_, ?_⟩
    · intro j hj
      have := sorted_le hs (show j ≤ i by omega) hb.1
      omega
    · intro j h1 h2
      have := hs i j (by omega) h2
      omega
    · simp [hb.2]
  · rename_i i hi
    rw [hi]
    cases i with
    | zero =>
      simp only
      exact ⟨0, by omega, fun j hj => by omega, fun j h1 h2 => hb.2.2 j h1 h2, by simp⟩
    | succ i =>
      simp only
      refine ⟨i + 1, hb.1, fun j hj => Nat.le_of_lt (hb.2.1 j hj), fun j h1 h2 => hb.2.2 j h1 h2, ?_⟩
      have hlt : lines[i]! < pos := hb.2.1 i (by omega)
      simp [usub, Nat.le_of_lt hlt, bind, Except.bind, pure, Except.pure]

/-- the answer does not depend on the build profile (sorted table) -/
theorem lineInfo_profile (lines : Array Nat) (pos : Nat) (hs : Sorted lines) :
    lineInfoOf .debug lines pos = lineInfoOf .release lines pos := by
  obtain ⟨k, _, h2, h3, h⟩ := lineInfo_sorted .debug lines pos hs
  obtain ⟨k', _, h2', h3', h'⟩ := lineInfo_sorted .release lines pos hs
  have : k = k' := by
    rcases Nat.lt_trichotomy k k' with hlt | heq | hgt
    · have a := h2' k hlt; have b := h3 k (Nat.le_refl _) (by omega); omega
    · exact heq
    · have a := h2 k' hgt; have b := h3' k' (Nat.le_refl _) (by omega); omega
  subst this; rw [h, h']

/-! ### the off-by-one, as a concrete counterexample to the property (known finding K2) -/

/-- the table of `"a\nb\nc"` is `[2, 4]`; offset 4 (`c`) is on line 3 — reported as line 2;
    offset 2 (`b`) is on line 2 — reported as line 1.  Same numbers as the pinned unit test
    `get_line_info`: table `[10, 20, 30]`, offset 20 ↦ (2, 0), offset 50 ↦ (3, 20). -/
theorem lineInfo_line_cex :
    lineInfoOf .debug #[2, 4] 4 = .ok (2, 0) ∧ lineInfoOf .debug #[2, 4] 2 = .ok (1, 0) ∧
    lineInfoOf .debug #[10, 20, 30] 20 = .ok (2, 0) ∧ lineInfoOf .debug #[10, 20, 30] 50 = .ok (3, 20) := by
  decide

/-- an unsorted table (as `Scanner::goback` could leave it before its repair) gives a wrong line, not
    a crash: offset 7 with the table `[10, 5, 20]` is reported as line 2, column 2 -/
theorem lineInfo_unsorted_example : lineInfoOf .debug #[10, 5, 20] 7 = .ok (2, 2) := by decide

example : Sorted #[2, 4] := by
  intro i j hij hj
  have : j < 2 := hj
  have : i = 0 ∧ j = 1 := by omega
  obtain ⟨rfl, rfl⟩ := this
  decide

end Gosyn.Props.C16
