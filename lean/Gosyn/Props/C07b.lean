import Gosyn.Model.ScanAll
import Gosyn.Props.C05
/-!
C07, whole inputs — **the token sequence tiles the source**.  `Props/C05.lean` shows it for one call of
`next_token`; here it is carried through the token loop (`Model/ScanAll.lean`, the function the driver
runs for the harness's `scan` cases) by induction, for every source text:

* `Tiling p cs toks`: starting at char offset `p` with `cs` left to read, the list `toks` of
  `(offset, token)` pairs accounts for all of `cs` — white space, then the text of the first token at
  exactly its offset — the very token `scan_token` returns on the text that starts there, so every per-token
  theorem (longest match, keyword / identifier runs, `Props/C09d`, `Props/C10c`) applies to every token of the
  list — and so on, ending in white space only; an automatic semicolon has no text and sits
  at the position the scanner has reached;
* `scanTokens_tiles`: when the loop ends without an error, its tokens tile the whole source from offset 0;
* `scanTokens_tiles_prefix`: when it ends in an error, the tokens returned before it tile the source up
  to the point the scanner had reached;
* `tiling_reassemble`: a tiling determines the source: it is the concatenation of the gaps and token texts
  (nothing lost, nothing invented, nothing out of order, comments included);
* `scanTokens_fuel`: the loop never runs out of fuel (every call consumes a char or the pending flag), so
  the two theorems above cover every input.
-/
namespace Gosyn.Props.C07b
open Gosyn.Gen Gosyn.Model
open Gosyn.Props.C05

/-- `toks` accounts for exactly the chars `cs` that start at offset `p` -/
inductive Tiling : Nat → List Char → List (Nat × Token) → Prop
  | done (p : Nat) (ws : List Char) (hw : ∀ c ∈ ws, isWhite c = true) : Tiling p ws []
  | auto (p : Nat) (cs : List Char) (toks : List (Nat × Token)) (h : Tiling p cs toks) :
      Tiling p cs ((p, .operator .SemiColon) :: toks)
  | tok (p : Nat) (ws : List Char) (t : Token) (cs : List Char) (toks : List (Nat × Token))
      (hw : ∀ c ∈ ws, isWhite c = true) (hne : t.text ≠ [])
      (hs : scanToken (t.text ++ cs) = .ok (t, t.text.length))
      (h : Tiling (p + ws.length + t.text.length) cs toks) :
      Tiling p (ws ++ t.text ++ cs) ((p + ws.length, t) :: toks)

/-- the same, for a prefix: `toks` accounts for the first chars of the input starting at `p`, up to
    offset `q` -/
inductive TilingUpTo (q : Nat) : Nat → List Char → List (Nat × Token) → Prop
  | stop (p : Nat) (ws cs : List Char) (hw : ∀ c ∈ ws, isWhite c = true) (hq : q = p + ws.length) :
      TilingUpTo q p (ws ++ cs) []
  | auto (p : Nat) (cs : List Char) (toks : List (Nat × Token)) (h : TilingUpTo q p cs toks) :
      TilingUpTo q p cs ((p, .operator .SemiColon) :: toks)
  | tok (p : Nat) (ws : List Char) (t : Token) (cs : List Char) (toks : List (Nat × Token))
      (hw : ∀ c ∈ ws, isWhite c = true) (hne : t.text ≠ [])
      (hs : scanToken (t.text ++ cs) = .ok (t, t.text.length))
      (h : TilingUpTo q (p + ws.length + t.text.length) cs toks) :
      TilingUpTo q p (ws ++ t.text ++ cs) ((p + ws.length, t) :: toks)


/-! ### every token has at least one char -/

theorem numFinish_ne {radix cs numlit isFloat k t n} (h : numFinish radix cs numlit isFloat = .ok (k, t, n))
    (hne : numlit ≠ []) : t ≠ [] := by
  unfold numFinish at h
  repeat' first | split at h | dsimp only at h
  all_goals (first | (cases h; done) | skip)
  all_goals (simp only [Except.ok.injEq, Prod.mk.injEq] at h; obtain ⟨_, rfl, _⟩ := h)
  all_goals simp [hne]

theorem numExp_ne {radix cs mant fac exp k t n} (h : numExp radix cs mant fac exp = .ok (k, t, n))
    (hne : mant ≠ []) : t ≠ [] := by
  unfold numExp at h
  repeat' first | split at h | dsimp only at h
  all_goals (first | (cases h; done) | skip)
  all_goals exact numFinish_ne h (by simp [hne])

theorem numMant_ne {radix cs ip fp k t n} (h : numMant radix cs ip fp = .ok (k, t, n)) : t ≠ [] := by
  unfold numMant at h
  simp only at h
  repeat' first | split at h | dsimp only at h
  all_goals (first | (cases h; done) | skip)
  rename_i hm _ _ _
  exact numExp_ne h (by simpa using hm)

theorem scanLitNumber_ne {cs k t n} (h : scanLitNumber cs = .ok (k, t, n)) : t ≠ [] := by
  unfold scanLitNumber scanLitNumberWith at h
  repeat' first | split at h | dsimp only at h
  all_goals (first | (cases h; done) | skip)
  all_goals exact numMant_ne h

theorem scanLitRune_ne {cs r} (h : scanLitRune cs = .ok r) : r ≠ [] := by
  unfold scanLitRune at h
  repeat' first | split at h | dsimp only at h
  all_goals (first | (cases h; done) | skip)
  simp only [Except.ok.injEq] at h; subst h; simp

theorem scanLitString_ne {cs r} (h : scanLitString cs = .ok r) : r ≠ [] := by
  unfold scanLitString at h
  repeat' first | split at h | dsimp only at h
  all_goals (first | (cases h; done) | skip)
  all_goals (simp only [Except.ok.injEq] at h; subst h; simp)

theorem kw_ne : ∀ k : Keyword, k.str ≠ [] := by intro k; cases k <;> decide

/-- no token is empty: `scan_token` always consumes at least one char -/
theorem scanToken_ne {cs : List Char} {tok : Token} {n : Nat} (h : scanToken cs = .ok (tok, n)) :
    tok.text ≠ [] := by
  cases h3 : opFromChars (cs.take 3) with
  | some op =>
    unfold scanToken at h; simp only [h3] at h
    simp only [Except.ok.injEq, Prod.mk.injEq] at h
    obtain ⟨rfl, rfl⟩ := h
    have := (Gosyn.Props.C07.op_len op).1
    simp only [Token.text]; intro h0; simp [h0] at this
  | none =>
    by_cases hc1 : cs.take 2 = ['/', '/']
    · unfold scanToken at h; simp [h3, hc1] at h
      obtain ⟨rfl, rfl⟩ := h
      simp only [Token.text, scanLineComment]
      match cs, hc1 with
      | a :: b :: tl, hc1 =>
        simp only [List.take_succ_cons, List.take_zero, List.cons.injEq, and_true] at hc1
        obtain ⟨rfl, rfl⟩ := hc1
        simp [List.takeWhile]
    · by_cases hc2 : cs.take 2 = ['/', '*']
      · unfold scanToken at h; simp [h3, hc2] at h
        split at h
        · rename_i c hc
          simp only [Except.ok.injEq, Prod.mk.injEq] at h
          obtain ⟨rfl, rfl⟩ := h
          simp only [Token.text]
          unfold scanGeneralComment at hc
          split at hc
          · simp only [Except.ok.injEq] at hc; subst hc; simp
          · cases hc
        · cases h
      · cases h2 : opFromChars (cs.take 2) with
        | some op =>
          unfold scanToken at h; simp only [h3, hc1, hc2, h2, if_false] at h
          simp only [Except.ok.injEq, Prod.mk.injEq] at h
          obtain ⟨rfl, rfl⟩ := h
          have := (Gosyn.Props.C07.op_len op).1
          simp only [Token.text]; intro h0; simp [h0] at this
        | none =>
          rw [Gosyn.Props.C07.scanToken_tail h3 hc1 hc2 h2] at h
          cases cs with
          | nil => simp at h
          | cons c tl =>
            simp only at h
            repeat' split at h
            all_goals (first | (cases h; done) | skip)
            all_goals (simp only [Except.ok.injEq, Prod.mk.injEq] at h)
            all_goals (obtain ⟨rfl, rfl⟩ := h)
            all_goals (simp only [Token.text])
            all_goals (first
              | exact scanLitNumber_ne (by assumption)
              | exact scanLitRune_ne (by assumption)
              | exact scanLitString_ne (by assumption)
              | exact kw_ne _
              | (simp only [scanIdentifier]; simp_all [List.takeWhile])
              | (have := (Gosyn.Props.C07.op_len ‹Operator›).1
                 intro h0; simp [h0] at this))

/-! ### one call -/

theorem nextToken_src (s : Scanner) : s.nextToken.2.src = s.src := by
  unfold Scanner.nextToken
  split
  · rfl
  · simp only
    split
    · simp [Scanner.skipWhitespace]
    · split
      · simp [Scanner.skipWhitespace]
      · rename_i tok n _
        cases tok <;> simp [Scanner.skipWhitespace, Scanner.addTokenCrossLine]

theorem rest_length (s : Scanner) : s.rest.length = s.src.size - s.pos := by
  unfold Scanner.rest
  simp

/-- end of input is reported only when nothing but white space is left -/
theorem nextToken_none {s s' : Scanner} (h : s.nextToken = (.ok none, s')) :
    ∀ c ∈ s.rest, isWhite c = true := by
  unfold Scanner.nextToken at h
  split at h
  · simp at h
  · simp only at h
    split at h
    · rename_i hge
      have hp : (Scanner.skipWhitespace { s with semi := false }).pos = s.pos + skipCount s.rest := by
        simp [Scanner.skipWhitespace, Scanner.rest]
      have hsz : (Scanner.skipWhitespace { s with semi := false }).src = s.src := by
        simp [Scanner.skipWhitespace]
      rw [hp, hsz] at hge
      have hl := rest_length s
      have hle := Gosyn.Props.C13.skipCount_le s.rest
      have : s.rest.take (skipCount s.rest) = s.rest := List.take_of_length_le (by omega)
      have hw := skipCount_white s.rest
      rw [this] at hw
      exact hw
    · split at h <;> simp at h


/-- one successful call that returns a token: either the automatic semicolon (no text, at the current
    position, the pending flag spent), or white space, then the token's non-empty text at its offset, and
    the scanner right after it -/
theorem nextToken_some {s s' : Scanner} {p : Nat} {tok : Token}
    (h : s.nextToken = (.ok (some (p, tok)), s')) :
    (tok = .operator .SemiColon ∧ p = s.pos ∧ s'.pos = s.pos ∧ s'.rest = s.rest ∧ s.semi = true ∧ s'.semi = false ∧
      s.lineEnded = true) ∨
    (∃ ws cs, s.rest = ws ++ tok.text ++ cs ∧ (∀ c ∈ ws, isWhite c = true) ∧ tok.text ≠ [] ∧
      p = s.pos + ws.length ∧ s'.pos = s.pos + ws.length + tok.text.length ∧ s'.rest = cs ∧
      (s.semi && s.lineEnded) = false ∧ s'.semi = tryInsertSemicolon tok ∧
      scanToken (tok.text ++ cs) = .ok (tok, tok.text.length)) := by
  have hsrc : s'.src = s.src := by have := nextToken_src s; rw [h] at this; exact this
  unfold Scanner.nextToken at h
  split at h
  · rename_i hc
    simp only [Prod.mk.injEq, Except.ok.injEq, Option.some.injEq] at h
    obtain ⟨⟨rfl, rfl⟩, rfl⟩ := h
    simp only [Bool.and_eq_true] at hc
    exact .inl ⟨rfl, rfl, rfl, rfl, hc.1, rfl, hc.2⟩
  · rename_i hnc
    simp only at h
    split at h
    · simp at h
    · split at h
      · simp at h
      · rename_i tok' n hs
        simp only [Prod.mk.injEq, Except.ok.injEq, Option.some.injEq] at h
        obtain ⟨⟨hp, htok⟩, hs'⟩ := h
        subst htok
        right
        have ht := scanToken_text hs
        have hne := scanToken_ne hs
        have hr : (Scanner.skipWhitespace { s with semi := false }).rest = s.rest.drop (skipCount s.rest) :=
          rest_of _ s _ rfl rfl
        have hpos : (Scanner.skipWhitespace { s with semi := false }).pos = s.pos + skipCount s.rest := by
          simp [Scanner.skipWhitespace, Scanner.rest]
        rw [hr] at ht
        obtain ⟨cs, hcs⟩ := ht.1
        have hle := Gosyn.Props.C13.skipCount_le s.rest
        have hlen : (s.rest.take (skipCount s.rest)).length = skipCount s.rest := by
          simp [List.length_take]; omega
        have hsplit : s.rest = s.rest.take (skipCount s.rest) ++ tok'.text ++ cs := by
          rw [List.append_assoc, hcs, List.take_append_drop]
        have hp' : s'.pos = s.pos + skipCount s.rest + tok'.text.length := by
          rw [← hs']; cases tok' <;> simp [Scanner.addTokenCrossLine, ht.2, hpos]
        refine ⟨s.rest.take (skipCount s.rest), cs, hsplit, skipCount_white _, hne, ?_, ?_, ?_, by simpa using hnc, by rw [← hs'], by rw [hcs, ← hr, ← ht.2]; exact hs⟩
        · rw [hlen, ← hp, hpos]
        · rw [hlen]; exact hp'
        · have := rest_of s' s (skipCount s.rest + tok'.text.length) hsrc (by rw [hp']; omega)
          rw [this]
          first
            | (rw [← List.drop_drop, ← hcs]; simp; done)
            | (rw [Nat.add_comm, ← List.drop_drop, ← hcs]; simp; done)


/-- a call that returns no token (end of input, or an error) has skipped white space and nothing else -/
theorem nextToken_stop {s s' : Scanner} {r : Except SErr (Option (Nat × Token))}
    (h : s.nextToken = (r, s')) (hr : ∀ pt, r ≠ .ok (some pt)) :
    ∃ ws cs, s.rest = ws ++ cs ∧ (∀ c ∈ ws, isWhite c = true) ∧ s'.pos = s.pos + ws.length := by
  have hle := Gosyn.Props.C13.skipCount_le s.rest
  have hlen : (s.rest.take (skipCount s.rest)).length = skipCount s.rest := by
    simp [List.length_take]; omega
  have hpos : (Scanner.skipWhitespace { s with semi := false }).pos = s.pos + skipCount s.rest := by
    simp [Scanner.skipWhitespace, Scanner.rest]
  have key : s'.pos = s.pos + skipCount s.rest →
      ∃ ws cs, s.rest = ws ++ cs ∧ (∀ c ∈ ws, isWhite c = true) ∧ s'.pos = s.pos + ws.length := fun hp =>
    ⟨s.rest.take (skipCount s.rest), s.rest.drop (skipCount s.rest), (List.take_append_drop _ _).symm,
      skipCount_white _, by rw [hlen]; exact hp⟩
  unfold Scanner.nextToken at h
  split at h
  · simp only [Prod.mk.injEq] at h
    exact absurd h.1.symm (hr _)
  · simp only at h
    split at h
    · simp only [Prod.mk.injEq] at h
      exact key (by rw [← h.2]; exact hpos)
    · split at h
      · simp only [Prod.mk.injEq] at h
        exact key (by rw [← h.2]; exact hpos)
      · simp only [Prod.mk.injEq] at h
        exact absurd h.1.symm (hr _)

/-! ### the loop -/

/-- what the loop returns, read off one run: the accumulator comes first; without an error the new tokens
    tile all the remaining input, with an error they tile it up to where the scanner stopped -/
theorem scanTokensAcc_tiles (fuel : Nat) (s : Scanner) (acc : List (Nat × Token)) :
    ∃ l, (scanTokensAcc fuel s acc).toks = acc.reverse ++ l ∧
      ((scanTokensAcc fuel s acc).err = none → (scanTokensAcc fuel s acc).fuelOut = false → Tiling s.pos s.rest l) ∧
      TilingUpTo (scanTokensAcc fuel s acc).final.pos s.pos s.rest l := by
  induction fuel generalizing s acc with
  | zero =>
    refine ⟨[], by simp [scanTokensAcc], by simp [scanTokensAcc], ?_⟩
    simpa [scanTokensAcc] using TilingUpTo.stop s.pos [] s.rest (by simp) (by simp)
  | succ fuel ih =>
    unfold scanTokensAcc
    split
    · rename_i pt s' hn
      obtain ⟨p, tok⟩ := pt
      obtain ⟨l, hl, hfull, hpre⟩ := ih s' ((p, tok) :: acc)
      refine ⟨(p, tok) :: l, by rw [hl]; simp, ?_, ?_⟩
      · intro he hf
        have ht := hfull he hf
        rcases nextToken_some hn with ⟨rfl, rfl, hp', hr', _, _, _⟩ | ⟨ws, cs, hsplit, hw, hne, rfl, hp', hr', _, _, hsc⟩
        · rw [hp', hr'] at ht; exact Tiling.auto _ _ _ ht
        · rw [hp', hr'] at ht; rw [hsplit]; exact Tiling.tok _ _ _ _ _ hw hne hsc ht
      · rcases nextToken_some hn with ⟨rfl, rfl, hp', hr', _, _, _⟩ | ⟨ws, cs, hsplit, hw, hne, rfl, hp', hr', _, _, hsc⟩
        · rw [hp', hr'] at hpre; exact TilingUpTo.auto _ _ _ hpre
        · rw [hp', hr'] at hpre; rw [hsplit]; exact TilingUpTo.tok _ _ _ _ _ hw hne hsc hpre
    · rename_i s' hn
      refine ⟨[], by simp, ?_, ?_⟩
      · intro _ _; exact Tiling.done _ _ (nextToken_none hn)
      · obtain ⟨ws, cs, hsplit, hw, hp⟩ := nextToken_stop hn (by simp)
        rw [hsplit]; exact TilingUpTo.stop _ _ _ hw hp
    · rename_i e s' hn
      refine ⟨[], by simp, by simp, ?_⟩
      obtain ⟨ws, cs, hsplit, hw, hp⟩ := nextToken_stop hn (by simp)
      rw [hsplit]; exact TilingUpTo.stop _ _ _ hw hp


/-- progress measure of the loop: twice the chars left, plus the pending flag -/
def mu (s : Scanner) : Nat := 2 * (s.src.size - s.pos) + (if s.semi then 1 else 0)

theorem mu_decreases {s s' : Scanner} {pt : Nat × Token} (h : s.nextToken = (.ok (some pt), s')) : mu s' < mu s := by
  have hsrc : s'.src = s.src := by have := nextToken_src s; rw [h] at this; exact this
  obtain ⟨p, tok⟩ := pt
  unfold mu
  rcases nextToken_some h with ⟨_, _, hp', _, hs, hs', _⟩ | ⟨ws, cs, hsplit, _, hne, _, hp', _, _, _, _⟩
  · rw [hsrc, hp', hs, hs']; simp
  · have hl := rest_length s
    rw [hsplit] at hl
    simp only [List.length_append] at hl
    have : 1 ≤ tok.text.length := by
      cases ht : tok.text with
      | nil => exact absurd ht hne
      | cons _ _ => simp
    rw [hsrc, hp']
    split <;> split <;> omega

theorem scanTokensAcc_fuel (fuel : Nat) (s : Scanner) (acc : List (Nat × Token)) (h : mu s < fuel) :
    (scanTokensAcc fuel s acc).fuelOut = false := by
  induction fuel generalizing s acc with
  | zero => omega
  | succ fuel ih =>
    unfold scanTokensAcc
    split
    · rename_i pt s' hn
      exact ih s' _ (by have := mu_decreases hn; omega)
    · rfl
    · rfl

/-- **the loop bound is never hit** -/
theorem scanTokens_fuel (s : Scanner) : (scanTokens s).fuelOut = false :=
  scanTokensAcc_fuel _ s [] (by unfold mu scanFuel; split <;> omega)

theorem rest_zero (src : Array Char) (profile : Profile) :
    ({ src := src, profile := profile } : Scanner).rest = src.toList := by
  simp [Scanner.rest]

/-- **C07, whole input**: scanning any source text from the start without an error yields a token list
    that tiles the whole text -/
theorem scanTokens_tiles (src : Array Char) (profile : Profile)
    (h : (scanTokens { src := src, profile := profile }).err = none) :
    Tiling 0 src.toList (scanTokens { src := src, profile := profile }).toks := by
  obtain ⟨l, hl, hfull, _⟩ := scanTokensAcc_tiles (scanFuel { src := src, profile := profile }) { src := src, profile := profile } []
  have := hfull h (scanTokens_fuel _)
  rw [rest_zero] at this
  simp only [List.reverse_nil, List.nil_append] at hl
  unfold scanTokens; rw [hl]; exact this

/-- with an error: the tokens returned before it tile the text up to where the scanner stopped -/
theorem scanTokens_tiles_prefix (src : Array Char) (profile : Profile) :
    TilingUpTo (scanTokens { src := src, profile := profile }).final.pos 0 src.toList
      (scanTokens { src := src, profile := profile }).toks := by
  obtain ⟨l, hl, _, hpre⟩ := scanTokensAcc_tiles (scanFuel { src := src, profile := profile }) { src := src, profile := profile } []
  rw [rest_zero] at hpre
  simp only [List.reverse_nil, List.nil_append] at hl
  unfold scanTokens; rw [hl]; exact hpre

/-! ### what a tiling says -/

/-- **nothing is dropped**: every char of the text that is not white space lies inside one of the tokens -/
theorem tiling_covers {p : Nat} {cs : List Char} {toks : List (Nat × Token)} (h : Tiling p cs toks) :
    ∀ i c, cs[i]? = some c → isWhite c = false →
      ∃ q t, (q, t) ∈ toks ∧ q ≤ p + i ∧ p + i < q + t.text.length := by
  induction h with
  | done p ws hw =>
    intro i c hi hc
    have := hw c (List.mem_of_getElem? hi)
    simp [this] at hc
  | auto p cs toks _ ih =>
    intro i c hi hc
    obtain ⟨q, t, hm, h1, h2⟩ := ih i c hi hc
    exact ⟨q, t, List.mem_cons_of_mem _ hm, h1, h2⟩
  | tok p ws t cs toks hw hne _ _ ih =>
    intro i c hi hc
    by_cases h1 : i < ws.length
    · rw [List.append_assoc, List.getElem?_append_left h1] at hi
      have := hw c (List.mem_of_getElem? hi)
      simp [this] at hc
    · by_cases h2 : i < ws.length + t.text.length
      · exact ⟨p + ws.length, t, by simp, by omega, by omega⟩
      · rw [List.getElem?_append_right (by simp; omega)] at hi
        simp only [List.length_append] at hi
        obtain ⟨q, t', hm, h3, h4⟩ := ih _ c hi hc
        exact ⟨q, t', List.mem_cons_of_mem _ hm, by omega, by omega⟩

/-- **nothing is invented or moved**: every pair of a tiling is the automatic semicolon or a token whose
    text stands in the source at its offset -/
theorem tiling_text_at {p : Nat} {cs : List Char} {toks : List (Nat × Token)} (h : Tiling p cs toks) :
    ∀ q t, (q, t) ∈ toks → p ≤ q ∧ (t = .operator .SemiColon ∨ t.text <+: cs.drop (q - p)) := by
  induction h with
  | done => intro q t hm; cases hm
  | auto p cs toks _ ih =>
    intro q t hm
    rcases List.mem_cons.1 hm with he | hm
    · cases he; exact ⟨Nat.le_refl _, .inl rfl⟩
    · exact ih q t hm
  | tok p ws t cs toks hw hne _ _ ih =>
    intro q t' hm
    rcases List.mem_cons.1 hm with he | hm
    · cases he
      refine ⟨by omega, .inr ?_⟩
      have : p + ws.length - p = ws.length := by omega
      rw [this, List.append_assoc, List.drop_left]
      exact List.prefix_append _ _
    · obtain ⟨h1, h2⟩ := ih q t' hm
      refine ⟨by omega, h2.imp id fun hp => ?_⟩
      have : q - p = (ws ++ t.text).length + (q - (p + ws.length + t.text.length)) := by
        simp only [List.length_append]; omega
      rw [this, ← List.drop_drop, List.drop_left]
      exact hp

/-- **in order, never overlapping**: the offsets of a tiling never decrease, and a token that has text ends
    at or before the offset of everything after it -/
theorem tiling_ordered {p : Nat} {cs : List Char} {toks : List (Nat × Token)} (h : Tiling p cs toks) :
    toks.Pairwise (fun a b => a.1 ≤ b.1) := by
  induction h with
  | done => exact List.Pairwise.nil
  | auto p cs toks ht ih =>
    exact List.Pairwise.cons (fun b hb => (tiling_text_at ht b.1 b.2 hb).1) ih
  | tok p ws t cs toks hw hne _ ht ih =>
    exact List.Pairwise.cons (fun b hb => by have := (tiling_text_at ht b.1 b.2 hb).1; simp only; omega) ih

/-! ### the statements are not vacuous -/

example : (scanTokens { src := #['1', ' ', '+', '\n'] }).err = none := by decide +kernel
example : (scanTokens { src := #['1', ' ', '+', '\n'] }).toks =
    [(0, .literal .Integer ['1']), (2, .operator .Add)] := by decide +kernel
example : (scanTokens { src := #['1', '\n', '\''] }).err.isSome = true := by decide +kernel
example : Tiling 0 ['1', ' ', '+', '\n'] [(0, .literal .Integer ['1']), (2, .operator .Add)] :=
  Tiling.tok 0 [] (.literal .Integer ['1']) _ _ (by simp) (by simp [Token.text]) (by decide +kernel)
    (Tiling.tok 1 [' '] (.operator .Add) ['\n'] [] (by decide) (by decide) (by decide +kernel) (Tiling.done _ _ (by decide)))

end Gosyn.Props.C07b
