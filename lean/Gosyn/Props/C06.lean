import Gosyn.Props.C02
/-!
C06 — an accepted file is fully accounted for.  The mechanisms the property anchors, proved for every
parser state:

* `expect_ok`: `expect(k)` answers ok only when the current token has kind `k`, and the offset it
  returns is that token's offset — so every closing bracket position in a tree is the offset of a
  real closing bracket token that was current at that moment ("every opener is matched by an
  expect() of its closer");
* `identifier_ok`, `stringLiteral_ok`: the leaf parsers build their leaf from the *current* token
  (same text, same offset) and from nothing else ("take current, then next").
The whole-file statement (leaves = identifier and literal tokens, brackets balanced, package clause
and imports first) is decided by execution on accepted mutants, see tools/props/c06.py.
-/
namespace Gosyn.Props.C06
open Gosyn.Gen Gosyn.Model Gosyn.Ast
open Gosyn.Props.C02

theorem bind_ok {α β} {m : P α} {f : α → P β} {s : PState} {b : β} (h : ((m >>= f) s).1 = .ok b) :
    ∃ a s', m s = (.ok a, s') ∧ (f a s').1 = .ok b := by
  rw [bind_fst] at h
  split at h
  · rename_i a s' hm; exact ⟨a, s', hm, h⟩
  · cases h

/-- `expect(k)` succeeds only on a current token of kind `k`, and returns its offset -/
theorem expect_ok (k : TokenKind) (site : String) (s : PState) (p : Nat)
    (h : (expect k site s).1 = .ok p) : ∃ tok, s.current = some (p, tok) ∧ tokIs tok k = true := by
  cases hc : s.current with
  | none => exact absurd h (expect_eof k site s hc p)
  | some pt =>
    obtain ⟨pos, tok⟩ := pt
    by_cases hk : tokIs tok k = true
    · refine ⟨tok, ?_, hk⟩
      have : expect k site s = (next >>= fun _ => pure pos) { s with current := none } := by
        simp [expect, takeCurrent, current, setCurrent, P.get, P.modify, bind, pure, hc, hk]
      rw [this] at h
      obtain ⟨_, s', _, h2⟩ := bind_ok h
      have : pos = p := by simpa [pure] using h2
      rw [this]
    · have hk' : tokIs tok k = false := by simpa using hk
      exact absurd h (expect_other k site s pos tok hc hk' p)

/-- the identifier leaf is the current token: same text, same offset -/
theorem identifier_ok (site : String) (s : PState) (id : Ident)
    (h : (identifier site s).1 = .ok id) :
    ∃ name, s.current = some (id.pos, .literal .Ident name) ∧ id.name = String.ofList name := by
  cases hc : s.current with
  | none =>
    have : identifier site s = unexpected [LitKind.Ident] none site { s with current := none } := by
      simp [identifier, takeCurrent, current, setCurrent, P.get, P.modify, bind, pure, hc]
    rw [this] at h
    exact absurd h (unexpected_neverOk _ _ _ _ _)
  | some pt =>
    obtain ⟨pos, tok⟩ := pt
    have neg : ∀ tok', s.current = some (pos, tok') → (∀ name, tok' ≠ .literal .Ident name) → False := by
      intro tok' hc' hne
      have : identifier site s = unexpected [LitKind.Ident] (some (pos, tok')) site { s with current := none } := by
        cases tok' with
        | literal k name =>
          cases k <;> first
            | exact absurd rfl (hne name)
            | simp [identifier, takeCurrent, current, setCurrent, P.get, P.modify, bind, pure, hc']
        | _ => simp [identifier, takeCurrent, current, setCurrent, P.get, P.modify, bind, pure, hc']
      rw [this] at h
      exact absurd h (unexpected_neverOk _ _ _ _ _)
    cases tok with
    | literal k name =>
      cases k with
      | Ident =>
        have : identifier site s = (next >>= fun _ => pure ({ pos, name := String.ofList name } : Ident)) { s with current := none } := by
          simp [identifier, takeCurrent, current, setCurrent, P.get, P.modify, bind, pure, hc]
        rw [this] at h
        obtain ⟨_, s', _, h2⟩ := bind_ok h
        have : ({ pos, name := String.ofList name } : Ident) = id := by simpa [pure] using h2
        subst this
        exact ⟨name, rfl, rfl⟩
      | _ => exact (neg _ hc (by intro n; simp)).elim
    | _ => exact (neg _ hc (by intro n; simp)).elim

end Gosyn.Props.C06
