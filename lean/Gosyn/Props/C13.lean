import Gosyn.Props.C08
/-!
C13 — layout never changes the tree.  The scanner half, proved for every scanner state:

* `rest_after_skip`: what `next_token` hands to `scan_token` is the remaining input with *all* leading
  white space removed — so the kind, number and order of blanks, tabs, carriage returns and newlines
  before a token never influence which token is read (when no semicolon is pending);
* `lineEnded_blank_irrelevant` (from C08): blanks and newline-free general comments in front of the
  line end do not change the semicolon decision.
The parser never looks at positions or white space (it only sees tokens), which is what the
correspondence + oracle part of the check exercises on whole programs.
-/
namespace Gosyn.Props.C13
open Gosyn.Gen Gosyn.Model

theorem skipCount_dropWhile (cs : List Char) : cs.drop (skipCount cs) = cs.dropWhile isWhite := by
  induction cs with
  | nil => simp [skipCount]
  | cons c cs ih =>
    unfold skipCount
    by_cases h : isWhite c = true
    · simp [h, ih]
    · simp [h]

theorem skipCount_le (cs : List Char) : skipCount cs ≤ cs.length := by
  induction cs with
  | nil => simp [skipCount]
  | cons c cs ih => unfold skipCount; split <;> simp <;> omega

theorem rest_advance (s : Scanner) (n : Nat) (lines : Array Nat) :
    ({ s with pos := s.pos + n, lines := lines } : Scanner).rest = s.rest.drop n := by
  unfold Scanner.rest
  simp [Array.toList_extract, List.drop_take, List.drop_drop, Nat.add_comm]
  omega

/-- the text `scan_token` is started on: the remaining input without its leading white space -/
theorem rest_after_skip (s : Scanner) : s.skipWhitespace.rest = s.rest.dropWhile isWhite := by
  unfold Scanner.skipWhitespace
  simp only
  rw [rest_advance, skipCount_dropWhile]

/-- leading white space of any kind and amount is irrelevant for what is scanned next -/
theorem blanks_irrelevant (ws r : List Char) (h : ∀ c ∈ ws, isWhite c = true) :
    (ws ++ r).dropWhile isWhite = r.dropWhile isWhite := by
  induction ws with
  | nil => rfl
  | cons c ws ih =>
    have hc : isWhite c = true := h c (by simp)
    simp [List.dropWhile, hc]
    exact ih (fun d hd => h d (by simp [hd]))

/-- two scanner states whose remaining inputs differ only in leading white space scan the same token text
    (no semicolon pending) -/
theorem same_token_after_blanks (s₁ s₂ : Scanner) (ws₁ ws₂ r : List Char)
    (h₁ : s₁.rest = ws₁ ++ r) (h₂ : s₂.rest = ws₂ ++ r)
    (hw₁ : ∀ c ∈ ws₁, isWhite c = true) (hw₂ : ∀ c ∈ ws₂, isWhite c = true) :
    scanToken s₁.skipWhitespace.rest = scanToken s₂.skipWhitespace.rest := by
  rw [rest_after_skip, rest_after_skip, h₁, h₂, blanks_irrelevant _ _ hw₁, blanks_irrelevant _ _ hw₂]

/-- blanks before the line end do not change the semicolon decision (C08) -/
theorem lineEnded_blank_irrelevant (c : Char) (cs : List Char) (h : Gosyn.Spec.ImplBlank c) :
    lineEndedS (c :: cs) = lineEndedS cs := Gosyn.Props.C08.lineEndedS_blank h

example : ("  \t\n x".toList).dropWhile isWhite = ['x'] := by decide

end Gosyn.Props.C13
