import Gosyn.Props.HoareTbl
/-! Whole-parser invariant, part 5: `switch` statement. -/
namespace Gosyn.Props.Hoare
open Gosyn.Gen Gosyn.Model Gosyn.Ast

variable {src : Array Char} {r : Tbl} [hr : TblOK src r]

set_option maxHeartbeats 8000000 in
theorem parseSwitchStmtBody_spec : T src Tr (parseSwitchStmtBody r) (fun _ _ => True) := by
  unfold parseSwitchStmtBody
  hoare


end Gosyn.Props.Hoare
