import Gosyn.Model.Parser
/-!
C02 — acceptance.  The spec lets a `;` be omitted before `)` and `}`.  In parser.rs that is the
difference between `skipped(';')` and `expect(';')` after a statement or declaration.  Proved for the
two primitives, in every parser state:

* `skipped_other` / `skipped_eof`: when the current token is not the one asked for (or the input has
  ended) `skipped` answers `false`, changes nothing and never fails — so a production that ends in
  `skipped(';')` succeeds whether a `;`, a `)` or a `}` follows;
* `expect_other` / `expect_eof`: `expect` fails in exactly those situations — a production that ends in
  `expect(';')` rejects `… }` (the defect repaired by commit 377dd79 for `defer` and `else`).
Whole-language acceptance is decided by generated derivations (see tools/props/c02.py).
-/
namespace Gosyn.Props.C02
open Gosyn.Gen Gosyn.Model Gosyn.Ast

theorem skipped_other (k : TokenKind) (s : PState) (pos : Nat) (tok : Token)
    (h : s.current = some (pos, tok)) (hk : tokIs tok k = false) : skipped k s = (.ok false, s) := by
  simp [skipped, current, P.get, bind, pure, h, hk]

theorem skipped_eof (k : TokenKind) (s : PState) (h : s.current = none) : skipped k s = (.ok false, s) := by
  simp [skipped, current, P.get, bind, pure, h]

/-- a computation that cannot answer ok -/
def NeverOk {α} (m : P α) : Prop := ∀ s a, (m s).1 ≠ .ok a

theorem bind_fst {α β} (m : P α) (f : α → P β) (s : PState) :
    ((m >>= f) s).1 = match m s with
      | (.ok a, s') => (f a s').1
      | (.error e, _) => .error e := by
  show (bind m f s).1 = _
  simp only [bind]
  cases h : m s with
  | mk r s' => cases r <;> simp

theorem NeverOk.throw {α} (e : PErr) : NeverOk (P.throw e : P α) := by
  intro s a; simp [P.throw]

theorem NeverOk.bind {α β} (m : P α) (f : α → P β) (h : ∀ a, NeverOk (f a)) : NeverOk (m >>= f) := by
  intro s b
  rw [bind_fst]
  split
  · exact h _ _ _
  · simp

theorem unexpected_neverOk {α} (ex : List TokenKind) (act : Option (Nat × Token)) (site : String) :
    NeverOk (unexpected (α := α) ex act site) := by
  unfold unexpected
  cases act with
  | none => exact NeverOk.bind _ _ (fun _ => NeverOk.bind _ _ (fun _ => NeverOk.throw _))
  | some p => exact NeverOk.bind _ _ (fun _ => NeverOk.bind _ _ (fun _ => NeverOk.throw _))

theorem expect_other (k : TokenKind) (site : String) (s : PState) (pos : Nat) (tok : Token)
    (h : s.current = some (pos, tok)) (hk : tokIs tok k = false) : ∀ a, (expect k site s).1 ≠ .ok a := by
  intro a
  have : expect k site s = unexpected [k] (some (pos, tok)) site { s with current := none } := by
    simp [expect, takeCurrent, current, setCurrent, P.get, P.modify, bind, pure, h, hk]
  rw [this]
  exact unexpected_neverOk _ _ _ _ _

theorem expect_eof (k : TokenKind) (site : String) (s : PState) (h : s.current = none) :
    ∀ a, (expect k site s).1 ≠ .ok a := by
  intro a
  have : expect k site s = unexpected [k] none site { s with current := none } := by
    simp [expect, takeCurrent, current, setCurrent, P.get, P.modify, bind, pure, h]
  rw [this]
  exact unexpected_neverOk _ _ _ _ _

end Gosyn.Props.C02
