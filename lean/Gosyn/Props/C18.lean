import Gosyn.Model.Dir
/-!
C18 — file and directory entry points (model: `Model/Dir.lean`).

* `parseFile_eq_source`: parsing a file gives exactly what parsing its decoded contents (BOM removed)
  from memory gives, with the path recorded.
* `parseDir_ok_groups`: on success, the files listed for a package name are exactly the `.go`
  entries of the directory whose parse declares that name, each once, in directory order; nothing
  else is in the map.
* `parseDir_error_iff`: the call fails iff some `.go` entry cannot be read, decoded or parsed — never
  a partial map; entries without the `go` extension are never touched.
All by induction on the list of entries: no bound on the size of the directory.
-/
namespace Gosyn.Props.C18
open Gosyn.Model Gosyn.Ast

/-- parsing from disk = decoding, stripping one BOM, parsing from memory with the path recorded -/
theorem parseFile_eq_source (path : String) (bytes : ByteArray) (s : String)
    (h : String.fromUTF8? bytes = some s) :
    parseFileAt path (.file bytes) =
      (match parseSourceAt path (stripBOM s) with
        | .ok f => .ok f
        | .error e => .error (.parse e)) := by
  unfold parseFileAt
  simp only [h]
  cases parseSourceAt path (stripBOM s) <;> rfl

theorem parseFile_not_utf8 (path : String) (bytes : ByteArray) (h : String.fromUTF8? bytes = none) :
    ∃ e, parseFileAt path (.file bytes) = .error e ∧ e matches .io := by
  exact ⟨.io, by simp [parseFileAt, h], rfl⟩

theorem parseFile_unreadable (path : String) :
    parseFileAt path .dangling = .error .io ∧ parseFileAt path .dir = .error .io := ⟨rfl, rfl⟩

/-! ### the map -/

theorem filesOf_insertFile (m : PkgMap) (name k : String) (f : File) :
    filesOf (insertFile m name f) k = if k = name then filesOf m k ++ [f] else filesOf m k := by
  induction m with
  | nil =>
    by_cases h : k = name
    · subst h; simp [insertFile, filesOf, List.lookup]
    · have : (k == name) = false := by simpa using h
      simp [insertFile, filesOf, List.lookup, this, h]
  | cons hd tl ih =>
    obtain ⟨k', fs⟩ := hd
    unfold insertFile
    by_cases hn : name = k'
    · subst hn
      simp only [beq_self_eq_true, if_true]
      by_cases h : k = name
      · subst h; simp [filesOf, List.lookup]
      · have : (k == name) = false := by simpa using h
        simp [filesOf, List.lookup, this, h]
    · have hn' : (name == k') = false := by simpa using hn
      simp only [hn', Bool.false_eq_true, if_false]
      by_cases hk : k = k'
      · subst hk
        have : k ≠ name := fun e => hn e.symm
        simp [filesOf, List.lookup, this]
      · have hk' : (k == k') = false := by simpa using hk
        have := ih
        simp only [filesOf, List.lookup, hk'] at this ⊢
        exact this

/-- the parsed `.go` entries of a directory, when all of them parse -/
def goFiles (dirPath : String) : List DirEntry → Option (List File)
  | [] => some []
  | e :: es =>
    if hasGoExt e.name then
      match parseFileAt (dirPath ++ "/" ++ e.name) e.kind with
      | .error _ => none
      | .ok f => (goFiles dirPath es).map (f :: ·)
    else goFiles dirPath es

theorem parseDirGo_spec (dirPath : String) (es : List DirEntry) (m : PkgMap) :
    match goFiles dirPath es with
    | none => ∃ err, parseDirGo dirPath es m = .error err
    | some fs => ∃ m', parseDirGo dirPath es m = .ok m' ∧
        ∀ k, filesOf m' k = filesOf m k ++ fs.filter (fun f => f.pkg_name.name = k) := by
  induction es generalizing m with
  | nil => simp [goFiles, parseDirGo]
  | cons e es ih =>
    unfold goFiles parseDirGo
    by_cases hg : hasGoExt e.name = true
    · simp only [hg, if_true]
      cases hp : parseFileAt (dirPath ++ "/" ++ e.name) e.kind with
      | error err => exact ⟨err, rfl⟩
      | ok f =>
        simp only
        have := ih (insertFile m f.pkg_name.name f)
        cases hgf : goFiles dirPath es with
        | none => rw [hgf] at this; simpa using this
        | some fs =>
          rw [hgf] at this
          obtain ⟨m', hm', hfs⟩ := this
          refine ⟨m', hm', ?_⟩
          intro k
          rw [hfs k, filesOf_insertFile]
          by_cases hk : k = f.pkg_name.name
          · subst hk; simp [List.filter]
          · have : ¬ f.pkg_name.name = k := fun e => hk e.symm
            simp [hk, List.filter, this]
    · have hg' : hasGoExt e.name = false := by simpa using hg
      simp only [hg', Bool.false_eq_true, if_false]
      exact ih m

/-- **success**: every package name maps to exactly the parsed `.go` entries declaring it, each
    once, in directory order; names no file declares map to nothing -/
theorem parseDir_ok_groups (dirPath : String) (es : List DirEntry) (m : PkgMap)
    (h : parseDir dirPath (some es) = .ok m) :
    ∃ fs, goFiles dirPath es = some fs ∧ ∀ k, filesOf m k = fs.filter (fun f => f.pkg_name.name = k) := by
  have := parseDirGo_spec dirPath es []
  unfold parseDir at h
  simp only at h
  cases hgf : goFiles dirPath es with
  | none => rw [hgf] at this; obtain ⟨err, he⟩ := this; rw [he] at h; cases h
  | some fs =>
    rw [hgf] at this
    obtain ⟨m', hm', hfs⟩ := this
    rw [hm'] at h
    simp only [Except.ok.injEq] at h; subst h
    exact ⟨fs, rfl, fun k => by simpa [filesOf] using hfs k⟩

/-- **failure**: the call is an error exactly when some `.go` entry cannot be read, decoded or parsed
    (or the directory does not exist) — never a partial result -/
theorem parseDir_error_iff (dirPath : String) (es : List DirEntry) :
    (∃ err, parseDir dirPath (some es) = .error err) ↔ goFiles dirPath es = none := by
  have := parseDirGo_spec dirPath es []
  unfold parseDir
  simp only
  cases hgf : goFiles dirPath es with
  | none => rw [hgf] at this; simpa using this
  | some fs =>
    rw [hgf] at this
    obtain ⟨m', hm', _⟩ := this
    simp [hm']

theorem goFiles_none_iff (dirPath : String) (es : List DirEntry) :
    goFiles dirPath es = none ↔
      ∃ e ∈ es, hasGoExt e.name = true ∧ ∃ err, parseFileAt (dirPath ++ "/" ++ e.name) e.kind = .error err := by
  induction es with
  | nil => simp [goFiles]
  | cons e es ih =>
    unfold goFiles
    by_cases hg : hasGoExt e.name = true
    · simp only [hg, if_true]
      cases hp : parseFileAt (dirPath ++ "/" ++ e.name) e.kind with
      | error err => simp; exact .inl ⟨hg, err, hp⟩
      | ok f =>
        simp only [Option.map_eq_none_iff, ih]
        constructor
        · rintro ⟨e', he', h1, h2⟩; exact ⟨e', List.mem_cons_of_mem _ he', h1, h2⟩
        · rintro ⟨e', he', h1, err, h2⟩
          rcases List.mem_cons.1 he' with rfl | he'
          · rw [hp] at h2; cases h2
          · exact ⟨e', he', h1, err, h2⟩
    · have hg' : hasGoExt e.name = false := by simpa using hg
      simp only [hg', Bool.false_eq_true, if_false, ih]
      constructor
      · rintro ⟨e', he', h1, h2⟩; exact ⟨e', List.mem_cons_of_mem _ he', h1, h2⟩
      · rintro ⟨e', he', h1, h2⟩
        rcases List.mem_cons.1 he' with rfl | he'
        · rw [hg'] at h1; cases h1
        · exact ⟨e', he', h1, h2⟩

theorem parseDir_missing (dirPath : String) : parseDir dirPath none = .error .io := rfl

/-! ### the extension filter -/
example : hasGoExt "a.go" = true := by decide
example : hasGoExt ".go" = false := by decide
example : hasGoExt "x.GO" = false := by decide
example : hasGoExt "y.go.txt" = false := by decide
example : hasGoExt "a..go" = true := by decide
example : hasGoExt "go" = false := by decide

end Gosyn.Props.C18
