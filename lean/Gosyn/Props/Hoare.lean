import Lean
import Gosyn.Model.Parser
import Gosyn.Props.C01
import Gosyn.Props.C16
import Gosyn.Props.C03
import Gosyn.Props.C05
/-!
A Hoare logic for the parser monad `P`, used to carry a whole-parser invariant through every
production of `Model/Parser.lean`:

* **no panic** (C01): none of the `panic!` / `unwrap` / `unreachable!` / index sites of parser.rs is
  reached — the error, if any, is an error *value*;
`T src R m Q` reads: from any state over source `src` that satisfies the invariant and `R`, the
computation `m` either fails with a non-panic error or succeeds in a state that satisfies `Q` with the
result; in both cases the invariant holds again (errors are caught by `attempt` in two places).
-/
namespace Gosyn.Props.Hoare
open Gosyn.Gen Gosyn.Model Gosyn.Ast

def isPanic : PErr → Bool
  | .panic _ => true
  | _ => false

/-- an error value the property allows: never a panic; a located error carries the (line, column) that
    `line_info` computes, on the line table as it stands, for an offset — the offset of the offending
    token when the error names one -/
def ErrOK (e : PErr) (s : PState) : Prop :=
  match e with
  | .unexpected loc _ act _ => ∃ pos, s.scan.lineInfo pos = .ok loc ∧ (∀ p t, act = some (p, t) → pos = p)
  | .other loc _ _ => ∃ pos, s.scan.lineInfo pos = .ok loc
  | .fuel => True
  | .panic _ => False

theorem ErrOK.not_panic {e : PErr} {s : PState} (h : ErrOK e s) : isPanic e = false := by
  cases e <;> first | rfl | exact h.elim

theorem ErrOK.congr {e : PErr} {s s' : PState} (h : ErrOK e s) (hs : s'.scan = s.scan) : ErrOK e s' := by
  cases e <;> simp only [ErrOK] at h ⊢ <;> first | (rw [hs]; exact h) | exact h

/-- re-scanning from a mark succeeds (whatever the line table and profile) -/
def GoodMark (src : Array Char) (m : Nat × Bool) : Prop :=
  ∀ sc : Scanner, sc.src = src → sc.pos = m.1 → sc.semi = m.2 → ∃ v, sc.nextToken.1 = .ok v

/-- the scanner, started in some state over `src`, produces exactly this token at this offset -/
def RealTok (src : Array Char) (p : Nat) (t : Token) : Prop :=
  ∃ (sc sc' : Scanner), sc.src = src ∧ sc.nextToken = (.ok (some (p, t)), sc')

/-- an optional (offset, token) pair is, if present, a token of the source -/
def TokReal (src : Array Char) (a : Option (Nat × Token)) : Prop :=
  ∀ p t, a = some (p, t) → RealTok src p t

theorem TokReal.none {src : Array Char} : TokReal src none := fun _ _ h => by cases h

/-- the scanner, started in some state over `src`, produces exactly this comment token at this offset
    (so the entry's text is the text of a comment of the source and its offset is where that comment starts) -/
def RealComment (src : Array Char) (c : Comment) : Prop :=
  ∃ (sc sc' : Scanner) (t : List Char), sc.src = src ∧
    sc.nextToken = (.ok (some (c.pos, .comment t)), sc') ∧ c.text = String.ofList t

/-- the part of the invariant that survives a caught error: the source is fixed, and the comment list
    is strictly increasing in position and lies before the scanner position (so every comment is listed
    at most once, in source order) -/
structure Inv0 (src : Array Char) (s : PState) : Prop where
  src_eq : s.scan.src = src
  sorted : (s.comments.toList.map (·.pos)).Pairwise (· < ·)
  below : ∀ c ∈ s.comments.toList, c.pos < s.scan.pos
  real : ∀ c ∈ s.comments.toList, RealComment src c
  cur : TokReal src s.current
  lead : ∀ c ∈ s.leadComments.toList, RealComment src c

/-- the invariant: `Inv0`, and the backtracking mark the parser holds is one from which scanning has
    already succeeded -/
structure Inv (src : Array Char) (s : PState) : Prop extends Inv0 src s where
  mark : GoodMark src s.prevPos

theorem Inv0.congr {src : Array Char} {s s' : PState} (h : Inv0 src s) (h1 : s'.scan = s.scan)
    (h2 : s'.comments = s.comments) (h3 : s'.current = s.current)
    (h4 : ∀ c ∈ s'.leadComments.toList, c ∈ s.leadComments.toList) : Inv0 src s' :=
  ⟨by rw [h1]; exact h.src_eq, by rw [h2]; exact h.sorted, by rw [h1, h2]; exact h.below,
   by rw [h2]; exact h.real, by rw [h3]; exact h.cur, fun c hc => h.lead c (h4 c hc)⟩

theorem Inv.congr {src : Array Char} {s s' : PState} (h : Inv src s) (h1 : s'.scan = s.scan)
    (h2 : s'.comments = s.comments) (h3 : s'.prevPos = s.prevPos) (h4 : s'.current = s.current)
    (h5 : ∀ c ∈ s'.leadComments.toList, c ∈ s.leadComments.toList) : Inv src s' :=
  ⟨h.toInv0.congr h1 h2 h4 h5, by rw [h3]; exact h.mark⟩

/-- setting the current token to a token of the source -/
theorem Inv.setCurrent {src : Array Char} {s : PState} (h : Inv src s) (c : Option (Nat × Token))
    (hc : TokReal src c) : Inv src { s with current := c } :=
  ⟨⟨h.src_eq, h.sorted, h.below, h.real, hc, h.lead⟩, h.mark⟩

def T {α} (src : Array Char) (R : PState → Prop) (m : P α) (Q : α → PState → Prop) : Prop :=
  ∀ s, Inv src s → R s →
    match m s with
    | (.ok a, s') => Inv src s' ∧ Q a s'
    | (.error e, s') => ErrOK e s' ∧ Inv0 src s'

variable {src : Array Char}

theorem T.pure {α} {R : PState → Prop} (a : α) {Q : α → PState → Prop} (h : ∀ s, R s → Q a s) :
    T src R (pure a : P α) Q := by
  intro s hi hr
  exact ⟨hi, h s hr⟩

theorem T.throw {α} {R : PState → Prop} (e : PErr) {Q : α → PState → Prop} (h : ∀ s, R s → ErrOK e s) :
    T src R (P.throw e : P α) Q := by
  intro s hi hr
  exact ⟨h s hr, hi.toInv0⟩

theorem T.bind {α β} {R : PState → Prop} {m : P α} {f : α → P β} {Q1 : α → PState → Prop}
    {Q2 : β → PState → Prop} (hm : T src R m Q1) (hf : ∀ a, T src (Q1 a) (f a) Q2) :
    T src R (m >>= f) Q2 := by
  intro s hi hr
  have h1 := hm s hi hr
  show match (Bind.bind m f) s with
    | (.ok a, s') => Inv src s' ∧ Q2 a s'
    | (.error e, s') => ErrOK e s' ∧ Inv0 src s'
  simp only [Bind.bind]
  cases hms : m s with
  | mk r s1 =>
    rw [hms] at h1
    cases r with
    | error e => exact h1
    | ok a =>
      obtain ⟨hi1, hq1⟩ := h1
      exact hf a s1 hi1 hq1

/-- `∀` under a name the automation can recognise -/
structure All {α} (p : α → Prop) : Prop where
  intro :: (h : ∀ a, p a)

/-- `∀ a, q a → p a` likewise -/
structure AllP {α} (q : α → Prop) (p : α → Prop) : Prop where
  intro :: (h : ∀ a, q a → p a)

theorem T.bind' {α β} {R : PState → Prop} {m : P α} {f : α → P β} {Q1 : α → PState → Prop}
    {Q2 : β → PState → Prop} (hm : T src R m Q1) (hf : All (fun a => T src (Q1 a) (f a) Q2)) :
    T src R (m >>= f) Q2 := T.bind hm hf.h

/-- consequence: weaker precondition, weaker postcondition -/
theorem T.conseq {α} {R R' : PState → Prop} {m : P α} {Q Q' : α → PState → Prop}
    (h : T src R m Q) (hpre : ∀ s, R' s → R s) (hpost : ∀ a s, Q a s → Q' a s) : T src R' m Q' := by
  intro s hi hr
  have := h s hi (hpre s hr)
  cases hms : m s with
  | mk r s1 =>
    rw [hms] at this
    cases r with
    | error e => exact this
    | ok a => exact ⟨this.1, hpost a s1 this.2⟩

theorem T.pre {α} {R R' : PState → Prop} {m : P α} {Q : α → PState → Prop}
    (h : T src R m Q) (hpre : ∀ s, R' s → R s) : T src R' m Q := h.conseq hpre (fun _ _ q => q)

theorem T.post {α} {R : PState → Prop} {m : P α} {Q Q' : α → PState → Prop}
    (h : T src R m Q) (hpost : ∀ a s, Q a s → Q' a s) : T src R m Q' := h.conseq (fun _ r => r) hpost

/-- a spec proved from the trivial precondition serves from any -/
theorem T.anyQ {α} {R : PState → Prop} {m : P α} {Q : α → PState → Prop}
    (h : T src (fun _ => True) m Q) : T src R m Q :=
  h.pre (fun _ _ => trivial)

/-- a computation that never returns normally: nothing to prove about what follows it -/
theorem T.bind_never {α β} {R : PState → Prop} {m : P α} {f : α → P β} {Q2 : β → PState → Prop}
    (hm : T src R m (fun _ _ => False)) : T src R (m >>= f) Q2 :=
  T.bind hm (fun _ => fun _ _ hf => hf.elim)

/-- `if c { return Err(..) }` followed by more code: what follows runs only when `c` is false -/
theorem T.guard {β} {R : PState → Prop} {c : Prop} [Decidable c] {m : P Unit} {k : Unit → P β}
    {Q2 : β → PState → Prop} (hm : T src R m (fun _ _ => False)) (hk : ¬ c → T src R (k ()) Q2) :
    T src R ((if c then m else Pure.pure ()) >>= k) Q2 := by
  by_cases hc : c
  · simp only [hc, if_true]
    exact T.bind_never hm
  · simp only [hc, if_false]
    exact T.bind (T.pure (Q := fun _ s => R s) () (fun _ h => h)) (fun _ => hk hc)

/-- bind after a spec whose postcondition does not mention the state: the fact goes to the context -/
theorem T.bindP {α β} {R : PState → Prop} {m : P α} {f : α → P β} {Qp : α → Prop}
    {Q2 : β → PState → Prop} (hm : T src R m (fun a _ => Qp a))
    (hf : AllP Qp (fun a => T src (fun _ => True) (f a) Q2)) : T src R (m >>= f) Q2 :=
  T.bind hm (fun a => fun s hi hq => hf.h a hq s hi trivial)

theorem T.ite {α} {R : PState → Prop} {c : Prop} [Decidable c] {t e : P α} {Q : α → PState → Prop}
    (ht : c → T src R t Q) (he : ¬ c → T src R e Q) : T src R (if c then t else e) Q := by
  split
  · exact ht ‹_›
  · exact he ‹_›

theorem T.map {α β} {R : PState → Prop} {m : P α} {g : α → β} {Q : α → PState → Prop} {Q' : β → PState → Prop}
    (hm : T src R m Q) (h : ∀ a s, Q a s → Q' (g a) s) : T src R (g <$> m) Q' := by
  have : (g <$> m) = (m >>= fun a => Pure.pure (g a)) := rfl
  rw [this]
  exact T.bind hm (fun a => T.pure _ (fun s hq => h a s hq))

/-- the same from a state where only the source is known (after a caught error the mark may be stale) -/
def T0 {α} (src : Array Char) (R : PState → Prop) (m : P α) (Q : α → PState → Prop) : Prop :=
  ∀ s, Inv0 src s → R s →
    match m s with
    | (.ok a, s') => Inv src s' ∧ Q a s'
    | (.error e, s') => ErrOK e s' ∧ Inv0 src s'

theorem T.mapP {α β} {R : PState → Prop} {m : P α} {g : α → β} {Qp : α → Prop}
    (hm : T src R m (fun a _ => Qp a)) : T src R (g <$> m) (fun b _ => ∃ a, b = g a ∧ Qp a) :=
  T.map hm (fun a _ h => ⟨a, rfl, h⟩)

/-- `attempt m >>= f`: the error becomes a value; the continuation of a failed attempt starts from a
    state of which only the source is known -/
theorem T.attempt {α β} {R : PState → Prop} {m : P α} {f : Except PErr α → P β} {Q : α → PState → Prop}
    {Q2 : β → PState → Prop} (hm : T src R m Q) (hok : All (fun a => T src (Q a) (f (.ok a)) Q2))
    (herr : All (fun e => T0 src (fun s => ErrOK e s) (f (.error e)) Q2)) :
    T src R (P.attempt m >>= f) Q2 := by
  intro s hi hr
  have := hm s hi hr
  show match (Bind.bind (P.attempt m) f) s with
    | (.ok a, s') => Inv src s' ∧ Q2 a s'
    | (.error e, s') => ErrOK e s' ∧ Inv0 src s'
  simp only [Bind.bind, P.attempt]
  cases hms : m s with
  | mk r s1 =>
    rw [hms] at this
    cases r with
    | error e => exact herr.h e s1 this.2 this.1
    | ok a => exact hok.h a s1 this.1 this.2

/-- the same when the attempted computation's postcondition does not mention the state -/
theorem T.attemptP {α β} {R : PState → Prop} {m : P α} {f : Except PErr α → P β} {Qp : α → Prop}
    {Q2 : β → PState → Prop} (hm : T src R m (fun a _ => Qp a))
    (hok : AllP Qp (fun a => T src (fun _ => True) (f (.ok a)) Q2))
    (herr : All (fun e => T0 src (fun s => ErrOK e s) (f (.error e)) Q2)) :
    T src R (P.attempt m >>= f) Q2 :=
  T.attempt hm ⟨fun a => fun s hi hq => hok.h a hq s hi trivial⟩ herr

theorem T.pureP {α} {R : PState → Prop} (a : α) : T src R (Pure.pure a : P α) (fun a' _ => a' = a) :=
  T.pure a (fun _ _ => rfl)

/-! ### the scanner under the parser -/

theorem nextToken_src (sc : Scanner) : sc.nextToken.2.src = sc.src := by
  unfold Scanner.nextToken
  split
  · rfl
  · simp only
    split
    · rfl
    · split
      · rfl
      · rename_i tok n _
        cases tok <;> rfl

/-- whether `next_token` succeeds depends on the source, the position and the semicolon flag only -/
theorem nextToken_ok_congr (a b : Scanner) (hs : a.src = b.src) (hp : a.pos = b.pos) (hm : a.semi = b.semi)
    (h : ∃ v, a.nextToken.1 = .ok v) : ∃ v, b.nextToken.1 = .ok v := by
  have hb : b = { a with lines := b.lines, profile := b.profile } := by
    cases a; cases b; simp_all
  rw [hb]
  generalize b.lines = l
  generalize b.profile = p
  obtain ⟨v, hv⟩ := h
  unfold Scanner.nextToken at hv ⊢
  have e1 : Scanner.lineEnded { a with lines := l, profile := p } = Scanner.lineEnded a := rfl
  simp only [e1]
  split
  · exact ⟨_, rfl⟩
  · rename_i hc
    rw [if_neg hc] at hv
    simp only at hv ⊢
    have e2 : (Scanner.skipWhitespace { a with semi := false, lines := l, profile := p }).pos =
        (Scanner.skipWhitespace { a with semi := false }).pos := rfl
    have e3 : (Scanner.skipWhitespace { a with semi := false, lines := l, profile := p }).src =
        (Scanner.skipWhitespace { a with semi := false }).src := rfl
    have e4 : (Scanner.skipWhitespace { a with semi := false, lines := l, profile := p }).rest =
        (Scanner.skipWhitespace { a with semi := false }).rest := rfl
    split
    · exact ⟨_, rfl⟩
    · rename_i hlt
      rw [e2, e3] at hlt
      rw [if_neg hlt] at hv
      rw [e4]
      split at hv
      · cases hv
      · exact ⟨_, rfl⟩

/-- the scanner position never moves backwards in `next_token` -/
theorem nextToken_pos_mono (sc : Scanner) : sc.pos ≤ sc.nextToken.2.pos := by
  unfold Scanner.nextToken
  split
  · exact Nat.le_refl _
  · simp only
    have hsk : sc.pos ≤ (Scanner.skipWhitespace { sc with semi := false }).pos := by
      show sc.pos ≤ sc.pos + _
      exact Nat.le_add_right _ _
    split
    · exact hsk
    · split
      · exact hsk
      · rename_i tok n _
        have : (Scanner.addTokenCrossLine (Scanner.skipWhitespace { sc with semi := false }) tok).pos =
            (Scanner.skipWhitespace { sc with semi := false }).pos := by cases tok <;> rfl
        show sc.pos ≤ (Scanner.addTokenCrossLine (Scanner.skipWhitespace { sc with semi := false }) tok).pos + n
        rw [this]
        exact Nat.le_trans hsk (Nat.le_add_right _ _)

theorem scanToken_comment_ne_nil {cs : List Char} {t : List Char} {n : Nat}
    (h : scanToken cs = .ok (.comment t, n)) : t ≠ [] := by
  unfold scanToken at h
  split at h
  · cases h
  · simp only at h
    split at h
    · rename_i h2
      simp only [Except.ok.injEq, Prod.mk.injEq, Token.comment.injEq] at h
      rw [← h.1]
      cases cs with
      | nil => simp at h2
      | cons c tl =>
        have hc : c = '/' := by
          have := congrArg List.head? h2
          simpa using this
        subst hc
        simp [scanLineComment, List.takeWhile]
    · split at h
      · split at h
        · rename_i c hc
          simp only [Except.ok.injEq, Prod.mk.injEq, Token.comment.injEq] at h
          rw [← h.1]
          unfold scanGeneralComment at hc
          split at hc
          · simp only [Except.ok.injEq] at hc; rw [← hc]; simp
          · cases hc
        · cases h
      · split at h
        · cases h
        · split at h
          · cases h
          · rename_i c tl
            repeat' split at h
            all_goals first | cases h | (simp only [Except.ok.injEq, Prod.mk.injEq] at h; cases h.1)

/-- a comment token lies at or after the old scanner position and strictly before the new one -/
theorem nextToken_comment (sc sc' : Scanner) (p : Nat) (t : List Char)
    (h : sc.nextToken = (.ok (some (p, .comment t)), sc')) : sc.pos ≤ p ∧ p < sc'.pos := by
  rcases Gosyn.Props.C05.nextToken_at_pos sc sc' p (.comment t) h with ⟨h1, _⟩ | ⟨k, hp, _, _, hs'⟩
  · cases h1
  · refine ⟨by omega, ?_⟩
    have hne : t ≠ [] := by
      unfold Scanner.nextToken at h
      split at h
      · simp at h
      · simp only at h
        split at h
        · simp at h
        · split at h
          · simp at h
          · rename_i tok n hst
            simp only [Prod.mk.injEq, Except.ok.injEq, Option.some.injEq] at h
            obtain ⟨⟨_, rfl⟩, _⟩ := h
            exact scanToken_comment_ne_nil hst
    have : 0 < t.length := List.length_pos_iff.2 hne
    have e : (Token.comment t).text = t := rfl
    rw [e] at hs'
    omega

/-! ### state primitives -/

theorem T.get {R : PState → Prop} : T src R P.get (fun a s => a = s ∧ R s) := by
  intro s hi hr
  exact ⟨hi, rfl, hr⟩

/-- reading the state, with the invariant made visible -/
theorem T.getInv {R : PState → Prop} : T src R P.get (fun a s => a = s ∧ Inv src s ∧ R s) := by
  intro s hi hr
  exact ⟨hi, rfl, hi, hr⟩

theorem T.modify {R : PState → Prop} (f : PState → PState) {Q : Unit → PState → Prop}
    (h : ∀ s, Inv src s → R s → Inv src (f s) ∧ Q () (f s)) :
    T src R (P.modify f) Q := by
  intro s hi hr
  exact h s hi hr

theorem T.set {R : PState → Prop} (x : PState) {Q : Unit → PState → Prop}
    (h : ∀ s, Inv src s → R s → Inv src x ∧ Q () x) :
    T src R (P.set x) Q := by
  intro s hi hr
  exact h s hi hr

/-- a read-only computation: state unchanged, result a function of the state -/
theorem T.read {α} {R : PState → Prop} (g : PState → α) :
    T src R (fun s => (.ok (g s), s) : P α) (fun a s => a = g s ∧ R s) := by
  intro s hi hr
  exact ⟨hi, rfl, hr⟩

theorem liftS_spec {α} {R : PState → Prop} (r : Except SErr α) (hnp : ∀ site, r ≠ .error (.panic site))
    (hloc : ∀ e, r = .error (.scan e) → ∀ s, R s → ErrOK (.other e.loc e.reason "scanner") s) :
    T src R (liftS r) (fun a s => r = .ok a ∧ R s) := by
  cases r with
  | ok a => exact T.pure a (fun s hr => ⟨rfl, hr⟩)
  | error e =>
    cases e with
    | scan e => exact T.throw _ (fun s hr => hloc e rfl s hr)
    | panic site => exact absurd rfl (hnp site)

theorem lineInfo_spec {R : PState → Prop} (pos : Nat) :
    T src R (lineInfo pos) (fun loc s => s.scan.lineInfo pos = .ok loc ∧ R s) := by
  intro s hi hr
  have e : lineInfo pos s = liftS (s.scan.lineInfo pos) s := rfl
  rw [e]
  obtain ⟨loc, hl'⟩ := Gosyn.Props.C16.lineInfo_total s.scan.profile s.scan.lines pos
  have : s.scan.lineInfo pos = .ok loc := hl'
  rw [this]
  exact ⟨hi, this, hr⟩

theorem scanPosition_spec {R : PState → Prop} :
    T src R scanPosition (fun a s => a = s.scan.pos ∧ R s) := T.read (fun s => s.scan.pos)

theorem elseErrorAt_spec {α} {R : PState → Prop} (pos : Nat) (reason site : String)
    {Q : α → PState → Prop} : T src R (elseErrorAt (α := α) pos reason site) Q := by
  unfold elseErrorAt
  exact T.bind (lineInfo_spec pos) (fun _ => T.throw _ (fun s h => ⟨pos, h.1⟩))

theorem elseError_spec {α} {R : PState → Prop} (reason site : String)
    {Q : α → PState → Prop} : T src R (elseError (α := α) reason site) Q := by
  unfold elseError
  exact T.bind scanPosition_spec (fun _ => elseErrorAt_spec _ _ _)

theorem unexpected_spec {α} {R : PState → Prop} (ex : List TokenKind) (act : Option (Nat × Token))
    (site : String) {Q : α → PState → Prop} : T src R (unexpected (α := α) ex act site) Q := by
  unfold unexpected
  cases act with
  | none =>
    exact T.bind scanPosition_spec (fun p => T.bind (lineInfo_spec p)
      (fun _ => T.throw _ (fun s h => ⟨p, h.1, by intro _ _ hh; cases hh⟩)))
  | some pt =>
    refine T.bind (T.pure (Q := fun a s => a = pt.1 ∧ R s) _ (fun _ hr => ⟨rfl, hr⟩)) (fun p => ?_)
    refine T.bind (lineInfo_spec p) (fun _ => T.throw _ (fun s h => ⟨p, h.1, ?_⟩))
    intro p' t hh
    have := h.2.1
    cases pt with
    | mk a b =>
      simp only [Option.some.injEq, Prod.mk.injEq] at hh
      rw [this]; exact hh.1

/-! ### the automation -/

theorem T.pureE {α} {R : PState → Prop} (a : α) :
    T src R (Pure.pure a : P α) (fun a' s => a' = a ∧ R s) := T.pure a (fun _ h => ⟨rfl, h⟩)

/-- move a state-independent fact out of the precondition into the context -/
theorem T.extract {α} {R : PState → Prop} {m : P α} {Q : α → PState → Prop} {p : Prop}
    (hp : ∀ s, R s → p) (h : p → T src R m Q) : T src R m Q :=
  fun s hi hr => h (hp s hr) s hi hr

/-- a state change that touches neither the scanner, the mark nor the comment list -/
theorem T.modifyT {R : PState → Prop} (f : PState → PState)
    (h : ∀ s, (f s).scan = s.scan ∧ (f s).prevPos = s.prevPos ∧ (f s).comments = s.comments ∧
      (f s).current = s.current ∧ ∀ c ∈ (f s).leadComments.toList, c ∈ s.leadComments.toList) :
    T src R (P.modify f) (fun _ _ => True) := by
  intro s hi _
  obtain ⟨h1, h2, h3, h4, h5⟩ := h s
  exact ⟨hi.congr h1 h3 h2 h4 h5, trivial⟩

/-- the same, keeping a precondition that the change does not affect -/
theorem T.modifyF {R : PState → Prop} (f : PState → PState)
    (h : ∀ s, (f s).scan = s.scan ∧ (f s).prevPos = s.prevPos ∧ (f s).comments = s.comments ∧
      (f s).current = s.current ∧ ∀ c ∈ (f s).leadComments.toList, c ∈ s.leadComments.toList)
    (hR : ∀ s, R s → R (f s)) :
    T src R (P.modify f) (fun _ s => R s) := by
  intro s hi hr
  obtain ⟨h1, h2, h3, h4, h5⟩ := h s
  exact ⟨hi.congr h1 h3 h2 h4 h5, hR s hr⟩

/-- forgetting the pending lead comments -/
theorem T.clearLeadF {R : PState → Prop} (hR : ∀ s, R s → R { s with leadComments := #[] }) :
    T src R (P.modify fun s => { s with leadComments := #[] }) (fun _ s => R s) :=
  T.modifyF _ (fun _ => ⟨rfl, rfl, rfl, rfl, fun _ h => (List.not_mem_nil h).elim⟩) hR

theorem T.clearLead {R : PState → Prop} :
    T src R (P.modify fun s => { s with leadComments := #[] }) (fun _ _ => True) :=
  T.modifyT _ (fun _ => ⟨rfl, rfl, rfl, rfl, fun _ h => (List.not_mem_nil h).elim⟩)

/-- a pending lead comment is only ever a comment of the source -/
theorem T.pushLead {R : PState → Prop} (c : Comment) (hc : RealComment src c) :
    T src R (P.modify fun s => { s with leadComments := s.leadComments.push c }) (fun _ _ => True) := by
  intro s hi _
  refine ⟨⟨⟨hi.src_eq, hi.sorted, hi.below, hi.real, hi.cur, ?_⟩, hi.mark⟩, trivial⟩
  intro x hx
  simp only [Array.toList_push, List.mem_append, List.mem_singleton] at hx
  rcases hx with hx | rfl
  · exact hi.lead x hx
  · exact hc

/-- move a state-independent fact that follows from precondition and invariant into the context -/
theorem T.extractI {α} {R : PState → Prop} {m : P α} {Q : α → PState → Prop} {p : Prop}
    (hp : ∀ s, Inv src s → R s → p) (h : p → T src R m Q) : T src R m Q :=
  fun s hi hr => h (hp s hi hr) s hi hr

/-- registered specifications (extended with `macro_rules` after each lemma); `hspec` first looks the
    specification up by name: `foo_spec` for a function `foo`, `TblOK.foo` for a table entry `r.foo` -/
syntax "hspecOld" : tactic

open Lean Elab Tactic Meta in
/-- find the specification of the computation in a goal `T src R m Q` by naming convention -/
elab "hspec" : tactic => withMainContext do
  let g ← getMainGoal
  let t ← instantiateMVars (← g.getType)
  let args := t.getAppArgs
  unless t.getAppFn.isConstOf ``Gosyn.Props.Hoare.T && args.size == 5 do
    throwError "hspec: not a T goal"
  let m := args[3]!
  let fn := m.getAppFn
  let some name := fn.constName? | throwError "hspec: no head constant"
  let last0 := name.getString!
  let last := if last0 == "go" || last0 == "imports" || last0 == "decls" then name.getPrefix.getString! ++ "_" ++ last0 else last0
  let cands : List Name :=
    if name.getPrefix == `Gosyn.Model.Tbl then [(`Gosyn.Props.Hoare.TblOK).str last, (`Gosyn.Props.Hoare).str (last ++ "_spec")]
    else [(`Gosyn.Props.Hoare).str (last ++ "_spec")]
  let env ← getEnv
  for c in cands do
    if env.contains c then
      let id := mkIdent c
      let stxs : List (TSyntax `tactic) := [
        ← `(tactic| exact $id), ← `(tactic| exact T.anyQ $id),
        ← `(tactic| exact $id _), ← `(tactic| exact T.anyQ ($id _)),
        ← `(tactic| exact $id _ _), ← `(tactic| exact T.anyQ ($id _ _)),
        ← `(tactic| exact $id _ _ _), ← `(tactic| exact T.anyQ ($id _ _ _)),
        ← `(tactic| exact T.anyQ ($id _ _ _ _))]
      for stx in stxs do
        let s ← saveState
        try
          evalTactic stx
          return
        catch _ => s.restore
  evalTactic (← `(tactic| hspecOld))

/-- verification conditions left by the consequence rule -/
syntax "hvc" : tactic
macro_rules
  | `(tactic| hvc) => `(tactic| (intros; first | trivial | assumption | omega | (simp_all; done) | (simp_all; subst_vars; simp_all; done)))

/-- side conditions of specifications (facts about values, found in the context) -/
syntax "hside" : tactic
macro_rules
  | `(tactic| hside) => `(tactic| first | assumption | (intros; simp_all; done) | (intros; simp_all; subst_vars; simp_all; done) | (intros; trivial))

/-- steps on goals `T0 src m Q` (extended after the lemmas are proved) -/
syntax "hstep0" : tactic

/-- one step on a goal `T src R m Q` -/
syntax "hstep" : tactic
macro_rules
  | `(tactic| hstep) => `(tactic| first
      | with_reducible exact T.throw _ (fun _ _ => trivial)
      | with_reducible exact elseErrorAt_spec _ _ _
      | with_reducible exact elseError_spec _ _
      | with_reducible exact unexpected_spec _ _ _
      | with_reducible refine T.guard (T.throw _ (fun _ _ => trivial)) (fun _ => ?_)
      | with_reducible refine T.guard (elseErrorAt_spec _ _ _) (fun _ => ?_)
      | with_reducible refine T.guard (elseError_spec _ _) (fun _ => ?_)
      | with_reducible refine T.guard (unexpected_spec _ _ _) (fun _ => ?_)
      | with_reducible exact T.bind_never (T.throw _ (fun _ _ => trivial))
      | with_reducible exact T.bind_never (elseErrorAt_spec _ _ _)
      | with_reducible exact T.bind_never (elseError_spec _ _)
      | with_reducible exact T.bind_never (unexpected_spec _ _ _)
      | with_reducible hspec
      | with_reducible exact T.modifyF _ (fun _ => ⟨rfl, rfl, rfl, rfl, fun _ h => h⟩) (fun _ h => h)
      | with_reducible exact T.modifyT _ (fun _ => ⟨rfl, rfl, rfl, rfl, fun _ h => h⟩)
      | with_reducible exact T.clearLeadF (fun _ h => h)
      | with_reducible exact T.clearLead
      | with_reducible exact T.pushLead _ (by assumption)
      | with_reducible exact T.pureE _
      | (with_reducible apply All.intro; intro _)
      | (with_reducible apply AllP.intro; intro _ _)
      | (with_reducible apply T.mapP; with_reducible hspec)
      | (with_reducible refine T.conseq (T.mapP ?_) ?_ ?_; with_reducible hspec; hvc; hvc)
      | (with_reducible apply T.attemptP; with_reducible hspec)
      | with_reducible apply T.attempt
      | (with_reducible apply T.bindP; with_reducible exact T.pureP _)
      | contradiction
      | hstep0
      | (with_reducible apply T.bindP; with_reducible hspec)
      | with_reducible apply T.bind'
      | (with_reducible refine T.ite (fun _ => ?_) (fun _ => ?_))
      | (with_reducible refine T.pure _ ?_; hvc)
      | (with_reducible refine T.pre ?_ ?_; with_reducible hspec; hvc)
      | (with_reducible refine T.conseq ?_ ?_ ?_; with_reducible hspec; hvc; hvc)
      | exact fun _ => True
      | exact fun _ _ => True
      | split
      | (dsimp only))

macro "hoare" : tactic => `(tactic| repeat (any_goals hstep))

end Gosyn.Props.Hoare
