import Gosyn.Spec.Strings
import Gosyn.Model.Scanner
/-!
C10 — rune and string literals.  Theorems about `scanRune`, `scanLitRune`, `scanLitString` (models of
`scan_rune`, `scan_lit_rune`, `scan_lit_string`, scanner.rs): raw strings are accepted exactly per the
spec; every accepted literal's text is the source text, verbatim, quotes included.
-/
namespace Gosyn.Props.C10
open Gosyn.Gen Gosyn.Model Gosyn.Spec

/-! ### raw strings: accepted iff well formed, text verbatim -/

theorem rawBody_spec (body : List Char) :
    (∀ b rest, body = b ++ '`' :: rest → '`' ∉ b → rawBody body = (b ++ ['`'], true)) ∧
    ('`' ∉ body → rawBody body = (body, false)) := by
  induction body with
  | nil => exact ⟨fun b rest h => by cases b <;> simp at h, fun _ => rfl⟩
  | cons c cs ih =>
    constructor
    · intro b rest h hb
      cases b with
      | nil => simp at h; simp [rawBody, h.1]
      | cons d b' =>
        simp at h
        obtain ⟨hcd, h⟩ := h
        subst hcd
        have hd : c ≠ '`' := by intro e; apply hb; simp [e]
        have hb' : '`' ∉ b' := by intro e; apply hb; simp [e]
        simp [rawBody, hd, ih.1 b' rest h hb']
    · intro hb
      have hc : c ≠ '`' := by intro e; apply hb; simp [e]
      have hb' : '`' ∉ cs := by intro e; apply hb; simp [e]
      simp [rawBody, hc, ih.2 hb']

/-- split a list at its first back quote -/
theorem split_first_bq (l : List Char) : '`' ∉ l ∨ ∃ b rest, l = b ++ '`' :: rest ∧ '`' ∉ b := by
  induction l with
  | nil => left; simp
  | cons c cs ih =>
    by_cases hc : c = '`'
    · right; exact ⟨[], cs, by simp [hc], by simp⟩
    · rcases ih with h | ⟨b, rest, rfl, hb⟩
      · left; intro hm; rcases List.mem_cons.1 hm with e | e
        · exact hc e.symm
        · exact h e
      · right; refine ⟨c :: b, rest, by simp, ?_⟩
        intro hm; rcases List.mem_cons.1 hm with e | e
        · exact hc e.symm
        · exact hb e

theorem first_bq_unique (b b' rest rest' : List Char) (h : b ++ '`' :: rest = b' ++ '`' :: rest')
    (hb : '`' ∉ b) (hb' : '`' ∉ b') : b = b' := by
  induction b generalizing b' with
  | nil =>
    cases b' with
    | nil => rfl
    | cons d b'' => simp at h; exact absurd (List.mem_cons.2 (.inl h.1)) hb'
  | cons c b ih =>
    cases b' with
    | nil => simp at h; exact absurd (List.mem_cons.2 (.inl h.1.symm)) hb
    | cons d b'' =>
      simp at h
      obtain ⟨hcd, h⟩ := h
      subst hcd
      rw [ih b'' h (fun e => hb (by simp [e])) (fun e => hb' (by simp [e]))]

/-- **raw strings**: the scanner accepts a text starting with a back quote exactly when a closing
    back quote follows, and the literal is the text up to and including the first one: a
    `raw_string_lit` of the spec, verbatim (newlines allowed, no escapes interpreted) -/
theorem raw_iff_spec (body t : List Char) :
    scanLitString ('`' :: body) = .ok t ↔
      ∃ b rest, body = b ++ '`' :: rest ∧ '`' ∉ b ∧ t = '`' :: (b ++ ['`']) := by
  unfold scanLitString
  simp only [if_true]
  rcases split_first_bq body with h | ⟨b, rest, rfl, hb⟩
  · rw [(rawBody_spec body).2 h]
    simp only [Bool.false_eq_true, if_false]
    constructor
    · intro e; cases e
    · rintro ⟨b, rest, rfl, _, _⟩; exact absurd h (by simp)
  · rw [(rawBody_spec _).1 b rest rfl hb]
    simp only [if_true, Except.ok.injEq]
    constructor
    · rintro rfl; exact ⟨b, rest, rfl, hb, rfl⟩
    · rintro ⟨b', rest', h, hb', rfl⟩
      have : b = b' := first_bq_unique b b' rest rest' h hb hb'
      rw [this]

/-- the accepted raw literal is a `RawString` of the spec -/
theorem raw_sound (body t : List Char) (h : scanLitString ('`' :: body) = .ok t) : RawString t := by
  obtain ⟨b, rest, rfl, hb, rfl⟩ := (raw_iff_spec body t).1 h
  exact ⟨b, rfl, hb⟩

/-! ### the text of a rune / interpreted string is the source text -/

theorem matchN_prefix (valid : Char → Bool) (n : Nat) (cs ds : List Char)
    (h : matchN valid n cs = .ok ds) : ds = cs.take n ∧ ds.length = n ∧ ∀ d ∈ ds, valid d = true := by
  induction n generalizing cs ds with
  | zero => simp [matchN] at h; subst h; simp
  | succ n ih =>
    cases cs with
    | nil => simp [matchN] at h
    | cons c cs =>
      unfold matchN at h
      split at h
      · rename_i hv
        split at h
        · rename_i r hr
          simp only [Except.ok.injEq] at h; subst h
          obtain ⟨h1, h2, h3⟩ := ih cs r hr
          refine ⟨by simp [← h1], by simp [h2], ?_⟩
          intro d hd
          rcases List.mem_cons.1 hd with rfl | hd
          · exact hv
          · exact h3 d hd
        · cases h
      · cases h

/-- whatever `scan_rune` returns is a prefix of the text it was started on -/
theorem scanRune_prefix (q : Char) (cs r : List Char) (h : scanRune q cs = .ok r) : r <+: cs ∧ r ≠ [] := by
  unfold scanRune at h
  split at h
  · cases h
  · cases h
  · rename_i n2 after
    simp only at h
    have key : ∀ (valid : Char → Bool) (count : Nat) ds, matchN valid count after = .ok ds →
        '\\' :: n2 :: ds <+: '\\' :: n2 :: after := by
      intro valid count ds hm
      have := (matchN_prefix valid count after ds hm).1
      rw [this]
      exact (List.cons_prefix_cons).2 ⟨rfl, (List.cons_prefix_cons).2 ⟨rfl, List.take_prefix _ _⟩⟩
    repeat' split at h
    all_goals (first | (cases h; done) | skip)
    all_goals (simp only [Except.ok.injEq] at h; subst h)
    all_goals (first
      | (refine ⟨key _ _ _ (by assumption), by simp⟩; done)
      | (exact ⟨⟨after, rfl⟩, by simp⟩))
  · rename_i c tl _ _
    repeat' split at h
    all_goals (first | (cases h; done) | skip)
    simp only [Except.ok.injEq] at h; subst h
    exact ⟨⟨tl, rfl⟩, by simp⟩

/-- **rune literals are kept verbatim**: the accepted text is `'`, one rune, `'`, found at the input -/
theorem rune_text_is_source (cs t : List Char) (h : scanLitRune cs = .ok t) (hq : cs.head? = some '\'') :
    t <+: cs := by
  unfold scanLitRune at h
  split at h
  · cases h
  · rename_i rune hr
    cases cs with
    | nil => simp at hq
    | cons c tl =>
      simp at hq; subst hq
      simp only [List.drop_succ_cons, List.drop_zero] at hr
      obtain ⟨⟨rest, hrest⟩, _⟩ := scanRune_prefix _ _ _ hr
      split at h
      · rename_i hh
        simp only [Except.ok.injEq] at h; subst h
        rw [← hrest] at hh ⊢
        have : (List.drop (1 + rune.length) ('\'' :: (rune ++ rest))) = rest := by
          rw [Nat.add_comm]; simp
        rw [this] at hh
        cases rest with
        | nil => simp at hh
        | cons d rest' =>
          simp at hh; subst hh
          exact ⟨rest', by simp⟩
      · cases h
      · cases h

theorem strBody_prefix (fuel : Nat) (cs r : List Char) (tm : Bool) (h : strBody fuel cs = .ok (r, tm)) :
    r <+: cs := by
  induction fuel generalizing cs r tm with
  | zero => simp [strBody] at h; simp [h.1]
  | succ fuel ih =>
    cases cs with
    | nil => simp [strBody] at h; simp [h.1]
    | cons c tl =>
      unfold strBody at h
      split at h
      · cases h
      · rename_i rune hr
        obtain ⟨⟨rest, hrest⟩, _⟩ := scanRune_prefix _ _ _ hr
        split at h
        · simp only [Except.ok.injEq, Prod.mk.injEq] at h
          obtain ⟨rfl, _⟩ := h
          exact ⟨rest, hrest⟩
        · split at h
          · cases h
          · rename_i r' t' hrec
            simp only [Except.ok.injEq, Prod.mk.injEq] at h
            obtain ⟨rfl, _⟩ := h
            have := ih _ _ _ hrec
            rw [← hrest] at this ⊢
            simp at this
            obtain ⟨u, hu⟩ := this
            exact ⟨u, by rw [List.append_assoc, hu]⟩

/-- **string literals are kept verbatim**: the accepted text (raw or interpreted) is a prefix of the
    input, i.e. the source text including both quotes, unchanged -/
theorem string_text_is_source (cs t : List Char) (h : scanLitString cs = .ok t) : t <+: cs := by
  unfold scanLitString at h
  split at h
  · cases h
  · rename_i quote body
    simp only at h
    split at h
    · cases h
    · rename_i text terminated hb
      split at h
      · simp only [Except.ok.injEq] at h; subst h
        apply (List.cons_prefix_cons).2 ⟨rfl, ?_⟩
        split at hb
        · simp only [Except.ok.injEq] at hb
          rcases split_first_bq body with hn | ⟨b, rest, rfl, hnb⟩
          · rw [(rawBody_spec body).2 hn] at hb; simp at hb; rw [← hb.1]; exact List.prefix_refl _
          · rw [(rawBody_spec _).1 b rest rfl hnb] at hb; simp at hb; rw [← hb.1]; exact ⟨rest, by simp⟩
        · exact strBody_prefix _ _ _ _ hb
      · cases h

/-! ### non-vacuity and the repaired cases -/

instance {ε α} [DecidableEq ε] [DecidableEq α] : DecidableEq (Except ε α)
  | .ok a, .ok b => if h : a = b then isTrue (h ▸ rfl) else isFalse (fun e => h (Except.ok.inj e))
  | .error a, .error b => if h : a = b then isTrue (h ▸ rfl) else isFalse (fun e => h (Except.error.inj e))
  | .ok _, .error _ => isFalse (fun e => nomatch e)
  | .error _, .ok _ => isFalse (fun e => nomatch e)

example : scanLitString "`a\nb` x".toList = .ok "`a\nb`".toList := by decide
example : (scanLitString "`ab".toList).toOption = none := by decide
example : scanLitRune "'\\n' ".toList = .ok "'\\n'".toList := by decide
example : scanLitRune "'\\377'".toList = .ok "'\\377'".toList := by decide
example : (scanLitRune "'\\400'".toList).toOption = none := by decide
example : (scanLitRune "'\\\"'".toList).toOption = none := by decide
example : (scanLitRune "'''".toList).toOption = none := by decide
example : (scanLitString "\"\\'\"".toList).toOption = none := by decide
example : (scanLitString "\"\\\"".toList).toOption = none := by decide
example : (scanLitRune "'\\uD800'".toList).toOption = none := by decide
example : (scanLitRune "'\\U0000D800'".toList).toOption = none := by decide
example : scanLitRune "'\\U0010FFFF'".toList = .ok "'\\U0010FFFF'".toList := by decide
example : (scanLitRune "'\\U00110000'".toList).toOption = none := by decide

end Gosyn.Props.C10
