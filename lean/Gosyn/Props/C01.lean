import Gosyn.Props.C16
/-!
C01 — totality.  Proved here: **the scanner never panics, on any input, in any state** — every
indexing site of scanner.rs (`chars[pos]`, `indices[pos]`, the slice in `next_nstr`, the `len - 1`
of the comment scanner, the line-table lookup with its `usize` subtraction) is unreachable with an
out-of-range index.  The scanner model marks each such site with `panic := true` / `SErr.panic`
guarded exactly as the Rust is; the theorem says no run reaches one.

The parser's recursion is *not* bounded by its depth counter on every path (known findings K3/K4 of
this property): that part of C01 is false of the code, see `tools/props/c01.py` and DESIGN.md §6.
-/
namespace Gosyn.Props.C01
open Gosyn.Gen Gosyn.Model

/-- a sub-scanner result that, if it is an error, is an ordinary error value (not a panic) -/
def NoPanic {α} (r : Except Fail α) : Prop := ∀ f, r = .error f → f.panic = false

theorem NoPanic.ok {α} (a : α) : NoPanic (.ok a : Except Fail α) := by intro f h; cases h

theorem matchN_noPanic (valid : Char → Bool) (n : Nat) (cs : List Char) : NoPanic (matchN valid n cs) := by
  induction n generalizing cs with
  | zero => intro f h; simp [matchN] at h
  | succ n ih =>
    intro f h
    cases cs with
    | nil => simp [matchN] at h; subst h; rfl
    | cons c cs =>
      unfold matchN at h
      split at h
      · split at h
        · cases h
        · rename_i e he
          simp only [Except.error.injEq] at h; subst h
          exact ih cs _ he
      · simp only [Except.error.injEq] at h; subst h; rfl

theorem scanRune_noPanic (q : Char) (cs : List Char) : NoPanic (scanRune q cs) := by
  intro f h
  unfold scanRune at h
  split at h
  · simp only [Except.error.injEq] at h; subst h; rfl
  · simp only [Except.error.injEq] at h; subst h; rfl
  · simp only at h
    repeat' split at h
    all_goals (first | (cases h; done) | skip)
    all_goals (simp only [Except.error.injEq] at h)
    all_goals (first
      | (subst h; rfl)
      | (subst h; exact matchN_noPanic _ _ _ _ (by assumption)))
  · repeat' split at h
    all_goals (first | (cases h; done) | (simp only [Except.error.injEq] at h; subst h; rfl))

theorem scanLitRune_noPanic (cs : List Char) : NoPanic (scanLitRune cs) := by
  intro f h
  unfold scanLitRune at h
  repeat' split at h
  all_goals (first | (cases h; done) | skip)
  all_goals (simp only [Except.error.injEq] at h)
  all_goals (first
    | (subst h; rfl)
    | (subst h; exact scanRune_noPanic _ _ _ (by assumption)))

theorem strBody_noPanic (fuel : Nat) (cs : List Char) : NoPanic (strBody fuel cs) := by
  induction fuel generalizing cs with
  | zero => intro f h; simp [strBody] at h
  | succ fuel ih =>
    intro f h
    cases cs with
    | nil => simp [strBody] at h
    | cons c tl =>
      unfold strBody at h
      split at h
      · rename_i e he
        simp only [Except.error.injEq] at h; subst h
        exact scanRune_noPanic _ _ _ he
      · split at h
        · cases h
        · split at h
          · rename_i e he
            simp only [Except.error.injEq] at h; subst h
            exact ih _ _ he
          · cases h

theorem scanLitString_noPanic (c : Char) (tl : List Char) : NoPanic (scanLitString (c :: tl)) := by
  intro f h
  unfold scanLitString at h
  simp only at h
  split at h
  · rename_i e he
    simp only [Except.error.injEq] at h; subst h
    split at he
    · cases he
    · exact strBody_noPanic _ _ _ he
  · split at h
    · cases h
    · simp only [Except.error.injEq] at h; subst h; rfl

theorem numFinish_noPanic (radix cs numlit isFloat) : NoPanic (numFinish radix cs numlit isFloat) := by
  intro f h; unfold numFinish at h
  repeat' split at h
  all_goals (first | (cases h; done) | (simp only [Except.error.injEq] at h; subst h; rfl))

theorem numExp_noPanic (radix cs mant facPart expPart) : NoPanic (numExp radix cs mant facPart expPart) := by
  intro f h; unfold numExp at h
  repeat' split at h
  all_goals (first | (cases h; done) | (simp only [Except.error.injEq] at h; subst h; rfl) | exact numFinish_noPanic _ _ _ _ f h)

theorem numMant_noPanic (radix cs intPart facPart) : NoPanic (numMant radix cs intPart facPart) := by
  intro f h; unfold numMant at h; simp only at h
  repeat' split at h
  all_goals (first | (cases h; done) | (simp only [Except.error.injEq] at h; subst h; rfl) | exact numExp_noPanic _ _ _ _ _ f h)

theorem scanLitNumber_noPanic (cs : List Char) : NoPanic (scanLitNumber cs) := by
  intro f h; unfold scanLitNumber scanLitNumberWith at h; simp only at h
  repeat' split at h
  all_goals (first | (cases h; done) | (simp only [Except.error.injEq] at h; subst h; rfl) | exact numMant_noPanic _ _ _ _ f h)

theorem scanGeneralComment_noPanic (cs : List Char) : NoPanic (scanGeneralComment cs) := by
  intro f h; unfold scanGeneralComment at h
  split at h
  · cases h
  · simp only [Except.error.injEq] at h; subst h; rfl

/-- `scan_token` on a non-empty rest never panics: `next_nstr`'s `indices[pos]` and
    `scan_lit_string`'s `chars[pos]` are in range -/
theorem scanToken_noPanic (c : Char) (tl : List Char) : NoPanic (scanToken (c :: tl)) := by
  intro f h
  unfold scanToken at h
  split at h
  · cases h
  · simp only at h
    split at h
    · cases h
    · split at h
      · split at h
        · cases h
        · rename_i e he
          simp only [Except.error.injEq] at h; subst h
          exact scanGeneralComment_noPanic _ _ he
      · split at h
        · cases h
        · try simp only at h
          repeat' split at h
          all_goals (first | (cases h; done) | skip)
          all_goals (simp only [Except.error.injEq] at h; subst h)
          all_goals (first
            | rfl
            | exact scanLitNumber_noPanic _ _ (by assumption)
            | exact scanLitRune_noPanic _ _ (by assumption)
            | exact scanLitString_noPanic _ _ _ (by assumption))

theorem rest_cons_of_lt (s : Scanner) (h : s.pos < s.src.size) : ∃ c tl, s.rest = c :: tl := by
  cases hr : s.rest with
  | nil =>
    unfold Scanner.rest at hr
    have : (s.src.extract s.pos s.src.size).toList.length = 0 := by rw [hr]; rfl
    simp at this; omega
  | cons c tl => exact ⟨c, tl, rfl⟩

/-- the located error is never a panic: `line_info` does not underflow whatever the line table holds
    (`Props.C16.lineInfo_total`) -/
theorem errorAt_not_panic (s : Scanner) (pos : Nat) (reason : String) : ∀ site, s.errorAt pos reason ≠ .panic site := by
  intro site
  unfold Scanner.errorAt Scanner.lineInfo
  obtain ⟨loc, hl⟩ := Gosyn.Props.C16.lineInfo_total s.profile s.lines pos
  rw [hl]
  simp

/-- **the scanner never panics**: for every scanner state (any source, any position, any line
    table, either build profile) `next_token` returns a token, end of input, or an error value -/
theorem nextToken_no_panic (s : Scanner) : ∀ site, s.nextToken.1 ≠ .error (.panic site) := by
  intro site
  unfold Scanner.nextToken
  split
  · simp
  · simp only
    split
    · simp
    · rename_i hlt
      split
      · rename_i f hf
        simp only
        have hpos : (Scanner.skipWhitespace { s with semi := false }).pos < (Scanner.skipWhitespace { s with semi := false }).src.size := by
          omega
        obtain ⟨c, tl, hr⟩ := rest_cons_of_lt _ hpos
        rw [hr] at hf
        have := scanToken_noPanic c tl f hf
        rw [this]
        simp only [Bool.false_eq_true, if_false]
        intro heq
        exact errorAt_not_panic _ _ _ site (Except.error.inj heq)
      · simp

end Gosyn.Props.C01
