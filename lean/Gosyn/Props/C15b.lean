import Gosyn.Props.C07b
/-!
C15 / C13, scanner side — **scanning does not depend on where the text stands**.  What `next_token` returns
is a function of the remaining text and the pending-semicolon flag alone; the offset it reports is the
current position plus a number computed from the remaining text; the line table, the text already read and
the absolute position play no part (they enter only into the *location of an error*).

* `stepRel r semi`: `next_token` written as a pure function of the remaining text `r` and the flag
  (relative offset, token, remaining text, new flag — or end of input, or failure);
* `nextToken_rel`: every scanner state steps exactly as `stepRel` says on its `rest` and `semi`;
* `scanRel`: the token loop as a pure function of the remaining text; `scanTokensAcc_rel`: the loop of
  `Model/ScanAll.lean` returns, from any state, the tokens of `scanRel` on its remaining text, offsets shifted
  by its position, and fails iff `scanRel` fails;
* `scan_embedded`: two scanner states — different sources, different positions, different line tables,
  different build profiles — with the same remaining text and the same flag return the same tokens, at offsets
  that differ by the constant difference of the two positions, and both fail or both succeed.  In particular a
  fragment scanned alone (position 0) and the same fragment as the tail of a larger text give the same tokens.
-/
namespace Gosyn.Props.C15b
open Gosyn.Gen Gosyn.Model
open Gosyn.Props.C07b

/-- `next_token` as a function of the remaining text and the flag -/
def stepRel (r : List Char) (semi : Bool) : Except Unit (Option (Nat × Token × List Char × Bool)) :=
  if semi && lineEndedS r then .ok (some (0, .operator .SemiColon, r, false))
  else
    let k := skipCount r
    let r' := r.drop k
    if r' = [] then .ok none
    else match scanToken r' with
      | .error _ => .error ()
      | .ok (tok, n) => .ok (some (k, tok, r'.drop n, tryInsertSemicolon tok))

theorem rest_nil_iff (s : Scanner) : s.rest = [] ↔ s.pos ≥ s.src.size := by
  have := rest_length s
  constructor
  · intro h; rw [h] at this; simp at this; omega
  · intro h; exact List.eq_nil_of_length_eq_zero (by omega)

/-- what one call of `next_token` shows to its caller, offsets taken relative to the current position -/
def viewOf (s : Scanner) : Except Unit (Option (Nat × Token × List Char × Bool)) :=
  match s.nextToken with
  | (.ok none, _) => .ok none
  | (.ok (some (p, t)), s') => .ok (some (p - s.pos, t, s'.rest, s'.semi))
  | (.error _, _) => .error ()

theorem rest_after_token (s1 : Scanner) (t : Token) (n : Nat) (b : Bool) :
    ({ src := (s1.addTokenCrossLine t).src, pos := (s1.addTokenCrossLine t).pos + n, semi := b,
       lines := (s1.addTokenCrossLine t).lines, profile := (s1.addTokenCrossLine t).profile } : Scanner).rest
      = s1.rest.drop n := by
  cases t <;> exact Gosyn.Props.C05.rest_of _ s1 n rfl rfl

/-- **every scanner state steps as `stepRel` says on its remaining text and flag** -/
theorem view_eq (s : Scanner) : viewOf s = stepRel s.rest s.semi := by
  have hr : (Scanner.skipWhitespace { s with semi := false }).rest = s.rest.drop (skipCount s.rest) :=
    Gosyn.Props.C05.rest_of _ s _ rfl rfl
  have hpos : (Scanner.skipWhitespace { s with semi := false }).pos = s.pos + skipCount s.rest := by
    simp [Scanner.skipWhitespace, Scanner.rest]
  have hiff := rest_nil_iff (Scanner.skipWhitespace { s with semi := false })
  rw [hr] at hiff
  unfold viewOf stepRel Scanner.nextToken
  by_cases hc : (s.semi && lineEndedS s.rest) = true
  · have hc' : (s.semi && s.lineEnded) = true := hc
    rw [if_pos hc, if_pos hc']
    simp [Scanner.rest]
  · have hc' : ¬ (s.semi && s.lineEnded) = true := hc
    rw [if_neg hc, if_neg hc']
    simp only
    by_cases hnil : s.rest.drop (skipCount s.rest) = []
    · rw [if_pos hnil, if_pos (hiff.1 hnil)]
    · rw [if_neg hnil, if_neg (fun h => hnil (hiff.2 h)), hr]
      cases hs : scanToken (s.rest.drop (skipCount s.rest)) with
      | error f => rfl
      | ok v =>
        obtain ⟨tok, n⟩ := v
        simp only
        rw [rest_after_token, hr, hpos]
        simp

/-- shift the offsets of a token list -/
def shift (d : Nat) (l : List (Nat × Token)) : List (Nat × Token) := l.map fun kt => (d + kt.1, kt.2)

theorem shift_shift (a b : Nat) (l : List (Nat × Token)) : shift a (shift b l) = shift (a + b) l := by
  simp [shift, List.map_map, Function.comp_def, Nat.add_assoc]

/-- the token loop as a pure function of the remaining text and the flag: tokens with offsets relative to the
    start of the text, whether it failed, whether the loop bound was hit -/
def scanRel : Nat → List Char → Bool → List (Nat × Token) × Bool × Bool
  | 0, _, _ => ([], false, true)
  | fuel+1, r, semi =>
    match stepRel r semi with
    | .ok none => ([], false, false)
    | .error _ => ([], true, false)
    | .ok (some (k, tok, r', b')) =>
      let out := scanRel fuel r' b'
      ((k, tok) :: shift (r.length - r'.length) out.1, out.2)

/-- from any scanner state, the loop returns `scanRel` of the remaining text, shifted by the position -/
theorem scanTokensAcc_rel (fuel : Nat) (s : Scanner) (acc : List (Nat × Token)) :
    (scanTokensAcc fuel s acc).toks = acc.reverse ++ shift s.pos (scanRel fuel s.rest s.semi).1 ∧
    (scanTokensAcc fuel s acc).err.isSome = (scanRel fuel s.rest s.semi).2.1 ∧
    (scanTokensAcc fuel s acc).fuelOut = (scanRel fuel s.rest s.semi).2.2 := by
  induction fuel generalizing s acc with
  | zero => simp [scanTokensAcc, scanRel, shift]
  | succ fuel ih =>
    have hv := view_eq s
    unfold viewOf at hv
    unfold scanTokensAcc scanRel
    split
    · rename_i pt s' hn
      obtain ⟨p, tok⟩ := pt
      rw [hn] at hv
      simp only at hv
      rw [← hv]
      simp only
      obtain ⟨h1, h2, h3⟩ := ih s' ((p, tok) :: acc)
      have hadv : p = s.pos + (p - s.pos) ∧ s'.pos = s.pos + (s.rest.length - s'.rest.length) := by
        rcases nextToken_some hn with ⟨_, hp, hp', hr', _, _, _⟩ | ⟨ws, cs, hsplit, _, _, hp, hp', hr', _, _, _⟩
        · rw [hp, hp', hr']; omega
        · rw [hp, hp', hr', hsplit]; simp only [List.length_append]; omega
      refine ⟨?_, h2, h3⟩
      rw [h1]
      have e : shift s.pos ((p - s.pos, tok) :: shift (s.rest.length - s'.rest.length) (scanRel fuel s'.rest s'.semi).1)
          = (p, tok) :: shift s'.pos (scanRel fuel s'.rest s'.semi).1 := by
        have := shift_shift s.pos (s.rest.length - s'.rest.length) (scanRel fuel s'.rest s'.semi).1
        rw [← hadv.2] at this
        rw [← this]
        simp only [shift, List.map_cons]
        rw [← hadv.1]
      rw [e]
      simp
    · rename_i s' hn
      rw [hn] at hv
      simp only at hv
      rw [← hv]
      simp [shift]
    · rename_i e s' hn
      rw [hn] at hv
      simp only at hv
      rw [← hv]
      simp [shift]

/-- **position independence**: two scanner states with the same remaining text and the same flag — whatever
    their sources, positions, line tables and profiles — return the same tokens at offsets that differ by the
    difference of their positions, and both fail or both succeed -/
theorem scan_embedded (a b : Scanner) (hr : a.rest = b.rest) (hm : a.semi = b.semi) :
    ∃ l, (scanTokens a).toks = shift a.pos l ∧ (scanTokens b).toks = shift b.pos l ∧
      (scanTokens a).err.isSome = (scanTokens b).err.isSome := by
  have hf : scanFuel a = scanFuel b := by
    have ha := rest_length a; have hb := rest_length b
    rw [hr] at ha
    unfold scanFuel; omega
  obtain ⟨a1, a2, _⟩ := scanTokensAcc_rel (scanFuel a) a []
  obtain ⟨b1, b2, _⟩ := scanTokensAcc_rel (scanFuel b) b []
  refine ⟨(scanRel (scanFuel a) a.rest a.semi).1, by simpa [scanTokens] using a1, ?_, ?_⟩
  · rw [hf, hr, hm]; simpa [scanTokens] using b1
  · unfold scanTokens; rw [a2, b2, hf, hr, hm]

/-- a fragment scanned alone and the same fragment standing at the end of any other text, reached with no
    semicolon pending: same tokens, offsets shifted by the length of what stands before it -/
theorem scan_fragment (pre frag : Array Char) (lines : Array Nat) (p1 p2 : Profile) :
    ∃ l, (scanTokens { src := frag, profile := p1 }).toks = l ∧
      (scanTokens { src := pre ++ frag, pos := pre.size, lines := lines, profile := p2 }).toks = shift pre.size l ∧
      (scanTokens { src := frag, profile := p1 }).err.isSome =
        (scanTokens { src := pre ++ frag, pos := pre.size, lines := lines, profile := p2 }).err.isSome := by
  have hr : ({ src := frag, profile := p1 } : Scanner).rest =
      ({ src := pre ++ frag, pos := pre.size, lines := lines, profile := p2 } : Scanner).rest := by
    simp [Scanner.rest]
  obtain ⟨l, h1, h2, h3⟩ := scan_embedded _ _ hr rfl
  refine ⟨shift 0 l, h1, ?_, h3⟩
  rw [h2]; simp [shift]

/-! ### reading again after `goback` -/

theorem goback_rest (s0 s : Scanner) (hsrc : s.src = s0.src) :
    (s.goback s0.preback).rest = s0.rest ∧ (s.goback s0.preback).semi = s0.semi ∧
      (s.goback s0.preback).pos = s0.pos := by
  refine ⟨?_, rfl, rfl⟩
  simp [Scanner.rest, Scanner.goback, Scanner.preback, hsrc]

/-- **what is read again after backtracking is what was read the first time**: going back to a mark saved
    by `preback` — from any later state over the same source, whatever was scanned, pushed into the line
    table or failed in between — the next step is the step taken from the marked state -/
theorem goback_same_step (s0 s : Scanner) (hsrc : s.src = s0.src) :
    viewOf (s.goback s0.preback) = viewOf s0 := by
  obtain ⟨hr, hm, _⟩ := goback_rest s0 s hsrc
  rw [view_eq, view_eq, hr, hm]

/-- … and so is the whole remaining token sequence, at the same offsets -/
theorem goback_same_tokens (s0 s : Scanner) (hsrc : s.src = s0.src) :
    (scanTokens (s.goback s0.preback)).toks = (scanTokens s0).toks ∧
      (scanTokens (s.goback s0.preback)).err.isSome = (scanTokens s0).err.isSome := by
  obtain ⟨hr, hm, hp⟩ := goback_rest s0 s hsrc
  obtain ⟨l, h1, h2, h3⟩ := scan_embedded _ _ hr hm
  exact ⟨by rw [h1, h2, hp], h3⟩

end Gosyn.Props.C15b
