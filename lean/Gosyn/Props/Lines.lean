import Gosyn.Props.C05
import Gosyn.Props.C16
import Gosyn.Props.C12
/-!
The line table is exact: for every scanner state reached from the initial state by successful
`next_token` steps and `goback`s to earlier positions, `lines` is precisely the list of offsets that
follow each newline among the characters scanned so far (`LinesOK`).  Hence the table is strictly
increasing (`Sorted`), which is the hypothesis of `C16.lineInfo_sorted` and `C12.lineOf_sorted`.
-/
namespace Gosyn.Props.Lines
open Gosyn.Gen Gosyn.Model

theorem newlineStarts_append (a : Nat) (xs ys : List Char) :
    newlineStarts a (xs ++ ys) = newlineStarts a xs ++ newlineStarts (a + xs.length) ys := by
  induction xs generalizing a with
  | nil => simp [newlineStarts]
  | cons c xs ih =>
    simp only [List.cons_append, newlineStarts, List.length_cons]
    split
    · rw [ih]; simp [Nat.add_assoc, Nat.add_comm 1]
    · rw [ih]; simp [Nat.add_assoc, Nat.add_comm 1]

/-- the table is exactly the line starts among the chars before `pos` -/
def LinesOK (s : Scanner) : Prop :=
  s.pos ≤ s.src.size ∧ s.lines.toList = newlineStarts 0 (s.src.toList.take s.pos)

theorem rest_eq_drop (s : Scanner) : s.rest = s.src.toList.drop s.pos := by
  unfold Scanner.rest
  simp only [Array.toList_extract, List.extract_eq_take_drop]
  rw [List.take_of_length_le]
  simp

theorem take_add (s : Scanner) (n : Nat) :
    s.src.toList.take (s.pos + n) = s.src.toList.take s.pos ++ s.rest.take n := by
  rw [rest_eq_drop, List.take_add]

theorem linesOK_init (src : Array Char) : LinesOK { src := src } := by
  simp [LinesOK, newlineStarts]

/-- advancing over `n` chars of the rest while appending their line starts keeps the table exact -/
theorem linesOK_advance (s : Scanner) (n : Nat) (semi : Bool) (h : LinesOK s) (hn : s.pos + n ≤ s.src.size) :
    LinesOK { s with pos := s.pos + n, semi := semi, lines := s.lines ++ (newlineStarts s.pos (s.rest.take n)).toArray } := by
  refine ⟨hn, ?_⟩
  simp only [Array.toList_append, List.toList_toArray]
  rw [take_add, newlineStarts_append, h.2]
  simp only [Nat.zero_add]
  congr 2
  simp [List.length_take]
  omega

theorem skipCount_le (cs : List Char) : skipCount cs ≤ cs.length := Gosyn.Props.C13.skipCount_le cs

theorem rest_length (s : Scanner) : s.rest.length = s.src.size - s.pos := by
  rw [rest_eq_drop]; simp

theorem linesOK_skip (s : Scanner) (h : LinesOK s) : LinesOK s.skipWhitespace := by
  unfold Scanner.skipWhitespace
  have hle := skipCount_le s.rest
  rw [rest_length s] at hle
  have := h.1
  have := linesOK_advance s (skipCount s.rest) s.semi h (by omega)
  simpa using this

/-- no operator or keyword spelling contains a newline -/
theorem op_no_newline : ∀ o : Operator, newlineStarts 0 o.str = [] := by
  intro o; cases o <;> decide
theorem kw_no_newline : ∀ k : Keyword, newlineStarts 0 k.str = [] := by
  intro k; cases k <;> decide

theorem newlineStarts_nil_shift (a b : Nat) (xs : List Char) (h : newlineStarts a xs = []) : newlineStarts b xs = [] := by
  induction xs generalizing a b with
  | nil => rfl
  | cons c xs ih =>
    simp only [newlineStarts] at h ⊢
    split
    · rename_i hc; simp [hc] at h
    · rename_i hc; simp [hc] at h; exact ih _ _ h

/-- **one successful scanner step keeps the line table exact** -/
theorem linesOK_next (s s' : Scanner) (r : Option (Nat × Token)) (h : LinesOK s)
    (hs : s.nextToken = (.ok r, s')) : LinesOK s' := by
  unfold Scanner.nextToken at hs
  split at hs
  · simp only [Prod.mk.injEq, Except.ok.injEq] at hs
    rw [← hs.2]; exact h
  · simp only at hs
    have h1 : LinesOK (Scanner.skipWhitespace { s with semi := false }) := linesOK_skip _ h
    split at hs
    · simp only [Prod.mk.injEq, Except.ok.injEq] at hs
      rw [← hs.2]; exact h1
    · rename_i hlt
      split at hs
      · simp at hs
      · rename_i tok n hscan
        simp only [Prod.mk.injEq, Except.ok.injEq] at hs
        rw [← hs.2]
        obtain ⟨hpre, hn⟩ := Gosyn.Props.C05.scanToken_text hscan
        generalize hs1 : Scanner.skipWhitespace { s with semi := false } = s1 at h1 hscan hpre hlt
        have htake : tok.text = s1.rest.take n := by rw [hn]; exact Gosyn.Props.C07.prefix_eq_take hpre
        have hlen : s1.pos + n ≤ s1.src.size := by
          have := hpre.length_le
          rw [rest_length s1] at this
          have := h1.1
          omega
        have key := linesOK_advance s1 n (tryInsertSemicolon tok) h1 hlen
        have hlines : (s1.addTokenCrossLine tok).lines = s1.lines ++ (newlineStarts s1.pos (s1.rest.take n)).toArray := by
          rw [← htake]
          cases tok with
          | comment t => rfl
          | literal k t => rfl
          | keyword k =>
            simp only [Scanner.addTokenCrossLine, Token.text]
            rw [newlineStarts_nil_shift 0 _ _ (kw_no_newline k)]; simp
          | operator o =>
            simp only [Scanner.addTokenCrossLine, Token.text]
            rw [newlineStarts_nil_shift 0 _ _ (op_no_newline o)]; simp
        have hsame : ∀ t : Token, (s1.addTokenCrossLine t).pos = s1.pos ∧ (s1.addTokenCrossLine t).src = s1.src := by
          intro t; cases t <;> exact ⟨rfl, rfl⟩
        refine ⟨?_, ?_⟩
        · simp only [(hsame tok).1, (hsame tok).2]; exact key.1
        · simp only [(hsame tok).1, (hsame tok).2, hlines]; exact key.2

/-! ### the table is strictly increasing -/

theorem newlineStarts_gt (a : Nat) (cs : List Char) : ∀ x ∈ newlineStarts a cs, a < x := by
  induction cs generalizing a with
  | nil => simp [newlineStarts]
  | cons c cs ih =>
    simp only [newlineStarts]
    split
    · intro x hx
      rcases List.mem_cons.1 hx with rfl | hx
      · omega
      · have := ih (a + 1) x hx; omega
    · intro x hx; have := ih (a + 1) x hx; omega

theorem newlineStarts_pairwise (a : Nat) (cs : List Char) : (newlineStarts a cs).Pairwise (· < ·) := by
  induction cs generalizing a with
  | nil => simp [newlineStarts]
  | cons c cs ih =>
    simp only [newlineStarts]
    split
    · exact List.Pairwise.cons (fun x hx => newlineStarts_gt (a + 1) cs x hx) (ih (a + 1))
    · exact ih (a + 1)

/-- an exact table is strictly increasing: the hypothesis of `C16.lineInfo_sorted` / `C12.lineOf_sorted` -/
theorem sorted_of_linesOK (s : Scanner) (h : LinesOK s) : Gosyn.Props.C16.Sorted s.lines := by
  intro i j hij hj
  have hp := newlineStarts_pairwise 0 (s.src.toList.take s.pos)
  rw [← h.2] at hp
  have hi : i < s.lines.size := by omega
  have := (List.pairwise_iff_getElem.1 hp) i j (by simpa using hi) (by simpa using hj) hij
  simpa [getElem!_pos, hi, hj] using this

/-! ### backtracking -/

theorem filter_newlineStarts (a p : Nat) (cs : List Char) :
    (newlineStarts a cs).filter (· ≤ p) = newlineStarts a (cs.take (p - a)) := by
  induction cs generalizing a with
  | nil => simp [newlineStarts]
  | cons c cs ih =>
    by_cases hap : a + 1 ≤ p
    · have e : p - a = (p - (a + 1)) + 1 := by omega
      rw [e, List.take_succ_cons]
      simp only [newlineStarts]
      split
      · simp [List.filter, hap, ih (a + 1)]
      · exact ih (a + 1)
    · have e : p - a = 0 := by omega
      rw [e]
      simp only [List.take_zero, newlineStarts]
      apply List.filter_eq_nil_iff.2
      intro x hx
      have : a < x := by
        split at hx
        · rcases List.mem_cons.1 hx with rfl | hx
          · omega
          · have := newlineStarts_gt (a + 1) cs x hx; omega
        · have := newlineStarts_gt (a + 1) cs x hx; omega
      simp; omega

/-- **going back to an earlier position keeps the table exact** (it forgets exactly the lines that will
    be scanned again) -/
theorem linesOK_goback (s : Scanner) (pre : Nat × Bool) (h : LinesOK s) (hp : pre.1 ≤ s.pos) :
    LinesOK (s.goback pre) := by
  refine ⟨by have := h.1; simp [Scanner.goback]; omega, ?_⟩
  simp only [Scanner.goback, Array.toList_filter]
  rw [h.2, filter_newlineStarts]
  simp only [Nat.sub_zero, List.take_take]
  congr 2
  omega

/-! ### consequences for every reachable state -/

/-- in a state with an exact table `line_of` is total, true and monotone, and `line_info` gives the true
    column (and the true line minus one from line 2 on) -/
theorem lineOf_reachable (s : Scanner) (h : LinesOK s) (pos : Nat) :
    ∃ k, k ≤ s.lines.size ∧ (∀ j, j < k → s.lines[j]! ≤ pos) ∧ (∀ j, k ≤ j → j < s.lines.size → pos < s.lines[j]!) ∧
      lineOfTable s.lines pos = k + 1 ∧
      s.lineInfo pos = .ok (if k = 0 then (1, pos) else (k, pos - s.lines[k - 1]!)) := by
  have hs := sorted_of_linesOK s h
  obtain ⟨k, hk, h1, h2, e⟩ := Gosyn.Props.C12.lineOf_sorted s.lines pos hs
  obtain ⟨k', hk', h1', h2', e'⟩ := Gosyn.Props.C16.lineInfo_sorted s.profile s.lines pos hs
  have : k = k' := by
    rcases Nat.lt_trichotomy k k' with hlt | heq | hgt
    · have a := h1' k hlt; have b := h2 k (Nat.le_refl _) (by omega); omega
    · exact heq
    · have a := h1 k' hgt; have b := h2' k' (Nat.le_refl _) (by omega); omega
  subst this
  exact ⟨k, hk, h1, h2, e, e'⟩

/-- every line start in an exact table is the offset right after a newline of the source, and every newline
    before the scanner position has its line start in the table -/
theorem mem_lines (s : Scanner) (h : LinesOK s) (x : Nat) :
    x ∈ s.lines.toList ↔ ∃ i, i < s.pos ∧ s.src.toList[i]? = some '\n' ∧ x = i + 1 := by
  rw [h.2]
  have key : ∀ (a : Nat) (cs : List Char), x ∈ newlineStarts a cs ↔ ∃ i, i < cs.length ∧ cs[i]? = some '\n' ∧ x = a + i + 1 := by
    intro a cs
    induction cs generalizing a with
    | nil => simp [newlineStarts]
    | cons c cs ih =>
      simp only [newlineStarts]
      constructor
      · intro hx
        split at hx
        · rename_i hc
          rcases List.mem_cons.1 hx with rfl | hx
          · exact ⟨0, by simp, by simp [hc], by omega⟩
          · obtain ⟨i, hi, hg, he⟩ := (ih (a + 1)).1 hx
            exact ⟨i + 1, by simp; omega, by simpa using hg, by omega⟩
        · obtain ⟨i, hi, hg, he⟩ := (ih (a + 1)).1 hx
          exact ⟨i + 1, by simp; omega, by simpa using hg, by omega⟩
      · rintro ⟨i, hi, hg, he⟩
        cases i with
        | zero =>
          simp at hg
          simp [hg, he]
        | succ i =>
          have hm : x ∈ newlineStarts (a + 1) cs := (ih (a + 1)).2 ⟨i, by simpa using hi, by simpa using hg, by omega⟩
          split
          · exact List.mem_cons_of_mem _ hm
          · exact hm
  rw [key]
  have hle := h.1
  constructor
  · rintro ⟨i, hi, hg, he⟩
    simp only [List.length_take] at hi
    exact ⟨i, by omega, by rw [List.getElem?_take] at hg; split at hg <;> simp_all, by omega⟩
  · rintro ⟨i, hi, hg, he⟩
    refine ⟨i, by simp [List.length_take]; omega, ?_, by omega⟩
    rw [List.getElem?_take]; simp [hi, hg]

end Gosyn.Props.Lines
