import Gosyn.Props.C15c
/-! C15 — `parse_type_spec` restores the nesting level (the ninth and last place where parser.rs changes it); own module so that it builds in parallel with C15d. -/
namespace Gosyn.Props.C15c
open Gosyn.Gen Gosyn.Model Gosyn.Ast
open Gosyn.Props.C15 Gosyn.Props.C12c

set_option maxHeartbeats 800000 in
/-- **`parse_type_spec` restores the level** on each of its exits (alias, type parameters after going back, array
    length after going back, slice, array), including the speculative expression between `inc` and `dec` -/
theorem typeSpec_restores (r : Tbl) (h1 : LP r.type_) (h2 : ∀ x, LP (r.primaryExpression x))
    (h3 : ∀ x n, LP (r.binaryExpression x n)) (h4 : LP r.parseTypeParameters) (h5 : LP r.parseNextLevelExpr)
    (h6 : LP r.arrayLen) : LP (parseTypeSpecBody r) := by
  refine LQ.toLP ?_
  unfold parseTypeSpecBody
  lq

end Gosyn.Props.C15c
