import Gosyn.Props.C07b
import Gosyn.Props.C08
/-!
C08, whole inputs — **an automatic semicolon stands exactly where the rule puts one**.  `Props/C08.lean`
settles one call of `next_token` (look-ahead = the spec's line end; flag = trigger table; synthetic `;` iff
flag ∧ line end).  Here the three facts are carried through the token loop of `Model/ScanAll.lean` (the
function the driver runs for the harness's `scan` cases), for every source text:

* `SemiTiling pending p cs toks`: `toks` tiles `cs` (as in `Props/C07b.lean`) **and**
  - a pair is the automatic semicolon only if the token before it is a trigger (`pending`) and, in the
    spec's sense (`Spec.LineEnd`: blanks and newline-free general comments, then a newline, `//`, a general
    comment that reaches a newline, or the end of the text), the line ends there;
  - a token is read from the text only if no semicolon is due: the token before it is not a trigger, or
    the line does not end between the two;
  - the text does not end while a semicolon is due;
* `scanTokens_semicolons`: the loop's result, when it ends without an error, is such a tiling of the whole
  source, starting with nothing pending;
* `SemiTiling.tiling`: forgetting the semicolon bookkeeping gives the tiling of `Props/C07b.lean`.

`pending` is the code's trigger table (`tryInsertSemicolon`) on the previous token; it is the spec's list
(`Spec.trigger`) for every token but the keyword `package` (`trigger_table_partial`, known finding K1).
-/
namespace Gosyn.Props.C08b
open Gosyn.Gen Gosyn.Model Gosyn.Spec
open Gosyn.Props.C07b Gosyn.Props.C08

inductive SemiTiling : Bool → Nat → List Char → List (Nat × Token) → Prop
  | done (p : Nat) (ws : List Char) (hw : ∀ c ∈ ws, isWhite c = true) : SemiTiling false p ws []
  | auto (p : Nat) (cs : List Char) (toks : List (Nat × Token))
      (hl : Spec.LineEnd Spec.ImplBlank cs) (h : SemiTiling false p cs toks) :
      SemiTiling true p cs ((p, .operator .SemiColon) :: toks)
  | tok (pending : Bool) (p : Nat) (ws : List Char) (t : Token) (cs : List Char) (toks : List (Nat × Token))
      (hw : ∀ c ∈ ws, isWhite c = true) (hne : t.text ≠ [])
      (hs : scanToken (t.text ++ cs) = .ok (t, t.text.length))
      (hno : pending = false ∨ ¬ Spec.LineEnd Spec.ImplBlank (ws ++ t.text ++ cs))
      (h : SemiTiling (tryInsertSemicolon t) (p + ws.length + t.text.length) cs toks) :
      SemiTiling pending p (ws ++ t.text ++ cs) ((p + ws.length, t) :: toks)

theorem SemiTiling.tiling {b : Bool} {p : Nat} {cs : List Char} {toks : List (Nat × Token)}
    (h : SemiTiling b p cs toks) : Tiling p cs toks := by
  induction h with
  | done p ws hw => exact Tiling.done p ws hw
  | auto p cs toks _ _ ih => exact Tiling.auto p cs toks ih
  | tok _ p ws t cs toks hw hne hs _ _ ih => exact Tiling.tok p ws t cs toks hw hne hs ih

/-- text that is white space only ends the line -/
theorem lineEndedS_white (ws : List Char) (hw : ∀ c ∈ ws, isWhite c = true) : lineEndedS ws = true := by
  induction ws with
  | nil => simp [lineEndedS]
  | cons c ws ih =>
    by_cases hc : c = '\n'
    · subst hc; simp [lineEndedS]
    · rw [lineEndedS_blank ⟨hw c (by simp), hc⟩]
      exact ih fun d hd => hw d (by simp [hd])

theorem scanTokensAcc_semicolons (fuel : Nat) (s : Scanner) (acc : List (Nat × Token)) :
    ∃ l, (scanTokensAcc fuel s acc).toks = acc.reverse ++ l ∧
      ((scanTokensAcc fuel s acc).err = none → (scanTokensAcc fuel s acc).fuelOut = false →
        SemiTiling s.semi s.pos s.rest l) := by
  induction fuel generalizing s acc with
  | zero => exact ⟨[], by simp [scanTokensAcc], by simp [scanTokensAcc]⟩
  | succ fuel ih =>
    unfold scanTokensAcc
    split
    · rename_i pt s' hn
      obtain ⟨p, tok⟩ := pt
      obtain ⟨l, hl, hfull⟩ := ih s' ((p, tok) :: acc)
      refine ⟨(p, tok) :: l, by rw [hl]; simp, ?_⟩
      intro he hf
      have ht := hfull he hf
      rcases nextToken_some hn with ⟨rfl, rfl, hp', hr', hs, hs', hle⟩ | ⟨ws, cs, hsplit, hw, hne, rfl, hp', hr', hno, hfl, hsc⟩
      · rw [hp', hr', hs'] at ht; rw [hs]
        exact SemiTiling.auto _ _ _ ((lineEnded_iff_spec _).1 hle) ht
      · rw [hp', hr', hfl] at ht; rw [hsplit]
        refine SemiTiling.tok _ _ _ _ _ _ hw hne hsc ?_ ht
        rw [← hsplit]
        cases hsemi : s.semi with
        | false => exact .inl rfl
        | true =>
          right
          intro hspec
          have : s.lineEnded = true := (lineEnded_iff_spec _).2 hspec
          simp [hsemi, this] at hno
    · rename_i s' hn
      refine ⟨[], by simp, ?_⟩
      intro _ _
      have hw := nextToken_none hn
      have hsemi : s.semi = false := by
        cases hsemi : s.semi with
        | false => rfl
        | true =>
          have hle : s.lineEnded = true := lineEndedS_white _ hw
          unfold Scanner.nextToken at hn
          simp [hsemi, hle] at hn
      rw [hsemi]
      exact SemiTiling.done _ _ hw
    · exact ⟨[], by simp, by simp⟩

/-- **C08, whole input**: in the token list of any source text scanned without an error, the automatic
    semicolons are exactly those the rule demands -/
theorem scanTokens_semicolons (src : Array Char) (profile : Profile)
    (h : (scanTokens { src := src, profile := profile }).err = none) :
    SemiTiling false 0 src.toList (scanTokens { src := src, profile := profile }).toks := by
  obtain ⟨l, hl, hfull⟩ := scanTokensAcc_semicolons (scanFuel { src := src, profile := profile }) { src := src, profile := profile } []
  have := hfull h (scanTokens_fuel _)
  rw [rest_zero] at this
  simp only [List.reverse_nil, List.nil_append] at hl
  unfold scanTokens; rw [hl]; exact this

/-- consequence: a semicolon-tiled text never ends on a trigger token without its semicolon — the last
    pair of a non-empty result whose last real token is a trigger is the automatic semicolon
    (stated on the relation: nothing can follow `pending = true` but `auto` or a token on the same line) -/
theorem pending_at_end {p : Nat} {cs : List Char} (h : SemiTiling true p cs []) : False := by
  cases h

example : (scanTokens { src := #['1', '\n', '+'] }).toks =
    [(0, .literal .Integer ['1']), (1, .operator .SemiColon), (2, .operator .Add)] := by decide +kernel
example : (scanTokens { src := #['1', '\n', '+'] }).err = none := by decide +kernel

end Gosyn.Props.C08b
