import Gosyn.Props.HoarePrims
/-!
Result shapes and the specification of a table of productions (`TblOK`).  Every production of `Model/Parser.lean`, given a table of productions that
satisfy their specifications, satisfies its own.  The specifications say: no panic site is reached
(Hoare.T), and the results have the shapes the panic sites rely on.
-/
namespace Gosyn.Props.Hoare
open Gosyn.Gen Gosyn.Model Gosyn.Ast

variable {src : Array Char}

/-! ### result shapes -/

def isRangeE : Expression → Bool
  | .Range _ => true
  | _ => false

/-- an expression as the productions return it: `pos()` is implemented on it, and it is not a bare
    `range` clause (those are built only by `parse_simple_stmt`) -/
def ExprOK (e : Expression) : Prop := PosOK e ∧ PosOK (unparen e) ∧ ∀ a, e ≠ .Range a

/-- the answer of `parse_slice_index_or_type_inst`, as `primary_expression` consumes it -/
def SliceOK (r : Option Operator × List (Option Expression)) : Prop :=
  (r.1 = none ∨ r.1 = some .Comma ∨ r.1 = some .Colon) ∧
  (r.1 = none → ∃ i, r.2.getLast? = some (some i) ∧ ExprOK i) ∧
  (r.1 = some .Colon → 1 ≤ r.2.length ∧ r.2.length ≤ 3) ∧
  (∀ i, some i ∈ r.2 → ExprOK i)

/-- the statement shape `parse_for_stmt` relies on: an assignment whose right side starts with a
    `range` clause has nothing else on the right -/
def StmtOK : Statement → Prop
  | .Assign (.mk _ _ _ (.Range _ :: rest)) => rest = []
  | _ => True

theorem exprOK_posOK {e : Expression} (h : ExprOK e) : PosOK e := h.1

@[simp] theorem flok_some (p : Nat × Nat) (l : List Field) : FLOK (.mk (some p) l) := trivial
@[simp] theorem flok_nil : FLOK (.mk none []) := trivial
@[simp] theorem flok_fieldOfExpr (t : Expression) (l : List Field) :
    FLOK (.mk none (fieldOfExpr t :: l)) ↔ PosOK t := by simp [FLOK, fieldOfExpr]

@[simp] theorem exprOK_iff (e : Expression) : ExprOK e ↔ PosOK e ∧ PosOK (unparen e) ∧ ∀ a, e ≠ .Range a := Iff.rfl

@[simp] theorem unparen_paren (p : Nat × Nat) (e : Expression) : unparen (.Paren (.mk p e)) = e := rfl
@[simp] theorem unparen_other (e : Expression) (h : ∀ p i, e ≠ .Paren (.mk p i)) : unparen e = e := by
  cases e <;> try rfl
  rename_i a; cases a with | mk p i => exact absurd rfl (h p i)

@[simp] theorem posOK_call (a : Call) : PosOK (.Call a) := by cases a; simp [PosOK, exprPos]
@[simp] theorem posOK_index (a : Index) : PosOK (.Index a) := by cases a; simp [PosOK, exprPos]
@[simp] theorem posOK_slice (a : Slice) : PosOK (.Slice a) := by cases a; simp [PosOK, exprPos]
@[simp] theorem posOK_ident (a : Ident) : PosOK (.Ident a) := by simp [PosOK, exprPos]
@[simp] theorem posOK_funcLit (a : FuncLit) : PosOK (.FuncLit a) := by
  cases a with | mk t b => cases t; simp [PosOK, exprPos]
@[simp] theorem posOK_ellipsis (a : Ellipsis) : PosOK (.Ellipsis a) := by cases a; simp [PosOK, exprPos]
@[simp] theorem posOK_basicLit (a : BasicLit) : PosOK (.BasicLit a) := by simp [PosOK, exprPos]
@[simp] theorem posOK_range (a : RangeExpr) : PosOK (.Range a) := by cases a; simp [PosOK, exprPos]
@[simp] theorem posOK_star (a : StarExpression) : PosOK (.Star a) := by cases a; simp [PosOK, exprPos]
@[simp] theorem posOK_paren (a : ParenExpression) : PosOK (.Paren a) := by cases a; simp [PosOK, exprPos]
@[simp] theorem posOK_typeMap (a : MapType) : PosOK (.TypeMap a) := by cases a; simp [PosOK, exprPos]
@[simp] theorem posOK_typeArray (a : ArrayType) : PosOK (.TypeArray a) := by cases a; simp [PosOK, exprPos]
@[simp] theorem posOK_typeSlice (a : SliceType) : PosOK (.TypeSlice a) := by cases a; simp [PosOK, exprPos]
@[simp] theorem posOK_typeFunction (a : FuncType) : PosOK (.TypeFunction a) := by cases a; simp [PosOK, exprPos]
@[simp] theorem posOK_typeStruct (a : StructType) : PosOK (.TypeStruct a) := by cases a; simp [PosOK, exprPos]
@[simp] theorem posOK_typeChannel (a : ChannelType) : PosOK (.TypeChannel a) := by cases a; simp [PosOK, exprPos]
@[simp] theorem posOK_typePointer (a : PointerType) : PosOK (.TypePointer a) := by cases a; simp [PosOK, exprPos]
@[simp] theorem posOK_typeInterface (a : InterfaceType) : PosOK (.TypeInterface a) := by cases a; simp [PosOK, exprPos]
@[simp] theorem posOK_selector (p : Nat) (x : Expression) (sel : Ident) :
    PosOK (.Selector (.mk p x sel)) ↔ PosOK x := by simp [PosOK, exprPos]
@[simp] theorem posOK_typeAssert (p : Nat × Nat) (x : Expression) (t : Option Expression) :
    PosOK (.TypeAssert (.mk p x t)) ↔ PosOK x := by simp [PosOK, exprPos]
@[simp] theorem posOK_compositeLit (x : Expression) (v : LiteralValue) :
    PosOK (.CompositeLit (.mk x v)) ↔ PosOK x := by simp [PosOK, exprPos]
@[simp] theorem posOK_indexList (p : Nat × Nat) (x : Expression) (l : List Expression) :
    PosOK (.IndexList (.mk p x l)) ↔ PosOK x := by simp [PosOK, exprPos]
@[simp] theorem posOK_operation (p : Nat) (op : Operator) (x : Expression) (y : Option Expression) :
    PosOK (.Operation (.mk p op x y)) ↔ PosOK x := by simp [PosOK, exprPos]
@[simp] theorem posOK_list (l : List Expression) : PosOK (.List l) ↔ False := by simp [PosOK, exprPos]

/-- a function declaration whose name is an identifier token of the source and whose documentation is made
    of comment tokens of the source -/
@[simp] def FuncDeclReal (src : Array Char) (d : FuncDecl) : Prop :=
  RealIdent src d.name ∧ ∀ c ∈ d.docs, RealComment src c

/-- a type spec whose name is an identifier token of the source and whose documentation is made of source comments -/
@[simp] def TypeSpecReal (src : Array Char) : TypeSpec → Prop
  | .mk docs _ name _ _ => RealIdent src name ∧ ∀ c ∈ docs, RealComment src c

/-- a var spec all of whose names are identifier tokens of the source, documented by source comments -/
@[simp] def VarSpecReal (src : Array Char) : VarSpec → Prop
  | .mk docs names _ _ => (∀ id ∈ names, RealIdent src id) ∧ ∀ c ∈ docs, RealComment src c

@[simp] def ConstSpecReal (src : Array Char) : ConstSpec → Prop
  | .mk docs names _ _ => (∀ id ∈ names, RealIdent src id) ∧ ∀ c ∈ docs, RealComment src c

@[simp] def DeclVarReal (src : Array Char) : DeclVarSpec → Prop
  | .mk docs _ _ specs => (∀ c ∈ docs, RealComment src c) ∧ ∀ sp ∈ specs, VarSpecReal src sp

@[simp] def DeclConstReal (src : Array Char) : DeclConstSpec → Prop
  | .mk docs _ _ specs => (∀ c ∈ docs, RealComment src c) ∧ ∀ sp ∈ specs, ConstSpecReal src sp

@[simp] def DeclTypeReal (src : Array Char) : DeclTypeSpec → Prop
  | .mk docs _ _ specs => (∀ c ∈ docs, RealComment src c) ∧ ∀ sp ∈ specs, TypeSpecReal src sp

/-- the specification of a table of productions -/
class TblOK (src : Array Char) (r : Tbl) : Prop where
  parseFuncDecl : T src Tr r.parseFuncDecl (fun d _ => FuncDeclReal src d)
  parseDeclVar : T src Tr r.parseDeclVar (fun d _ => DeclVarReal src d)
  parseDeclType : T src Tr r.parseDeclType (fun d _ => DeclTypeReal src d)
  parseDeclConst : T src Tr r.parseDeclConst (fun d _ => DeclConstReal src d)
  parseTypeSpec : T src Tr r.parseTypeSpec (fun sp _ => TypeSpecReal src sp)
  parseVarSpec : T src Tr r.parseVarSpec (fun sp _ => VarSpecReal src sp)
  parseConstSpec : ∀ i, T src Tr (r.parseConstSpec i) (fun sp _ => ConstSpecReal src sp)
  parseTypeList : T src Tr r.parseTypeList (fun l _ => ∀ e ∈ l, ExprOK e)
  type_ : T src Tr r.type_ (fun e _ => ExprOK e)
  typeList : ∀ b, T src Tr (r.typeList b) (fun _ _ => True)
  typeOrNone : T src Tr r.typeOrNone (fun o _ => ∀ e, o = some e → ExprOK e)
  parseTypeParameters : T src Tr r.parseTypeParameters (fun _ _ => True)
  funcType : T src Tr r.funcType (fun _ _ => True)
  structType : T src Tr r.structType (fun _ _ => True)
  fieldDecl : T src Tr r.fieldDecl (fun _ _ => True)
  parseInterfaceType : T src Tr r.parseInterfaceType (fun _ _ => True)
  parseMethodElem : T src Tr r.parseMethodElem (fun _ _ => True)
  parseTypeElem : T src Tr r.parseTypeElem (fun e _ => ExprOK e)
  parseTypeTerm : T src Tr r.parseTypeTerm (fun e _ => ExprOK e)
  arrayLen : T src Tr r.arrayLen (fun e _ => ExprOK e)
  expressionList : T src Tr r.expressionList (fun l _ => ∀ e ∈ l, ExprOK e)
  parseNextLevelExpr : T src Tr r.parseNextLevelExpr (fun e _ => ExprOK e)
  expression : T src Tr r.expression (fun e _ => ExprOK e)
  binaryExpression : ∀ p n, (∀ e, p = some e → ExprOK e) → T src Tr (r.binaryExpression p n) (fun e _ => ExprOK e)
  unaryExpression : T src Tr r.unaryExpression (fun e _ => ExprOK e)
  primaryExpression : ∀ p, (∀ e, p = some e → ExprOK e) → T src Tr (r.primaryExpression p) (fun e _ => ExprOK e)
  operand : T src Tr r.operand (fun e _ => ExprOK e)
  parseSliceIndexOrTypeInst : T src Tr r.parseSliceIndexOrTypeInst (fun x _ => SliceOK x)
  parseLitValue : T src Tr r.parseLitValue (fun _ _ => True)
  parseElement : T src Tr r.parseElement (fun _ _ => True)
  parseElementValue : T src Tr r.parseElementValue (fun _ _ => True)
  parseResult : T src Tr r.parseResult (fun fl _ => FLOK fl)
  paramsList : ∀ a b, T src Tr (r.paramsList a b) (fun fl _ => FLOK fl)
  parseParameterDecl : T src Tr r.parseParameterDecl (fun _ _ => True)
  arrayOrTypeargs : T src Tr r.arrayOrTypeargs (fun e _ => ExprOK e)
  qualifiedIdent : ∀ n, T src Tr (r.qualifiedIdent n) (fun e _ => ExprOK e)
  typeInstance : ∀ e, T src Tr (r.typeInstance e) (fun e _ => ExprOK e)
  parseStmtList : T src Tr r.parseStmtList (fun _ _ => True)
  parseStmt : T src Tr r.parseStmt (fun _ _ => True)
  parseSimpleStmt : T src Tr r.parseSimpleStmt (fun st _ => StmtOK st)
  parseBlockStmt : T src Tr r.parseBlockStmt (fun _ _ => True)
  parseIfStmt : T src Tr r.parseIfStmt (fun _ _ => True)
  parseIfHeader : T src Tr r.parseIfHeader (fun _ _ => True)
  parseSwitchStmt : T src Tr r.parseSwitchStmt (fun _ _ => True)
  parseCaseBlock : ∀ b, T src Tr (r.parseCaseBlock b) (fun _ _ => True)
  parseCommStmt : T src Tr r.parseCommStmt (fun _ _ => True)
  parseCommBlock : T src Tr r.parseCommBlock (fun _ _ => True)
  parseForStmt : T src Tr r.parseForStmt (fun _ _ => True)

section
variable {r : Tbl} [hr : TblOK src r]

macro_rules | `(tactic| hspecOld) => `(tactic| exact T.anyQ (TblOK.binaryExpression _ _ (by hside)))
macro_rules | `(tactic| hspecOld) => `(tactic| exact T.anyQ (TblOK.primaryExpression _ (by hside)))

theorem parameters_spec : T src Tr r.parameters (fun fl _ => FLOK fl) := TblOK.paramsList _ _
macro_rules | `(tactic| hspecOld) => `(tactic| exact T.anyQ parameters_spec)

/-- the usual shape of a loop proof -/
macro "hloop" ih:ident : tactic => `(tactic| (hoare; all_goals (first | exact T.anyQ ($ih _) | exact T.anyQ ($ih _ _) | exact T.anyQ ($ih _ _ _) | skip)))

theorem getLast_some_of_ne_nil {α} {l : List α} (h : l ≠ []) : ∃ x, l.getLast? = some x := by
  cases hl : l.getLast? with
  | none => exact absurd (List.getLast?_eq_none_iff.1 hl) h
  | some x => exact ⟨x, rfl⟩


/-- **no literal is invented**: every `BasicLit` the parser creates carries the kind, the text and the
    offset of a literal token that the scanner produces from the source -/
theorem literal_spec : T src Tr literal (fun l _ => RealLit src l) := by
  unfold literal
  refine T.bindP takeCurrent_spec ⟨fun cur hcur => ?_⟩
  split
  · rename_i pos kind value
    exact T.bind (T.anyQ next_spec) (fun _ => T.pure _ (fun _ _ => ⟨value, rfl, hcur _ _ rfl⟩))
  · hoare


theorem commaList_spec {α} (item : P α) (Qp : α → Prop) (hi : T src Tr item (fun a _ => Qp a)) :
    ∀ fuel acc, (∀ a ∈ acc, Qp a) → T src Tr (commaList item fuel acc) (fun l _ => ∀ a ∈ l, Qp a) := by
  intro fuel
  induction fuel with
  | zero => intro acc _; unfold commaList; exact T.throw _ (fun _ _ => trivial)
  | succ n ih =>
    intro acc hacc
    unfold commaList
    refine T.bind (skipped_spec _) (fun b => ?_)
    refine T.ite (fun _ => ?_) (fun _ => T.pure _ (fun _ _ => hacc))
    refine T.bindP (T.anyQ hi) ⟨fun x hx => ?_⟩
    refine ih _ ?_
    intro a ha
    rcases List.mem_append.1 ha with h | h
    · exact hacc a h
    · simp at h; subst h; exact hx


end
end Gosyn.Props.Hoare
