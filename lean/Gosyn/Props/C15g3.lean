import Gosyn.Props.C15f
/-! C15 — bodies that restore the nesting level given a table of callees that restore it (group 3 of 3; see C15f). -/
namespace Gosyn.Props.C15c
open Gosyn.Gen Gosyn.Model Gosyn.Ast
open Gosyn.Props.C15 Gosyn.Props.C12c

set_option maxHeartbeats 1600000 in
theorem typeOrNoneBody_t (r : Tbl) (h : TblLP r)  : LQ (typeOrNoneBody r) 0 := by
  unfold typeOrNoneBody
  lq

set_option maxHeartbeats 1600000 in
theorem parseTypeTermBody_t (r : Tbl) (h : TblLP r)  : LQ (parseTypeTermBody r) 0 := by
  unfold parseTypeTermBody
  lq

set_option maxHeartbeats 1600000 in
theorem unaryExpressionBody_t (r : Tbl) (h : TblLP r)  : LQ (unaryExpressionBody r) 0 := by
  unfold unaryExpressionBody
  lq

set_option maxHeartbeats 1600000 in
theorem parseElementValueBody_t (r : Tbl) (h : TblLP r)  : LQ (parseElementValueBody r) 0 := by
  unfold parseElementValueBody
  lq

set_option maxHeartbeats 1600000 in
theorem qualifiedIdentBody_t (r : Tbl) (h : TblLP r) (n : Option Ident) : LQ (qualifiedIdentBody r n) 0 := by
  unfold qualifiedIdentBody
  lq

set_option maxHeartbeats 1600000 in
theorem parseCommStmtBody_t (r : Tbl) (h : TblLP r)  : LQ (parseCommStmtBody r) 0 := by
  unfold parseCommStmtBody
  lq

end Gosyn.Props.C15c
