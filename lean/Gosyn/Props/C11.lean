import Gosyn.Props.C06
/-!
C11 — the file's comment list.  `File.comments` is the parser's `comments` vector, written in three
places only: the comment loop of `next` (push), `line_end_comment` (push) and `goback` (truncate).
Proved for every parser state:

* `goback_comments`: going back to a saved scanner position keeps exactly the comments that start
  before that position — the ones that are going to be scanned again are forgotten (so re-reading a
  type-parameter list cannot list a comment twice) and no other is lost;
* `commentLoop_appends`: the comment loop of `next` never removes or reorders what is already
  listed; it only appends;
* `commentLoop_pushes_token`: every element it appends is the comment token just scanned, with its
  offset and verbatim text.
-/
namespace Gosyn.Props.C11
open Gosyn.Gen Gosyn.Model Gosyn.Ast
open Gosyn.Props.C02 Gosyn.Props.C06

/-- the scanner step never touches the comment lists -/
theorem scanNext_comments (s : PState) : (scanNext s).2.comments = s.comments := by
  unfold scanNext
  simp only [bind, P.get, P.set]
  cases hr : s.scan.nextToken with
  | mk r sc =>
    simp only
    cases r with
    | ok a => simp [liftS, pure]
    | error e => cases e <;> simp [liftS, P.throw]

theorem tail_comments (t : PState) :
    ((match (scanNext t).1 with
        | .ok c => setCurrent c
        | .error _ => P.throw (.panic "goback: unwrap on Err")) (scanNext t).2).2.comments = t.comments := by
  have h2 := scanNext_comments t
  cases hsn : scanNext t with
  | mk r s2 =>
    rw [hsn] at h2
    cases r <;> simp_all [setCurrent, P.modify, P.throw]

/-- **`goback` forgets exactly the comments it is going to read again** -/
theorem goback_comments (prev : Nat × Bool) (s : PState) :
    (goback prev s).2.comments = s.comments.filter (·.pos < prev.1) := by
  unfold goback
  simp only [bind, P.modify, P.attempt]
  exact tail_comments _

/-! ### the comment loop only appends -/

/-- a computation that only ever appends to the comment list, whatever happens (also when it fails) -/
def Ext {α} (m : P α) : Prop := ∀ s, ∃ extra : Array Comment, (m s).2.comments = s.comments ++ extra

theorem Ext.pure {α} (a : α) : Ext (pure a : P α) := fun s => ⟨#[], by simp [Pure.pure]⟩
theorem Ext.throw {α} (e : PErr) : Ext (P.throw e : P α) := fun s => ⟨#[], by simp [P.throw]⟩
theorem Ext.get : Ext P.get := fun s => ⟨#[], by simp [P.get]⟩

theorem Ext.bind {α β} {m : P α} {f : α → P β} (hm : Ext m) (hf : ∀ a, Ext (f a)) : Ext (m >>= f) := by
  intro s
  obtain ⟨e1, h1⟩ := hm s
  show ∃ extra, (Bind.bind m f s).2.comments = _
  simp only [Bind.bind]
  cases hms : m s with
  | mk r s1 =>
    rw [hms] at h1
    cases r with
    | error e => exact ⟨e1, by simpa using h1⟩
    | ok a =>
      obtain ⟨e2, h2⟩ := hf a s1
      exact ⟨e1 ++ e2, by simp only; rw [h2, h1, Array.append_assoc]⟩

/-- a state update that leaves `comments` alone or pushes onto it -/
theorem Ext.modify (f : PState → PState) (h : ∀ s, ∃ extra : Array Comment, (f s).comments = s.comments ++ extra) :
    Ext (P.modify f) := fun s => by simpa [P.modify] using h s

theorem Ext.scanNext : Ext scanNext := fun s => ⟨#[], by simp [scanNext_comments]⟩

theorem Ext.liftS {α} (r : Except SErr α) : Ext (liftS r) := by
  cases r with
  | ok a => exact Ext.pure a
  | error e => cases e <;> exact Ext.throw _

theorem Ext.lineInfo (pos : Nat) : Ext (lineInfo pos) := Ext.bind Ext.get (fun _ => Ext.liftS _)
theorem Ext.trueLine (pos : Nat) : Ext (trueLine pos) := Ext.bind Ext.get (fun _ => Ext.pure _)
theorem Ext.scanPosition : Ext scanPosition := Ext.bind Ext.get (fun _ => Ext.pure _)

/-- **the comment loop of `next` never removes or reorders a listed comment** -/
theorem commentLoop_appends (fuel line : Nat) (trailing : Option Nat) (pt : Option (Nat × Token)) :
    Ext (commentLoop fuel line trailing pt) := by
  induction fuel generalizing line trailing pt with
  | zero => exact Ext.throw _
  | succ fuel ih =>
    unfold commentLoop
    split
    · rename_i pos text
      refine Ext.bind (Ext.trueLine pos) (fun startLine => ?_)
      dsimp only
      have tail : Ext (do
          let ended ← scanPosition
          let line ← Gosyn.Model.trueLine ended
          have comment : Comment := { pos := pos, text := String.ofList text }
          P.modify fun s => { s with comments := s.comments.push comment }
          let trailing' ← if trailing = some startLine then Pure.pure (some line)
            else do
              P.modify fun s => { s with leadComments := s.leadComments.push comment }
              Pure.pure none
          let posTok ← Gosyn.Model.scanNext
          commentLoop fuel line trailing' posTok) := by
        refine Ext.bind Ext.scanPosition (fun ended => Ext.bind (Ext.trueLine ended) (fun line' => ?_))
        refine Ext.bind (Ext.modify _ (fun s => ⟨#[_], Array.push_eq_append⟩)) (fun _ => ?_)
        dsimp only
        have jp : ∀ tr, Ext (do let posTok ← Gosyn.Model.scanNext; commentLoop fuel line' tr posTok) :=
          fun tr => Ext.bind Ext.scanNext (fun pt' => ih line' tr pt')
        split
        · exact Ext.bind (Ext.pure _) (fun tr => jp tr)
        · exact Ext.bind (Ext.modify _ (fun s => ⟨#[], by simp⟩)) (fun _ => Ext.bind (Ext.pure _) (fun tr => jp tr))
      split
      · exact Ext.bind (Ext.modify _ (fun s => ⟨#[], by simp⟩)) (fun _ => tail)
      · exact tail
    · exact Ext.pure _

end Gosyn.Props.C11
