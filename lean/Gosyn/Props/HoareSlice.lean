import Gosyn.Props.HoareTbl
/-! Whole-parser invariant, part 2: index / slice / type-argument brackets. -/
namespace Gosyn.Props.Hoare
open Gosyn.Gen Gosyn.Model Gosyn.Ast

variable {src : Array Char} {r : Tbl} [hr : TblOK src r]

/-- what the comma loop of `parse_slice_index_or_type_inst` maintains: the list ends with an index and
    every index in it is a well-shaped expression -/
def IdxOK (l : List (Option Expression)) : Prop :=
  (∃ i, l.getLast? = some (some i) ∧ ExprOK i) ∧ (∀ i, some i ∈ l → ExprOK i)

theorem idxOK_snoc (l : List (Option Expression)) (e : Expression) (h : ∀ i, some i ∈ l → ExprOK i) (he : ExprOK e) :
    IdxOK (l ++ [some e]) := by
  refine ⟨⟨e, by simp, he⟩, ?_⟩
  intro i hi
  rcases List.mem_append.1 hi with h' | h'
  · exact h i h'
  · simp at h'; subst h'; exact he

@[simp] theorem idxOK_single (e : Expression) : IdxOK [some e] ↔ ExprOK e := by
  constructor
  · intro h; exact h.2 e (by simp)
  · intro h; exact ⟨⟨e, rfl, h⟩, by intro i hi; simp at hi; subst hi; exact h⟩

theorem parseSliceIndexOrTypeInstBody_go_spec : ∀ fuel acc, (hacc : IdxOK acc := by hside) →
    T src Tr (parseSliceIndexOrTypeInstBody.go r fuel acc) (fun l _ => IdxOK l) := by
  intro fuel
  induction fuel with
  | zero => intro acc _; unfold parseSliceIndexOrTypeInstBody.go; exact T.throw _ (fun _ _ => trivial)
  | succ n ih =>
    intro acc hacc
    unfold parseSliceIndexOrTypeInstBody.go
    hoare
    · exact T.anyQ (ih _ (idxOK_snoc _ _ hacc.2 (by assumption)))

theorem sliceOK_comma (l : List (Option Expression)) (h : IdxOK l) : SliceOK (some Operator.Comma, l) :=
  ⟨by simp, by simp, by simp, h.2⟩

theorem sliceOK_none (l : List (Option Expression)) (h : IdxOK l) : SliceOK (none, l) :=
  ⟨by simp, fun _ => h.1, by simp, h.2⟩

set_option maxHeartbeats 4000000 in
/-- `parse_slice_index_or_type_inst` answers only with the shapes `primary_expression` handles: no
    operator with exactly one index, `,` with indices, or `:` with one to three optional indices -/
theorem parseSliceIndexOrTypeInstBody_spec : T src Tr (parseSliceIndexOrTypeInstBody r) (fun x _ => SliceOK x) := by
  unfold parseSliceIndexOrTypeInstBody
  hoare
  all_goals first
    | (refine T.pure _ (fun _ _ => ?_); exact sliceOK_comma _ (by assumption))
    | (refine T.pure _ (fun _ _ => ?_); exact sliceOK_none _ (by assumption))
    | (refine T.pure _ (fun _ _ => ?_); simp [SliceOK] <;> simp_all; done)
    | skip


end Gosyn.Props.Hoare
