import Gosyn.Props.HoareTbl
/-! Whole-parser invariant, part 4: `if` statement and header. -/
namespace Gosyn.Props.Hoare
open Gosyn.Gen Gosyn.Model Gosyn.Ast

variable {src : Array Char} {r : Tbl} [hr : TblOK src r]

set_option maxHeartbeats 4000000 in
theorem parseIfStmtBody_spec : T src Tr (parseIfStmtBody r) (fun _ _ => True) := by
  unfold parseIfStmtBody
  hoare

set_option maxHeartbeats 8000000 in
theorem parseIfHeaderBody_spec : T src Tr (parseIfHeaderBody r) (fun _ _ => True) := by
  unfold parseIfHeaderBody
  hoare


end Gosyn.Props.Hoare
