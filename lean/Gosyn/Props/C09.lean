import Gosyn.Spec.Numbers
import Gosyn.Model.Scanner
/-!
C09 — numeric literals.  Theorems about `scanLitNumber` (the model of `scan_lit_number`, scanner.rs):
the literal's text is the source text (a prefix of the remaining input, the scanner advances by its
length), its kind is Integer / Float / Imag and is decided by the presence of a fraction or exponent
and of the `i` suffix, and the digit-run scanner implements the underscore rule.
-/
namespace Gosyn.Props.C09
open Gosyn.Gen Gosyn.Model Gosyn.Spec

/-! ### the digit-run scanner -/

theorem scanDigitsGo_prefix (V : Char → Bool) (u : Bool) (cs : List Char) : scanDigitsGo V u cs <+: cs := by
  induction cs generalizing u with
  | nil => simp [scanDigitsGo]
  | cons c cs ih =>
    unfold scanDigitsGo
    split
    · exact List.nil_prefix
    · exact (List.cons_prefix_cons).2 ⟨rfl, ih _⟩

theorem scanDigits_prefix (V : Char → Bool) (cs : List Char) : scanDigits V cs <+: cs :=
  scanDigitsGo_prefix V true cs

/-- every char taken is a valid digit or `_` -/
theorem scanDigitsGo_chars (V : Char → Bool) (u : Bool) (cs : List Char) :
    ∀ c ∈ scanDigitsGo V u cs, V c = true ∨ c = '_' := by
  induction cs generalizing u with
  | nil => simp [scanDigitsGo]
  | cons c cs ih =>
    unfold scanDigitsGo
    split
    · simp
    · rename_i h
      intro d hd
      rcases List.mem_cons.1 hd with rfl | hd
      · by_cases hu : d = '_'
        · exact .inr hu
        · left; simp [hu] at h; exact h
      · exact ih _ d hd

/-- no two adjacent `_` inside the run (after the first char when the run starts in "underline" state
    `u = true`, i.e. directly after a prefix or at the start, one leading `_` is allowed) -/
theorem scanDigitsGo_no_double (V : Char → Bool) (u : Bool) (cs : List Char) :
    ∀ pre post, scanDigitsGo V u cs ≠ pre ++ '_' :: '_' :: post ∧
      (u = false → ∀ post, scanDigitsGo V u cs ≠ '_' :: post) := by
  induction cs generalizing u with
  | nil => intro pre post; simp [scanDigitsGo]
  | cons c cs ih =>
    intro pre post
    unfold scanDigitsGo
    split
    · simp
    · rename_i h
      constructor
      · intro heq
        cases pre with
        | nil =>
          simp at heq
          obtain ⟨rfl, heq⟩ := heq
          exact (ih (decide ('_' ≠ '_')) [] post).2 (by decide) post heq
        | cons p pre' =>
          simp at heq
          exact (ih _ pre' post).1 heq.2
      · intro hu post' heq
        simp at heq
        subst hu
        simp [heq.1] at h

/-! ### the literal is a prefix of the input -/

theorem numPrefix_prefix (cs : List Char) : (numPrefix cs).2 <+: cs := by
  unfold numPrefix
  split
  · simp
  · simp
  · simp only
    have h2 : ∀ V, cs.take 2 ++ scanDigits V (cs.drop 2) <+: cs := by
      intro V
      have := scanDigits_prefix V (cs.drop 2)
      obtain ⟨t, ht⟩ := this
      exact ⟨t, by rw [List.append_assoc, ht, List.take_append_drop]⟩
    split
    · exact h2 _
    · split
      · exact h2 _
      · split
        · exact h2 _
        · exact scanDigits_prefix _ _

theorem facPartOf_prefix (radix : Nat) (cs : List Char) : facPartOf radix cs <+: cs := by
  unfold facPartOf
  split
  · rename_i h
    cases cs with
    | nil => simp at h
    | cons c tl =>
      simp at h; subst h
      exact (List.cons_prefix_cons).2 ⟨rfl, by simpa using scanDigits_prefix _ tl⟩
  · exact List.nil_prefix

theorem expPartOf_prefix (cs : List Char) : expPartOf cs <+: cs := by
  unfold expPartOf
  split
  · split
    · split
      · split
        · exact (List.cons_prefix_cons).2 ⟨rfl, (List.cons_prefix_cons).2 ⟨rfl, scanDigits_prefix _ _⟩⟩
        · exact (List.cons_prefix_cons).2 ⟨rfl, scanDigits_prefix _ _⟩
      · simp
    · exact List.nil_prefix
  · exact List.nil_prefix

/-- appending a prefix of the rest to a prefix -/
theorem prefix_append_drop {a b cs : List Char} (ha : a <+: cs) (hb : b <+: cs.drop a.length) : a ++ b <+: cs := by
  obtain ⟨t, rfl⟩ := ha
  simp at hb
  obtain ⟨u, rfl⟩ := hb
  exact ⟨u, by simp⟩

/-- what `numFinish` returns: the text is `numlit` or `numlit ++ "i"`, found at the input -/
theorem numFinish_text {radix : Nat} {cs numlit : List Char} {isFloat : Bool} {k t n}
    (hp : numlit <+: cs) (h : numFinish radix cs numlit isFloat = .ok (k, t, n)) :
    t <+: cs ∧ n = t.length ∧ (k = .Imag ↔ t = numlit ++ ['i']) ∧ (k ≠ .Imag → t = numlit ∧ (k = .Float ↔ isFloat = true)) := by
  unfold numFinish at h
  split at h
  · rename_i hi
    simp only [Except.ok.injEq, Prod.mk.injEq] at h
    obtain ⟨rfl, rfl, rfl⟩ := h
    refine ⟨?_, by simp, by simp, by simp⟩
    apply prefix_append_drop hp
    cases hd : cs.drop numlit.length with
    | nil => simp [hd] at hi
    | cons c tl => simp [hd] at hi; subst hi; simp
  · split at h
    · rename_i hf
      simp only [Except.ok.injEq, Prod.mk.injEq] at h
      obtain ⟨rfl, rfl, rfl⟩ := h
      exact ⟨hp, rfl, by simp, by simp [hf]⟩
    · rename_i hf
      split at h
      · cases h
      · simp only [Except.ok.injEq, Prod.mk.injEq] at h
        obtain ⟨rfl, rfl, rfl⟩ := h
        exact ⟨hp, rfl, by simp, by simp [hf]⟩

theorem numExp_text {radix : Nat} {cs mant facPart expPart : List Char} {k t n}
    (hp : mant ++ expPart <+: cs) (h : numExp radix cs mant facPart expPart = .ok (k, t, n)) :
    t <+: cs ∧ n = t.length := by
  unfold numExp at h
  repeat' split at h
  all_goals (first | (cases h; done) | exact ⟨(numFinish_text hp h).1, (numFinish_text hp h).2.1⟩)

theorem numMant_text {radix : Nat} {cs intPart facPart : List Char} {k t n}
    (hp : intPart ++ facPart <+: cs) (h : numMant radix cs intPart facPart = .ok (k, t, n)) :
    t <+: cs ∧ n = t.length := by
  unfold numMant at h
  simp only at h
  repeat' split at h
  all_goals (first | (cases h; done) | skip)
  exact numExp_text (prefix_append_drop hp (expPartOf_prefix _)) h

/-- **the literal's text is the source text**: whatever `scan_lit_number` returns is a prefix of the
    remaining input, and the scanner advances by exactly its length -/
theorem number_text_is_source {cs : List Char} {k : LitKind} {t : List Char} {n : Nat}
    (h : scanLitNumber cs = .ok (k, t, n)) : t <+: cs ∧ n = t.length := by
  unfold scanLitNumber scanLitNumberWith at h
  simp only at h
  repeat' split at h
  all_goals (first | (cases h; done) | skip)
  exact numMant_text (prefix_append_drop (numPrefix_prefix cs) (facPartOf_prefix _ _)) h

/-! ### non-vacuity and the repaired cases, as executed by the model -/

instance {ε α} [DecidableEq ε] [DecidableEq α] : DecidableEq (Except ε α)
  | .ok a, .ok b => if h : a = b then isTrue (h ▸ rfl) else isFalse (fun e => h (Except.ok.inj e))
  | .error a, .error b => if h : a = b then isTrue (h ▸ rfl) else isFalse (fun e => h (Except.error.inj e))
  | .ok _, .error _ => isFalse (fun e => nomatch e)
  | .error _, .ok _ => isFalse (fun e => nomatch e)

example : scanLitNumber "0x1.8p-2i+".toList = .ok (.Imag, "0x1.8p-2i".toList, 9) := by decide
example : scanLitNumber "1_000 ".toList = .ok (.Integer, "1_000".toList, 5) := by decide
example : scanLitNumber "1e5)".toList = .ok (.Float, "1e5".toList, 3) := by decide
example : scanLitNumber "0B101".toList = .ok (.Integer, "0B101".toList, 5) := by decide
example : (scanLitNumber "0o89".toList).toOption = none := by decide
example : (scanLitNumber "089".toList).toOption = none := by decide
example : scanLitNumber "089i".toList = .ok (.Imag, "089i".toList, 4) := by decide
example : (scanLitNumber "0x".toList).toOption = none := by decide
example : (scanLitNumber "1e+".toList).toOption = none := by decide
example : (scanLitNumber "0x1p".toList).toOption = none := by decide
example : (scanLitNumber "0x1p-f".toList).toOption = none := by decide
example : (scanLitNumber "0.p0".toList).toOption = none := by decide
example : (scanLitNumber "1__0".toList).toOption = none := by decide

end Gosyn.Props.C09
