import Gosyn.Props.C07
import Gosyn.Props.C09
import Gosyn.Props.C10
import Gosyn.Props.C13
/-!
C05 — positions.  All positions in a tree come from the scanner: `next_token` returns the char
offset at which it started scanning a token, and the parser stores those offsets.  Proved here for
every input (multi-byte characters anywhere, since the model — like the code — indexes a vector of
chars, not bytes):

* `scanToken_text`: whatever token `scan_token` returns, its text is the source text at the point
  where scanning started, and the scanner advances by exactly its length in chars;
* `nextToken_at_pos`: every `(offset, token)` pair `next_token` returns is either the automatic
  semicolon (flag set and the line ended) or a token whose text is found in the source at `offset`
  — with only white space between the previous position and `offset`, and the new position right
  after the token.
-/
namespace Gosyn.Props.C05
open Gosyn.Gen Gosyn.Model Gosyn.Spec
open Gosyn.Props.C07

theorem generalBody_prefix (cs body : List Char) (h : generalBody cs = some body) : body <+: cs := by
  fun_induction generalBody cs generalizing body
  · cases h
  · simp only [Option.some.injEq] at h; subst h; exact ⟨_, rfl⟩
  · rename_i c cs hne ih
    cases hb : generalBody cs with
    | none => simp [hb] at h
    | some b =>
      simp [hb] at h; subst h
      exact (List.cons_prefix_cons).2 ⟨rfl, ih b hb⟩

theorem takeWhile_prefix' (p : Char → Bool) (cs : List Char) : cs.takeWhile p <+: cs :=
  List.takeWhile_prefix p

/-- **token text = source text**: for every token kind -/
theorem scanToken_text {cs : List Char} {tok : Token} {n : Nat} (h : scanToken cs = .ok (tok, n)) :
    tok.text <+: cs ∧ n = tok.text.length := by
  cases h3 : opFromChars (cs.take 3) with
  | some op =>
    unfold scanToken at h; simp only [h3] at h
    simp only [Except.ok.injEq, Prod.mk.injEq] at h
    obtain ⟨rfl, rfl⟩ := h
    have hs := opFromChars_some h3
    exact ⟨by simp only [Token.text]; rw [hs]; exact List.take_prefix 3 cs, rfl⟩
  | none =>
    by_cases hc1 : cs.take 2 = ['/', '/']
    · unfold scanToken at h; simp [h3, hc1] at h
      obtain ⟨rfl, rfl⟩ := h
      exact ⟨by simp only [Token.text, scanLineComment]; exact List.takeWhile_prefix _, rfl⟩
    · by_cases hc2 : cs.take 2 = ['/', '*']
      · unfold scanToken at h; simp [h3, hc2] at h
        split at h
        · rename_i c hc
          simp only [Except.ok.injEq, Prod.mk.injEq] at h
          obtain ⟨rfl, rfl⟩ := h
          refine ⟨?_, rfl⟩
          simp only [Token.text]
          unfold scanGeneralComment at hc
          split at hc
          · rename_i body hb
            simp only [Except.ok.injEq] at hc; subst hc
            have hp := generalBody_prefix _ _ hb
            obtain ⟨t, ht⟩ := hp
            refine ⟨t, ?_⟩
            have : cs = cs.take 2 ++ cs.drop 2 := (List.take_append_drop 2 cs).symm
            rw [this, hc2, ← ht]; simp
          · cases hc
        · cases h
      · cases h2 : opFromChars (cs.take 2) with
        | some op =>
          unfold scanToken at h; simp only [h3, hc1, hc2, h2, if_false] at h
          simp only [Except.ok.injEq, Prod.mk.injEq] at h
          obtain ⟨rfl, rfl⟩ := h
          have hs := opFromChars_some h2
          exact ⟨by simp only [Token.text]; rw [hs]; exact List.take_prefix 2 cs, rfl⟩
        | none =>
          rw [scanToken_tail h3 hc1 hc2 h2] at h
          cases cs with
          | nil => simp at h
          | cons c tl =>
            simp only at h
            repeat' split at h
            all_goals (first | (cases h; done) | skip)
            all_goals (simp only [Except.ok.injEq, Prod.mk.injEq] at h)
            all_goals (obtain ⟨rfl, rfl⟩ := h)
            all_goals (simp only [Token.text])
            all_goals (first
              | exact Gosyn.Props.C09.number_text_is_source (by assumption)
              | exact ⟨Gosyn.Props.C10.rune_text_is_source _ _ (by assumption) (by simp_all), trivial⟩
              | exact ⟨Gosyn.Props.C10.string_text_is_source _ _ (by assumption), trivial⟩
              | (have hk := kwFromChars_some ‹kwFromChars _ = some _›
                 exact ⟨by rw [hk]; exact List.takeWhile_prefix _, by rw [hk]⟩)
              | exact ⟨List.takeWhile_prefix _, trivial⟩
              | (have ho := opFromChars_some ‹opFromChars _ = some _›
                 exact ⟨by rw [ho]; exact ⟨tl, rfl⟩, trivial⟩))

theorem rest_of (a b : Scanner) (n : Nat) (h1 : a.src = b.src) (h2 : a.pos = b.pos + n) : a.rest = b.rest.drop n := by
  unfold Scanner.rest
  rw [h1, h2]
  simp [Array.toList_extract, List.drop_take, List.drop_drop, Nat.add_comm]
  omega

theorem skipCount_white (cs : List Char) : ∀ c ∈ cs.take (skipCount cs), isWhite c = true := by
  induction cs with
  | nil => simp [skipCount]
  | cons c cs ih =>
    unfold skipCount
    by_cases h : isWhite c = true
    · simp only [h, if_true, List.take_succ_cons, List.mem_cons]
      rintro d (rfl | hd)
      · exact h
      · exact ih d hd
    · simp [h]

/-- **every position the scanner hands out names its token**: the pair `(p, tok)` returned by `next_token`
    is either the automatic semicolon (pending flag set, line ended; it sits at the current position,
    right after the line's final token) or a token whose text is the source text at char offset `p`,
    with nothing but white space skipped before it, and the scanner ends right after it -/
theorem nextToken_at_pos (s s' : Scanner) (p : Nat) (tok : Token)
    (h : s.nextToken = (.ok (some (p, tok)), s')) :
    (tok = .operator .SemiColon ∧ s.semi = true ∧ s.lineEnded = true ∧ p = s.pos ∧ s'.pos = s.pos) ∨
    (∃ k, p = s.pos + k ∧ (∀ c ∈ s.rest.take k, isWhite c = true) ∧
      tok.text <+: s.rest.drop k ∧ s'.pos = p + tok.text.length) := by
  unfold Scanner.nextToken at h
  split at h
  · rename_i hc
    simp only [Prod.mk.injEq, Except.ok.injEq, Option.some.injEq] at h
    obtain ⟨⟨rfl, rfl⟩, rfl⟩ := h
    simp only [Bool.and_eq_true] at hc
    exact .inl ⟨rfl, hc.1, hc.2, rfl, rfl⟩
  · simp only at h
    split at h
    · simp at h
    · split at h
      · simp at h
      · rename_i tok' n hs
        simp only [Prod.mk.injEq, Except.ok.injEq, Option.some.injEq] at h
        obtain ⟨⟨rfl, rfl⟩, rfl⟩ := h
        right
        have ht := scanToken_text hs
        have hr : (Scanner.skipWhitespace { s with semi := false }).rest = s.rest.drop (skipCount s.rest) :=
          rest_of _ s _ rfl rfl
        refine ⟨skipCount s.rest, ?_, skipCount_white _, ?_, ?_⟩
        · simp [Scanner.skipWhitespace, Scanner.rest]
        · rw [← hr]; exact ht.1
        · cases tok' <;> simp [Scanner.addTokenCrossLine, ht.2]

end Gosyn.Props.C05
