import Gosyn.Props.HoareTbl
/-! Whole-parser invariant, part 2: parameter declarations. -/
namespace Gosyn.Props.Hoare
open Gosyn.Gen Gosyn.Model Gosyn.Ast

variable {src : Array Char} {r : Tbl} [hr : TblOK src r]

set_option maxHeartbeats 4000000 in
/-- `id_list.pop().unwrap()` (parser.rs, parse_parameter_decl) is not reached: the identifier list
    starts with one name and only grows -/
theorem parseParameterDeclBody_go_spec : ∀ fuel idList ewc, (hne : idList ≠ [] := by hside) →
    T src Tr (parseParameterDeclBody.go r fuel idList ewc) (fun _ _ => True) := by
  intro fuel
  induction fuel with
  | zero => intro idList ewc _; unfold parseParameterDeclBody.go; exact T.throw _ (fun _ _ => trivial)
  | succ n ih =>
    intro idList ewc hne
    unfold parseParameterDeclBody.go
    hoare
    all_goals first | exact T.anyQ (ih _ _ (by simp_all)) | skip
    · exfalso
      obtain ⟨x, hx⟩ := getLast_some_of_ne_nil hne
      exact ‹∀ (id : Ident), _ = some id → False› x hx

theorem parseParameterDeclBody_spec : T src Tr (parseParameterDeclBody r) (fun _ _ => True) := by
  unfold parseParameterDeclBody
  hoare


end Gosyn.Props.Hoare
