import Gosyn.Props.C09c
import Gosyn.Props.C07
/-!
C09 at the token level: where the text starts with a numeric literal of the spec followed by a
delimiter, `scan_token` returns exactly that literal with the spec's kind (no operator or comment rule
fires first), and conversely every number token `scan_token` returns is a literal of the spec.
-/
namespace Gosyn.Props.C09
open Gosyn.Gen Gosyn.Model Gosyn.Spec Gosyn.Props.C07

def headNotDigit : List Char → Bool
  | c :: _ => !isDecimalDigit c
  | [] => true

def dotThenDot : List Char → Bool
  | '.' :: x :: _ => x == '.'
  | _ => true

/-- no operator starts with a decimal digit; the operators that start with `.` are `.` and `...` -/
theorem op_head_table : ∀ o : Operator, headNotDigit o.str = true ∧ dotThenDot o.str = true := by
  intro o; cases o <;> exact ⟨rfl, rfl⟩

theorem opFromChars_digit (c : Char) (tl : List Char) (hc : isDecimalDigit c = true) : opFromChars (c :: tl) = none := by
  cases h : opFromChars (c :: tl) with
  | none => rfl
  | some o =>
    have hs := opFromChars_some h
    have := (op_head_table o).1
    rw [hs] at this
    simp [headNotDigit, hc] at this

theorem opFromChars_dot_digit (d : Char) (tl : List Char) (hd : isDecimalDigit d = true) :
    opFromChars ('.' :: d :: tl) = none := by
  cases h : opFromChars ('.' :: d :: tl) with
  | none => rfl
  | some o =>
    have hs := opFromChars_some h
    have := (op_head_table o).2
    rw [hs] at this
    simp only [dotThenDot, beq_iff_eq] at this
    subst this
    exact absurd hd (by decide)

theorem take_cons_ne_nil (n : Nat) (c : Char) (tl : List Char) : ∃ tl', (c :: tl).take (n + 1) = c :: tl' := ⟨_, rfl⟩

/-- a text that `scan_token` dispatches to the number scanner reaches it: no operator, no comment -/
theorem scanToken_dispatch (cs : List Char) (hd : Dispatch cs) :
    scanToken cs = (match scanLitNumber cs with
      | .ok (k, text, n) => .ok (.literal k text, n)
      | .error e => .error e) := by
  obtain ⟨c, tl, rfl, hc⟩ := hd
  have h3 : opFromChars ((c :: tl).take 3) = none := by
    rcases hc with hc | ⟨rfl, d, tl', rfl, hd⟩
    · exact opFromChars_digit c _ hc
    · exact opFromChars_dot_digit d _ hd
  have h2 : opFromChars ((c :: tl).take 2) = none := by
    rcases hc with hc | ⟨rfl, d, tl', rfl, hd⟩
    · exact opFromChars_digit c _ hc
    · exact opFromChars_dot_digit d _ hd
  have hne : c ≠ '/' := by
    rcases hc with hc | ⟨rfl, _⟩
    · intro e; subst e; exact absurd hc (by decide)
    · decide
  have hc1 : (c :: tl).take 2 ≠ ['/', '/'] := by
    intro e; simp only [List.take_succ_cons, List.cons.injEq] at e; exact hne e.1
  have hc2 : (c :: tl).take 2 ≠ ['/', '*'] := by
    intro e; simp only [List.take_succ_cons, List.cons.injEq] at e; exact hne e.1
  rw [scanToken_tail h3 hc1 hc2 h2]
  rcases hc with hc | ⟨rfl, d, tl', rfl, hd⟩
  · simp only [hc, Bool.true_or, if_true]
    rfl
  · simp only [List.head?_cons, hd, Bool.and_true, decide_true, Bool.or_true, if_true]
    rfl

/-- every literal of the spec starts the way `scan_token` expects a number to start -/
theorem numLit_dispatch (k : LitKind) (t rest : List Char) (h : NumLit k t) : Dispatch (t ++ rest) := by
  have core : ∀ (t rest : List Char), (Digits isDec t ∨ IntLit t ∨ FloatLit t) → Dispatch (t ++ rest) := by
    intro t rest ht
    rcases ht with h | h | h
    · obtain ⟨c, tl, rfl, hc⟩ := digits_head h
      exact ⟨c, tl ++ rest, rfl, .inl hc⟩
    · rcases h with h | h | h | h
      · rcases h with rfl | ⟨c, u, ds, rfl, h1, h9, _⟩
        · exact ⟨'0', rest, rfl, .inl (by decide)⟩
        · refine ⟨c, _, rfl, .inl ?_⟩
          show isDec c = true
          unfold isDec
          simp only [Bool.and_eq_true, decide_eq_true_eq, Gosyn.Props.C10.char_le_iff] at h1 h9 ⊢
          have e1 : ('1' : Char).toNat = 49 := rfl
          have e0 : ('0' : Char).toNat = 48 := rfl
          rw [e1] at h1; rw [e0]
          exact ⟨by omega, h9⟩
      · obtain ⟨b, u, ds, rfl, _⟩ := h; exact ⟨'0', _, rfl, .inl (by decide)⟩
      · obtain ⟨o, u, ds, rfl, _⟩ := h; exact ⟨'0', _, rfl, .inl (by decide)⟩
      · obtain ⟨x, u, ds, rfl, _⟩ := h; exact ⟨'0', _, rfl, .inl (by decide)⟩
    · rcases h with h | h
      · rcases h with ⟨a, b, x, rfl, ha, _⟩ | ⟨a, x, rfl, ha, _⟩ | ⟨b, x, rfl, hb, _⟩
        · obtain ⟨c, tl, rfl, hc⟩ := digits_head ha
          exact ⟨c, _, rfl, .inl hc⟩
        · obtain ⟨c, tl, rfl, hc⟩ := digits_head ha
          exact ⟨c, _, rfl, .inl hc⟩
        · obtain ⟨c, tl, rfl, hc⟩ := digits_head hb
          exact ⟨'.', _, rfl, .inr ⟨rfl, c, _, rfl, hc⟩⟩
      · obtain ⟨x, m, e, rfl, _⟩ := h; exact ⟨'0', _, rfl, .inl (by decide)⟩
  rcases h with ⟨_, h⟩ | ⟨_, h⟩ | ⟨_, t', rfl, h⟩
  · exact core t rest (.inr (.inl h))
  · exact core t rest (.inr (.inr h))
  · have := core t' (['i'] ++ rest) h
    rw [List.append_assoc]
    exact this

/-- **C09 at the token level, completeness**: a literal of the spec followed by a delimiter is scanned
    as one literal token of the spec's kind with exactly that text -/
theorem scanToken_number (k : LitKind) (t rest : List Char) (hl : NumLit k t) (hd : Delim rest) :
    scanToken (t ++ rest) = .ok (.literal k t, t.length) := by
  rw [scanToken_dispatch _ (numLit_dispatch k t rest hl), number_complete k t rest hl hd]

/-- **C09 at the token level, soundness**: whenever `scan_token` takes the number branch and answers,
    the token is a literal of the spec of the reported kind -/
theorem scanToken_number_sound (cs : List Char) (hd : Dispatch cs) (tok : Token) (n : Nat)
    (h : scanToken cs = .ok (tok, n)) : ∃ k t, tok = .literal k t ∧ NumLit k t ∧ t <+: cs ∧ n = t.length := by
  rw [scanToken_dispatch cs hd] at h
  cases hs : scanLitNumber cs with
  | error e => rw [hs] at h; cases h
  | ok r =>
    obtain ⟨k, t, m⟩ := r
    rw [hs] at h
    simp only [Except.ok.injEq, Prod.mk.injEq] at h
    obtain ⟨rfl, rfl⟩ := h
    have hs' := number_text_is_source hs
    exact ⟨k, t, rfl, number_sound cs k t m hd hs, hs'.1, hs'.2⟩

end Gosyn.Props.C09
