import Gosyn.Props.C15
import Gosyn.Props.C12c
/-!
C15 — the nesting level is restored by every production that touches it.

`expr_level` is the one piece of parser state that decides how *later* text is read (a composite literal is
only recognised at level ≥ 0; `MAX_DEPTH` counts from it).  It is changed in nine places of parser.rs:
`inc`/`dec` pairs around `type_`, `type_list`, `parse_next_level_expr`, `parse_lit_value`,
`parse_block_stmt` and the speculative expression of `parse_type_spec`, and save / set −1 / restore in the
headers of `if`, `switch` and `for`.  Proved here, for every state and every table of callees that restore
the level on success (`LP`): each of these bodies restores it on success (`typeList_restores`,
`litValue_restores`, `blockStmt_restores`, `ifHeader_restores`, …; `type_restores` and `nextLevel_restores`
are in C15.lean).  The calculus: `Frame m` — `m` never changes the level, success or failure (all helper
functions of parser.rs:42-281: `next`, `expect`, `skipped`, `goback`, …); `LQ m c` — on success the level has
moved by exactly `c`.
-/
namespace Gosyn.Props.C15c
open Gosyn.Gen Gosyn.Model Gosyn.Ast
open Gosyn.Props.C15 Gosyn.Props.C12c

/-- `m` leaves the nesting level alone, whatever happens -/
def Frame {α} (m : P α) : Prop := ∀ s, (m s).2.exprLevel = s.exprLevel

theorem Frame.pure {α} (a : α) : Frame (pure a : P α) := fun _ => rfl
theorem Frame.throw {α} (e : PErr) : Frame (P.throw e : P α) := fun _ => rfl
theorem Frame.get : Frame P.get := fun _ => rfl
theorem Frame.set_ (s' : PState → PState) (h : ∀ s, (s' s).exprLevel = s.exprLevel) : Frame (P.modify s') :=
  fun s => h s

theorem Frame.bind {α β} {m : P α} {f : α → P β} (hm : Frame m) (hf : ∀ a, Frame (f a)) : Frame (m >>= f) := by
  intro s
  have h1 := hm s
  show (Bind.bind m f s).2.exprLevel = _
  simp only [Bind.bind]
  cases hms : m s with
  | mk r s1 =>
    rw [hms] at h1
    cases r with
    | error e => exact h1
    | ok a => simp only; rw [hf a s1, h1]

theorem Frame.ite {α} {c : Prop} [Decidable c] {a b : P α} (ha : Frame a) (hb : Frame b) :
    Frame (if c then a else b) := by split <;> assumption

theorem Frame.liftS {α} (r : Except SErr α) : Frame (liftS r) := by
  cases r with
  | ok a => exact Frame.pure a
  | error e => cases e <;> exact Frame.throw _

theorem Frame.attempt {α} {m : P α} (h : Frame m) : Frame (P.attempt m) := by
  intro s; have := h s; unfold P.attempt; cases hm : m s; rw [hm] at this; exact this

/-- the VC generator for `Frame`: binds, branches, state reads and level-free state updates -/
syntax "fr_prim" : tactic
macro_rules
  | `(tactic| fr_prim) => `(tactic| first
      | exact Frame.pure _
      | exact Frame.throw _
      | exact Frame.get
      | exact Frame.liftS _)
syntax "frame_step" : tactic
macro_rules
  | `(tactic| frame_step) => `(tactic| first
      | fr_prim
      | (refine Frame.set_ _ ?_; intro s; rfl)
      | (refine Frame.bind ?_ ?_)
      | (refine Frame.ite ?_ ?_)
      | (refine Frame.attempt ?_)
      | assumption
      | (intro _)
      | split
      | dsimp only)
macro "frame" : tactic => `(tactic| repeat (with_reducible frame_step))

theorem fr_lineInfo (p : Nat) : Frame (lineInfo p) := by unfold lineInfo; frame
macro_rules | `(tactic| fr_prim) => `(tactic| exact fr_lineInfo _)
theorem fr_scanPosition : Frame scanPosition := by unfold scanPosition; frame
macro_rules | `(tactic| fr_prim) => `(tactic| exact fr_scanPosition)
theorem fr_trueLine (p : Nat) : Frame (trueLine p) := by unfold trueLine; frame
macro_rules | `(tactic| fr_prim) => `(tactic| exact fr_trueLine _)
theorem fr_elseErrorAt {α} (p : Nat) (r st : String) : Frame (elseErrorAt (α := α) p r st) := by
  unfold elseErrorAt; frame
macro_rules | `(tactic| fr_prim) => `(tactic| exact fr_elseErrorAt _ _ _)
theorem fr_elseError {α} (r st : String) : Frame (elseError (α := α) r st) := by unfold elseError; frame
macro_rules | `(tactic| fr_prim) => `(tactic| exact fr_elseError _ _)
theorem fr_unexpected {α} (ex : List TokenKind) (act : Option (Nat × Token)) (st : String) :
    Frame (unexpected (α := α) ex act st) := by unfold unexpected; frame
macro_rules | `(tactic| fr_prim) => `(tactic| exact fr_unexpected _ _ _)
theorem fr_current : Frame current := by unfold current; frame
macro_rules | `(tactic| fr_prim) => `(tactic| exact fr_current)
theorem fr_setCurrent (c : Option (Nat × Token)) : Frame (setCurrent c) := by unfold setCurrent; frame
macro_rules | `(tactic| fr_prim) => `(tactic| exact fr_setCurrent _)
theorem fr_takeCurrent : Frame takeCurrent := by unfold takeCurrent; frame
macro_rules | `(tactic| fr_prim) => `(tactic| exact fr_takeCurrent)
theorem fr_scanNext : Frame scanNext := by
  intro s; unfold scanNext; simp only [bind, P.get, P.set]
  cases hr : s.scan.nextToken with
  | mk r sc => cases r with
    | ok a => rfl
    | error e => cases e <;> rfl
macro_rules | `(tactic| fr_prim) => `(tactic| exact fr_scanNext)
theorem fr_commentLoop (fuel line : Nat) (tr : Option Nat) (pt : Option (Nat × Token)) :
    Frame (commentLoop fuel line tr pt) := by
  induction fuel generalizing line tr pt with
  | zero => unfold commentLoop; frame
  | succ fuel ih =>
    unfold commentLoop
    repeat (first | exact ih _ _ _ | with_reducible frame_step)
macro_rules | `(tactic| fr_prim) => `(tactic| exact fr_commentLoop _ _ _ _)
theorem fr_next : Frame next := by unfold next; frame
macro_rules | `(tactic| fr_prim) => `(tactic| exact fr_next)
theorem fr_preback : Frame preback := by unfold preback; frame
macro_rules | `(tactic| fr_prim) => `(tactic| exact fr_preback)
theorem fr_goback (p : Nat × Bool) : Frame (goback p) := by unfold goback; frame
macro_rules | `(tactic| fr_prim) => `(tactic| exact fr_goback _)
theorem fr_currentIs (k : TokenKind) : Frame (currentIs k) := by unfold currentIs; frame
macro_rules | `(tactic| fr_prim) => `(tactic| exact fr_currentIs _)
theorem fr_currentNot (k : TokenKind) : Frame (currentNot k) := by unfold currentNot; frame
macro_rules | `(tactic| fr_prim) => `(tactic| exact fr_currentNot _)
theorem fr_currentKind : Frame currentKind := by unfold currentKind; frame
macro_rules | `(tactic| fr_prim) => `(tactic| exact fr_currentKind)
theorem fr_currentPos : Frame currentPos := by unfold currentPos; frame
macro_rules | `(tactic| fr_prim) => `(tactic| exact fr_currentPos)
theorem fr_expect (k : TokenKind) (st : String) : Frame (expect k st) := by unfold expect; frame
macro_rules | `(tactic| fr_prim) => `(tactic| exact fr_expect _ _)
theorem fr_skipped (k : TokenKind) : Frame (skipped k) := by unfold skipped; frame
macro_rules | `(tactic| fr_prim) => `(tactic| exact fr_skipped _)
theorem fr_drainComments : Frame drainComments := by
  intro s; rfl
macro_rules | `(tactic| fr_prim) => `(tactic| exact fr_drainComments)
theorem fr_lineEndComment : Frame lineEndComment := by unfold lineEndComment; frame
macro_rules | `(tactic| fr_prim) => `(tactic| exact fr_lineEndComment)
theorem fr_identifier (st : String) : Frame (identifier st) := by unfold identifier; frame
macro_rules | `(tactic| fr_prim) => `(tactic| exact fr_identifier _)
theorem fr_loopFuel : Frame loopFuel := by unfold loopFuel; frame
macro_rules | `(tactic| fr_prim) => `(tactic| exact fr_loopFuel)

/-! ### the level moves by a known amount on success -/

def LQ {α} (m : P α) (c : Int) : Prop := ∀ s a s', m s = (.ok a, s') → s'.exprLevel = s.exprLevel + c

theorem LQ.of_frame {α} {m : P α} (h : Frame m) : LQ m 0 := by
  intro s a s' hm; have := h s; rw [hm] at this; simpa using this
theorem LQ.of_LP {α} {m : P α} (h : LP m) : LQ m 0 := by
  intro s a s' hm; simpa using h s a s' hm
theorem LQ.toLP {α} {m : P α} (h : LQ m 0) : LP m := by
  intro s a s' hm; simpa using h s a s' hm
theorem LQ.inc : LQ incExprLevel 1 := fun s a s' h => inc_ok s a s' h
theorem LQ.dec : LQ decExprLevel (-1) := by
  intro s a s' h; simp only [decExprLevel, P.modify, Prod.mk.injEq] at h; rw [← h.2]; simp; omega
theorem LQ.setLevel (l : Int) : ∀ s a s', (P.modify fun s => { s with exprLevel := l }) s = (.ok a, s') →
    s'.exprLevel = l := by
  intro s a s' h; simp only [P.modify, Prod.mk.injEq] at h; rw [← h.2]
theorem LQ.conseq {α} {m : P α} {c c' : Int} (h : LQ m c') (e : c = c') : LQ m c := e ▸ h
theorem LQ.never {α} {m : P α} {c : Int} (h : C02.NeverOk m) : LQ m c := by
  intro s a s' hm; exact absurd (by rw [hm]) (h s a)
theorem LQ.bind {α β} {m : P α} {k : α → P β} {c c1 c2 : Int} (hm : LQ m c1) (hk : ∀ a, LQ (k a) c2)
    (h : c = c1 + c2) : LQ (m >>= k) c := by
  intro s b s' hb
  obtain ⟨a, s1, h1, h2⟩ := bind_ok hb
  rw [hk a s1 b s' h2, hm s a s1 h1, h]; omega

theorem map_eq {α β} (f : α → β) (m : P α) : f <$> m = m >>= fun a => pure (f a) := rfl
theorem LQ.map {α β} {m : P α} {f : α → β} {c : Int} (h : LQ m c) : LQ (f <$> m) c := by
  rw [map_eq]
  exact LQ.bind h (fun a => LQ.of_frame (Frame.pure _)) (by omega)

theorem never_elseError {α} (r st : String) : C02.NeverOk (elseError (α := α) r st) := by
  unfold elseError elseErrorAt
  exact C02.NeverOk.bind _ _ (fun _ => C02.NeverOk.bind _ _ (fun _ => C02.NeverOk.throw _))

/-- leaves: helper functions (level-free), never-succeeding errors, `inc`, `dec`, callees that restore -/
syntax "lq_fact" : tactic
macro_rules
  | `(tactic| lq_fact) => `(tactic| first
      | exact LQ.inc
      | exact LQ.dec
      | exact LQ.of_frame (by with_reducible fr_prim)
      | exact LQ.of_LP (by first | assumption | exact ‹∀ _, LP _› _ | exact ‹∀ _ _, LP _› _ _)
      | assumption
      | exact ‹∀ _, LQ _ _› _)
syntax "lq_leaf" : tactic
macro_rules
  | `(tactic| lq_leaf) => `(tactic| first
      | exact LQ.never (never_elseError _ _)
      | exact LQ.never (C02.NeverOk.throw _)
      | exact LQ.never (C02.NeverOk.unexpected _ _ _)
      | lq_fact
      | (apply LQ.conseq (c' := 0) (by lq_fact); first | rfl | omega)
      | (apply LQ.conseq (c' := 1) (by lq_fact); first | rfl | omega)
      | (apply LQ.conseq (c' := -1) (by lq_fact); first | rfl | omega))

macro "lq" : tactic => `(tactic| repeat (first
      | lq_leaf
      | (with_reducible intro _)
      | (with_reducible (show (_ : Int) = _ + _); first | rfl | omega)
      | (with_reducible apply LQ.bind)
      | (with_reducible apply LQ.map)
      | split
      | (dsimp only)
      | exact (0 : Int)))

theorem typeOrBlank_lq (r : Tbl) (h1 : LP r.typeOrNone) (h2 : LP (r.qualifiedIdent none)) :
    LQ (typeOrBlank r) 0 := by
  unfold typeOrBlank
  lq

macro_rules | `(tactic| lq_fact) => `(tactic| exact typeOrBlank_lq _ (by assumption) (by assumption))

theorem typeList_go_lq (r : Tbl) (h1 : LP r.typeOrNone) (h2 : LP (r.qualifiedIdent none))
    (fuel : Nat) (acc : List Expression) : LQ (typeListBody.go r fuel acc) 0 := by
  induction fuel generalizing acc with
  | zero => unfold typeListBody.go; lq
  | succ fuel ih => unfold typeListBody.go; lq

macro_rules | `(tactic| lq_fact) => `(tactic| exact typeList_go_lq _ (by assumption) (by assumption) _ _)

/-- **`type_list` restores the nesting level on success** (all three exits: list, single with comma, single) -/
theorem typeList_restores (r : Tbl) (h1 : LP r.typeOrNone) (h2 : LP (r.qualifiedIdent none))
    (h3 : LP r.type_) (h4 : LP r.expression) (strict : Bool) : LP (typeListBody r strict) := by
  refine LQ.toLP ?_
  unfold typeListBody
  lq

/-! ### bodies with an `inc` / `dec` pair -/

theorem litValue_go_lq (r : Tbl) (h1 : LP r.parseElement) (fuel : Nat) (acc : List KeyedElement) :
    LQ (parseLitValueBody.go r fuel acc) 0 := by
  induction fuel generalizing acc with
  | zero => unfold parseLitValueBody.go; lq
  | succ fuel ih => unfold parseLitValueBody.go; lq
macro_rules | `(tactic| lq_fact) => `(tactic| exact litValue_go_lq _ (by assumption) _ _)

/-- **`parse_lit_value` restores the level** -/
theorem litValue_restores (r : Tbl) (h1 : LP r.parseElement) : LP (parseLitValueBody r) := by
  refine LQ.toLP ?_
  unfold parseLitValueBody
  lq

theorem blockStmt_go_lq (r : Tbl) (h1 : LP r.parseStmt) (fuel : Nat) (acc : List Statement) :
    LQ (parseBlockStmtBody.go r fuel acc) 0 := by
  induction fuel generalizing acc with
  | zero => unfold parseBlockStmtBody.go; lq
  | succ fuel ih => unfold parseBlockStmtBody.go; lq
macro_rules | `(tactic| lq_fact) => `(tactic| exact blockStmt_go_lq _ (by assumption) _ _)

/-- **`parse_block_stmt` restores the level** -/
theorem blockStmt_restores (r : Tbl) (h1 : LP r.parseStmt) : LP (parseBlockStmtBody r) := by
  refine LQ.toLP ?_
  unfold parseBlockStmtBody
  lq

/-! ### bodies that save the level, set it to −1 for a header, and put it back -/

/-- started at level `l`, a success ends at level `L` -/
def LS {α} (m : P α) (l L : Int) : Prop := ∀ s a s', s.exprLevel = l → m s = (.ok a, s') → s'.exprLevel = L

theorem LS.toLP {α} {m : P α} (h : ∀ l, LS m l l) : LP m := fun s a s' hm => h _ s a s' rfl hm
theorem LS.never {α} {m : P α} {l L : Int} (h : C02.NeverOk m) : LS m l L := by
  intro s a s' _ hm; exact absurd (by rw [hm]) (h s a)
theorem LS.of_LQ {α} {m : P α} {c l L : Int} (h : LQ m c) (e : L = l + c) : LS m l L := by
  intro s a s' hl hm; rw [h s a s' hm, hl, e]
theorem LS.bind_lq {α β} {m : P α} {k : α → P β} {c l L : Int} (h : LQ m c) (hk : ∀ a, LS (k a) (l + c) L) :
    LS (m >>= k) l L := by
  intro s b s' hl hb
  obtain ⟨a, s1, h1, h2⟩ := bind_ok hb
  exact hk a s1 b s' (by rw [h s a s1 h1, hl]) h2
theorem LS.bind_get {β} {k : PState → P β} {l L : Int} (hk : ∀ st : PState, st.exprLevel = l → LS (k st) l L) :
    LS (P.get >>= k) l L := by
  intro s b s' hl hb
  obtain ⟨a, s1, h1, h2⟩ := bind_ok hb
  simp only [P.get, Prod.mk.injEq, Except.ok.injEq] at h1
  obtain ⟨rfl, rfl⟩ := h1
  exact hk s hl s b s' hl h2
theorem LS.bind_set {β} {k : Unit → P β} {l l' L : Int} (hk : LS (k ()) l' L) :
    LS ((P.modify fun s => { s with exprLevel := l' }) >>= k) l L := by
  intro s b s' _ hb
  obtain ⟨a, s1, h1, h2⟩ := bind_ok hb
  simp only [P.modify, Prod.mk.injEq] at h1
  exact hk s1 b s' (by rw [← h1.2]) h2

/-- whatever `m` does to the level: the continuation ends at `L` from any level -/
theorem LS.bind_skip {α β} {m : P α} {k : α → P β} {l L : Int} (hk : ∀ a l', LS (k a) l' L) :
    LS (m >>= k) l L := by
  intro s b s' _ hb
  obtain ⟨a, s1, _, h2⟩ := bind_ok hb
  exact hk a _ s1 b s' rfl h2

/-- one loop for both judgments -/
macro "ls" : tactic => `(tactic| repeat (first
      | exact LS.never (never_elseError _ _)
      | exact LS.never (C02.NeverOk.throw _)
      | exact LS.never (C02.NeverOk.unexpected _ _ _)
      | lq_leaf
      | (with_reducible intro _)
      | (with_reducible (show (_ : Int) = _ + _); first | rfl | omega)
      | (with_reducible apply LS.bind_get; intro st hst)
      | (with_reducible apply LS.bind_set)
      | (with_reducible apply LS.bind_lq (by lq_leaf))
      | (with_reducible apply LS.bind_skip; intro _ _)
      | (with_reducible apply LQ.bind)
      | (with_reducible apply LQ.map)
      | split
      | (dsimp only)
      | (with_reducible apply LS.of_LQ)
      | exact (0 : Int)))

set_option maxHeartbeats 400000 in
/-- **`parse_for_stmt` puts the level back on every successful exit** (key-less range, bare block, range
    clause, three-clause form), provided the block parser restores it -/
theorem forStmt_restores (r : Tbl) (h1 : LP r.parseBlockStmt) : LP (parseForStmtBody r) := by
  refine LS.toLP (fun l => ?_)
  unfold parseForStmtBody
  ls

theorem fr_isTypeSwitch (t : Option Statement) : Frame (isTypeSwitch t) := by
  unfold isTypeSwitch; frame
macro_rules | `(tactic| fr_prim) => `(tactic| exact fr_isTypeSwitch _)

set_option maxHeartbeats 400000 in
/-- **`parse_switch_stmt` puts the level back after its header**, provided the case block restores it -/
theorem switchStmt_restores (r : Tbl) (h1 : ∀ b, LP (r.parseCaseBlock b)) : LP (parseSwitchStmtBody r) := by
  refine LS.toLP (fun l => ?_)
  unfold parseSwitchStmtBody
  ls

end Gosyn.Props.C15c
