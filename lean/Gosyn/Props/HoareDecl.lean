import Gosyn.Props.HoareTbl
/-! Whole-parser invariant, part 1: file level, declarations, types. -/
namespace Gosyn.Props.Hoare
open Gosyn.Gen Gosyn.Model Gosyn.Ast

variable {src : Array Char} {r : Tbl} [hr : TblOK src r]

/-! ### file level -/

theorem parsePackage_spec : T src Tr parsePackage (fun id _ => RealIdent src id) := by
  unfold parsePackage
  refine T.bind (expect_spec _ _) (fun _ => ?_)
  refine T.bindP (T.anyQ (identifier_spec _)) ⟨fun id hid => ?_⟩
  split
  · exact T.pure _ (fun _ _ => hid)
  · hoare

theorem parseImportSpec_spec : T src Tr parseImportSpec (fun _ _ => True) := by
  unfold parseImportSpec
  hoare

theorem importLoop_spec : ∀ fuel acc, T src Tr (importLoop fuel acc) (fun _ _ => True) := by
  intro fuel
  induction fuel with
  | zero => intro acc; unfold importLoop; exact T.throw _ (fun _ _ => trivial)
  | succ n ih => intro acc; unfold importLoop; hloop ih

theorem parseImportDecl_spec : T src Tr parseImportDecl (fun _ _ => True) := by
  unfold parseImportDecl
  hoare

/-! ### declarations -/

set_option maxHeartbeats 1000000 in
theorem parseFuncDeclBody_spec : T src Tr (parseFuncDeclBody r) (fun _ _ => True) := by
  unfold parseFuncDeclBody
  hoare

theorem parseDeclGeneric_go_spec {S : Type} (parseSpec : Nat → P S) (hs : ∀ i, T src Tr (parseSpec i) (fun _ _ => True)) :
    ∀ fuel index acc, T src Tr (parseDeclGeneric.go parseSpec fuel index acc) (fun _ _ => True) := by
  intro fuel
  induction fuel with
  | zero => intro index acc; unfold parseDeclGeneric.go; exact T.throw _ (fun _ _ => trivial)
  | succ n ih =>
    intro index acc
    unfold parseDeclGeneric.go
    hoare
    all_goals first | exact T.anyQ (hs _) | exact T.anyQ (ih _ _) | skip
    hoare
    all_goals first | exact T.anyQ (hs _) | exact T.anyQ (ih _ _) | skip

theorem parseDeclGeneric_spec {S : Type} (parseSpec : Nat → P S) (withDocs : S → List Comment → S)
    (hs : ∀ i, T src Tr (parseSpec i) (fun _ _ => True)) :
    T src Tr (parseDeclGeneric parseSpec withDocs) (fun _ _ => True) := by
  unfold parseDeclGeneric
  hoare
  all_goals first | exact T.anyQ (hs _) | exact T.anyQ (parseDeclGeneric_go_spec parseSpec hs _ _ _) | skip
  hoare
  all_goals first | exact T.anyQ (hs _) | exact T.anyQ (parseDeclGeneric_go_spec parseSpec hs _ _ _) | skip
  hoare

theorem parseDeclVarBody_spec : T src Tr (parseDeclVarBody r) (fun _ _ => True) := by
  unfold parseDeclVarBody
  exact T.bind (parseDeclGeneric_spec _ _ (fun _ => TblOK.parseVarSpec)) (fun _ => T.pure _ (fun _ _ => trivial))

theorem parseDeclTypeBody_spec : T src Tr (parseDeclTypeBody r) (fun _ _ => True) := by
  unfold parseDeclTypeBody
  exact T.bind (parseDeclGeneric_spec _ _ (fun _ => TblOK.parseTypeSpec)) (fun _ => T.pure _ (fun _ _ => trivial))

theorem parseDeclConstBody_spec : T src Tr (parseDeclConstBody r) (fun _ _ => True) := by
  unfold parseDeclConstBody
  exact T.bind (parseDeclGeneric_spec _ _ (fun i => TblOK.parseConstSpec i)) (fun _ => T.pure _ (fun _ _ => trivial))

theorem parseVarSpecBody_spec : T src Tr (parseVarSpecBody r) (fun _ _ => True) := by
  unfold parseVarSpecBody
  hoare

set_option maxHeartbeats 1000000 in
theorem parseConstSpecBody_spec (i : Nat) : T src Tr (parseConstSpecBody r i) (fun _ _ => True) := by
  unfold parseConstSpecBody
  hoare

/-! ### types -/

theorem parseTypeListBody_spec : T src Tr (parseTypeListBody r) (fun l _ => ∀ e ∈ l, ExprOK e) := by
  unfold parseTypeListBody
  refine T.bindP TblOK.type_ ⟨fun first hf => ?_⟩
  refine T.bind loopFuel_spec (fun fuel => ?_)
  exact T.anyQ (commaList_spec _ ExprOK TblOK.type_ _ _ (by simpa using hf))

theorem typeOrBlank_spec : T src Tr (typeOrBlank r) (fun o _ => ∀ e, o = some e → ExprOK e) := by
  unfold typeOrBlank
  hoare

theorem typeBody_spec : T src Tr (typeBody r) (fun e _ => ExprOK e) := by
  unfold typeBody
  hoare

theorem typeListBody_go_spec : ∀ fuel acc, T src Tr (typeListBody.go r fuel acc) (fun _ _ => True) := by
  intro fuel
  induction fuel with
  | zero => intro acc; unfold typeListBody.go; exact T.throw _ (fun _ _ => trivial)
  | succ n ih => intro acc; unfold typeListBody.go; hloop ih

theorem typeListBody_spec (strict : Bool) : T src Tr (typeListBody r strict) (fun _ _ => True) := by
  unfold typeListBody
  hoare
  all_goals first | exact T.anyQ (typeListBody_go_spec _ _) | exact T.anyQ typeOrBlank_spec | skip
  hoare
  all_goals first | exact T.anyQ (typeListBody_go_spec _ _) | exact T.anyQ typeOrBlank_spec | skip
  hoare

set_option maxHeartbeats 4000000 in
theorem typeOrNoneBody_spec : T src Tr (typeOrNoneBody r) (fun o _ => ∀ e, o = some e → ExprOK e) := by
  unfold typeOrNoneBody
  hoare

theorem parseTypeParametersBody_go_spec : ∀ fuel acc extra,
    T src Tr (parseTypeParametersBody.go r fuel acc extra) (fun _ _ => True) := by
  intro fuel
  induction fuel with
  | zero => intro acc extra; unfold parseTypeParametersBody.go; exact T.throw _ (fun _ _ => trivial)
  | succ n ih => intro acc extra; unfold parseTypeParametersBody.go; hloop ih

theorem parseTypeParametersBody_spec : T src Tr (parseTypeParametersBody r) (fun _ _ => True) := by
  unfold parseTypeParametersBody
  hoare
  all_goals first | exact T.anyQ (parseTypeParametersBody_go_spec _ _ _) | skip
  hoare

theorem funcTypeBody_spec : T src Tr (funcTypeBody r) (fun _ _ => True) := by
  unfold funcTypeBody
  hoare

theorem structTypeBody_go_spec : ∀ fuel acc, T src Tr (structTypeBody.go r fuel acc) (fun _ _ => True) := by
  intro fuel
  induction fuel with
  | zero => intro acc; unfold structTypeBody.go; exact T.throw _ (fun _ _ => trivial)
  | succ n ih => intro acc; unfold structTypeBody.go; hloop ih

theorem structTypeBody_spec : T src Tr (structTypeBody r) (fun _ _ => True) := by
  unfold structTypeBody
  hoare
  all_goals first | exact T.anyQ (structTypeBody_go_spec _ _) | skip
  hoare

theorem parseMethodElemBody_spec : T src Tr (parseMethodElemBody r) (fun _ _ => True) := by
  unfold parseMethodElemBody
  hoare

theorem parseTypeElemBody_go_spec : ∀ fuel typ, ExprOK typ →
    T src Tr (parseTypeElemBody.go r fuel typ) (fun e _ => ExprOK e) := by
  intro fuel
  induction fuel with
  | zero => intro typ _; unfold parseTypeElemBody.go; exact T.throw _ (fun _ _ => trivial)
  | succ n ih =>
    intro typ ht
    unfold parseTypeElemBody.go
    hoare
    all_goals first | exact T.anyQ (ih _ (by simp_all)) | skip

theorem parseTypeElemBody_spec : T src Tr (parseTypeElemBody r) (fun e _ => ExprOK e) := by
  unfold parseTypeElemBody
  hoare
  all_goals first | exact T.anyQ (parseTypeElemBody_go_spec _ _ (by assumption)) | skip

theorem parseTypeTermBody_spec : T src Tr (parseTypeTermBody r) (fun e _ => ExprOK e) := by
  unfold parseTypeTermBody
  hoare

theorem arrayLenBody_spec : T src Tr (arrayLenBody r) (fun e _ => ExprOK e) := by
  unfold arrayLenBody
  hoare

set_option maxHeartbeats 4000000 in
/-- `name.pop().unwrap()` (parser.rs, field_decl) is not reached: `identifier_list` never answers
    with an empty list -/
theorem fieldDeclBody_spec : T src Tr (fieldDeclBody r) (fun _ _ => True) := by
  unfold fieldDeclBody
  hoare
  · exfalso
    obtain ⟨x, hx⟩ := getLast_some_of_ne_nil ‹_ ≠ ([] : List Ident)›
    exact ‹∀ (nm : Ident), _ = some nm → False› x hx

theorem parseInterfaceTypeBody_go_spec : ∀ fuel acc,
    T src Tr (parseInterfaceTypeBody.go r fuel acc) (fun _ _ => True) := by
  intro fuel
  induction fuel with
  | zero => intro acc; unfold parseInterfaceTypeBody.go; exact T.throw _ (fun _ _ => trivial)
  | succ n ih => intro acc; unfold parseInterfaceTypeBody.go; hloop ih

theorem parseInterfaceTypeBody_spec : T src Tr (parseInterfaceTypeBody r) (fun _ _ => True) := by
  unfold parseInterfaceTypeBody
  hoare
  all_goals first | exact T.anyQ (parseInterfaceTypeBody_go_spec _ _) | skip
  hoare

theorem extract_lost_absurd {e : Expression} {f : Bool}
    (h : ∀ (pn : Option Ident) (pt : Option Expression), extract e f = some (pn, pt) → False) : False := by
  have := Gosyn.Props.C03.extract_never_lost e f
  cases hx : extract e f with
  | none => rw [hx] at this; cases this
  | some p => exact h p.1 p.2 (by rw [hx])

set_option maxHeartbeats 2000000 in
/-- `panic!("extract lost")` (parser.rs, parse_type_spec) is not reached (`C03.extract_never_lost`), and
    both backtracking marks are good -/
theorem parseTypeSpecBody_spec : T src Tr (parseTypeSpecBody r) (fun _ _ => True) := by
  unfold parseTypeSpecBody
  hoare
  all_goals exact (extract_lost_absurd ‹_›).elim


end Gosyn.Props.Hoare
