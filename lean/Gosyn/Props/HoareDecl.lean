import Gosyn.Props.HoareTbl
/-! Whole-parser invariant, part 1: file level, declarations, types. -/
namespace Gosyn.Props.Hoare
open Gosyn.Gen Gosyn.Model Gosyn.Ast

variable {src : Array Char} {r : Tbl} [hr : TblOK src r]

/-! ### file level -/

theorem parsePackage_spec : T src Tr parsePackage (fun id _ => RealIdent src id) := by
  unfold parsePackage
  refine T.bind (expect_spec _ _) (fun _ => ?_)
  refine T.bindP (T.anyQ (identifier_spec _)) ⟨fun id hid => ?_⟩
  split
  · exact T.pure _ (fun _ _ => hid)
  · hoare

/-- an import spec all of whose leaves are tokens of the source: the path a string literal, the name (if any)
    an identifier or the `.` -/
def RealImport (src : Array Char) (i : Import) : Prop :=
  RealStr src i.path ∧ ∀ nm, i.name = some nm →
    (RealIdent src nm ∨ (nm.name = "." ∧ RealTok src nm.pos (.operator .Dot)))

theorem parseImportSpec_spec : T src Tr parseImportSpec (fun i _ => RealImport src i) := by
  unfold parseImportSpec
  dsimp only
  refine T.bindP takeCurrent_spec ⟨fun cur hcur => ?_⟩
  split
  · rename_i pos tok
    refine T.bind (T.anyQ next_spec) (fun _ => ?_)
    split
    · rename_i name
      refine T.bindP (T.anyQ stringLiteral_spec) ⟨fun path hpath => ?_⟩
      exact T.pure _ (fun _ _ => ⟨hpath, fun nm h => by cases h; exact Or.inl ⟨name, rfl, hcur _ _ rfl⟩⟩)
    · refine T.bindP (T.anyQ stringLiteral_spec) ⟨fun path hpath => ?_⟩
      exact T.pure _ (fun _ _ => ⟨hpath, fun nm h => by cases h; exact Or.inr ⟨rfl, hcur _ _ rfl⟩⟩)
    · rename_i value
      exact T.pure _ (fun _ _ => ⟨⟨value, rfl, hcur _ _ rfl⟩, fun nm h => by cases h⟩)
    · hoare
  · hoare

theorem importLoop_spec : ∀ fuel acc, (∀ i ∈ acc, RealImport src i) →
    T src Tr (importLoop fuel acc) (fun l _ => ∀ i ∈ l, RealImport src i) := by
  intro fuel
  induction fuel with
  | zero => intro acc _; unfold importLoop; exact T.throw _ (fun _ _ => trivial)
  | succ n ih =>
    intro acc hacc
    unfold importLoop
    refine T.bind (currentIs_spec _) (fun b => ?_)
    refine T.ite (fun _ => ?_) (fun _ => T.pure _ (fun _ _ => hacc))
    refine T.bindP (T.anyQ parseImportSpec_spec) ⟨fun i hi => ?_⟩
    refine T.bind (T.anyQ (skipped_spec _)) (fun _ => ?_)
    refine T.anyQ (ih _ ?_)
    intro x hx
    simp only [List.mem_append, List.mem_singleton] at hx
    rcases hx with hx | rfl
    · exact hacc x hx
    · exact hi

theorem parseImportDecl_spec : T src Tr parseImportDecl (fun l _ => ∀ i ∈ l, RealImport src i) := by
  unfold parseImportDecl
  refine T.bind (T.anyQ (expect_spec _ _)) (fun _ => ?_)
  refine T.bind (T.anyQ (skipped_spec _)) (fun b => ?_)
  refine T.ite (fun _ => ?_) (fun _ => ?_)
  · refine T.bind loopFuel_spec (fun fuel => ?_)
    refine T.bindP (T.anyQ (importLoop_spec _ _ (by intro _ h; cases h))) ⟨fun imports himp => ?_⟩
    refine T.bind (T.anyQ (expect_spec _ _)) (fun _ => ?_)
    exact T.pure _ (fun _ _ => himp)
  · refine T.bindP (T.anyQ parseImportSpec_spec) ⟨fun i hi => ?_⟩
    exact T.pure _ (fun _ _ => by intro x hx; simp only [List.mem_singleton] at hx; subst hx; exact hi)

/-! ### declarations -/

set_option maxHeartbeats 1000000 in
theorem parseFuncDeclBody_spec : T src Tr (parseFuncDeclBody r) (fun d _ => FuncDeclReal src d) := by
  unfold parseFuncDeclBody
  hoare

theorem parseDeclGeneric_go_spec {S : Type} (parseSpec : Nat → P S) (Qs : S → Prop)
    (hs : ∀ i, T src Tr (parseSpec i) (fun sp _ => Qs sp)) :
    ∀ fuel index acc, (∀ sp ∈ acc, Qs sp) →
      T src Tr (parseDeclGeneric.go parseSpec fuel index acc) (fun l _ => ∀ sp ∈ l, Qs sp) := by
  intro fuel
  induction fuel with
  | zero => intro index acc _; unfold parseDeclGeneric.go; exact T.throw _ (fun _ _ => trivial)
  | succ n ih =>
    intro index acc hacc
    unfold parseDeclGeneric.go
    refine T.bind (currentIs_spec _) (fun b => ?_)
    refine T.ite (fun _ => ?_) (fun _ => T.pure _ (fun _ _ => hacc))
    refine T.bindP (T.anyQ (hs _)) ⟨fun sp hsp => ?_⟩
    refine T.bind (T.anyQ (skipped_spec _)) (fun _ => ?_)
    refine T.anyQ (ih _ _ ?_)
    intro x hx
    simp only [List.mem_append, List.mem_singleton] at hx
    rcases hx with hx | rfl
    · exact hacc x hx
    · exact hsp

/-- `parse_decl`: the documentation of the declaration is made of source comments, and every spec satisfies
    what the spec parser guarantees (also the single spec that takes over the declaration's documentation) -/
theorem parseDeclGeneric_spec {S : Type} (parseSpec : Nat → P S) (withDocs : S → List Comment → S) (Qs : S → Prop)
    (hs : ∀ i, T src Tr (parseSpec i) (fun sp _ => Qs sp))
    (hwd : ∀ sp docs, Qs sp → (∀ c ∈ docs, RealComment src c) → Qs (withDocs sp docs)) :
    T src Tr (parseDeclGeneric parseSpec withDocs)
      (fun x _ => (∀ c ∈ x.1, RealComment src c) ∧ ∀ sp ∈ x.2.2.2, Qs sp) := by
  unfold parseDeclGeneric
  refine T.bind currentPos_spec (fun pos0 => ?_)
  refine T.bindP (T.anyQ drainComments_spec) ⟨fun docs hdocs => ?_⟩
  refine T.bind (T.anyQ next_spec) (fun _ => ?_)
  refine T.bind (T.anyQ (currentIs_spec _)) (fun b => ?_)
  refine T.ite (fun _ => ?_) (fun _ => ?_)
  · refine T.bind (T.anyQ (expect_spec _ _)) (fun left => ?_)
    refine T.bind loopFuel_spec (fun fuel => ?_)
    refine T.bindP (T.anyQ (parseDeclGeneric_go_spec parseSpec Qs hs _ _ _ (by intro _ h; cases h))) ⟨fun specs hspecs => ?_⟩
    refine T.bind (T.anyQ (expect_spec _ _)) (fun right => ?_)
    refine T.bind (T.anyQ (skipped_spec _)) (fun _ => ?_)
    exact T.pure _ (fun _ _ => ⟨hdocs, hspecs⟩)
  · refine T.bindP (T.anyQ (hs 0)) ⟨fun sp hsp => ?_⟩
    refine T.bind (T.anyQ (skipped_spec _)) (fun _ => ?_)
    refine T.pure _ (fun _ _ => ⟨(by intro _ h; cases h), ?_⟩)
    intro x hx
    simp only [List.mem_singleton] at hx
    subst hx
    exact hwd sp docs hsp hdocs

theorem parseDeclVarBody_spec : T src Tr (parseDeclVarBody r) (fun d _ => DeclVarReal src d) := by
  unfold parseDeclVarBody
  refine T.bindP (parseDeclGeneric_spec _ _ (VarSpecReal src) (fun _ => TblOK.parseVarSpec) ?_) ⟨fun x hx => ?_⟩
  · intro sp docs hsp hdocs
    cases sp
    simp only [VarSpecReal] at hsp ⊢
    exact ⟨hsp.1, hdocs⟩
  · obtain ⟨d, p0, p1, s⟩ := x
    exact T.pure _ (fun _ _ => hx)

theorem parseDeclTypeBody_spec : T src Tr (parseDeclTypeBody r) (fun d _ => DeclTypeReal src d) := by
  unfold parseDeclTypeBody
  refine T.bindP (parseDeclGeneric_spec _ _ (TypeSpecReal src) (fun _ => TblOK.parseTypeSpec) ?_) ⟨fun x hx => ?_⟩
  · intro sp docs hsp hdocs
    cases sp
    simp only [TypeSpecReal] at hsp ⊢
    exact ⟨hsp.1, hdocs⟩
  · obtain ⟨d, p0, p1, s⟩ := x
    exact T.pure _ (fun _ _ => hx)

theorem parseDeclConstBody_spec : T src Tr (parseDeclConstBody r) (fun d _ => DeclConstReal src d) := by
  unfold parseDeclConstBody
  refine T.bindP (parseDeclGeneric_spec _ _ (ConstSpecReal src) (fun i => TblOK.parseConstSpec i) ?_) ⟨fun x hx => ?_⟩
  · intro sp docs hsp hdocs
    cases sp
    simp only [ConstSpecReal] at hsp ⊢
    exact ⟨hsp.1, hdocs⟩
  · obtain ⟨d, p0, p1, s⟩ := x
    exact T.pure _ (fun _ _ => hx)

theorem parseVarSpecBody_spec : T src Tr (parseVarSpecBody r) (fun sp _ => VarSpecReal src sp) := by
  unfold parseVarSpecBody
  refine T.bindP drainComments_spec ⟨fun docs hdocs => ?_⟩
  refine T.bindP (T.anyQ identifierList_none_spec) ⟨fun name hname => ?_⟩
  hoare

set_option maxHeartbeats 1000000 in
theorem parseConstSpecBody_spec (i : Nat) : T src Tr (parseConstSpecBody r i) (fun sp _ => ConstSpecReal src sp) := by
  unfold parseConstSpecBody
  refine T.bindP drainComments_spec ⟨fun docs hdocs => ?_⟩
  refine T.bindP (T.anyQ identifierList_none_spec) ⟨fun name hname => ?_⟩
  hoare

/-! ### types -/

theorem parseTypeListBody_spec : T src Tr (parseTypeListBody r) (fun l _ => ∀ e ∈ l, ExprOK e) := by
  unfold parseTypeListBody
  refine T.bindP TblOK.type_ ⟨fun first hf => ?_⟩
  refine T.bind loopFuel_spec (fun fuel => ?_)
  exact T.anyQ (commaList_spec _ ExprOK TblOK.type_ _ _ (by simpa using hf))

theorem typeOrBlank_spec : T src Tr (typeOrBlank r) (fun o _ => ∀ e, o = some e → ExprOK e) := by
  unfold typeOrBlank
  hoare

theorem typeBody_spec : T src Tr (typeBody r) (fun e _ => ExprOK e) := by
  unfold typeBody
  hoare

theorem typeListBody_go_spec : ∀ fuel acc, T src Tr (typeListBody.go r fuel acc) (fun _ _ => True) := by
  intro fuel
  induction fuel with
  | zero => intro acc; unfold typeListBody.go; exact T.throw _ (fun _ _ => trivial)
  | succ n ih => intro acc; unfold typeListBody.go; hloop ih

theorem typeListBody_spec (strict : Bool) : T src Tr (typeListBody r strict) (fun _ _ => True) := by
  unfold typeListBody
  hoare
  all_goals first | exact T.anyQ (typeListBody_go_spec _ _) | exact T.anyQ typeOrBlank_spec | skip
  hoare
  all_goals first | exact T.anyQ (typeListBody_go_spec _ _) | exact T.anyQ typeOrBlank_spec | skip
  hoare

set_option maxHeartbeats 4000000 in
theorem typeOrNoneBody_spec : T src Tr (typeOrNoneBody r) (fun o _ => ∀ e, o = some e → ExprOK e) := by
  unfold typeOrNoneBody
  hoare

theorem parseTypeParametersBody_go_spec : ∀ fuel acc extra,
    T src Tr (parseTypeParametersBody.go r fuel acc extra) (fun _ _ => True) := by
  intro fuel
  induction fuel with
  | zero => intro acc extra; unfold parseTypeParametersBody.go; exact T.throw _ (fun _ _ => trivial)
  | succ n ih => intro acc extra; unfold parseTypeParametersBody.go; hloop ih

theorem parseTypeParametersBody_spec : T src Tr (parseTypeParametersBody r) (fun _ _ => True) := by
  unfold parseTypeParametersBody
  hoare
  all_goals first | exact T.anyQ (parseTypeParametersBody_go_spec _ _ _) | skip
  hoare

theorem funcTypeBody_spec : T src Tr (funcTypeBody r) (fun _ _ => True) := by
  unfold funcTypeBody
  hoare

theorem structTypeBody_go_spec : ∀ fuel acc, T src Tr (structTypeBody.go r fuel acc) (fun _ _ => True) := by
  intro fuel
  induction fuel with
  | zero => intro acc; unfold structTypeBody.go; exact T.throw _ (fun _ _ => trivial)
  | succ n ih => intro acc; unfold structTypeBody.go; hloop ih

theorem structTypeBody_spec : T src Tr (structTypeBody r) (fun _ _ => True) := by
  unfold structTypeBody
  hoare
  all_goals first | exact T.anyQ (structTypeBody_go_spec _ _) | skip
  hoare

theorem parseMethodElemBody_spec : T src Tr (parseMethodElemBody r) (fun _ _ => True) := by
  unfold parseMethodElemBody
  hoare

theorem parseTypeElemBody_go_spec : ∀ fuel typ, ExprOK typ →
    T src Tr (parseTypeElemBody.go r fuel typ) (fun e _ => ExprOK e) := by
  intro fuel
  induction fuel with
  | zero => intro typ _; unfold parseTypeElemBody.go; exact T.throw _ (fun _ _ => trivial)
  | succ n ih =>
    intro typ ht
    unfold parseTypeElemBody.go
    hoare
    all_goals first | exact T.anyQ (ih _ (by simp_all)) | skip

theorem parseTypeElemBody_spec : T src Tr (parseTypeElemBody r) (fun e _ => ExprOK e) := by
  unfold parseTypeElemBody
  hoare
  all_goals first | exact T.anyQ (parseTypeElemBody_go_spec _ _ (by assumption)) | skip

theorem parseTypeTermBody_spec : T src Tr (parseTypeTermBody r) (fun e _ => ExprOK e) := by
  unfold parseTypeTermBody
  hoare

theorem arrayLenBody_spec : T src Tr (arrayLenBody r) (fun e _ => ExprOK e) := by
  unfold arrayLenBody
  hoare

set_option maxHeartbeats 4000000 in
/-- `name.pop().unwrap()` (parser.rs, field_decl) is not reached: `identifier_list` never answers
    with an empty list -/
theorem fieldDeclBody_spec : T src Tr (fieldDeclBody r) (fun _ _ => True) := by
  unfold fieldDeclBody
  hoare
  · exfalso
    obtain ⟨x, hx⟩ := getLast_some_of_ne_nil ‹_ ≠ ([] : List Ident)›
    exact ‹∀ (nm : Ident), _ = some nm → False› x hx

theorem parseInterfaceTypeBody_go_spec : ∀ fuel acc,
    T src Tr (parseInterfaceTypeBody.go r fuel acc) (fun _ _ => True) := by
  intro fuel
  induction fuel with
  | zero => intro acc; unfold parseInterfaceTypeBody.go; exact T.throw _ (fun _ _ => trivial)
  | succ n ih => intro acc; unfold parseInterfaceTypeBody.go; hloop ih

theorem parseInterfaceTypeBody_spec : T src Tr (parseInterfaceTypeBody r) (fun _ _ => True) := by
  unfold parseInterfaceTypeBody
  hoare
  all_goals first | exact T.anyQ (parseInterfaceTypeBody_go_spec _ _) | skip
  hoare

theorem extract_lost_absurd {e : Expression} {f : Bool}
    (h : ∀ (pn : Option Ident) (pt : Option Expression), extract e f = some (pn, pt) → False) : False := by
  have := Gosyn.Props.C03.extract_never_lost e f
  cases hx : extract e f with
  | none => rw [hx] at this; cases this
  | some p => exact h p.1 p.2 (by rw [hx])

set_option maxHeartbeats 2000000 in
/-- `panic!("extract lost")` (parser.rs, parse_type_spec) is not reached (`C03.extract_never_lost`), and
    both backtracking marks are good -/
theorem parseTypeSpecBody_spec : T src Tr (parseTypeSpecBody r) (fun sp _ => TypeSpecReal src sp) := by
  unfold parseTypeSpecBody
  hoare
  all_goals exact (extract_lost_absurd ‹_›).elim


end Gosyn.Props.Hoare
