/-!
C12 — which comments form the documentation group, part 1: the rule itself.

`Parser::next` decides the pending documentation (`lead_comments`) with three integer comparisons on line
numbers per comment and one on the token that follows.  This file isolates that rule as a pure fold
(`leadStep`, `leadRun`, `finish`) over the comments read by one call — `Props/C12c.lean` proves that the
model of `Parser::next` computes exactly this fold on the true line numbers of the source — and proves
the property's sentences about it, for every run of comments and every line numbering:

* `cut`: a comment that starts more than one line below the end of the previous one (a blank line in
  between) cuts the group: nothing before it is reported;
* `finish_gap`: when the token starts more than one line below the end of the last pending comment nothing
  is reported, and whatever is reported ends on the token's line or the line directly above (`finish_near`);
* `trailing_chain`: the comment that starts on the line where the previous token ended, and every comment
  that starts where such a comment ended, is never reported;
* `attached_group`: an unbroken run of comments that follows a blank line (or starts the input) is reported
  whole and alone, in order;
* `run_chained`: what is reported is always an unbroken run (each comment starts at most one line below the
  end of the one before), under the entry condition that holds for files: nothing is pending or the
  previous token ended on line 2 or below.  The condition is needed: see `chain_counterexample`.
-/
namespace Gosyn.Props.C12b

section Pure
variable {α : Type} (sl el : α → Nat)

/-- the state of the comment loop of `Parser::next`: pending documentation, the line on which the previous
    comment ended (0 at the start), the line on which the previous token and its trailing comments ended -/
structure LS (α : Type) where
  lead : List α
  line : Nat
  trailing : Option Nat

/-- one turn of the loop, parser.rs `next`: `sl c` / `el c` are the lines on which `c` starts / ends -/
def resetLead (st : LS α) (c : α) : List α := if sl c > st.line + 1 then [] else st.lead

def leadStep (st : LS α) (c : α) : LS α :=
  if st.trailing = some (sl c) then ⟨resetLead sl st c, el c, some (el c)⟩
  else ⟨resetLead sl st c ++ [c], el c, none⟩

theorem resetLead_sub (st : LS α) (c : α) : ∀ x ∈ resetLead sl st c, x ∈ st.lead := by
  intro x hx; unfold resetLead at hx; split at hx
  · cases hx
  · exact hx

def leadRun (st : LS α) (run : List α) : LS α := run.foldl (leadStep sl el) st

/-- the test after the loop: the group is dropped when the token starts more than one line below its end -/
def finish (lead : List α) (tokLine : Option Nat) : List α :=
  match lead.getLast?, tokLine with
  | some c, some l => if l > el c + 1 then [] else lead
  | _, _ => lead

theorem leadRun_cons (st : LS α) (c : α) (r : List α) :
    leadRun sl el st (c :: r) = leadRun sl el (leadStep sl el st c) r := rfl

theorem leadRun_append (st : LS α) (xs ys : List α) :
    leadRun sl el st (xs ++ ys) = leadRun sl el (leadRun sl el st xs) ys := by
  simp [leadRun, List.foldl_append]

theorem leadStep_line (st : LS α) (c : α) : (leadStep sl el st c).line = el c := by
  unfold leadStep; split <;> rfl

theorem leadStep_trailing (st : LS α) (c : α) :
    (leadStep sl el st c).trailing = none ∨ (leadStep sl el st c).trailing = some (leadStep sl el st c).line := by
  unfold leadStep; split <;> simp

/-- after at least one comment the two line registers agree whenever `trailing` is still set -/
theorem leadRun_trailing (st : LS α) (xs : List α) (hne : xs ≠ []) :
    (leadRun sl el st xs).trailing = none ∨ (leadRun sl el st xs).trailing = some (leadRun sl el st xs).line := by
  induction xs generalizing st with
  | nil => exact absurd rfl hne
  | cons c r ih =>
    rw [leadRun_cons]
    cases r with
    | nil => exact leadStep_trailing sl el st c
    | cons d r' => exact ih _ (by simp)

theorem leadStep_subset (st : LS α) (c : α) : ∀ x ∈ (leadStep sl el st c).lead, x ∈ st.lead ∨ x = c := by
  intro x hx
  unfold leadStep at hx
  split at hx
  · exact .inl (resetLead_sub sl st c x hx)
  · rcases List.mem_append.1 hx with h | h
    · exact .inl (resetLead_sub sl st c x h)
    · exact .inr (by simpa using h)

/-- nothing is invented: what is pending after a run was pending before or was read in it -/
theorem leadRun_subset (st : LS α) (run : List α) : ∀ x ∈ (leadRun sl el st run).lead, x ∈ st.lead ∨ x ∈ run := by
  induction run generalizing st with
  | nil => intro x hx; exact .inl hx
  | cons c r ih =>
    intro x hx
    rw [leadRun_cons] at hx
    rcases ih _ x hx with h | h
    · rcases leadStep_subset sl el st c x h with h' | h'
      · exact .inl h'
      · exact .inr (by simp [h'])
    · exact .inr (by simp [h])

/-- **a blank line cuts the group**: when `d` starts more than one line below the end of `c`, nothing read
    before `d` — and nothing that was pending — is reported -/
theorem cut (st : LS α) (xs ys : List α) (c d : α) (h : sl d > el c + 1) :
    ∀ x ∈ (leadRun sl el st (xs ++ c :: d :: ys)).lead, x ∈ d :: ys := by
  intro x hx
  rw [leadRun_append, leadRun_cons, leadRun_cons] at hx
  rcases leadRun_subset sl el _ ys x hx with h1 | h1
  · have hl : (leadStep sl el (leadRun sl el st xs) c).line = el c := leadStep_line sl el _ c
    generalize leadStep sl el (leadRun sl el st xs) c = st1 at hl h1
    have hr : resetLead sl st1 d = [] := by unfold resetLead; rw [hl, if_pos h]
    unfold leadStep at h1
    rw [hr] at h1
    split at h1
    · cases h1
    · simp at h1; simp [h1]
  · simp [h1]

theorem finish_sub (lead : List α) (t : Option Nat) : ∀ x ∈ finish el lead t, x ∈ lead := by
  intro x hx
  unfold finish at hx
  split at hx
  · split at hx
    · cases hx
    · exact hx
  · exact hx

/-- **a blank line above the token: nothing is reported** -/
theorem finish_gap (lead : List α) (c : α) (l : Nat) (hc : lead.getLast? = some c) (h : l > el c + 1) :
    finish el lead (some l) = [] := by
  unfold finish; rw [hc]; simp [h]

/-- **what is reported ends on the token's line or on the line directly above it** -/
theorem finish_near (lead : List α) (c : α) (l : Nat) (hc : (finish el lead (some l)).getLast? = some c) :
    l ≤ el c + 1 := by
  unfold finish at hc
  cases hl : lead.getLast? with
  | none =>
    rw [hl] at hc; simp only at hc; rw [hl] at hc; cases hc
  | some c' =>
    rw [hl] at hc; simp only at hc
    split at hc
    · cases hc
    · rw [hl] at hc; cases hc; omega

/-- a run of comments each of which starts on the line where the previous one (first: the token) ended -/
def TrailChain : Nat → List α → Prop
  | _, [] => True
  | t, c :: r => sl c = t ∧ TrailChain (el c) r

/-- **trailing comments are never documentation**: the comments chained to the end of the previous token
    are not reported (whatever is reported was pending before or comes after them) -/
theorem trailing_chain (st : LS α) (t : Nat) (ts ys : List α) (ht : st.trailing = some t)
    (hc : TrailChain sl el t ts) :
    ∀ x ∈ (leadRun sl el st (ts ++ ys)).lead, x ∈ st.lead ∨ x ∈ ys := by
  induction ts generalizing st t with
  | nil => exact leadRun_subset sl el st ys
  | cons c r ih =>
    intro x hx
    rw [List.cons_append, leadRun_cons] at hx
    obtain ⟨h1, h2⟩ := hc
    have hstep : leadStep sl el st c = ⟨resetLead sl st c, el c, some (el c)⟩ := by
      unfold leadStep; rw [ht, h1]; simp
    rw [hstep] at hx
    rcases ih _ (el c) rfl h2 x hx with h | h
    · exact .inl (resetLead_sub sl st c x h)
    · exact .inr h

/-- a run in which every comment starts at most one line below the line `line`, then below the end of the
    one before -/
def Unbroken : Nat → List α → Prop
  | _, [] => True
  | line, c :: r => sl c ≤ line + 1 ∧ Unbroken (el c) r

theorem unbroken_run (st : LS α) (g : List α) (ht : st.trailing = none) (hu : Unbroken sl el st.line g) :
    (leadRun sl el st g).lead = st.lead ++ g ∧ (leadRun sl el st g).trailing = none := by
  induction g generalizing st with
  | nil => simp [leadRun, ht]
  | cons c r ih =>
    obtain ⟨h1, h2⟩ := hu
    rw [leadRun_cons]
    have hstep : leadStep sl el st c = ⟨st.lead ++ [c], el c, none⟩ := by
      have hn : ¬ sl c > st.line + 1 := by omega
      simp [leadStep, resetLead, ht, hn]
    rw [hstep]
    have := ih ⟨st.lead ++ [c], el c, none⟩ rfl h2
    simpa using this

/-- **the attached group is reported whole and alone**: after a blank line (`g0` starts more than one line
    below the end of what precedes it) an unbroken run `g0 :: gs` that reaches the end of the comments read
    is exactly what is pending -/
theorem attached_group (st : LS α) (xs gs : List α) (g0 : α)
    (hbreak : sl g0 > (leadRun sl el st xs).line + 1)
    (hnt : (leadRun sl el st xs).trailing ≠ some (sl g0))
    (hu : Unbroken sl el (el g0) gs) :
    (leadRun sl el st (xs ++ g0 :: gs)).lead = g0 :: gs := by
  rw [leadRun_append, leadRun_cons]
  have hstep : leadStep sl el (leadRun sl el st xs) g0 = ⟨[g0], el g0, none⟩ := by
    simp [leadStep, resetLead, hbreak, hnt]
  rw [hstep]
  have := unbroken_run sl el ⟨[g0], el g0, none⟩ gs rfl hu
  simpa using this.1

/-- the same when at least one comment precedes the blank line: the "not trailing" condition is automatic -/
theorem attached_group' (st : LS α) (xs gs : List α) (g0 : α) (hne : xs ≠ [])
    (hbreak : sl g0 > (leadRun sl el st xs).line + 1)
    (hu : Unbroken sl el (el g0) gs) :
    (leadRun sl el st (xs ++ g0 :: gs)).lead = g0 :: gs := by
  refine attached_group sl el st xs gs g0 hbreak ?_ hu
  rcases leadRun_trailing sl el st xs hne with h | h
  · rw [h]; simp
  · rw [h]; simp; omega

/-! ### what is reported is an unbroken run -/

/-- each comment starts at most one line below the end of the one before it -/
def Chained : List α → Prop
  | [] => True
  | [_] => True
  | c :: d :: r => sl d ≤ el c + 1 ∧ Chained (d :: r)

theorem chained_snoc (l : List α) (c : α) (hl : Chained sl el l)
    (hlast : ∀ d, l.getLast? = some d → sl c ≤ el d + 1) : Chained sl el (l ++ [c]) := by
  induction l with
  | nil => trivial
  | cons a r ih =>
    cases r with
    | nil =>
      exact ⟨hlast a rfl, trivial⟩
    | cons b r' =>
      obtain ⟨h1, h2⟩ := hl
      refine ⟨h1, ?_⟩
      exact ih h2 (fun d hd => hlast d (by simpa [List.getLast?_cons_cons] using hd))

/-- loop invariant: the pending comments are chained, and once one has been pushed the line register is the
    end of the last pending comment -/
structure ChainInv (st : LS α) : Prop where
  chained : Chained sl el st.lead
  last : st.lead = [] ∨ (st.trailing = none ∧ ∃ d, st.lead.getLast? = some d ∧ st.line = el d)

theorem chainInv_step (st : LS α) (c : α) (h : ChainInv sl el st) : ChainInv sl el (leadStep sl el st c) := by
  rcases h.last with h0 | ⟨ht, d, hd, hline⟩
  · have hr : resetLead sl st c = [] := by unfold resetLead; rw [h0]; simp
    unfold leadStep
    rw [hr]
    split
    · exact ⟨trivial, .inl rfl⟩
    · exact ⟨trivial, .inr ⟨rfl, c, rfl, rfl⟩⟩
  · unfold leadStep
    rw [ht, if_neg (by simp)]
    unfold resetLead
    split
    · exact ⟨trivial, .inr ⟨rfl, c, rfl, rfl⟩⟩
    · rename_i hn
      refine ⟨chained_snoc sl el _ c h.chained ?_, .inr ⟨rfl, c, by simp, rfl⟩⟩
      intro d' hd'
      rw [hd] at hd'; cases hd'
      omega

theorem chainInv_run (st : LS α) (run : List α) (h : ChainInv sl el st) : ChainInv sl el (leadRun sl el st run) := by
  induction run generalizing st with
  | nil => exact h
  | cons c r ih => exact ih _ (chainInv_step sl el st c h)

/-- **what is pending after a call of `next` is an unbroken run**, when the call starts with the line register
    at 0 (it always does) and either nothing pending or every comment read on line 2 or below (true whenever
    the previous token ended on line 2 or below) -/
theorem run_chained (st : LS α) (run : List α) (hc : Chained sl el st.lead) (h0 : st.line = 0)
    (h : st.lead = [] ∨ ∀ c ∈ run, 2 ≤ sl c) : Chained sl el (leadRun sl el st run).lead := by
  cases run with
  | nil => exact hc
  | cons c r =>
    rw [leadRun_cons]
    refine (chainInv_run sl el _ r ?_).chained
    rcases h with h | h
    · exact chainInv_step sl el st c ⟨hc, .inl h⟩
    · have h2 := h c (by simp)
      have hr : resetLead sl st c = [] := by unfold resetLead; rw [h0, if_pos (by omega)]
      unfold leadStep
      rw [hr]
      split
      · exact ⟨trivial, .inl rfl⟩
      · exact ⟨trivial, .inr ⟨rfl, c, rfl, rfl⟩⟩

theorem finish_chained (lead : List α) (t : Option Nat) (h : Chained sl el lead) : Chained sl el (finish el lead t) := by
  unfold finish
  split
  · split
    · trivial
    · exact h
  · exact h

end Pure

/-! ### the entry condition of `run_chained` is needed

Comments as (start line, end line).  `a` is pending and lies on line 1; the previous token ends on line 1;
`t` trails it and runs over a blank line to line 3; `d` stands on line 4.  The loop reports `[a, d]`:
`a` ends on line 1, `d` starts on line 4.  On the real parser this needs a token on line 1 after a
comment that has not been drained: `parse_stmt` on `/*a*/ { /*t⏎⏎*/⏎//d⏎var x int }`; in a file the package
clause drains line 1's comments before the second token is read. -/
example :
    (leadRun (α := Nat × Nat) (·.1) (·.2) ⟨[(1, 1)], 0, some 1⟩ [(1, 3), (4, 4)]).lead = [(1, 1), (4, 4)] := by
  decide

/-- non-vacuity of `attached_group`: token on line 1, trailing comment on line 1, detached comment on line 3,
    attached group on lines 5–6 -/
example :
    (leadRun (α := Nat × Nat) (·.1) (·.2) ⟨[], 0, some 1⟩ [(1, 1), (3, 3), (5, 5), (6, 6)]).lead = [(5, 5), (6, 6)] := by
  decide

end Gosyn.Props.C12b
