import Gosyn.Model.Climb
/-!
C04 — operators bind with the spec's precedence and associativity.

1. The code's precedence table (regenerated from `Operator::precedence`, token.rs) *is* the
   specification's table of five levels; exactly the 19 binary operators have a level.
2. The precedence-climbing loop (`Model/Climb.lean`), run on the in-order operand/operator sequence
   of **any** well-grouped tree, rebuilds exactly that tree (`climb_flat`), never drops, invents or
   reorders anything (`climb_preserves`), and the well-grouped tree of a sequence is unique
   (`wg_unique`) — for every length and depth, no bound.
3. Corollaries in the property's words: left associativity at equal precedence, tighter binding of
   higher levels, unary operands (atoms) bind tighter than any binary operator.
-/
namespace Gosyn.Props.C04
open Gosyn.Gen Gosyn.Model Gosyn.Spec Gosyn.Spec.T

/-! ### 1. the table -/

/-- the code's table is the spec's table, operator by operator -/
theorem prec_table_spec : ∀ o : Operator, o.prec = Spec.prec o := by
  intro o; cases o <;> rfl

/-- exactly the 19 binary operators of the spec have a precedence level -/
theorem binary_ops_19 : (Operator.all.filter fun o => o.prec > 0).length = 19 := by decide

theorem prec_le_5 : ∀ o : Operator, o.prec ≤ 5 := by
  intro o; cases o <;> decide

/-! ### 2. the kernel -/

variable {α : Type}

/-- replace the leftmost atom by a tree -/
def plug (x : T α) : T α → T α
  | .atom _ => x
  | .bin o l r => .bin o (plug x l) r

/-- the loop stops at `rest` for context precedence `p` -/
def Stops (p : Nat) : List (Operator × α) → Prop
  | [] => True
  | (o, _) :: _ => Spec.prec o ≤ p

theorem allGt_of_allGe {p q : Nat} (h : q < p) : ∀ t : T α, allGe p t → allGt q t
  | .atom _, _ => trivial
  | .bin _ l r, ⟨h1, h2, h3⟩ => ⟨by omega, allGt_of_allGe h l h2, allGt_of_allGe h r h3⟩

theorem allGt_zero_of_WG : ∀ t : T α, WG t → allGt 0 t
  | .atom _, _ => trivial
  | .bin _ l r, ⟨h0, _, _, hl, hr⟩ => ⟨h0, allGt_zero_of_WG l hl, allGt_zero_of_WG r hr⟩

theorem climb_stops (fuel : Nat) (x : T α) (rest : List (Operator × α)) (p : Nat)
    (h : Stops p rest) : climb Spec.prec (fuel+1) x rest p = (x, rest) := by
  cases rest with
  | nil => simp [climb]
  | cons hd tl =>
    obtain ⟨o, a⟩ := hd
    simp only [Stops] at h
    simp [climb]; omega

theorem plug_first : ∀ r : T α, plug (.atom (first r)) r = r
  | .atom a => by simp [plug, first]
  | .bin o l r => by simp [plug, first, plug_first l]

/-- Key lemma: running the loop over the flattening of a well-grouped tree `t` whose operators all
    exceed `p`, continued by `rest'` at which the innermost right operand stops, is the same as
    having `plug x t` as accumulator and continuing on `rest'`. -/
theorem climb_tail (t : T α) : ∀ (x : T α) (rest' : List (Operator × α)) (p fuel : Nat),
    WG t → allGt p t →
    (∀ q, (∃ o l r, t = .bin o l r ∧ q = Spec.prec o) → Stops q rest') →
    fuel ≥ (tail t).length + rest'.length →
    ∃ fuel', fuel' + (tail t).length ≥ fuel ∧ fuel' ≤ fuel ∧
      climb Spec.prec fuel x (tail t ++ rest') p = climb Spec.prec fuel' (plug x t) rest' p := by
  induction t with
  | atom a =>
    intro x rest' p fuel _ _ _ _
    exact ⟨fuel, by simp [tail], Nat.le_refl _, by simp [tail, plug]⟩
  | bin o l r ihl ihr =>
    intro x rest' p fuel hwg hgt hstop hfuel
    obtain ⟨_, hgel, hgtr, hwl, hwr⟩ := hwg
    obtain ⟨hop, hgtl, hgtr'⟩ := hgt
    have hstop' : Stops (Spec.prec o) rest' := hstop _ ⟨o, l, r, rfl, rfl⟩
    simp only [tail, List.length_append, List.length_cons] at hfuel
    have hl := ihl x ((o, first r) :: (tail r ++ rest')) p fuel hwl hgtl
      (by
        intro q ⟨o', l', r', hl', hq⟩
        subst hq; subst hl'
        simp only [Stops]
        exact hgel.1)
      (by simp only [List.length_append, List.length_cons]; omega)
    obtain ⟨f1, hf1a, hf1b, hl⟩ := hl
    have e1 : tail (T.bin o l r) ++ rest' = tail l ++ ((o, first r) :: (tail r ++ rest')) := by
      simp [tail, List.append_assoc]
    rw [e1, hl]
    have hf1pos : f1 ≥ 1 + (tail r).length + rest'.length := by omega
    obtain ⟨f2, hf2⟩ : ∃ f2, f1 = f2 + 1 := ⟨f1 - 1, by omega⟩
    subst hf2
    have estep : climb Spec.prec (f2+1) (plug x l) ((o, first r) :: (tail r ++ rest')) p
        = climb Spec.prec f2 (.bin o (plug x l) (climb Spec.prec f2 (.atom (first r)) (tail r ++ rest') (Spec.prec o)).1)
            (climb Spec.prec f2 (.atom (first r)) (tail r ++ rest') (Spec.prec o)).2 p := by
      simp [climb, hop]
    rw [estep]
    have hr := ihr (.atom (first r)) rest' (Spec.prec o) f2 hwr hgtr
      (by
        intro q ⟨o', l', r', hr', hq⟩
        subst hq; subst hr'
        have : Spec.prec o' > Spec.prec o := hgtr.1
        cases rest' with
        | nil => trivial
        | cons hd tl => obtain ⟨o2, a2⟩ := hd; simp only [Stops] at *; omega)
      (by omega)
    obtain ⟨f3, hf3a, hf3b, hr⟩ := hr
    have hplug : plug (.atom (first r)) r = r := plug_first r
    rw [hr, hplug]
    cases f3 with
    | zero =>
      have : rest'.length = 0 := by omega
      have hnil : rest' = [] := List.eq_nil_of_length_eq_zero this
      subst hnil
      refine ⟨f2, ?_, ?_, ?_⟩
      · simp only [tail, List.length_append, List.length_cons]; omega
      · omega
      · simp [climb, plug]
    | succ f3 =>
      rw [climb_stops f3 r rest' (Spec.prec o) hstop']
      refine ⟨f2, ?_, ?_, ?_⟩
      · simp only [tail, List.length_append, List.length_cons]; omega
      · omega
      · simp [plug]

/-- **parse ∘ flatten = id**: on the operand/operator sequence of any well-grouped tree the loop
    returns exactly that tree and consumes everything -/
theorem climb_flat (t : T α) (hwg : WG t) :
    climbAll Spec.prec (first t) (tail t) = (t, []) := by
  unfold climbAll
  have h := climb_tail t (.atom (first t)) [] 0 ((tail t).length + 1) hwg (allGt_zero_of_WG t hwg)
    (fun _ _ => trivial) (by simp)
  obtain ⟨f, _, _, h⟩ := h
  rw [List.append_nil] at h
  rw [h, plug_first]
  cases f <;> simp [climb]

/-- **flatten ∘ parse = id**: the loop only groups; it never drops, invents or reorders an operand
    or an operator -/
theorem climb_preserves : ∀ (fuel : Nat) (x : T α) (rest : List (Operator × α)) (p : Nat),
    tail (climb Spec.prec fuel x rest p).1 ++ (climb Spec.prec fuel x rest p).2 = tail x ++ rest ∧
    first (climb Spec.prec fuel x rest p).1 = first x := by
  intro fuel
  induction fuel with
  | zero => intro x rest p; simp [climb]
  | succ n ih =>
    intro x rest p
    cases rest with
    | nil => simp [climb]
    | cons hd tl =>
      obtain ⟨o, a⟩ := hd
      simp only [climb]
      split
      · have h1 := ih (.atom a) tl (Spec.prec o)
        have h2 := ih (.bin o x (climb Spec.prec n (.atom a) tl (Spec.prec o)).1)
                      (climb Spec.prec n (.atom a) tl (Spec.prec o)).2 p
        constructor
        · rw [h2.1]; simp only [tail, first] at *
          rw [h1.2]; simp [List.append_assoc]; exact h1.1
        · rw [h2.2]; simp [first]
      · simp

/-- **uniqueness**: an operand/operator sequence has at most one well-grouped tree — so "the
    grouping the spec's five levels dictate" is well defined, and it is the loop's answer -/
theorem wg_unique (t₁ t₂ : T α) (h₁ : WG t₁) (h₂ : WG t₂)
    (hf : first t₁ = first t₂) (ht : tail t₁ = tail t₂) : t₁ = t₂ := by
  have e₁ := climb_flat t₁ h₁
  have e₂ := climb_flat t₂ h₂
  rw [hf, ht] at e₁
  rw [e₁] at e₂
  exact (Prod.mk.inj e₂).1

/-- the same three statements for the loop run with the *code's* table -/
theorem climb_code_eq_spec : climb (α := α) Operator.prec = climb Spec.prec := by
  have : Operator.prec = Spec.prec := funext prec_table_spec
  rw [this]

theorem climb_flat_code (t : T α) (hwg : WG t) :
    climbAll Operator.prec (first t) (tail t) = (t, []) := by
  unfold climbAll; rw [climb_code_eq_spec]; exact climb_flat t hwg

/-! ### 3. the property's sentences -/

/-- binary operators of equal precedence associate to the left: `a o₁ b o₂ c` with
    `prec o₁ = prec o₂` groups as `(a o₁ b) o₂ c` -/
theorem left_assoc (a b c : α) (o₁ o₂ : Operator) (h : Spec.prec o₁ = Spec.prec o₂) (hp : 0 < Spec.prec o₁) :
    climbAll Operator.prec a [(o₁, b), (o₂, c)] = (.bin o₂ (.bin o₁ (.atom a) (.atom b)) (.atom c), []) := by
  have := climb_flat_code (.bin o₂ (.bin o₁ (.atom a) (.atom b)) (.atom c) : T α)
    (by simp [WG, allGe, allGt, h, hp]; omega)
  simpa [first, tail] using this

/-- a tighter operator on the right takes the middle operand: `a o₁ b o₂ c` with
    `prec o₁ < prec o₂` groups as `a o₁ (b o₂ c)` -/
theorem tighter_right (a b c : α) (o₁ o₂ : Operator) (h : Spec.prec o₁ < Spec.prec o₂) (hp : 0 < Spec.prec o₁) :
    climbAll Operator.prec a [(o₁, b), (o₂, c)] = (.bin o₁ (.atom a) (.bin o₂ (.atom b) (.atom c)), []) := by
  have := climb_flat_code (.bin o₁ (.atom a) (.bin o₂ (.atom b) (.atom c)) : T α)
    (by simp [WG, allGe, allGt, hp]; omega)
  simpa [first, tail] using this

/-- a tighter operator on the left keeps its operands: `a o₁ b o₂ c` with `prec o₁ > prec o₂`
    groups as `(a o₁ b) o₂ c` -/
theorem tighter_left (a b c : α) (o₁ o₂ : Operator) (h : Spec.prec o₂ < Spec.prec o₁) (hp : 0 < Spec.prec o₂) :
    climbAll Operator.prec a [(o₁, b), (o₂, c)] = (.bin o₂ (.bin o₁ (.atom a) (.atom b)) (.atom c), []) := by
  have := climb_flat_code (.bin o₂ (.bin o₁ (.atom a) (.atom b)) (.atom c) : T α)
    (by simp [WG, allGe, allGt, hp]; omega)
  simpa [first, tail] using this

/-- operands are never split: whatever the operators, the loop's tree has the same operands in the
    same order (unary and primary expressions — the atoms — bind tighter than every binary operator) -/
theorem operands_kept (a0 : α) (rest : List (Operator × α)) :
    let r := climbAll Operator.prec a0 rest
    first r.1 = a0 ∧ tail r.1 ++ r.2 = rest := by
  simp only [climbAll]
  rw [climb_code_eq_spec]
  have := climb_preserves (rest.length + 1) (.atom a0) rest 0
  simpa [first, tail] using this.symm.symm |> fun h => ⟨h.2, h.1⟩

/-! ### 4. non-vacuity: concrete runs of the loop with the code's table -/

-- a + b * c - d   ==>   ((a + (b * c)) - d)
example : climbAll Operator.prec "a" [(.Add, "b"), (.Star, "c"), (.Sub, "d")]
    = (.bin .Sub (.bin .Add (.atom "a") (.bin .Star (.atom "b") (.atom "c"))) (.atom "d"), []) := by decide
-- a || b && c == d + e * f
example : climbAll Operator.prec "a" [(.OrOr, "b"), (.AndAnd, "c"), (.Equal, "d"), (.Add, "e"), (.Star, "f")]
    = (.bin .OrOr (.atom "a") (.bin .AndAnd (.atom "b") (.bin .Equal (.atom "c")
        (.bin .Add (.atom "d") (.bin .Star (.atom "e") (.atom "f"))))), []) := by decide
-- a non-binary operator stops the loop and is left for the caller
example : climbAll Operator.prec "a" [(.Add, "b"), (.Comma, "c")]
    = (.bin .Add (.atom "a") (.atom "b"), [(.Comma, "c")]) := by decide
example : WG (.bin .Sub (.bin .Add (.atom "a") (.bin .Star (.atom "b") (.atom "c"))) (.atom "d") : T String) := by
  simp [WG, allGe, allGt, Spec.prec]

end Gosyn.Props.C04
