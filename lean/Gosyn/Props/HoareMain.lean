import Gosyn.Props.HoareDecl
import Gosyn.Props.HoareExpr
import Gosyn.Props.HoarePrimary
import Gosyn.Props.HoareSlice
import Gosyn.Props.HoareParam
import Gosyn.Props.HoareStmt
import Gosyn.Props.HoareIf
import Gosyn.Props.HoareSwitch
import Gosyn.Props.HoareFor
/-!
The whole-parser theorem: for every source text, build profile and amount of fuel, the three entry
points of the parser model (`parse_file`, `expression`, `parse_stmt` from a fresh parser) return a
tree or an error *value*; none of the panic sites of scanner.rs and parser.rs that the model carries
(index out of range, `unwrap` on `Err`/`None`, `unreachable!`, `unimplemented!`, arithmetic underflow)
is reached.  Stack exhaustion and running time are outside the model (fuel); they are C01's harness.
-/
namespace Gosyn.Props.Hoare
open Gosyn.Gen Gosyn.Model Gosyn.Ast

variable {src : Array Char}

/-! ### the table -/

theorem enter_spec {α} {m : P α} {Qp : α → Prop} (h : T src Tr m (fun a _ => Qp a)) :
    T src Tr (enter m) (fun a _ => Qp a) := by
  intro s hi _
  let s0 : PState := { s with depth := s.depth + 1, maxDepth := max s.maxDepth (s.depth + 1) }
  have hi0 : Inv src s0 := hi.congr rfl rfl rfl rfl (fun _ h => h)
  have := h s0 hi0 trivial
  show match enter m s with
    | (.ok a, s') => Inv src s' ∧ Qp a
    | (.error e, s') => ErrOK e s' ∧ Inv0 src s'
  unfold enter
  simp only
  cases hm : m s0 with
  | mk r s1 =>
    rw [hm] at this
    cases r with
    | error e => exact ⟨this.1, this.2.congr rfl rfl rfl (fun _ h => h)⟩
    | ok a => exact ⟨this.1.congr rfl rfl rfl rfl (fun _ h => h), this.2⟩

theorem fuel_spec {α} {Q : α → PState → Prop} : T src Tr (P.throw .fuel : P α) Q := T.throw _ (fun _ _ => trivial)

instance tblOK_bot : TblOK src Tbl.bot where
  parseFuncDecl := fuel_spec
  parseDeclVar := fuel_spec
  parseDeclType := fuel_spec
  parseDeclConst := fuel_spec
  parseTypeSpec := fuel_spec
  parseVarSpec := fuel_spec
  parseConstSpec := fun _ => fuel_spec
  parseTypeList := fuel_spec
  type_ := fuel_spec
  typeList := fun _ => fuel_spec
  typeOrNone := fuel_spec
  parseTypeParameters := fuel_spec
  funcType := fuel_spec
  structType := fuel_spec
  fieldDecl := fuel_spec
  parseInterfaceType := fuel_spec
  parseMethodElem := fuel_spec
  parseTypeElem := fuel_spec
  parseTypeTerm := fuel_spec
  arrayLen := fuel_spec
  expressionList := fuel_spec
  parseNextLevelExpr := fuel_spec
  expression := fuel_spec
  binaryExpression := fun _ _ _ => fuel_spec
  unaryExpression := fuel_spec
  primaryExpression := fun _ _ => fuel_spec
  operand := fuel_spec
  parseSliceIndexOrTypeInst := fuel_spec
  parseLitValue := fuel_spec
  parseElement := fuel_spec
  parseElementValue := fuel_spec
  parseResult := fuel_spec
  paramsList := fun _ _ => fuel_spec
  parseParameterDecl := fuel_spec
  arrayOrTypeargs := fuel_spec
  qualifiedIdent := fun _ => fuel_spec
  typeInstance := fun _ => fuel_spec
  parseStmtList := fuel_spec
  parseStmt := fuel_spec
  parseSimpleStmt := fuel_spec
  parseBlockStmt := fuel_spec
  parseIfStmt := fuel_spec
  parseIfHeader := fuel_spec
  parseSwitchStmt := fuel_spec
  parseCaseBlock := fun _ => fuel_spec
  parseCommStmt := fuel_spec
  parseCommBlock := fuel_spec
  parseForStmt := fuel_spec

/-- **one level of the table preserves the specification** -/
theorem tblOK_step (r : Tbl) [TblOK src r] : TblOK src r.step where
  parseFuncDecl := enter_spec parseFuncDeclBody_spec
  parseDeclVar := enter_spec parseDeclVarBody_spec
  parseDeclType := enter_spec parseDeclTypeBody_spec
  parseDeclConst := enter_spec parseDeclConstBody_spec
  parseTypeSpec := enter_spec parseTypeSpecBody_spec
  parseVarSpec := enter_spec parseVarSpecBody_spec
  parseConstSpec := fun i => enter_spec (parseConstSpecBody_spec i)
  parseTypeList := enter_spec parseTypeListBody_spec
  type_ := enter_spec typeBody_spec
  typeList := fun b => enter_spec (typeListBody_spec b)
  typeOrNone := enter_spec typeOrNoneBody_spec
  parseTypeParameters := enter_spec parseTypeParametersBody_spec
  funcType := enter_spec funcTypeBody_spec
  structType := enter_spec structTypeBody_spec
  fieldDecl := enter_spec fieldDeclBody_spec
  parseInterfaceType := enter_spec parseInterfaceTypeBody_spec
  parseMethodElem := enter_spec parseMethodElemBody_spec
  parseTypeElem := enter_spec parseTypeElemBody_spec
  parseTypeTerm := enter_spec parseTypeTermBody_spec
  arrayLen := enter_spec arrayLenBody_spec
  expressionList := enter_spec expressionListBody_spec
  parseNextLevelExpr := enter_spec parseNextLevelExprBody_spec
  expression := enter_spec expressionBody_spec
  binaryExpression := fun p n hp => enter_spec (binaryExpressionBody_spec p n hp)
  unaryExpression := enter_spec unaryExpressionBody_spec
  primaryExpression := fun p hp => enter_spec (primaryExpressionBody_spec p hp)
  operand := enter_spec operandBody_spec
  parseSliceIndexOrTypeInst := enter_spec parseSliceIndexOrTypeInstBody_spec
  parseLitValue := enter_spec parseLitValueBody_spec
  parseElement := enter_spec parseElementBody_spec
  parseElementValue := enter_spec parseElementValueBody_spec
  parseResult := enter_spec parseResultBody_spec
  paramsList := fun a b => enter_spec (paramsListBody_spec a b)
  parseParameterDecl := enter_spec parseParameterDeclBody_spec
  arrayOrTypeargs := enter_spec arrayOrTypeargsBody_spec
  qualifiedIdent := fun n => enter_spec (qualifiedIdentBody_spec n)
  typeInstance := fun e => enter_spec (typeInstanceBody_spec e)
  parseStmtList := enter_spec parseStmtListBody_spec
  parseStmt := enter_spec parseStmtBody_spec
  parseSimpleStmt := enter_spec parseSimpleStmtBody_spec
  parseBlockStmt := enter_spec parseBlockStmtBody_spec
  parseIfStmt := enter_spec parseIfStmtBody_spec
  parseIfHeader := enter_spec parseIfHeaderBody_spec
  parseSwitchStmt := enter_spec parseSwitchStmtBody_spec
  parseCaseBlock := fun b => enter_spec (parseCaseBlockBody_spec b)
  parseCommStmt := enter_spec parseCommStmtBody_spec
  parseCommBlock := enter_spec parseCommBlockBody_spec
  parseForStmt := enter_spec parseForStmtBody_spec

/-- **every level of the table satisfies the specification** (induction on the fuel) -/
theorem tblOK : ∀ n, TblOK src (tbl n)
  | 0 => tblOK_bot
  | n+1 => @tblOK_step src (tbl n) (tblOK n)

/-! ### entry points: the first `next()` establishes the invariant -/

/-- `next()` from any state over `src` (in particular a fresh parser): afterwards the invariant holds -/
theorem next_establishes (s : PState) (hs : Inv0 src s) :
    match next s with
    | (.ok _, s') => Inv src s'
    | (.error e, s') => ErrOK e s' ∧ Inv0 src s' := by
  rw [next_eq]
  let tr : Option Nat := if s.started then some (lineOfTable s.scan.lines s.scan.pos) else none
  let s1 : PState := { s with started := true }
  have e : (do
      let trailing ← if (← P.get).started then do pure (some (← trueLine (← scanPosition))) else pure none
      P.modify fun s => { s with started := true }
      let posTok ← scanNext
      nextTail trailing posTok : P Unit) s = (scanNext >>= nextTail tr) s1 := by
    cases hst : s.started <;> simp [tr, s1, hst, Bind.bind, P.get, P.modify, trueLine, scanPosition, Pure.pure]
  rw [e]
  have h1 := scanNext_establishes (src := src) s1 (hs.congr rfl rfl rfl (fun _ h => h))
  show match (Bind.bind scanNext (nextTail tr)) s1 with
    | (.ok _, s') => Inv src s'
    | (.error e, s') => ErrOK e s' ∧ Inv0 src s'
  simp only [Bind.bind]
  cases hsn : scanNext s1 with
  | mk r s2 =>
    rw [hsn] at h1
    cases r with
    | error er => exact h1
    | ok a =>
      have := nextTail_spec (src := src) tr a h1.2.2 s2 h1.1 h1.2.1
      dsimp only
      cases hnt : nextTail tr a s2 with
      | mk r3 s3 =>
        rw [hnt] at this
        cases r3 with
        | error e3 => exact this
        | ok u => exact this.1

/-- running `if !started { next() }; k` from a fresh parser -/
theorem entry {α} (k : P α) {Q : α → PState → Prop} (hk : T src Tr k Q) (s : PState) (hs : Inv0 src s)
    (hst : s.started = false) :
    match (do
        if !(← P.get).started then next
        k : P α) s with
    | (.ok a, s') => Inv src s' ∧ Q a s'
    | (.error e, s') => ErrOK e s' ∧ Inv0 src s' := by
  have e : (do
      if !(← P.get).started then next
      k : P α) s = (next >>= fun _ => k) s := by
    simp [Bind.bind, P.get, hst]
  rw [e]
  have h1 := next_establishes (src := src) s hs
  show match (Bind.bind next fun _ => k) s with
    | (.ok a, s') => Inv src s' ∧ Q a s'
    | (.error e, s') => ErrOK e s' ∧ Inv0 src s'
  simp only [Bind.bind]
  cases hn : next s with
  | mk r s2 =>
    rw [hn] at h1
    cases r with
    | error er => exact h1
    | ok u => exact hk s2 h1 trivial

/-! ### `parse_file` -/

section
variable {r : Tbl} [hr : TblOK src r]

theorem parseFile_imports_spec : ∀ fuel acc, (∀ i ∈ acc, RealImport src i) →
    T src Tr (parseFile.imports fuel acc) (fun l _ => ∀ i ∈ l, RealImport src i) := by
  intro fuel
  induction fuel with
  | zero => intro acc _; unfold parseFile.imports; exact T.throw _ (fun _ _ => trivial)
  | succ n ih =>
    intro acc hacc
    unfold parseFile.imports
    refine T.bind (currentIs_spec _) (fun b => ?_)
    refine T.ite (fun _ => ?_) (fun _ => T.pure _ (fun _ _ => hacc))
    refine T.bindP (T.anyQ parseImportDecl_spec) ⟨fun is his => ?_⟩
    refine T.bind (T.anyQ (skipped_spec _)) (fun _ => ?_)
    refine T.anyQ (ih _ ?_)
    intro x hx
    simp only [List.mem_append] at hx
    rcases hx with hx | hx
    · exact hacc x hx
    · exact his x hx

/-- what is carried to the tree for a top-level declaration: declared names are identifier tokens of the
    source, documentation is made of comment tokens of the source -/
def DeclReal (src : Array Char) : Declaration → Prop
  | .Function d => FuncDeclReal src d
  | .Type d => DeclTypeReal src d
  | .Const d => DeclConstReal src d
  | .Variable d => DeclVarReal src d

theorem parseFile_decls_spec : ∀ fuel acc, (∀ d ∈ acc, DeclReal src d) →
    T src Tr (parseFile.decls r fuel acc) (fun l _ => ∀ d ∈ l, DeclReal src d) := by
  intro fuel
  induction fuel with
  | zero => intro acc _; unfold parseFile.decls; exact T.throw _ (fun _ _ => trivial)
  | succ n ih =>
    intro acc hacc
    have hstep : ∀ d, DeclReal src d → ∀ x ∈ acc ++ [d], DeclReal src x := by
      intro d hd x hx
      simp only [List.mem_append, List.mem_singleton] at hx
      rcases hx with hx | rfl
      · exact hacc x hx
      · exact hd
    unfold parseFile.decls
    refine T.bind current_spec (fun c => ?_)
    split
    · exact T.pure _ (fun _ _ => hacc)
    · exact T.bindP (T.anyQ TblOK.parseFuncDecl) ⟨fun d hd => T.anyQ (ih _ (hstep _ hd))⟩
    · exact T.bindP (T.anyQ TblOK.parseDeclVar) ⟨fun d hd => T.anyQ (ih _ (hstep _ hd))⟩
    · exact T.bindP (T.anyQ TblOK.parseDeclType) ⟨fun d hd => T.anyQ (ih _ (hstep _ hd))⟩
    · exact T.bindP (T.anyQ TblOK.parseDeclConst) ⟨fun d hd => T.anyQ (ih _ (hstep _ hd))⟩
    · hoare

/-- the comment list as `File::comments` lists it: strictly increasing offsets, so every comment at most
    once and in source order -/
def CommentsSorted (f : File) : Prop := (f.comments.map (·.pos)).Pairwise (· < ·)

/-- every entry of `File::comments` is a comment token the scanner produces from `src` at that offset -/
def CommentsReal (src : Array Char) (f : File) : Prop := ∀ c ∈ f.comments, RealComment src c

open P in
/-- the end of `parse_file`: the comments move from the parser into the file -/
def parseFileTail (docs : List Comment) (pkgName : Ident) (imps : List Import) (ds : List Declaration) : P File := do
  let s ← get
  set { s with comments := #[] }
  return { path := s.path, line_info := [], docs, pkg_name := pkgName, imports := imps, decl := ds,
           comments := s.comments.toList }

open P in
/-- `parse_file` after the priming `next()` -/
def parseFileRest (r : Tbl) : P File := do
  let docs ← drainComments
  let pkgName ← parsePackage
  let _ ← skipped Operator.SemiColon
  let imps ← parseFile.imports (← loopFuel) []
  let ds ← parseFile.decls r (← loopFuel) []
  parseFileTail docs pkgName imps ds

open P in
theorem parseFile_eq (r : Tbl) : parseFile r = (do
    if !(← get).started then next
    parseFileRest r) := rfl

theorem parseFileTail_spec (docs : List Comment) (pkgName : Ident) (imps : List Import) (ds : List Declaration)
    (hpkg : RealIdent src pkgName) (hdocs : ∀ c ∈ docs, RealComment src c)
    (himps : ∀ i ∈ imps, RealImport src i) (hds : ∀ d ∈ ds, DeclReal src d) :
    T src Tr (parseFileTail docs pkgName imps ds)
      (fun f _ => CommentsSorted f ∧ CommentsReal src f ∧ RealIdent src f.pkg_name ∧
        (∀ c ∈ f.docs, RealComment src c) ∧ (∀ i ∈ f.imports, RealImport src i) ∧
        ∀ d ∈ f.decl, DeclReal src d) := by
  unfold parseFileTail
  refine T.bind T.getInv (fun st => ?_)
  refine T.extract (p := Inv src st) (fun s h => by rw [h.1]; exact h.2.1) (fun hinv => ?_)
  refine T.bind (Q1 := fun _ _ => True) ?_ (fun _ => T.pure _ (fun _ _ => ⟨hinv.sorted, hinv.real, hpkg, hdocs, himps, hds⟩))
  refine T.set _ ?_
  intro s hi hr
  obtain ⟨rfl, _⟩ := hr
  exact ⟨⟨⟨hi.src_eq, by simp, by simp, by simp, hi.cur, hi.lead⟩, hi.mark⟩, trivial⟩

theorem parseFileRest_spec : T src Tr (parseFileRest r)
    (fun f _ => CommentsSorted f ∧ CommentsReal src f ∧ RealIdent src f.pkg_name ∧
      (∀ c ∈ f.docs, RealComment src c) ∧ (∀ i ∈ f.imports, RealImport src i) ∧
      ∀ d ∈ f.decl, DeclReal src d) := by
  unfold parseFileRest
  refine T.bindP drainComments_spec ⟨fun docs hdocs => ?_⟩
  refine T.bindP (T.anyQ parsePackage_spec) ⟨fun pkgName hpkg => ?_⟩
  refine T.bind (T.anyQ (skipped_spec _)) (fun _ => ?_)
  refine T.bind loopFuel_spec (fun fuel => ?_)
  refine T.bindP (T.anyQ (parseFile_imports_spec _ _ (by intro _ h; cases h))) ⟨fun imps himps => ?_⟩
  refine T.bind loopFuel_spec (fun fuel2 => ?_)
  refine T.bindP (T.anyQ (parseFile_decls_spec _ _ (by intro _ h; cases h))) ⟨fun ds hds => ?_⟩
  exact T.anyQ (parseFileTail_spec _ _ _ _ hpkg hdocs himps hds)

end

/-! ### the theorems -/

theorem initState_src (text : String) (profile : Profile) :
    (initState text profile).scan.src = text.toList.toArray ∧ (initState text profile).started = false := ⟨rfl, rfl⟩

theorem initState_inv0 (text : String) (profile : Profile) : Inv0 text.toList.toArray (initState text profile) :=
  ⟨rfl, by simp [initState], by simp [initState], by simp [initState], TokReal.none, by simp [initState]⟩

/-- a result that is a tree or an error value -/
def NoPanic {α} (r : Except PErr α) : Prop := ∀ site, r ≠ .error (.panic site)

theorem noPanic_of {α} {r : Except PErr α} {s : PState} {G : α → PState → Prop} {B : PErr → PState → Prop}
    (h : match (r, s) with
      | (.ok a, s') => G a s'
      | (.error e, s') => ErrOK e s' ∧ B e s') : NoPanic r := by
  intro site hr
  subst hr
  exact absurd (ErrOK.not_panic h.1) (by simp [isPanic])

/-- **`parse_file` / `parse_source` never panics**: for every text, build profile and fuel -/
theorem parseFile_no_panic (text : String) (profile : Profile) (n : Nat) :
    NoPanic (parseFile (tbl n) (initState text profile)).1 := by
  have hk := @parseFileRest_spec text.toList.toArray (tbl n) (tblOK n)
  have := entry (src := text.toList.toArray) (parseFileRest (tbl n)) hk (initState text profile) (initState_inv0 text profile) rfl
  rw [← parseFile_eq] at this
  exact noPanic_of (s := (parseFile (tbl n) (initState text profile)).2) this

theorem runFile_no_panic (text : String) (profile : Profile) : NoPanic (runFile text profile).1 :=
  parseFile_no_panic text profile _

/-- **C11, whole parser: no comment is listed twice or out of order.**  Whenever `parse_file` accepts a
    text, the offsets in `File::comments` are strictly increasing — through every backtracking
    (`goback` forgets exactly the comments it will read again), every `line_end_comment` and every
    error caught on the way -/
theorem parseFile_comments_sorted (text : String) (profile : Profile) (n : Nat) (f : File) (s' : PState)
    (h : parseFile (tbl n) (initState text profile) = (.ok f, s')) : CommentsSorted f := by
  have hk := @parseFileRest_spec text.toList.toArray (tbl n) (tblOK n)
  have := entry (src := text.toList.toArray) (parseFileRest (tbl n)) hk (initState text profile)
    (initState_inv0 text profile) rfl
  rw [← parseFile_eq, h] at this
  exact this.2.1

/-- **C11, whole parser: no comment is invented or altered.**  Whenever `parse_file` accepts a text, every
    entry of `File::comments` is a comment token that the scanner, started in some state over that text,
    produces at exactly the entry's offset, and the entry's text is that token's text -/
theorem parseFile_comments_real (text : String) (profile : Profile) (n : Nat) (f : File) (s' : PState)
    (h : parseFile (tbl n) (initState text profile) = (.ok f, s')) : CommentsReal text.toList.toArray f := by
  have hk := @parseFileRest_spec text.toList.toArray (tbl n) (tblOK n)
  have := entry (src := text.toList.toArray) (parseFileRest (tbl n)) hk (initState text profile)
    (initState_inv0 text profile) rfl
  rw [← parseFile_eq, h] at this
  exact this.2.2.1

/-- **C06 (one leaf), whole parser: the package name is the source's.**  Whenever `parse_file` accepts a
    text, `File::pkg_name` carries the text and the offset of an identifier token that the scanner produces
    from that text (the same holds, at the place of creation, for every `Ident`, `BasicLit` and string
    literal node: `identifier_spec`, `literal_spec`, `stringLiteral_spec`) -/
theorem parseFile_pkg_real (text : String) (profile : Profile) (n : Nat) (f : File) (s' : PState)
    (h : parseFile (tbl n) (initState text profile) = (.ok f, s')) : RealIdent text.toList.toArray f.pkg_name := by
  have hk := @parseFileRest_spec text.toList.toArray (tbl n) (tblOK n)
  have := entry (src := text.toList.toArray) (parseFileRest (tbl n)) hk (initState text profile)
    (initState_inv0 text profile) rfl
  rw [← parseFile_eq, h] at this
  exact this.2.2.2.1

/-- **C12 (one item), whole parser: the file's documentation is made of comments of the source.**  Whenever
    `parse_file` accepts a text, every entry of `File::docs` is a comment token of that text at its offset;
    `drainComments_spec` says the same of what every declaration, spec and field receives -/
theorem parseFile_docs_real (text : String) (profile : Profile) (n : Nat) (f : File) (s' : PState)
    (h : parseFile (tbl n) (initState text profile) = (.ok f, s')) :
    ∀ c ∈ f.docs, RealComment text.toList.toArray c := by
  have hk := @parseFileRest_spec text.toList.toArray (tbl n) (tblOK n)
  have := entry (src := text.toList.toArray) (parseFileRest (tbl n)) hk (initState text profile)
    (initState_inv0 text profile) rfl
  rw [← parseFile_eq, h] at this
  exact this.2.2.2.2.1

/-- **C06 (imports), whole parser: import paths and names are the source's.**  Whenever `parse_file` accepts
    a text, every import of the returned file has as path a string-literal token of that text at its offset,
    and as name (if any) an identifier token or the `.` token at its offset -/
theorem parseFile_imports_real (text : String) (profile : Profile) (n : Nat) (f : File) (s' : PState)
    (h : parseFile (tbl n) (initState text profile) = (.ok f, s')) :
    ∀ i ∈ f.imports, RealImport text.toList.toArray i := by
  have hk := @parseFileRest_spec text.toList.toArray (tbl n) (tblOK n)
  have := entry (src := text.toList.toArray) (parseFileRest (tbl n)) hk (initState text profile)
    (initState_inv0 text profile) rfl
  rw [← parseFile_eq, h] at this
  exact this.2.2.2.2.2.1

/-- **C06 / C12 (top-level declarations), whole parser.**  Whenever `parse_file` accepts a text: the name of
    every top-level function or method, the name of every type spec and every name of every var and const spec
    of the returned file is an identifier token of that text at its offset; and the documentation of every
    declaration and of every spec consists of comment tokens of that text -/
theorem parseFile_decls_real (text : String) (profile : Profile) (n : Nat) (f : File) (s' : PState)
    (h : parseFile (tbl n) (initState text profile) = (.ok f, s')) :
    ∀ d ∈ f.decl, DeclReal text.toList.toArray d := by
  have hk := @parseFileRest_spec text.toList.toArray (tbl n) (tblOK n)
  have := entry (src := text.toList.toArray) (parseFileRest (tbl n)) hk (initState text profile)
    (initState_inv0 text profile) rfl
  rw [← parseFile_eq, h] at this
  exact this.2.2.2.2.2.2

/-- what `RealComment` means in terms of the text alone: the entry's text is found verbatim in the source
    at the entry's offset, and it is not empty -/
theorem RealComment.verbatim {src : Array Char} {c : Comment} (h : RealComment src c) :
    ∃ t : List Char, c.text = String.ofList t ∧ t ≠ [] ∧ t <+: src.toList.drop c.pos := by
  obtain ⟨sc, sc', t, hsrc, hnt, htext⟩ := h
  have hlt := (nextToken_comment sc sc' c.pos t hnt).2
  rcases Gosyn.Props.C05.nextToken_at_pos sc sc' c.pos (.comment t) hnt with ⟨h1, _⟩ | ⟨k, hp, _, hpre, hs'⟩
  · cases h1
  · refine ⟨t, htext, ?_, ?_⟩
    · intro h0
      subst h0
      simp only [Token.text, List.length_nil] at hs'
      omega
    · have : sc.rest.drop k = src.toList.drop c.pos := by
        unfold Scanner.rest
        rw [hp, ← hsrc]
        simp [List.drop_drop, Nat.add_comm]
        rw [List.take_of_length_le (by simp)]
        simp [List.drop_drop, Nat.add_comm]
      rw [← this]
      exact hpre

theorem runFile_comments_real (text : String) (profile : Profile) (f : File) (s' : PState)
    (h : runFile text profile = (.ok f, s')) : CommentsReal text.toList.toArray f :=
  parseFile_comments_real text profile _ f s' h

/-- **C16, whole parser: every error is an error value that points at a place.**  Whenever `parse_file`
    rejects a text (for a reason other than the model's fuel), the error carries the (line, column) that
    `line_info` computes for an offset on the line table as the scanner left it — for an unexpected-token
    error, the offset of that token -/
theorem parseFile_error_located (text : String) (profile : Profile) (n : Nat) (e : PErr) (s' : PState)
    (h : parseFile (tbl n) (initState text profile) = (.error e, s')) : ErrOK e s' := by
  have hk := @parseFileRest_spec text.toList.toArray (tbl n) (tblOK n)
  have := entry (src := text.toList.toArray) (parseFileRest (tbl n)) hk (initState text profile)
    (initState_inv0 text profile) rfl
  rw [← parseFile_eq, h] at this
  exact this.1

theorem runFile_error_located (text : String) (profile : Profile) (e : PErr) (s' : PState)
    (h : runFile text profile = (.error e, s')) : ErrOK e s' :=
  parseFile_error_located text profile _ e s' h

theorem runFile_comments_sorted (text : String) (profile : Profile) (f : File) (s' : PState)
    (h : runFile text profile = (.ok f, s')) : CommentsSorted f :=
  parseFile_comments_sorted text profile _ f s' h

theorem expressionBody_eq (r : Tbl) : expressionBody r = (do
    if !(← P.get).started then next
    r.binaryExpression none 0) := rfl

open P in
/-- `parse_stmt` after the priming `next()` -/
def parseStmtRest (r : Tbl) : P Statement := do
  let some (pos, tok) ← current | elseError "expect statement" "parse_stmt"
  if isSimpleStart tok then
    let stmt ← r.parseSimpleStmt
    let _ ← skipped Operator.SemiColon
    return stmt
  match tok with
  | .keyword .Var | .keyword .Type | .keyword .Const => return .Declaration (← parseDeclStmt r)
  | .operator .BraceLeft => return .Block (← r.parseBlockStmt)
  | .keyword .Go => return .Go (← parseGoStmt r)
  | .keyword .Defer => return .Defer (← parseDeferStmt r)
  | .keyword .Return => return .Return (← parseReturnStmt r)
  | .keyword .If => return .If (← r.parseIfStmt)
  | .keyword .Switch => r.parseSwitchStmt
  | .keyword .Select => return .Select (← parseSelectStmt r)
  | .keyword .For => r.parseForStmt
  | .operator .SemiColon => do next; return .Empty { pos }
  | .operator .BraceRight => return .Empty { pos }
  | .keyword .Break => return .Branch (← parseBranchStmt .Break)
  | .keyword .FallThrough => return .Branch (← parseBranchStmt .FallThrough)
  | .keyword .Continue => return .Branch (← parseBranchStmt .Continue)
  | .keyword .Goto => return .Branch (← parseBranchStmt .Goto)
  | _ => elseErrorAt pos "expect statement" "parse_stmt"

open P in
theorem parseStmtBody_eq (r : Tbl) : parseStmtBody r = (do
    if !(← get).started then next
    parseStmtRest r) := rfl

set_option maxHeartbeats 4000000 in
theorem parseStmtRest_spec {r : Tbl} [TblOK src r] : T src Tr (parseStmtRest r) (fun _ _ => True) := by
  unfold parseStmtRest
  hoare
  all_goals first
    | exact ((parseDeclStmt_spec _ _ (by simp)).pre (fun s h => h.1.symm)).post (fun _ _ _ => trivial)
    | skip
  hoare

/-- `Parser::from(text).expression()` never panics -/
theorem expression_no_panic (text : String) (profile : Profile) (n : Nat) :
    NoPanic ((tbl n).expression (initState text profile)).1 := by
  cases n with
  | zero => intro site h; cases h
  | succ m =>
    have hk : T text.toList.toArray Tr ((tbl m).binaryExpression none 0) (fun e _ => ExprOK e) :=
      (tblOK m).binaryExpression none 0 (by simp)
    let i0 : PState := initState text profile
    let s0 : PState := { i0 with depth := i0.depth + 1, maxDepth := max i0.maxDepth (i0.depth + 1) }
    have := entry (src := text.toList.toArray) _ hk s0 ((initState_inv0 text profile).congr rfl rfl rfl (fun _ h => h)) rfl
    rw [← expressionBody_eq] at this
    show NoPanic (enter (expressionBody (tbl m)) (initState text profile)).1
    unfold enter
    simp only
    exact noPanic_of (s := (expressionBody (tbl m) s0).2) this

theorem runExpr_no_panic (text : String) (profile : Profile) : NoPanic (runExpr text profile).1 :=
  expression_no_panic text profile _

/-- `Parser::from(text).parse_stmt()` never panics -/
theorem parseStmt_no_panic (text : String) (profile : Profile) (n : Nat) :
    NoPanic ((tbl n).parseStmt (initState text profile)).1 := by
  cases n with
  | zero => intro site h; cases h
  | succ m =>
    have hk := @parseStmtRest_spec text.toList.toArray (tbl m) (tblOK m)
    let i0 : PState := initState text profile
    let s0 : PState := { i0 with depth := i0.depth + 1, maxDepth := max i0.maxDepth (i0.depth + 1) }
    have := entry (src := text.toList.toArray) _ hk s0 ((initState_inv0 text profile).congr rfl rfl rfl (fun _ h => h)) rfl
    rw [← parseStmtBody_eq] at this
    show NoPanic (enter (parseStmtBody (tbl m)) (initState text profile)).1
    unfold enter
    simp only
    exact noPanic_of (s := (parseStmtBody (tbl m) s0).2) this

theorem runStmt_no_panic (text : String) (profile : Profile) : NoPanic (runStmt text profile).1 :=
  parseStmt_no_panic text profile _

/-- **C01, model level, all three entry points**: from a fresh parser over any text, in either build
    profile, with any amount of fuel, the result is a tree or an error value -/
theorem entry_points_no_panic (text : String) (profile : Profile) :
    NoPanic (runFile text profile).1 ∧ NoPanic (runExpr text profile).1 ∧ NoPanic (runStmt text profile).1 :=
  ⟨runFile_no_panic text profile, runExpr_no_panic text profile, runStmt_no_panic text profile⟩

/-- repeated calls on one parser (C15's histories): after a call that succeeded, the invariant holds
    and the next call is again free of panics -/
theorem second_call_no_panic {α β} (m1 : P α) (m2 : P β) (Q1 : α → PState → Prop) (Q2 : β → PState → Prop)
    (h1 : T src Tr m1 Q1) (h2 : T src Tr m2 Q2) (s : PState) (hi : Inv src s) (a : α) (s' : PState)
    (hm : m1 s = (.ok a, s')) : NoPanic (m2 s').1 := by
  have := h1 s hi trivial
  rw [hm] at this
  exact noPanic_of (s := (m2 s').2) (h2 s' this.1 trivial)

end Gosyn.Props.Hoare
