import Gosyn.Props.C15c
/-!
C15 — production bodies that do not change the nesting level themselves restore it when their callees do.

`TblLP r`: every entry of a table of callees restores `expr_level` on success.  This module holds the structure, the
rules that let the `lq` calculus of C15c use it, and `Frame` lemmas (the level is never touched, success or failure)
for the remaining helper functions of parser.rs (`check_field_list`, `check_single_expr`, `reset_chan_arrow`,
`identifier_list`, `parse_branch_stmt`, literals, …).  `C15g1–3` then prove, for 18 production bodies, `LQ (body r) 0`
given `TblLP r`: each is discharged by the one tactic `lq`.  The remaining bodies (those with inner loops) and the
induction over the table were attempted in the same way and not finished: with every loop lemma registered as a rule
the tactic's linear scan over ~80 rules exceeds the heartbeat budget (DESIGN §11.7).
-/
namespace Gosyn.Props.C15c
open Gosyn.Gen Gosyn.Model Gosyn.Ast
open Gosyn.Props.C15 Gosyn.Props.C12c

/-- every entry of a table of callees restores the nesting level on success -/
structure TblLP (r : Tbl) : Prop where
  parseFuncDecl : LP r.parseFuncDecl
  parseDeclVar : LP r.parseDeclVar
  parseDeclType : LP r.parseDeclType
  parseDeclConst : LP r.parseDeclConst
  parseTypeSpec : LP r.parseTypeSpec
  parseVarSpec : LP r.parseVarSpec
  parseConstSpec : ∀ (a0 : Nat), LP (r.parseConstSpec a0)
  parseTypeList : LP r.parseTypeList
  type_ : LP r.type_
  typeList : ∀ (a0 : Bool), LP (r.typeList a0)
  typeOrNone : LP r.typeOrNone
  parseTypeParameters : LP r.parseTypeParameters
  funcType : LP r.funcType
  structType : LP r.structType
  fieldDecl : LP r.fieldDecl
  parseInterfaceType : LP r.parseInterfaceType
  parseMethodElem : LP r.parseMethodElem
  parseTypeElem : LP r.parseTypeElem
  parseTypeTerm : LP r.parseTypeTerm
  arrayLen : LP r.arrayLen
  expressionList : LP r.expressionList
  parseNextLevelExpr : LP r.parseNextLevelExpr
  expression : LP r.expression
  binaryExpression : ∀ (a0 : Option Expression) (a1 : Nat), LP (r.binaryExpression a0 a1)
  unaryExpression : LP r.unaryExpression
  primaryExpression : ∀ (a0 : Option Expression), LP (r.primaryExpression a0)
  operand : LP r.operand
  parseSliceIndexOrTypeInst : LP r.parseSliceIndexOrTypeInst
  parseLitValue : LP r.parseLitValue
  parseElement : LP r.parseElement
  parseElementValue : LP r.parseElementValue
  parseResult : LP r.parseResult
  paramsList : ∀ (a0 : Operator) (a1 : Operator), LP (r.paramsList a0 a1)
  parseParameterDecl : LP r.parseParameterDecl
  arrayOrTypeargs : LP r.arrayOrTypeargs
  qualifiedIdent : ∀ (a0 : Option Ident), LP (r.qualifiedIdent a0)
  typeInstance : ∀ (a0 : Expression), LP (r.typeInstance a0)
  parseStmtList : LP r.parseStmtList
  parseStmt : LP r.parseStmt
  parseSimpleStmt : LP r.parseSimpleStmt
  parseBlockStmt : LP r.parseBlockStmt
  parseIfStmt : LP r.parseIfStmt
  parseIfHeader : LP r.parseIfHeader
  parseSwitchStmt : LP r.parseSwitchStmt
  parseCaseBlock : ∀ (a0 : Bool), LP (r.parseCaseBlock a0)
  parseCommStmt : LP r.parseCommStmt
  parseCommBlock : LP r.parseCommBlock
  parseForStmt : LP r.parseForStmt

syntax "lq_tbl" : tactic
macro_rules | `(tactic| lq_tbl) => `(tactic| assumption)
macro_rules | `(tactic| lq_fact) => `(tactic| lq_tbl)
macro_rules | `(tactic| lq_tbl) => `(tactic| exact LQ.of_LP ((‹TblLP _› : TblLP _).parseFuncDecl ))
macro_rules | `(tactic| lq_tbl) => `(tactic| exact LQ.of_LP ((‹TblLP _› : TblLP _).parseDeclVar ))
macro_rules | `(tactic| lq_tbl) => `(tactic| exact LQ.of_LP ((‹TblLP _› : TblLP _).parseDeclType ))
macro_rules | `(tactic| lq_tbl) => `(tactic| exact LQ.of_LP ((‹TblLP _› : TblLP _).parseDeclConst ))
macro_rules | `(tactic| lq_tbl) => `(tactic| exact LQ.of_LP ((‹TblLP _› : TblLP _).parseTypeSpec ))
macro_rules | `(tactic| lq_tbl) => `(tactic| exact LQ.of_LP ((‹TblLP _› : TblLP _).parseVarSpec ))
macro_rules | `(tactic| lq_tbl) => `(tactic| exact LQ.of_LP ((‹TblLP _› : TblLP _).parseConstSpec _))
macro_rules | `(tactic| lq_tbl) => `(tactic| exact LQ.of_LP ((‹TblLP _› : TblLP _).parseTypeList ))
macro_rules | `(tactic| lq_tbl) => `(tactic| exact LQ.of_LP ((‹TblLP _› : TblLP _).type_ ))
macro_rules | `(tactic| lq_tbl) => `(tactic| exact LQ.of_LP ((‹TblLP _› : TblLP _).typeList _))
macro_rules | `(tactic| lq_tbl) => `(tactic| exact LQ.of_LP ((‹TblLP _› : TblLP _).typeOrNone ))
macro_rules | `(tactic| lq_tbl) => `(tactic| exact LQ.of_LP ((‹TblLP _› : TblLP _).parseTypeParameters ))
macro_rules | `(tactic| lq_tbl) => `(tactic| exact LQ.of_LP ((‹TblLP _› : TblLP _).funcType ))
macro_rules | `(tactic| lq_tbl) => `(tactic| exact LQ.of_LP ((‹TblLP _› : TblLP _).structType ))
macro_rules | `(tactic| lq_tbl) => `(tactic| exact LQ.of_LP ((‹TblLP _› : TblLP _).fieldDecl ))
macro_rules | `(tactic| lq_tbl) => `(tactic| exact LQ.of_LP ((‹TblLP _› : TblLP _).parseInterfaceType ))
macro_rules | `(tactic| lq_tbl) => `(tactic| exact LQ.of_LP ((‹TblLP _› : TblLP _).parseMethodElem ))
macro_rules | `(tactic| lq_tbl) => `(tactic| exact LQ.of_LP ((‹TblLP _› : TblLP _).parseTypeElem ))
macro_rules | `(tactic| lq_tbl) => `(tactic| exact LQ.of_LP ((‹TblLP _› : TblLP _).parseTypeTerm ))
macro_rules | `(tactic| lq_tbl) => `(tactic| exact LQ.of_LP ((‹TblLP _› : TblLP _).arrayLen ))
macro_rules | `(tactic| lq_tbl) => `(tactic| exact LQ.of_LP ((‹TblLP _› : TblLP _).expressionList ))
macro_rules | `(tactic| lq_tbl) => `(tactic| exact LQ.of_LP ((‹TblLP _› : TblLP _).parseNextLevelExpr ))
macro_rules | `(tactic| lq_tbl) => `(tactic| exact LQ.of_LP ((‹TblLP _› : TblLP _).expression ))
macro_rules | `(tactic| lq_tbl) => `(tactic| exact LQ.of_LP ((‹TblLP _› : TblLP _).binaryExpression _ _))
macro_rules | `(tactic| lq_tbl) => `(tactic| exact LQ.of_LP ((‹TblLP _› : TblLP _).unaryExpression ))
macro_rules | `(tactic| lq_tbl) => `(tactic| exact LQ.of_LP ((‹TblLP _› : TblLP _).primaryExpression _))
macro_rules | `(tactic| lq_tbl) => `(tactic| exact LQ.of_LP ((‹TblLP _› : TblLP _).operand ))
macro_rules | `(tactic| lq_tbl) => `(tactic| exact LQ.of_LP ((‹TblLP _› : TblLP _).parseSliceIndexOrTypeInst ))
macro_rules | `(tactic| lq_tbl) => `(tactic| exact LQ.of_LP ((‹TblLP _› : TblLP _).parseLitValue ))
macro_rules | `(tactic| lq_tbl) => `(tactic| exact LQ.of_LP ((‹TblLP _› : TblLP _).parseElement ))
macro_rules | `(tactic| lq_tbl) => `(tactic| exact LQ.of_LP ((‹TblLP _› : TblLP _).parseElementValue ))
macro_rules | `(tactic| lq_tbl) => `(tactic| exact LQ.of_LP ((‹TblLP _› : TblLP _).parseResult ))
macro_rules | `(tactic| lq_tbl) => `(tactic| exact LQ.of_LP ((‹TblLP _› : TblLP _).paramsList _ _))
macro_rules | `(tactic| lq_tbl) => `(tactic| exact LQ.of_LP ((‹TblLP _› : TblLP _).parseParameterDecl ))
macro_rules | `(tactic| lq_tbl) => `(tactic| exact LQ.of_LP ((‹TblLP _› : TblLP _).arrayOrTypeargs ))
macro_rules | `(tactic| lq_tbl) => `(tactic| exact LQ.of_LP ((‹TblLP _› : TblLP _).qualifiedIdent _))
macro_rules | `(tactic| lq_tbl) => `(tactic| exact LQ.of_LP ((‹TblLP _› : TblLP _).typeInstance _))
macro_rules | `(tactic| lq_tbl) => `(tactic| exact LQ.of_LP ((‹TblLP _› : TblLP _).parseStmtList ))
macro_rules | `(tactic| lq_tbl) => `(tactic| exact LQ.of_LP ((‹TblLP _› : TblLP _).parseStmt ))
macro_rules | `(tactic| lq_tbl) => `(tactic| exact LQ.of_LP ((‹TblLP _› : TblLP _).parseSimpleStmt ))
macro_rules | `(tactic| lq_tbl) => `(tactic| exact LQ.of_LP ((‹TblLP _› : TblLP _).parseBlockStmt ))
macro_rules | `(tactic| lq_tbl) => `(tactic| exact LQ.of_LP ((‹TblLP _› : TblLP _).parseIfStmt ))
macro_rules | `(tactic| lq_tbl) => `(tactic| exact LQ.of_LP ((‹TblLP _› : TblLP _).parseIfHeader ))
macro_rules | `(tactic| lq_tbl) => `(tactic| exact LQ.of_LP ((‹TblLP _› : TblLP _).parseSwitchStmt ))
macro_rules | `(tactic| lq_tbl) => `(tactic| exact LQ.of_LP ((‹TblLP _› : TblLP _).parseCaseBlock _))
macro_rules | `(tactic| lq_tbl) => `(tactic| exact LQ.of_LP ((‹TblLP _› : TblLP _).parseCommStmt ))
macro_rules | `(tactic| lq_tbl) => `(tactic| exact LQ.of_LP ((‹TblLP _› : TblLP _).parseCommBlock ))
macro_rules | `(tactic| lq_tbl) => `(tactic| exact LQ.of_LP ((‹TblLP _› : TblLP _).parseForStmt ))

theorem Frame.map {α β} {m : P α} {f : α → β} (h : Frame m) : Frame (f <$> m) := by
  rw [map_eq]; exact Frame.bind h (fun a => Frame.pure _)
macro_rules | `(tactic| frame_step) => `(tactic| refine Frame.map ?_)

theorem fr_exprPosP (e : Expression) : Frame (exprPosP e) := by
  unfold exprPosP; frame
macro_rules | `(tactic| fr_prim) => `(tactic| exact fr_exprPosP _)

theorem fr_checkBrace (e : Expression) : Frame (checkBrace e) := by
  unfold checkBrace; frame
macro_rules | `(tactic| fr_prim) => `(tactic| exact fr_checkBrace _)

theorem fr_isTok (k : TokenKind) : Frame (isTok k) := by
  unfold isTok; frame
macro_rules | `(tactic| fr_prim) => `(tactic| exact fr_isTok _)

theorem fr_literal  : Frame (literal) := by
  unfold literal; frame
macro_rules | `(tactic| fr_prim) => `(tactic| exact fr_literal)

theorem fr_stmtListStop  : Frame (stmtListStop) := by
  unfold stmtListStop; frame
macro_rules | `(tactic| fr_prim) => `(tactic| exact fr_stmtListStop)

theorem fr_stringLiteralOrNone  : Frame (stringLiteralOrNone) := by
  unfold stringLiteralOrNone; frame
macro_rules | `(tactic| fr_prim) => `(tactic| exact fr_stringLiteralOrNone)

theorem fr_stringLiteral  : Frame (stringLiteral) := by
  unfold stringLiteral; frame
macro_rules | `(tactic| fr_prim) => `(tactic| exact fr_stringLiteral)

theorem fr_identifierListLoop (fuel : Nat) (acc : List Ident) : Frame (identifierListLoop fuel acc) := by
  induction fuel generalizing acc with
  | zero => unfold identifierListLoop; frame
  | succ fuel ih => unfold identifierListLoop; repeat (first | exact ih _ | with_reducible frame_step)
macro_rules | `(tactic| fr_prim) => `(tactic| exact fr_identifierListLoop _ _)

theorem fr_fieldListPos (f : FieldList) : Frame (fieldListPos f) := by
  unfold fieldListPos; frame
macro_rules | `(tactic| fr_prim) => `(tactic| exact fr_fieldListPos _)

theorem fr_checkSingleExpr (l : List Expression) : Frame (checkSingleExpr l) := by
  unfold checkSingleExpr; frame
macro_rules | `(tactic| fr_prim) => `(tactic| exact fr_checkSingleExpr _)

theorem fr_parseBranchStmt (k : Keyword) : Frame (parseBranchStmt k) := by
  unfold parseBranchStmt; frame
macro_rules | `(tactic| fr_prim) => `(tactic| exact fr_parseBranchStmt _)

theorem fr_identifierList (f : Option Ident) : Frame (identifierList f) := by
  unfold identifierList; frame
macro_rules | `(tactic| fr_prim) => `(tactic| exact fr_identifierList _)

theorem fr_checkAssignStmt (l : List Expression) : Frame (checkAssignStmt l) := by
  induction l with
  | nil => unfold checkAssignStmt; frame
  | cons e es ih => unfold checkAssignStmt; frame
macro_rules | `(tactic| fr_prim) => `(tactic| exact fr_checkAssignStmt _)

theorem fr_whileLoop (step : P Bool) (h : Frame step) (fuel : Nat) : Frame (whileLoop step fuel) := by
  induction fuel with
  | zero => unfold whileLoop; frame
  | succ fuel ih => unfold whileLoop; frame
macro_rules | `(tactic| fr_prim) => `(tactic| exact fr_whileLoop _ (by assumption) _)

theorem fr_resetChanArrow (p : Nat) (c : ChannelType) : Frame (resetChanArrow p c) := by
  fun_induction resetChanArrow p c <;> frame
macro_rules | `(tactic| fr_prim) => `(tactic| exact fr_resetChanArrow _ _)

theorem fr_checkFieldList_go (b named : Bool) (pos n : Nat) (l : List Field) (i : Nat) : Frame (checkFieldList.go b named pos n l i) := by
  induction l generalizing i with
  | nil => unfold checkFieldList.go; frame
  | cons f fs ih => unfold checkFieldList.go; repeat (first | exact ih _ | with_reducible frame_step)
macro_rules | `(tactic| fr_prim) => `(tactic| exact fr_checkFieldList_go _ _ _ _ _ _)

theorem fr_checkFieldList (f : FieldList) (b : Bool) : Frame (checkFieldList f b) := by
  unfold checkFieldList; frame
macro_rules | `(tactic| fr_prim) => `(tactic| exact fr_checkFieldList _ _)

end Gosyn.Props.C15c
