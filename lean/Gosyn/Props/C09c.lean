import Gosyn.Props.C09b
/-!
C09, completeness of the number scanner: every `int_lit`, `float_lit` and `imaginary_lit` of the
spec, followed by a character that cannot continue a number, is accepted whole with the spec's kind.
-/
namespace Gosyn.Props.C09
open Gosyn.Gen Gosyn.Model Gosyn.Spec

/-- `[ "." [ digits ] ]` as the scanner sees it -/
def FacOK (V : Char → Bool) (fac : List Char) : Prop :=
  fac = [] ∨ ∃ b, fac = '.' :: b ∧ (b = [] ∨ Digits V b)

/-- `[ marker [sign] decimal_digits ]` -/
def ExpOK (m1 m2 : Char) (exp : List Char) : Prop :=
  exp = [] ∨ ∃ m sg ds, exp = m :: (sg ++ ds) ∧ (m = m1 ∨ m = m2) ∧ OptSign sg ∧ Digits isDec ds

theorem scanDigits_stop (V : Char → Bool) (rest : List Char) (hs : Stop V rest) : scanDigits V rest = [] := by
  cases rest with
  | nil => simp [scanDigits, scanDigitsGo]
  | cons c r =>
    have := hs c rfl
    simp [scanDigits, scanDigitsGo, this.1, this.2]

theorem digits_chars {V : Char → Bool} {ds : List Char} (h : Digits V ds) : ∀ c ∈ ds, V c = true ∨ c = '_' := by
  induction h with
  | one hv => intro c hc; simp at hc; subst hc; exact .inl hv
  | cons hv _ ih =>
    intro c hc
    simp at hc
    rcases hc with rfl | hc
    · exact .inl hv
    · exact ih c hc
  | sep hv _ ih =>
    intro c hc
    simp at hc
    rcases hc with rfl | rfl | hc
    · exact .inl hv
    · exact .inr rfl
    · exact ih c hc

theorem digits_getLast {V : Char → Bool} {ds : List Char} (h : Digits V ds) : ∃ c, ds.getLast? = some c ∧ V c = true := by
  induction h with
  | one hv => exact ⟨_, rfl, hv⟩
  | @cons c cs hv hd ih =>
    obtain ⟨z, hz, hvz⟩ := ih
    refine ⟨z, ?_, hvz⟩
    rw [getLast_cons_ne c cs (digits_ne_nil hd)]; exact hz
  | @sep c cs hv hd ih =>
    obtain ⟨z, hz, hvz⟩ := ih
    refine ⟨z, ?_, hvz⟩
    rw [getLast_cons_ne c _ (by simp), getLast_cons_ne '_' cs (digits_ne_nil hd)]; exact hz

/-- the fraction is re-read whole -/
theorem facPartOf_complete (radix : Nat) (fac r : List Char)
    (hf : FacOK (if radix = 16 then isHexDigit else isDecimalDigit) fac)
    (hs : Stop (if radix = 16 then isHexDigit else isDecimalDigit) r) (hdot : fac = [] → r.head? ≠ some '.') :
    facPartOf radix (fac ++ r) = fac := by
  have hu : (if radix = 16 then isHexDigit else isDecimalDigit) '_' = false := by
    split
    · exact isHexD_u
    · exact isDec_u
  rcases hf with rfl | ⟨b, rfl, hb⟩
  · exact facPartOf_nodot radix _ (hdot rfl)
  · rw [facPartOf_dot radix _ rfl]
    simp only [List.cons_append, List.drop_succ_cons, List.drop_zero, List.cons.injEq, true_and]
    rcases hb with rfl | hb
    · exact scanDigits_stop _ _ hs
    · exact scanDigits_complete _ hu b r hb hs

/-- the exponent is re-read whole -/
theorem expPartOf_complete (m1 m2 : Char) (hm : ∀ m, m = m1 ∨ m = m2 → m = 'e' ∨ m = 'E' ∨ m = 'p' ∨ m = 'P')
    (exp r : List Char) (he : ExpOK m1 m2 exp) (hs : Stop isDecimalDigit r)
    (hno : exp = [] → ∀ c, r.head? = some c → c ≠ 'e' ∧ c ≠ 'E' ∧ c ≠ 'p' ∧ c ≠ 'P') :
    expPartOf (exp ++ r) = exp := by
  rcases he with rfl | ⟨m, sg, ds, rfl, hmm, hsg, hd⟩
  · cases r with
    | nil => rfl
    | cons c r' =>
      obtain ⟨h1, h2, h3, h4⟩ := hno rfl c rfl
      simp [expPartOf, h1, h2, h3, h4]
  · have hm' := hm m hmm
    have hmb : (m = 'e' || m = 'E' || m = 'p' || m = 'P') = true := by
      rcases hm' with rfl | rfl | rfl | rfl <;> rfl
    obtain ⟨d, tl, hde, hdv⟩ := digits_head hd
    have hdns : ¬ (d = '+' ∨ d = '-') := by
      intro h; rcases h with rfl | rfl <;> exact absurd hdv (by decide)
    rcases hsg with rfl | rfl | rfl
    · subst hde
      simp only [List.nil_append, List.cons_append, expPartOf, hmb, if_true]
      have : (d = '+' || d = '-') = false := by simpa using hdns
      simp only [this, Bool.false_eq_true, if_false, List.cons.injEq, true_and]
      have := scanDigits_complete isDecimalDigit isDec_u (d :: tl) r hd hs
      simpa using this
    · simp only [List.cons_append, List.nil_append, expPartOf, hmb, if_true, Bool.true_or, decide_true,
        List.cons.injEq, true_and]
      exact scanDigits_complete isDecimalDigit isDec_u ds r hd hs
    · simp only [List.cons_append, List.nil_append, expPartOf, hmb, if_true, Bool.or_true, decide_true,
        List.cons.injEq, true_and]
      exact scanDigits_complete isDecimalDigit isDec_u ds r hd hs

theorem fac_checks {V : Char → Bool} (hu : V '_' = false) {fac : List Char} (hf : FacOK V fac) :
    fac.take 2 ≠ ['.', '_'] ∧ endsWith fac '_' = false := by
  rcases hf with rfl | ⟨b, rfl, hb⟩
  · exact ⟨by simp, rfl⟩
  · rcases hb with rfl | hb
    · exact ⟨by simp, by decide⟩
    · obtain ⟨d, tl, rfl, hd⟩ := digits_head hb
      have hdu : d ≠ '_' := by intro e; subst e; rw [hu] at hd; cases hd
      refine ⟨by simp [hdu], ?_⟩
      rw [endsWith_cons _ _ _ (by simp)]
      exact digits_last hb hu

theorem exp_checks {m1 m2 : Char} {exp : List Char} (he : ExpOK m1 m2 exp) :
    (exp ≠ [] → ∃ c, exp.getLast? = some c ∧ isDecimalDigit c = true) ∧
    ((exp.drop 1).find? (fun ch => ch ≠ '+' && ch ≠ '-')) ≠ some '_' ∧ endsWith exp '_' = false := by
  rcases he with rfl | ⟨m, sg, ds, rfl, _, hsg, hd⟩
  · exact ⟨fun h => absurd rfl h, by simp, rfl⟩
  · obtain ⟨z, hz, hzv⟩ := digits_getLast hd
    have hne : sg ++ ds ≠ [] := by simp [digits_ne_nil hd]
    have hlast : (m :: (sg ++ ds)).getLast? = some z := by
      rw [getLast_cons_ne _ _ hne, List.getLast?_append, hz]; rfl
    obtain ⟨d, tl, hde, hdv⟩ := digits_head hd
    have hdu : d ≠ '_' := by intro e; subst e; exact absurd hdv (by decide)
    have hdns : d ≠ '+' ∧ d ≠ '-' := by
      constructor <;> (intro e; subst e; exact absurd hdv (by decide))
    refine ⟨fun _ => ⟨z, hlast, hzv⟩, ?_, ?_⟩
    · subst hde
      rcases hsg with rfl | rfl | rfl <;> simp [List.find?, hdns.1, hdns.2, hdu]
    · unfold endsWith
      rw [hlast]
      have : z ≠ '_' := by intro e; subst e; exact absurd hzv (by decide)
      simp [this]

theorem numExp_ok (radix : Nat) (cs mant fac exp : List Char)
    (h1 : exp ≠ [] → ∃ c, exp.getLast? = some c ∧ isDecimalDigit c = true)
    (h2 : ¬ (radix = 16 ∧ fac ≠ [] ∧ exp = []))
    (h3 : ((exp.drop 1).find? (fun ch => ch ≠ '+' && ch ≠ '-')) ≠ some '_') (h4 : endsWith exp '_' = false) :
    numExp radix cs mant fac exp = numFinish radix cs (mant ++ exp) (!fac.isEmpty || !exp.isEmpty) := by
  unfold numExp
  by_cases hen : exp = []
  · subst hen
    have h2' : ¬ (radix = 16 ∧ fac ≠ []) := fun ⟨a, b⟩ => h2 ⟨a, b, rfl⟩
    simp only [List.isEmpty_nil, Bool.not_true, Bool.false_and, Bool.false_eq_true, if_false]
    rw [if_neg (by simpa using h2')]
    rw [if_neg (by simp [endsWith])]
  · obtain ⟨c, hcl, hv⟩ := h1 hen
    rw [hcl]
    simp only [hv, Bool.not_true, Bool.and_false, Bool.false_eq_true, if_false]
    rw [if_neg (by simp [hen])]
    have c3 : ¬ ((decide ((exp.drop 1).find? (fun ch => ch ≠ '+' && ch ≠ '-') = some '_') || endsWith exp '_') = true) := by
      rw [h4, Bool.or_false, decide_eq_true_eq]; exact h3
    rw [if_neg c3]

/-- **the staged scanner on a well-shaped literal**: all eleven checks pass and the classification
    step is reached with exactly the three parts -/
theorem with_complete (radix : Nat) (int fac exp r : List Char) (m1 m2 : Char)
    (hint : endsWith int '_' = false)
    (h89 : ¬ (radix = 8 ∧ (int.contains '8' = true ∨ int.contains '9' = true)))
    (hfp : facPartOf radix (fac ++ (exp ++ r)) = fac)
    (hxp : expPartOf (exp ++ r) = exp)
    (hf : FacOK (if radix = 16 then isHexDigit else isDecimalDigit) fac)
    (hx : ExpOK m1 m2 exp)
    (hdot : fac = [] ∨ (radix ≠ 2 ∧ radix ≠ 8))
    (hmne : int ++ fac ≠ [])
    (hmd : ¬ (radix ≠ 10 ∧ int.length = 2 ∧ fac.length ≤ 1))
    (hne : ¬ (radix ≠ 10 ∧ ((exp ++ r).head? = some 'e' ∨ (exp ++ r).head? = some 'E')))
    (hnp : ¬ (radix ≠ 16 ∧ ((exp ++ r).head? = some 'p' ∨ (exp ++ r).head? = some 'P')))
    (hhe : ¬ (radix = 16 ∧ fac ≠ [] ∧ exp = [])) :
    scanLitNumberWith radix int (int ++ (fac ++ (exp ++ r))) =
      numFinish radix (int ++ (fac ++ (exp ++ r))) (int ++ fac ++ exp) (!fac.isEmpty || !exp.isEmpty) := by
  have hu : (if radix = 16 then isHexDigit else isDecimalDigit) '_' = false := by
    split
    · exact isHexD_u
    · exact isDec_u
  obtain ⟨hfl, hfe⟩ := fac_checks hu hf
  obtain ⟨hx1, hx2, hx3⟩ := exp_checks hx
  have hd1 : (int ++ (fac ++ (exp ++ r))).drop int.length = fac ++ (exp ++ r) := List.drop_left
  have hd2 : (int ++ (fac ++ (exp ++ r))).drop (int ++ fac).length = exp ++ r := by
    rw [← List.append_assoc]; exact List.drop_left
  have hdotc : ¬ ((fac ++ (exp ++ r)).head? = some '.' ∧ (radix = 2 ∨ radix = 8)) := by
    rintro ⟨hh, hr⟩
    rcases hdot with rfl | ⟨h2, h8⟩
    · have := facPartOf_dot radix _ hh
      rw [hfp] at this; cases this
    · rcases hr with h | h
      · exact h2 h
      · exact h8 h
  unfold scanLitNumberWith
  rw [if_neg (by simp [hint])]
  rw [if_neg (by simpa using h89)]
  simp only [hd1]
  rw [if_neg (by simpa using hdotc)]
  rw [hfp]
  rw [if_neg (by simp [hfl, hfe])]
  unfold numMant
  simp only [hd2]
  rw [if_neg (by simpa using hmne)]
  rw [if_neg (by simpa using hmd)]
  rw [if_neg (by simpa using hne)]
  rw [if_neg (by simpa using hnp)]
  rw [hxp]
  exact numExp_ok radix _ _ fac exp hx1 hhe hx2 hx3

/-! ### what may follow -/

/-- the next character cannot continue the digits, fraction, exponent or prefix of a number -/
def CoreStop (r : List Char) : Prop :=
  ∀ c, r.head? = some c → isHex c = false ∧ c ≠ '_' ∧ c ≠ '.' ∧ c ≠ 'p' ∧ c ≠ 'P' ∧ c ≠ 'x' ∧ c ≠ 'X' ∧ c ≠ 'o' ∧ c ≠ 'O'

theorem hex_of_dec (c : Char) (h : isDecimalDigit c = true) : isHex c = true := by
  have : isDec c = true := h
  unfold isHex; unfold isDec at this; simp [this]

theorem hex_of_bin (c : Char) (h : isBinaryDigit c = true) : isHex c = true := by
  unfold isBinaryDigit at h
  have : c = '0' ∨ c = '1' := by simpa using h
  rcases this with rfl | rfl <;> decide

theorem CoreStop.hex {r} (h : CoreStop r) : Stop isHexDigit r := by
  intro c hc; obtain ⟨h1, h2, _⟩ := h c hc
  exact ⟨by rw [isHexD_eq]; exact h1, h2⟩

theorem CoreStop.dec {r} (h : CoreStop r) : Stop isDecimalDigit r := by
  intro c hc; obtain ⟨h1, h2, _⟩ := h c hc
  refine ⟨?_, h2⟩
  cases hd : isDecimalDigit c with
  | false => rfl
  | true => rw [hex_of_dec c hd] at h1; cases h1

theorem CoreStop.bin {r} (h : CoreStop r) : Stop isBinaryDigit r := by
  intro c hc; obtain ⟨h1, h2, _⟩ := h c hc
  refine ⟨?_, h2⟩
  cases hd : isBinaryDigit c with
  | false => rfl
  | true => rw [hex_of_bin c hd] at h1; cases h1

/-- the head of `fac ++ (exp ++ r)` is `.`, the marker, or the head of `r` -/
theorem head_fac_exp {V : Char → Bool} {m1 m2 : Char} {fac exp r : List Char} (hf : FacOK V fac) (hx : ExpOK m1 m2 exp)
    (c : Char) (hc : (fac ++ (exp ++ r)).head? = some c) :
    (fac ≠ [] ∧ c = '.') ∨ (fac = [] ∧ exp ≠ [] ∧ (c = m1 ∨ c = m2)) ∨ (fac = [] ∧ exp = [] ∧ r.head? = some c) := by
  rcases hf with rfl | ⟨b, rfl, _⟩
  · rcases hx with rfl | ⟨m, sg, ds, rfl, hm, _, _⟩
    · exact .inr (.inr ⟨rfl, rfl, by simpa using hc⟩)
    · right; left
      simp only [List.nil_append, List.cons_append, List.head?_cons, Option.some.injEq] at hc
      subst hc
      exact ⟨rfl, by simp, hm⟩
  · left
    simp only [List.cons_append, List.head?_cons, Option.some.injEq] at hc
    exact ⟨by simp, hc.symm⟩

theorem stop_fac_exp {V : Char → Bool} {W : Char → Bool} {m1 m2 : Char} {fac exp r : List Char} (hf : FacOK V fac)
    (hx : ExpOK m1 m2 exp) (hr : Stop W r) (hd : W '.' = false) (h1 : W m1 = false ∧ m1 ≠ '_')
    (h2 : W m2 = false ∧ m2 ≠ '_') : Stop W (fac ++ (exp ++ r)) := by
  intro c hc
  rcases head_fac_exp hf hx c hc with ⟨_, rfl⟩ | ⟨_, _, rfl | rfl⟩ | ⟨_, _, h⟩
  · exact ⟨hd, by decide⟩
  · exact h1
  · exact h2
  · exact hr c h

/-! ### decimal shapes -/

theorem isDecD_eq : isDecimalDigit = isDec := rfl

theorem dec_complete (a fac exp r : List Char) (ha : Digits isDec a) (hf : FacOK isDec fac) (hx : ExpOK 'e' 'E' exp)
    (hr : CoreStop r) :
    scanLitNumber (a ++ (fac ++ (exp ++ r))) =
      numFinish 10 (a ++ (fac ++ (exp ++ r))) (a ++ fac ++ exp) (!fac.isEmpty || !exp.isEmpty) := by
  have hstop : Stop isDecimalDigit (fac ++ (exp ++ r)) :=
    stop_fac_exp hf hx hr.dec (by decide) ⟨by decide, by decide⟩ ⟨by decide, by decide⟩
  have hstop2 : Stop isDecimalDigit (exp ++ r) :=
    stop_fac_exp (V := isDec) (.inl rfl) hx hr.dec (by decide) ⟨by decide, by decide⟩ ⟨by decide, by decide⟩
  have hrun : scanDigits isDecimalDigit (a ++ (fac ++ (exp ++ r))) = a :=
    scanDigits_complete isDecimalDigit isDec_u a _ ha hstop
  -- the prefix
  have hpre : numPrefix (a ++ (fac ++ (exp ++ r))) = (10, a) := by
    obtain ⟨c, a', rfl, hc⟩ := digits_head ha
    have key : ∀ b rest, a' ++ (fac ++ (exp ++ r)) = b :: rest →
        b ≠ 'b' ∧ b ≠ 'B' ∧ b ≠ 'o' ∧ b ≠ 'O' ∧ b ≠ 'x' ∧ b ≠ 'X' := by
      intro b rest hb
      cases a' with
      | nil =>
        have hh : (fac ++ (exp ++ r)).head? = some b := by
          simp only [List.nil_append] at hb; rw [hb]; rfl
        rcases head_fac_exp hf hx b hh with ⟨_, rfl⟩ | ⟨_, _, rfl | rfl⟩ | ⟨_, _, h⟩
        · decide
        · decide
        · decide
        · obtain ⟨h1, _, _, _, _, h6, h7, h8, h9⟩ := hr b h
          refine ⟨?_, ?_, h8, h9, h6, h7⟩
          · intro e; subst e; exact absurd h1 (by decide)
          · intro e; subst e; exact absurd h1 (by decide)
      | cons d a'' =>
        simp only [List.cons_append, List.cons.injEq] at hb
        have hd : isDec d = true ∨ d = '_' := digits_chars ha d (by simp)
        rw [← hb.1]
        rcases hd with hd | rfl
        · refine ⟨?_, ?_, ?_, ?_, ?_, ?_⟩ <;> (intro e; subst e; exact absurd hd (by decide))
        · decide
    simp only [List.cons_append] at hrun ⊢
    rcases numPrefix_digit c (a' ++ (fac ++ (exp ++ r))) hc with ⟨b, rest, e, _, hb, _⟩ | ⟨b, rest, e, _, hb, _⟩ |
      ⟨b, rest, e, _, hb, _⟩ | e
    · obtain ⟨k1, k2, _⟩ := key b rest e
      rcases hb with rfl | rfl
      · exact absurd rfl k1
      · exact absurd rfl k2
    · obtain ⟨_, _, k3, k4, _⟩ := key b rest e
      rcases hb with rfl | rfl
      · exact absurd rfl k3
      · exact absurd rfl k4
    · obtain ⟨_, _, _, _, k5, k6⟩ := key b rest e
      rcases hb with rfl | rfl
      · exact absurd rfl k5
      · exact absurd rfl k6
    · rw [e, hrun]
  unfold scanLitNumber
  rw [hpre]
  refine with_complete 10 a fac exp r 'e' 'E' (digits_last ha isDec_u) (by simp) ?_ ?_ ?_ hx
    (.inr ⟨by decide, by decide⟩) ?_ (by simp) (by simp) ?_ (by simp)
  · refine facPartOf_complete 10 fac (exp ++ r)
      (by simp only [show ¬ ((10 : Nat) = 16) by decide, if_false]; exact hf)
      (by simp only [show ¬ ((10 : Nat) = 16) by decide, if_false]; exact hstop2) ?_
    intro _ hh
    rcases head_fac_exp (V := isDec) (.inl rfl) hx '.' (by simpa using hh) with ⟨h, _⟩ | ⟨_, _, h | h⟩ | ⟨_, _, h⟩
    · exact absurd rfl h
    · cases h
    · cases h
    · exact (hr '.' h).2.2.1 rfl
  · refine expPartOf_complete 'e' 'E' (by intro m hm; rcases hm with rfl | rfl <;> simp) exp r hx hr.dec ?_
    intro _ c hc
    obtain ⟨h1, _, _, h4, h5, _⟩ := hr c hc
    refine ⟨?_, ?_, h4, h5⟩
    · intro e; subst e; exact absurd h1 (by decide)
    · intro e; subst e; exact absurd h1 (by decide)
  · simp only [show ¬ ((10 : Nat) = 16) by decide, if_false]; exact hf
  · simp [digits_ne_nil ha]
  · rintro ⟨_, hh⟩
    have : ∀ c, (exp ++ r).head? = some c → c ≠ 'p' ∧ c ≠ 'P' := by
      intro c hc
      rcases head_fac_exp (V := isDec) (.inl rfl) hx c (by simpa using hc) with ⟨h, _⟩ | ⟨_, _, rfl | rfl⟩ | ⟨_, _, h⟩
      · exact absurd rfl h
      · decide
      · decide
      · obtain ⟨_, _, _, h4, h5, _⟩ := hr c h
        exact ⟨h4, h5⟩
    rcases hh with hh | hh
    · exact (this _ hh).1 rfl
    · exact (this _ hh).2 rfl

theorem exp_side_e {exp r : List Char} (hx : ExpOK 'e' 'E' exp) (hr : CoreStop r) :
    expPartOf (exp ++ r) = exp ∧ ¬ ((exp ++ r).head? = some 'p' ∨ (exp ++ r).head? = some 'P') ∧
      (exp ++ r).head? ≠ some '.' := by
  have hhead : ∀ c, (exp ++ r).head? = some c → c ≠ 'p' ∧ c ≠ 'P' ∧ c ≠ '.' := by
    intro c hc
    rcases head_fac_exp (V := isDec) (.inl rfl) hx c (by simpa using hc) with ⟨h, _⟩ | ⟨_, _, rfl | rfl⟩ | ⟨_, _, h⟩
    · exact absurd rfl h
    · decide
    · decide
    · obtain ⟨_, _, h3, h4, h5, _⟩ := hr c h
      exact ⟨h4, h5, h3⟩
  refine ⟨?_, ?_, fun h => (hhead _ h).2.2 rfl⟩
  · refine expPartOf_complete 'e' 'E' (by intro m hm; rcases hm with rfl | rfl <;> simp) exp r hx hr.dec ?_
    intro _ c hc
    obtain ⟨h1, _, _, h4, h5, _⟩ := hr c hc
    refine ⟨?_, ?_, h4, h5⟩
    · intro e; subst e; exact absurd h1 (by decide)
    · intro e; subst e; exact absurd h1 (by decide)
  · rintro (hh | hh)
    · exact (hhead _ hh).1 rfl
    · exact (hhead _ hh).2.1 rfl

theorem dot_complete (b exp r : List Char) (hb : Digits isDec b) (hx : ExpOK 'e' 'E' exp) (hr : CoreStop r) :
    scanLitNumber ([] ++ ('.' :: b ++ (exp ++ r))) =
      numFinish 10 ([] ++ ('.' :: b ++ (exp ++ r))) ([] ++ '.' :: b ++ exp) (!('.' :: b).isEmpty || !exp.isEmpty) := by
  have hf : FacOK isDec ('.' :: b) := .inr ⟨b, rfl, .inr hb⟩
  have hstop2 : Stop isDecimalDigit (exp ++ r) :=
    stop_fac_exp (V := isDec) (.inl rfl) hx hr.dec (by decide) ⟨by decide, by decide⟩ ⟨by decide, by decide⟩
  obtain ⟨hxp, hnp, _⟩ := exp_side_e hx hr
  have hpre : numPrefix ([] ++ ('.' :: b ++ (exp ++ r))) = (10, []) := rfl
  unfold scanLitNumber
  rw [hpre]
  refine with_complete 10 [] ('.' :: b) exp r 'e' 'E' rfl (by simp) ?_ hxp ?_ hx
    (.inr ⟨by decide, by decide⟩) (by simp) (by simp) (by simp) (fun h => hnp h.2) (by simp)
  · exact facPartOf_complete 10 ('.' :: b) (exp ++ r)
      (by simp only [show ¬ ((10 : Nat) = 16) by decide, if_false]; exact hf)
      (by simp only [show ¬ ((10 : Nat) = 16) by decide, if_false]; exact hstop2) (by simp)
  · simp only [show ¬ ((10 : Nat) = 16) by decide, if_false]; exact hf

/-! ### `0b`, `0o` -/

theorem prefixed_complete (radix : Nat) (V : Char → Bool) (hVu : V '_' = false) (p : Char) (u ds r : List Char)
    (hpre : ∀ rest, numPrefix ('0' :: p :: rest) = (radix, '0' :: p :: scanDigits V rest))
    (h28 : radix = 2 ∨ radix = 8) (hu : OptU u) (hd : Digits V ds)
    (h89 : ¬ (radix = 8 ∧ (('0' :: p :: (u ++ ds)).contains '8' = true ∨ ('0' :: p :: (u ++ ds)).contains '9' = true)))
    (hVs : Stop V r) (hr : CoreStop r) :
    scanLitNumber ('0' :: p :: (u ++ ds) ++ ([] ++ ([] ++ r))) =
      numFinish radix ('0' :: p :: (u ++ ds) ++ ([] ++ ([] ++ r))) ('0' :: p :: (u ++ ds) ++ [] ++ []) false := by
  have h10 : radix ≠ 10 := by rcases h28 with rfl | rfl <;> decide
  have h16 : radix ≠ 16 := by rcases h28 with rfl | rfl <;> decide
  have hrun : scanDigits V (u ++ ds ++ r) = u ++ ds := scanDigits_complete_u V hVu u ds r hu hd hVs
  have hp : numPrefix ('0' :: p :: (u ++ ds) ++ ([] ++ ([] ++ r))) = (radix, '0' :: p :: (u ++ ds)) := by
    simp only [List.nil_append, List.cons_append]
    rw [hpre, hrun]
  have hne : u ++ ds ≠ [] := by simp [digits_ne_nil hd]
  have hrh : ∀ c, r.head? = some c → c ≠ '.' ∧ c ≠ 'e' ∧ c ≠ 'E' ∧ c ≠ 'p' ∧ c ≠ 'P' := by
    intro c hc
    obtain ⟨h1, _, h3, h4, h5, _⟩ := hr c hc
    refine ⟨h3, ?_, ?_, h4, h5⟩
    · intro e; subst e; exact absurd h1 (by decide)
    · intro e; subst e; exact absurd h1 (by decide)
  unfold scanLitNumber
  rw [hp]
  have := with_complete radix ('0' :: p :: (u ++ ds)) [] [] r 'e' 'E'
    (by rw [endsWith_cons _ _ _ (by simp), endsWith_cons _ _ _ hne]
        rcases hu with rfl | rfl
        · simpa using digits_last hd hVu
        · rw [endsWith_append_ne _ _ _ (digits_ne_nil hd)]; exact digits_last hd hVu)
    h89
    (by simp only [List.nil_append]; apply facPartOf_nodot; intro h; exact (hrh _ h).1 rfl)
    (by
      simp only [List.nil_append]
      cases r with
      | nil => rfl
      | cons c r' =>
        obtain ⟨_, h2, h3, h4, h5⟩ := hrh c rfl
        simp [expPartOf, h2, h3, h4, h5])
    (.inl rfl) (.inl rfl) (.inl rfl) (by simp)
    (by simp only [List.length_cons, List.length_append]
        have : 0 < ds.length := List.length_pos_iff.2 (digits_ne_nil hd)
        omega)
    (by rintro ⟨_, h | h⟩
        · exact (hrh _ (by simpa using h)).2.1 rfl
        · exact (hrh _ (by simpa using h)).2.2.1 rfl)
    (by rintro ⟨_, h | h⟩
        · exact (hrh _ (by simpa using h)).2.2.2.1 rfl
        · exact (hrh _ (by simpa using h)).2.2.2.2 rfl)
    (by simp)
  simpa using this

/-! ### `0x` -/

theorem numPrefix_hex (p : Char) (hp : p = 'x' ∨ p = 'X') (rest : List Char) :
    numPrefix ('0' :: p :: rest) = (16, '0' :: p :: scanDigits isHexDigit rest) := by
  rcases hp with rfl | rfl <;> simp [numPrefix]

theorem numPrefix_bin (p : Char) (hp : p = 'b' ∨ p = 'B') (rest : List Char) :
    numPrefix ('0' :: p :: rest) = (2, '0' :: p :: scanDigits isBinaryDigit rest) := by
  rcases hp with rfl | rfl <;> simp [numPrefix]

theorem numPrefix_oct (p : Char) (hp : p = 'o' ∨ p = 'O') (rest : List Char) :
    numPrefix ('0' :: p :: rest) = (8, '0' :: p :: scanDigits isDecimalDigit rest) := by
  rcases hp with rfl | rfl <;> simp [numPrefix]

theorem hex_complete (p : Char) (run fac exp r : List Char) (hp : p = 'x' ∨ p = 'X')
    (hrun : run = [] ∨ ∃ u ds, run = u ++ ds ∧ OptU u ∧ Digits isHex ds) (hf : FacOK isHex fac)
    (hx : ExpOK 'p' 'P' exp) (h0 : run = [] → ∃ b, fac = '.' :: b ∧ Digits isHex b) (hfe : fac ≠ [] → exp ≠ [])
    (hr : CoreStop r) :
    scanLitNumber ('0' :: p :: run ++ (fac ++ (exp ++ r))) =
      numFinish 16 ('0' :: p :: run ++ (fac ++ (exp ++ r))) ('0' :: p :: run ++ fac ++ exp)
        (!fac.isEmpty || !exp.isEmpty) := by
  have hf' : FacOK isHexDigit fac := by rw [isHexD_eq]; exact hf
  have hstop : Stop isHexDigit (fac ++ (exp ++ r)) :=
    stop_fac_exp hf hx hr.hex (by decide) ⟨by decide, by decide⟩ ⟨by decide, by decide⟩
  have hstop2 : Stop isHexDigit (exp ++ r) :=
    stop_fac_exp (V := isHex) (.inl rfl) hx hr.hex (by decide) ⟨by decide, by decide⟩ ⟨by decide, by decide⟩
  have hscan : scanDigits isHexDigit (run ++ (fac ++ (exp ++ r))) = run := by
    rcases hrun with rfl | ⟨u, ds, rfl, hu, hd⟩
    · exact scanDigits_stop _ _ hstop
    · rw [isHexD_eq] at hstop ⊢
      have := scanDigits_complete_u isHex (by decide) u ds (fac ++ (exp ++ r)) hu hd hstop
      simpa using this
  have hpre : numPrefix ('0' :: p :: run ++ (fac ++ (exp ++ r))) = (16, '0' :: p :: run) := by
    simp only [List.cons_append]
    rw [numPrefix_hex p hp, hscan]
  have hhead : ∀ c, (exp ++ r).head? = some c → c ≠ 'e' ∧ c ≠ 'E' ∧ c ≠ '.' := by
    intro c hc
    rcases head_fac_exp (V := isHex) (.inl rfl) hx c (by simpa using hc) with ⟨h, _⟩ | ⟨_, _, rfl | rfl⟩ | ⟨_, _, h⟩
    · exact absurd rfl h
    · decide
    · decide
    · obtain ⟨h1, _, h3, _⟩ := hr c h
      refine ⟨?_, ?_, h3⟩
      · intro e; subst e; exact absurd h1 (by decide)
      · intro e; subst e; exact absurd h1 (by decide)
  unfold scanLitNumber
  rw [hpre]
  refine with_complete 16 ('0' :: p :: run) fac exp r 'p' 'P' ?_ (by simp) ?_ ?_ (by simpa using hf') hx
    (.inr ⟨by decide, by decide⟩) (by simp) ?_ ?_ (by simp) ?_
  · rcases hrun with rfl | ⟨u, ds, rfl, hu, hd⟩
    · rcases hp with rfl | rfl <;> decide
    · have hne : u ++ ds ≠ [] := by simp [digits_ne_nil hd]
      rw [endsWith_cons _ _ _ (by simp), endsWith_cons _ _ _ hne, endsWith_append_ne _ _ _ (digits_ne_nil hd)]
      exact digits_last hd (by decide)
  · exact facPartOf_complete 16 fac (exp ++ r) (by simpa using hf') (by simpa using hstop2)
      (fun _ hh => (hhead _ hh).2.2 rfl)
  · refine expPartOf_complete 'p' 'P' (by intro m hm; rcases hm with rfl | rfl <;> simp) exp r hx hr.dec ?_
    intro _ c hc
    obtain ⟨h1, _, _, h4, h5, _⟩ := hr c hc
    refine ⟨?_, ?_, h4, h5⟩
    · intro e; subst e; exact absurd h1 (by decide)
    · intro e; subst e; exact absurd h1 (by decide)
  · rintro ⟨_, hl, hfl⟩
    have hr0 : run = [] := by
      simp only [List.length_cons] at hl
      exact List.length_eq_zero_iff.1 (by omega)
    obtain ⟨b, rfl, hb⟩ := h0 hr0
    have : 0 < b.length := List.length_pos_iff.2 (digits_ne_nil hb)
    simp only [List.length_cons] at hfl
    omega
  · rintro ⟨_, hh | hh⟩
    · exact (hhead _ hh).1 rfl
    · exact (hhead _ hh).2.1 rfl
  · rintro ⟨_, h1, h2⟩
    exact hfe h1 h2

/-! ### from the spec's productions to the scanner's view -/

/-- `t` (a literal without a trailing `i`) is read whole, up to the classification step -/
def Core (radix : Nat) (isFloat : Bool) (t : List Char) : Prop :=
  ∀ r, CoreStop r → scanLitNumber (t ++ r) = numFinish radix (t ++ r) t isFloat

theorem dec_of_oct {ds : List Char} (h : Digits isOct ds) : Digits isDec ds := by
  refine digits_mono h (fun d _ hv => ?_)
  unfold isOct at hv; unfold isDec
  simp only [Bool.and_eq_true, decide_eq_true_eq, Gosyn.Props.C10.char_le_iff] at hv ⊢
  have e7 : ('7' : Char).toNat = 55 := rfl
  have e9 : ('9' : Char).toNat = 57 := rfl
  rw [e7] at hv; rw [e9]
  omega

theorem core_dec {a fac exp : List Char} (ha : Digits isDec a) (hf : FacOK isDec fac) (hx : ExpOK 'e' 'E' exp) :
    Core 10 (!fac.isEmpty || !exp.isEmpty) (a ++ fac ++ exp) := by
  intro r hr
  have := dec_complete a fac exp r ha hf hx hr
  simpa [List.append_assoc] using this

theorem core_digits {a : List Char} (ha : Digits isDec a) : Core 10 false a := by
  have := core_dec ha (fac := []) (exp := []) (.inl rfl) (.inl rfl)
  simpa using this

theorem expok_of_opt {x : List Char} (h : Opt DecExp x) : ExpOK 'e' 'E' x := by
  rcases h with rfl | ⟨e, sg, ds, rfl, he, hs, hd⟩
  · exact .inl rfl
  · exact .inr ⟨e, sg, ds, rfl, he, hs, hd⟩

theorem hexpok {x : List Char} (h : HexExp x) : ExpOK 'p' 'P' x ∧ x ≠ [] := by
  obtain ⟨e, sg, ds, rfl, he, hs, hd⟩ := h
  exact ⟨.inr ⟨e, sg, ds, rfl, he, hs, hd⟩, by simp⟩

/-- the legacy-octal rejection of `num_finish` -/
def LegacyBad (radix : Nat) (t : List Char) : Prop :=
  radix = 10 ∧ t.length > 1 ∧ t.head? = some '0' ∧ (t.contains '8' = true ∨ t.contains '9' = true)

theorem oct_no89 {ds : List Char} (h : Digits isOct ds) : '8' ∉ ds ∧ '9' ∉ ds := by
  constructor
  · intro hm; rcases digits_chars h _ hm with h' | h'
    · exact absurd h' (by decide)
    · cases h'
  · intro hm; rcases digits_chars h _ hm with h' | h'
    · exact absurd h' (by decide)
    · cases h'

theorem core_int {t : List Char} (h : IntLit t) : ∃ radix, Core radix false t ∧ ¬ LegacyBad radix t := by
  rcases h with h | h | h | h
  · -- decimal_lit
    rcases h with rfl | ⟨c, u, ds, rfl, h1, h9, hrest⟩
    · exact ⟨10, core_digits (.one (by decide)), by simp [LegacyBad]⟩
    · have hc : isDec c = true := by
        unfold isDec
        simp only [Bool.and_eq_true, decide_eq_true_eq, Gosyn.Props.C10.char_le_iff] at h1 h9 ⊢
        have e1 : ('1' : Char).toNat = 49 := rfl
        have e0 : ('0' : Char).toNat = 48 := rfl
        rw [e1] at h1; rw [e0]
        exact ⟨by omega, h9⟩
      have hc0 : c ≠ '0' := by
        intro e; subst e
        simp only [Gosyn.Props.C10.char_le_iff] at h1
        have e1 : ('1' : Char).toNat = 49 := rfl
        have e0 : ('0' : Char).toNat = 48 := rfl
        rw [e1, e0] at h1; omega
      have hd : Digits isDec (c :: (u ++ ds)) := by
        rcases hrest with ⟨rfl, rfl⟩ | ⟨hu, hd⟩
        · exact .one hc
        · rcases hu with rfl | rfl
          · exact .cons hc hd
          · exact .sep hc hd
      refine ⟨10, core_digits hd, ?_⟩
      rintro ⟨_, _, hh, _⟩
      simp only [List.head?_cons, Option.some.injEq] at hh
      exact hc0 hh
  · -- binary_lit
    obtain ⟨p, u, ds, rfl, hp, hu, hd⟩ := h
    refine ⟨2, ?_, by simp [LegacyBad]⟩
    intro r hr
    have := prefixed_complete 2 isBinaryDigit isBinD_u p u ds r (numPrefix_bin p hp) (.inl rfl) hu hd (by simp) hr.bin hr
    simpa using this
  · -- octal_lit
    obtain ⟨o, u, ds, rfl, ho, hu, hd⟩ := h
    obtain ⟨n8, n9⟩ := oct_no89 hd
    have nu8 : '8' ∉ u := by rcases hu with rfl | rfl <;> simp
    have nu9 : '9' ∉ u := by rcases hu with rfl | rfl <;> simp
    rcases ho with rfl | rfl | rfl
    · -- legacy: 0 [_] octal_digits is a decimal run for the scanner
      have hd' : Digits isDec ('0' :: (u ++ ds)) := by
        rcases hu with rfl | rfl
        · exact .cons (by decide) (dec_of_oct hd)
        · exact .sep (by decide) (dec_of_oct hd)
      refine ⟨10, by simpa using core_digits hd', ?_⟩
      rintro ⟨_, _, _, h8 | h9⟩
      · simp [List.contains_iff_mem, n8, nu8] at h8
      · simp [List.contains_iff_mem, n9, nu9] at h9
    · refine ⟨8, ?_, by simp [LegacyBad]⟩
      intro r hr
      have := prefixed_complete 8 isDecimalDigit isDec_u 'o' u ds r (numPrefix_oct 'o' (.inl rfl)) (.inr rfl) hu
        (dec_of_oct hd) (by simp [List.contains_iff_mem, n8, n9, nu8, nu9]) hr.dec hr
      simpa using this
    · refine ⟨8, ?_, by simp [LegacyBad]⟩
      intro r hr
      have := prefixed_complete 8 isDecimalDigit isDec_u 'O' u ds r (numPrefix_oct 'O' (.inr rfl)) (.inr rfl) hu
        (dec_of_oct hd) (by simp [List.contains_iff_mem, n8, n9, nu8, nu9]) hr.dec hr
      simpa using this
  · -- hex_lit
    obtain ⟨p, u, ds, rfl, hp, hu, hd⟩ := h
    refine ⟨16, ?_, by simp [LegacyBad]⟩
    intro r hr
    have := hex_complete p (u ++ ds) [] [] r hp (.inr ⟨u, ds, rfl, hu, hd⟩) (.inl rfl) (.inl rfl)
      (fun h => absurd h (by simp [digits_ne_nil hd])) (fun h => absurd rfl h) hr
    simpa using this

theorem core_float {t : List Char} (h : FloatLit t) : ∃ radix, Core radix true t := by
  rcases h with h | h
  · rcases h with ⟨a, b, x, rfl, ha, hb, hx⟩ | ⟨a, x, rfl, ha, hx⟩ | ⟨b, x, rfl, hb, hx⟩
    · refine ⟨10, ?_⟩
      have := core_dec ha (fac := '.' :: b) (exp := x) (.inr ⟨b, rfl, hb⟩) (expok_of_opt hx)
      simpa [List.append_assoc] using this
    · refine ⟨10, ?_⟩
      have hx' : ExpOK 'e' 'E' x := expok_of_opt (.inr hx)
      have hne : x ≠ [] := by obtain ⟨e, sg, ds, rfl, _⟩ := hx; simp
      have hb : x.isEmpty = false := by simpa using hne
      have := core_dec ha (fac := []) (exp := x) (.inl rfl) hx'
      simpa [hb] using this
    · refine ⟨10, ?_⟩
      intro r hr
      have := dot_complete b x r hb (expok_of_opt hx) hr
      simpa [List.append_assoc] using this
  · obtain ⟨p, m, e, rfl, hp, hm, he⟩ := h
    obtain ⟨hx, hne⟩ := hexpok he
    refine ⟨16, ?_⟩
    intro r hr
    rcases hm with ⟨u, a, b, rfl, hu, ha, hb⟩ | ⟨u, a, rfl, hu, ha⟩ | ⟨b, rfl, hb⟩
    · have := hex_complete p (u ++ a) ('.' :: b) e r hp (.inr ⟨u, a, rfl, hu, ha⟩) (.inr ⟨b, rfl, hb⟩) hx
        (fun h => absurd h (by simp [digits_ne_nil ha])) (fun _ => hne) hr
      simpa [List.append_assoc] using this
    · have := hex_complete p (u ++ a) [] e r hp (.inr ⟨u, a, rfl, hu, ha⟩) (.inl rfl) hx
        (fun h => absurd h (by simp [digits_ne_nil ha])) (fun _ => hne) hr
      have hb : e.isEmpty = false := by simpa using hne
      simpa [List.append_assoc, hb] using this
    · have := hex_complete p [] ('.' :: b) e r hp (.inl rfl) (.inr ⟨b, rfl, .inr hb⟩) hx
        (fun _ => ⟨b, rfl, hb⟩) (fun _ => hne) hr
      simpa [List.append_assoc] using this

/-! ### the classification step and the theorem -/

/-- what may follow a numeric literal: nothing that could continue it (a hex digit, `_`, `.`, an
    exponent or prefix letter, or `i`) -/
def Delim (rest : List Char) : Prop := CoreStop rest ∧ rest.head? ≠ some 'i'

theorem coreStop_i (rest : List Char) : CoreStop ('i' :: rest) := by
  intro c hc
  simp only [List.head?_cons, Option.some.injEq] at hc
  subst hc
  decide

/-- **completeness of the number scanner** (C09, converse direction, at full strength): every
    `int_lit`, `float_lit` and `imaginary_lit` of the spec, followed by anything that cannot continue
    a number, is accepted whole, with the spec's kind and with its own text -/
theorem number_complete (k : LitKind) (t rest : List Char) (hl : NumLit k t) (hd : Delim rest) :
    scanLitNumber (t ++ rest) = .ok (k, t, t.length) := by
  obtain ⟨hr, hi⟩ := hd
  rcases hl with ⟨rfl, hl⟩ | ⟨rfl, hl⟩ | ⟨rfl, t', rfl, hl⟩
  · obtain ⟨radix, hc, hb⟩ := core_int hl
    rw [hc rest hr]
    unfold numFinish
    rw [if_neg (by simpa using hi)]
    simp only [Bool.false_eq_true, if_false]
    rw [if_neg (by simpa [LegacyBad] using hb)]
  · obtain ⟨radix, hc⟩ := core_float hl
    rw [hc rest hr]
    unfold numFinish
    rw [if_neg (by simpa using hi)]
    simp
  · have hcore : ∃ radix fl, Core radix fl t' := by
      rcases hl with h | h | h
      · exact ⟨10, false, core_digits h⟩
      · obtain ⟨radix, hc, _⟩ := core_int h; exact ⟨radix, false, hc⟩
      · obtain ⟨radix, hc⟩ := core_float h; exact ⟨radix, true, hc⟩
    obtain ⟨radix, fl, hc⟩ := hcore
    have := hc ('i' :: rest) (coreStop_i rest)
    rw [List.append_assoc]
    simp only [List.cons_append, List.nil_append]
    rw [this]
    unfold numFinish
    rw [if_pos (by simp)]
    simp

/-- non-vacuity: the hypotheses are met by ordinary literals in ordinary contexts (`0x1.8p-3 + y`) -/
example : NumLit .Float ['0', 'x', '1', '.', '8', 'p', '-', '3'] ∧ Delim [' ', '+', ' ', 'y'] := by
  refine ⟨.inr (.inl ⟨rfl, .inr ⟨'x', ['1', '.', '8'], ['p', '-', '3'], rfl, .inl rfl,
    .inl ⟨[], ['1'], ['8'], rfl, .inl rfl, .one (by decide), .inr (.one (by decide))⟩,
    ⟨'p', ['-'], ['3'], rfl, .inl rfl, .inr (.inr rfl), .one (by decide)⟩⟩⟩), ?_, by decide⟩
  intro c hc
  simp only [List.head?_cons, Option.some.injEq] at hc
  subst hc
  decide

example : Delim [] := ⟨(fun _ h => by cases h), (by simp)⟩

/-- **C09 as an equivalence**: before a delimiter, `scan_lit_number` answers `(k, t)` exactly for the
    spec's literals of kind `k` -/
theorem number_iff (k : LitKind) (t rest : List Char) (hd : Delim rest) (hdisp : Dispatch (t ++ rest)) :
    scanLitNumber (t ++ rest) = .ok (k, t, t.length) ↔ NumLit k t :=
  ⟨fun h => number_sound _ k t _ hdisp h, fun h => number_complete k t rest h hd⟩

end Gosyn.Props.C09
