import Gosyn.Props.C15c
/-! C15 — the header of `if` puts the nesting level back (the longest of the save / restore bodies: 48 paths through its join points; kept in its own module so that it builds in parallel). -/
namespace Gosyn.Props.C15c
open Gosyn.Gen Gosyn.Model Gosyn.Ast
open Gosyn.Props.C15 Gosyn.Props.C12c
set_option maxHeartbeats 1600000 in
/-- **the header of `if` puts the level back**, whatever its callees do -/
theorem ifHeader_restores (r : Tbl) : LP (parseIfHeaderBody r) := by
  refine LS.toLP (fun l => ?_)
  unfold parseIfHeaderBody
  ls


end Gosyn.Props.C15c
