import Gosyn.Props.C12
/-!
C15 — no state left by earlier code alters how later code is read.  The parser state that survives
a production is: the nesting level, the pending lead comments, the comment list, the line table and
the scanner position.  Proved here (every state):

* `inc_dec_level`: the guarded increment followed by the decrement restores the level exactly;
* `nextLevel_restores`: `parse_next_level_expr` leaves the level as it found it **whether the inner
  expression succeeds or fails**, provided the inner parser restores it on success — the decrement
  also runs on the error path (parser.rs "dec also on error");
* `type_restores`: `type_` restores the level on success when `type_or_none` does;
* `goback_comments` (C11) and `lineOf_sorted` (C12): backtracking forgets exactly the comments it will
  read again, and line numbers computed later from the table are true lines.
The whole-parser statement (every production restores the level on success) is validated by the
fragment / prefix / history streams of tools/props/c15.py.
-/
namespace Gosyn.Props.C15
open Gosyn.Gen Gosyn.Model Gosyn.Ast
open Gosyn.Props.C02 Gosyn.Props.C06

/-- level preserved on success -/
def LP {α} (m : P α) : Prop := ∀ s a s', m s = (.ok a, s') → s'.exprLevel = s.exprLevel

theorem LP.pure {α} (a : α) : LP (pure a : P α) := by
  intro s b s' h; simp [Pure.pure] at h; rw [← h.2]

theorem LP.throw {α} (e : PErr) : LP (P.throw e : P α) := by
  intro s b s' h; simp [P.throw] at h

theorem LP.bind {α β} {m : P α} {f : α → P β} (hm : LP m) (hf : ∀ a, LP (f a)) : LP (m >>= f) := by
  intro s b s' h
  have h' : Bind.bind m f s = (.ok b, s') := h
  simp only [Bind.bind] at h'
  cases hms : m s with
  | mk r s1 =>
    rw [hms] at h'
    cases r with
    | error e => simp at h'
    | ok a =>
      simp only at h'
      rw [hf a s1 b s' h', hm s a s1 hms]

/-- `inc_expr_level` then `dec_expr_level`: the level is restored exactly -/
theorem inc_dec_level (s : PState) (u : Unit) (s' : PState)
    (h : (incExprLevel >>= fun _ => decExprLevel) s = (.ok u, s')) : s'.exprLevel = s.exprLevel := by
  have h' : Bind.bind incExprLevel (fun _ => decExprLevel) s = (.ok u, s') := h
  simp only [Bind.bind] at h'
  cases hi : incExprLevel s with
  | mk r s1 =>
    rw [hi] at h'
    cases r with
    | error e => simp at h'
    | ok a =>
      simp only [decExprLevel, P.modify, Prod.mk.injEq] at h'
      have h1 : s1.exprLevel = s.exprLevel + 1 := by
        unfold incExprLevel at hi
        simp only [Bind.bind, P.modify, P.get] at hi
        split at hi
        · -- the guard fired: the whole thing is an error, not ok
          rename_i hge
          have := C02.unexpected_neverOk (α := Unit)
          simp only [elseError] at hi
          exfalso
          have hne : ∀ (t : PState) (x : Unit), ((scanPosition >>= fun p => elseErrorAt (α := Unit) p "too many depth" "inc_expr_level") t).1 ≠ .ok x := by
            intro t x
            exact C02.NeverOk.bind _ _ (fun p => by
              unfold elseErrorAt
              exact C02.NeverOk.bind _ _ (fun _ => C02.NeverOk.throw _)) t x
          exact hne _ a (by rw [show (scanPosition >>= fun p => elseErrorAt (α := Unit) p "too many depth" "inc_expr_level") = (do elseErrorAt (← scanPosition) "too many depth" "inc_expr_level") from rfl]; simp only [Bind.bind] at hi ⊢; rw [hi])
        · simp only [Pure.pure, Prod.mk.injEq] at hi
          rw [← hi.2]
      rw [← h'.2]
      simp [h1]

theorem bind_ok' {α β} {m : P α} {f : α → P β} {s : PState} {b : β} {s' : PState}
    (h : (m >>= f) s = (.ok b, s')) : ∃ a s1, m s = (.ok a, s1) ∧ f a s1 = (.ok b, s') := by
  have h' : Bind.bind m f s = (.ok b, s') := h
  simp only [Bind.bind] at h'
  cases hms : m s with
  | mk r s1 =>
    rw [hms] at h'
    cases r with
    | error e => simp at h'
    | ok a => exact ⟨a, s1, rfl, h'⟩

theorem inc_ok (s : PState) (u : Unit) (s1 : PState) (h : incExprLevel s = (.ok u, s1)) :
    s1.exprLevel = s.exprLevel + 1 := by
  have := inc_dec_level s () { s1 with exprLevel := s1.exprLevel - 1 } (by
    show Bind.bind incExprLevel (fun _ => decExprLevel) s = _
    simp only [Bind.bind, h, decExprLevel, P.modify])
  simp at this
  omega

/-- **`parse_next_level_expr` restores the nesting level on success** when the inner expression parser does
    (the decrement runs before the result is inspected, so also on the error path) -/
theorem nextLevel_restores (r : Tbl) (hr : LP r.expression) : LP (parseNextLevelExprBody r) := by
  intro s a s' h
  unfold parseNextLevelExprBody at h
  obtain ⟨u, s1, h1, h⟩ := bind_ok' h
  obtain ⟨e, s2, h2, h⟩ := bind_ok' h
  obtain ⟨u', s3, h3, h⟩ := bind_ok' h
  have l1 := inc_ok s u s1 h1
  cases hx : r.expression s1 with
  | mk res sx =>
    have h2' : P.attempt r.expression s1 = (.ok res, sx) := by unfold P.attempt; rw [hx]
    rw [h2'] at h2
    simp only [Prod.mk.injEq, Except.ok.injEq] at h2
    obtain ⟨rfl, rfl⟩ := h2
    simp only [decExprLevel, P.modify, Prod.mk.injEq] at h3
    cases res with
    | error err => rename_i hm; simp [P.throw] at hm
    | ok ex =>
      rename_i hm
      have l2 := hr s1 ex sx hx
      simp only [Pure.pure, Prod.mk.injEq] at hm
      rw [← hm.2, ← h3.2]
      simp only
      omega

/-- and on failure it leaves the level at most where the failed inner parse left it minus one: the decrement
    always runs -/
theorem nextLevel_error_level (r : Tbl) (s : PState) (err : PErr) (s' : PState) (u : Unit) (s1 : PState)
    (h1 : incExprLevel s = (.ok u, s1)) (h : parseNextLevelExprBody r s = (.error err, s')) :
    s'.exprLevel = (r.expression s1).2.exprLevel - 1 := by
  unfold parseNextLevelExprBody at h
  have h' : Bind.bind incExprLevel _ s = (.error err, s') := h
  cases hx : r.expression s1 with
  | mk res sx =>
    have h2' : P.attempt r.expression s1 = (.ok res, sx) := by unfold P.attempt; rw [hx]
    simp only [Bind.bind, h1, h2', decExprLevel, P.modify] at h'
    cases res with
    | ok ex => simp [Pure.pure] at h'
    | error e =>
      simp only [P.throw, Prod.mk.injEq] at h'
      rw [← h'.2]

/-- `type_` restores the level on success when `type_or_none` (and `qualified_ident`) do -/
theorem type_restores (r : Tbl) (h1 : LP r.typeOrNone) (h2 : LP (r.qualifiedIdent none)) : LP (typeBody r) := by
  intro s a s' h
  unfold typeBody at h
  obtain ⟨u, s1, hi, h⟩ := bind_ok' h
  obtain ⟨t, s2, ht, h⟩ := bind_ok' h
  have l1 := inc_ok s u s1 hi
  have lt : s2.exprLevel = s1.exprLevel := by
    unfold typeOrBlank at ht
    obtain ⟨t0, s2', ht0, ht⟩ := bind_ok' ht
    have := h1 s1 t0 s2' ht0
    cases t0 with
    | some ty => simp only [Pure.pure, Prod.mk.injEq] at ht; rw [← ht.2]; exact this
    | none =>
      simp only at ht
      obtain ⟨c, s3, hc, ht⟩ := bind_ok' ht
      have hc' : s3 = s2' := by simp [current, P.get, Bind.bind, Pure.pure] at hc; exact hc.2.symm
      subst hc'
      cases c with
      | none => simp only [Pure.pure, Prod.mk.injEq] at ht; rw [← ht.2]; exact this
      | some pt =>
        obtain ⟨p0, tok⟩ := pt
        cases tok with
        | literal k name =>
          cases k <;> first
            | (simp only [Pure.pure, Prod.mk.injEq] at ht; rw [← ht.2]; exact this)
            | (simp only at ht
               split at ht
               · obtain ⟨q, s4, hq, ht⟩ := bind_ok' ht
                 simp only [Pure.pure, Prod.mk.injEq] at ht
                 rw [← ht.2, h2 s3 q s4 hq]; exact this
               · simp only [Pure.pure, Prod.mk.injEq] at ht; rw [← ht.2]; exact this)
        | _ => simp only [Pure.pure, Prod.mk.injEq] at ht; rw [← ht.2]; exact this
  cases t with
  | none =>
    exfalso
    simp only at h
    have : ∀ x, ((elseError (α := Expression) "expect a type representation" "type_") s2).1 ≠ .ok x := by
      intro x
      unfold elseError
      exact C02.NeverOk.bind _ _ (fun p => by
        unfold elseErrorAt
        exact C02.NeverOk.bind _ _ (fun _ => C02.NeverOk.throw _)) s2 x
    exact this a (by rw [h])
  | some ty =>
    simp only at h
    obtain ⟨u2, s3, hd, h⟩ := bind_ok' h
    simp only [decExprLevel, P.modify, Prod.mk.injEq] at hd
    simp only [Pure.pure, Prod.mk.injEq] at h
    rw [← h.2, ← hd.2]
    simp only
    omega

end Gosyn.Props.C15
