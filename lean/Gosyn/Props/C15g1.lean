import Gosyn.Props.C15f
/-! C15 — bodies that restore the nesting level given a table of callees that restore it (group 1 of 3; see C15f). -/
namespace Gosyn.Props.C15c
open Gosyn.Gen Gosyn.Model Gosyn.Ast
open Gosyn.Props.C15 Gosyn.Props.C12c

set_option maxHeartbeats 1600000 in
theorem parseVarSpecBody_t (r : Tbl) (h : TblLP r)  : LQ (parseVarSpecBody r) 0 := by
  unfold parseVarSpecBody
  lq

set_option maxHeartbeats 1600000 in
theorem funcTypeBody_t (r : Tbl) (h : TblLP r)  : LQ (funcTypeBody r) 0 := by
  unfold funcTypeBody
  lq

set_option maxHeartbeats 1600000 in
theorem arrayLenBody_t (r : Tbl) (h : TblLP r)  : LQ (arrayLenBody r) 0 := by
  unfold arrayLenBody
  lq

set_option maxHeartbeats 1600000 in
theorem operandBody_t (r : Tbl) (h : TblLP r)  : LQ (operandBody r) 0 := by
  unfold operandBody
  lq

set_option maxHeartbeats 1600000 in
theorem parseResultBody_t (r : Tbl) (h : TblLP r)  : LQ (parseResultBody r) 0 := by
  unfold parseResultBody
  lq

set_option maxHeartbeats 1600000 in
theorem typeInstanceBody_t (r : Tbl) (h : TblLP r) (l : Expression) : LQ (typeInstanceBody r l) 0 := by
  unfold typeInstanceBody
  lq

end Gosyn.Props.C15c
