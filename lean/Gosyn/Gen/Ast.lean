/- GENERATED from /repo/src/ast.rs and token.rs by gen_ast.py -/
import Gosyn.Gen.Tables
namespace Gosyn.Ast
open Gosyn.Gen

structure Comment where
  pos : Nat
  text : String

structure Ident where
  pos : Nat
  name : String

structure BasicLit where
  pos : Nat
  kind : LitKind
  value : String

inductive ChanMode where
  | Send
  | Recv
deriving DecidableEq, Repr, Inhabited

structure BranchStmt where
  pos : Nat
  key : Keyword
  ident : (Option Ident)

structure StringLit where
  pos : Nat
  value : String

structure EmptyStmt where
  pos : Nat

mutual
inductive PointerType where
  | mk (pos : Nat) (typ : Expression)

inductive ArrayType where
  | mk (pos : (Nat × Nat)) (len : Expression) (typ : Expression)

inductive SliceType where
  | mk (pos : (Nat × Nat)) (typ : Expression)

inductive MapType where
  | mk (pos : (Nat × Nat)) (key : Expression) (val : Expression)

inductive Field where
  | mk (name : (List Ident)) (typ : Expression) (tag : (Option StringLit)) (comments : (List Comment))

inductive FieldList where
  | mk (pos : (Option (Nat × Nat))) (list : (List Field))

inductive StructType where
  | mk (pos : (Nat × Nat)) (fields : (List Field))

inductive FuncType where
  | mk (pos : Nat) (typ_params : FieldList) (params : FieldList) (result : FieldList)

inductive ChannelType where
  | mk (pos : (Nat × Nat)) (dir : (Option ChanMode)) (typ : Expression)

inductive InterfaceType where
  | mk (pos : Nat) (methods : FieldList)

inductive FuncLit where
  | mk (typ : FuncType) (body : BlockStmt)

inductive Element where
  | Expr (a : Expression)
  | LitValue (a : LiteralValue)

inductive KeyedElement where
  | mk (key : (Option Element)) (val : Element)

inductive LiteralValue where
  | mk (pos : (Nat × Nat)) (values : (List KeyedElement))

inductive CompositeLit where
  | mk (typ : Expression) (val : LiteralValue)

inductive Selector where
  | mk (pos : Nat) (x : Expression) (sel : Ident)

inductive TypeAssertion where
  | mk (pos : (Nat × Nat)) (left : Expression) (right : (Option Expression))

inductive Index where
  | mk (pos : (Nat × Nat)) (left : Expression) (index : Expression)

inductive IndexList where
  | mk (pos : (Nat × Nat)) (left : Expression) (indices : (List Expression))

inductive Slice where
  | mk (pos : (Nat × Nat)) (left : Expression) (index : ((Option Expression) × (Option Expression) × (Option Expression)))

inductive Call where
  | mk (pos : (Nat × Nat)) (args : (List Expression)) (func : Expression) (dots : (Option Nat))

inductive ParenExpression where
  | mk (pos : (Nat × Nat)) (expr : Expression)

inductive StarExpression where
  | mk (pos : Nat) (right : Expression)

inductive Ellipsis where
  | mk (pos : Nat) (elt : (Option Expression))

inductive RangeExpr where
  | mk (pos : Nat) (right : Expression)

inductive Operation where
  | mk (pos : Nat) (op : Operator) (x : Expression) (y : (Option Expression))

inductive Expression where
  | Call (a : Call)
  | Index (a : Index)
  | IndexList (a : IndexList)
  | Slice (a : Slice)
  | Ident (a : Ident)
  | FuncLit (a : FuncLit)
  | Ellipsis (a : Ellipsis)
  | Selector (a : Selector)
  | BasicLit (a : BasicLit)
  | Range (a : RangeExpr)
  | Star (a : StarExpression)
  | Paren (a : ParenExpression)
  | TypeAssert (a : TypeAssertion)
  | CompositeLit (a : CompositeLit)
  | List (a : (List Expression))
  | Operation (a : Operation)
  | TypeMap (a : MapType)
  | TypeArray (a : ArrayType)
  | TypeSlice (a : SliceType)
  | TypeFunction (a : FuncType)
  | TypeStruct (a : StructType)
  | TypeChannel (a : ChannelType)
  | TypePointer (a : PointerType)
  | TypeInterface (a : InterfaceType)

inductive VarSpec where
  | mk (docs : (List Comment)) (name : (List Ident)) (typ : (Option Expression)) (values : (List Expression))

inductive ConstSpec where
  | mk (docs : (List Comment)) (name : (List Ident)) (typ : (Option Expression)) (values : (List Expression))

inductive TypeSpec where
  | mk (docs : (List Comment)) (alias : Bool) (name : Ident) (params : FieldList) (typ : Expression)

inductive BlockStmt where
  | mk (pos : (Nat × Nat)) (list : (List Statement))

inductive DeclStmt where
  | Type (a : DeclTypeSpec)
  | Const (a : DeclConstSpec)
  | Variable (a : DeclVarSpec)

inductive GoStmt where
  | mk (pos : Nat) (call : Call)

inductive DeferStmt where
  | mk (pos : Nat) (call : Call)

inductive ReturnStmt where
  | mk (pos : Nat) (ret : (List Expression))

inductive IfStmt where
  | mk (pos : Nat) (init : (Option Statement)) (cond : Expression) (body : BlockStmt) (else_ : (Option Statement))

inductive AssignStmt where
  | mk (pos : Nat) (op : Operator) (left : (List Expression)) (right : (List Expression))

inductive LabeledStmt where
  | mk (pos : Nat) (name : Ident) (stmt : Statement)

inductive SendStmt where
  | mk (pos : Nat) (chan : Expression) (value : Expression)

inductive ExprStmt where
  | mk (expr : Expression)

inductive CaseClause where
  | mk (tok : Keyword) (pos : (Nat × Nat)) (list : (List Expression)) (body : (List Statement))

inductive CaseBlock where
  | mk (pos : (Nat × Nat)) (body : (List CaseClause))

inductive SwitchStmt where
  | mk (pos : Nat) (init : (Option Statement)) (tag : (Option Expression)) (block : CaseBlock)

inductive TypeSwitchStmt where
  | mk (pos : Nat) (init : (Option Statement)) (tag : (Option Statement)) (block : CaseBlock)

inductive IncDecStmt where
  | mk (pos : Nat) (op : Operator) (expr : Expression)

inductive CommClause where
  | mk (pos : (Nat × Nat)) (tok : Keyword) (comm : (Option Statement)) (body : (List Statement))

inductive CommBlock where
  | mk (pos : (Nat × Nat)) (body : (List CommClause))

inductive SelectStmt where
  | mk (pos : Nat) (body : CommBlock)

inductive RangeStmt where
  | mk (pos : (Nat × Nat)) (key : (Option Expression)) (value : (Option Expression)) (op : (Option (Nat × Operator))) (expr : Expression) (body : BlockStmt)

inductive ForStmt where
  | mk (pos : Nat) (init : (Option Statement)) (cond : (Option Statement)) (post : (Option Statement)) (body : BlockStmt)

inductive Statement where
  | Go (a : GoStmt)
  | If (a : IfStmt)
  | For (a : ForStmt)
  | Send (a : SendStmt)
  | Expr (a : ExprStmt)
  | Defer (a : DeferStmt)
  | Block (a : BlockStmt)
  | Range (a : RangeStmt)
  | Empty (a : EmptyStmt)
  | Label (a : LabeledStmt)
  | IncDec (a : IncDecStmt)
  | Assign (a : AssignStmt)
  | Return (a : ReturnStmt)
  | Branch (a : BranchStmt)
  | Switch (a : SwitchStmt)
  | Select (a : SelectStmt)
  | TypeSwitch (a : TypeSwitchStmt)
  | Declaration (a : DeclStmt)

inductive DeclTypeSpec where
  | mk (docs : (List Comment)) (pos0 : Nat) (pos1 : (Option (Nat × Nat))) (specs : (List TypeSpec))

inductive DeclConstSpec where
  | mk (docs : (List Comment)) (pos0 : Nat) (pos1 : (Option (Nat × Nat))) (specs : (List ConstSpec))

inductive DeclVarSpec where
  | mk (docs : (List Comment)) (pos0 : Nat) (pos1 : (Option (Nat × Nat))) (specs : (List VarSpec))

end

structure FuncDecl where
  docs : (List Comment)
  recv : (Option FieldList)
  name : Ident
  typ : FuncType
  body : (Option BlockStmt)

inductive Declaration where
  | Function (a : FuncDecl)
  | Type (a : DeclTypeSpec)
  | Const (a : DeclConstSpec)
  | Variable (a : DeclVarSpec)

structure Import where
  name : (Option Ident)
  path : StringLit

structure File where
  path : String
  line_info : (List Nat)
  docs : (List Comment)
  pkg_name : Ident
  imports : (List Import)
  decl : (List Declaration)
  comments : (List Comment)

structure Package where
  path : String
  files : (List File)

end Gosyn.Ast
