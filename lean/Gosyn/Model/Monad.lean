import Gosyn.Model.Scanner
import Gosyn.Gen.Ast
/-!
Parser state, error type, the `P` monad (state survives errors) and the non-recursive helper
functions of parser.rs:42-281 ("prims").
-/
namespace Gosyn.Model
open Gosyn.Gen Gosyn.Ast

inductive TokenKind where
  | comment | keyword (k : Keyword) | literal (k : LitKind) | operator (o : Operator)
deriving DecidableEq, Repr, Inhabited

def Token.kind : Token → TokenKind
  | .comment _ => .comment
  | .keyword k => .keyword k
  | .operator o => .operator o
  | .literal k _ => .literal k

instance : Coe Keyword TokenKind := ⟨.keyword⟩
instance : Coe Operator TokenKind := ⟨.operator⟩
instance : Coe LitKind TokenKind := ⟨.literal⟩

inductive PErr where
  | unexpected (loc : Nat × Nat) (expect : List TokenKind) (actual : Option (Nat × Token)) (site : String)
  | other (loc : Nat × Nat) (reason : String) (site : String)
  | panic (site : String)
  | fuel
deriving Repr

structure PState where
  scan : Scanner
  exprLevel : Int := 0
  comments : Array Comment := #[]
  leadComments : Array Comment := #[]
  current : Option (Nat × Token) := none
  prevPos : Nat × Bool := (0, false)
  started : Bool := false
  path : String := "<input>"
  depth : Nat := 0          -- ghost: current recursion depth through the table
  maxDepth : Nat := 0       -- ghost
  steps : Nat := 0          -- ghost: scanner calls

def P (α : Type) := PState → Except PErr α × PState

instance : Monad P where
  pure a := fun s => (.ok a, s)
  bind m f := fun s => match m s with
    | (.ok a, s') => f a s'
    | (.error e, s') => (.error e, s')

namespace P
def get : P PState := fun s => (.ok s, s)
def set (s : PState) : P Unit := fun _ => (.ok (), s)
def modify (f : PState → PState) : P Unit := fun s => (.ok (), f s)
def throw (e : PErr) : P α := fun s => (.error e, s)
/-- run `m`, hand back its result as a value (the state changes are kept) -/
def attempt (m : P α) : P (Except PErr α) := fun s => match m s with | (r, s') => (.ok r, s')
end P
open P

def MAX_DEPTH : Int := Gen.maxDepth

/-- translate a scanner failure -/
def liftS : Except SErr α → P α
  | .ok a => pure a
  | .error (.scan e) => throw (.other e.loc e.reason "scanner")
  | .error (.panic site) => throw (.panic site)

def lineInfo (pos : Nat) : P (Nat × Nat) := do liftS ((← get).scan.lineInfo pos)
/-- line number only (used by the comment logic); same panics as `line_info` -/
def lineOf (pos : Nat) : P Nat := do return (← lineInfo pos).1

def scanPosition : P Nat := do return (← get).scan.pos

def elseErrorAt (pos : Nat) (reason : String) (site : String := "") : P α := do
  let loc ← lineInfo pos
  throw (.other loc reason site)

def elseError (reason : String) (site : String := "") : P α := do
  elseErrorAt (← scanPosition) reason site

def unexpected (expect : List TokenKind) (actual : Option (Nat × Token)) (site : String := "") : P α := do
  let pos ← match actual with
    | some (pos, _) => pure pos
    | none => scanPosition
  let loc ← lineInfo pos
  throw (.unexpected loc expect actual site)

/-- parser.rs:45-56 -/
def incExprLevel : P Unit := do
  modify fun s => { s with exprLevel := s.exprLevel + 1 }
  if (← get).exprLevel ≥ MAX_DEPTH then elseError "too many depth" "inc_expr_level"

def decExprLevel : P Unit := modify fun s => { s with exprLevel := s.exprLevel - 1 }

def current : P (Option (Nat × Token)) := do return (← get).current
def setCurrent (c : Option (Nat × Token)) : P Unit := modify fun s => { s with current := c }
def takeCurrent : P (Option (Nat × Token)) := do
  let c ← current
  setCurrent none
  return c

/-- parser.rs:158-161 -/
def scanNext : P (Option (Nat × Token)) := do
  let s ← get
  let (r, sc) := s.scan.nextToken
  set { s with prevPos := s.scan.preback, scan := sc, steps := s.steps + 1 }
  liftS r

/-- scanner.rs `line_of` in the current scanner state (pure: no failure possible) -/
def trueLine (pos : Nat) : P Nat := do return lineOfTable (← get).scan.lines pos

/-- the comment loop of parser.rs `next`: `line` = line on which the previous comment ended,
    `trailing` = line on which the token we are leaving (and the comments trailing it) ended -/
def commentLoop : Nat → Nat → Option Nat → Option (Nat × Token) → P (Option (Nat × Token))
  | 0, _, _, _ => throw .fuel
  | fuel+1, line, trailing, posTok =>
    match posTok with
    | some (pos, .comment text) => do
      let startLine ← trueLine pos
      if startLine > line + 1 then modify fun s => { s with leadComments := #[] }
      let ended ← scanPosition
      let line ← trueLine ended
      let comment : Comment := { pos, text := String.ofList text }
      modify fun s => { s with comments := s.comments.push comment }
      let trailing' ← if trailing = some startLine then pure (some line)
        else do
          modify fun s => { s with leadComments := s.leadComments.push comment }
          pure none
      let posTok ← scanNext
      commentLoop fuel line trailing' posTok
    | _ => pure posTok

/-- parser.rs `next` -/
def next : P Unit := do
  let trailing ← if (← get).started then do pure (some (← trueLine (← scanPosition))) else pure none
  modify fun s => { s with started := true }
  let posTok ← scanNext
  let fuel := (← get).scan.src.size + 2
  let posTok ← commentLoop fuel 0 trailing posTok
  let s ← get
  if let some comment := s.leadComments.back? then
    let commentEndPos := comment.pos + comment.text.length
    let commentEndLine ← trueLine commentEndPos
    if let some (pos, _) := posTok then
      let tokenStartLine ← trueLine pos
      if tokenStartLine > commentEndLine + 1 then modify fun s => { s with leadComments := #[] }
  setCurrent posTok

def preback : P (Nat × Bool) := do return (← get).prevPos

/-- parser.rs:153-156 -/
def goback (prev : Nat × Bool) : P Unit := do
  modify fun s => { s with
    comments := s.comments.filter (·.pos < prev.1),
    leadComments := s.leadComments.filter (·.pos < prev.1),
    scan := s.scan.goback prev }
  let r ← attempt scanNext
  match r with
  | .ok c => setCurrent c
  | .error _ => throw (.panic "goback: unwrap on Err")

def tokIs (t : Token) (k : TokenKind) : Bool := t.kind = k

def currentIs (k : TokenKind) : P Bool := do
  match ← current with
  | some (_, t) => pure (tokIs t k)
  | none => pure false

def currentNot (k : TokenKind) : P Bool := do return !(← currentIs k)

def currentKind : P TokenKind := do
  match ← current with
  | some (_, t) => pure t.kind
  | none => elseError "unexpected EOF" "current_kind"

def currentPos : P Nat := do
  match ← current with
  | some (pos, _) => pure pos
  | none => scanPosition

/-- parser.rs:89-102 -/
def expect (k : TokenKind) (site : String := "") : P Nat := do
  let cur ← takeCurrent
  match cur with
  | some (pos, tok) =>
    if tokIs tok k then
      next
      return pos
    else unexpected [k] cur site
  | none => unexpected [k] cur site

/-- parser.rs:105-116 -/
def skipped (k : TokenKind) : P Bool := do
  match ← current with
  | some (_, tok) => if tokIs tok k then do next; pure true else pure false
  | none => pure false

def drainComments : P (List Comment) := do
  let s ← get
  set { s with leadComments := #[] }
  return s.leadComments.toList

/-- parser.rs:202-232 -/
def lineEndComment : P (Option Comment) := do
  let pos ← currentPos
  let line0 ← trueLine pos
  let start ← preback
  if !(← currentIs Operator.SemiColon) then return none
  match ← scanNext with
  | none => return none
  | some (pos, .comment text) =>
    modify fun s => { s with leadComments := #[] }
    let line1 ← trueLine pos
    if line0 = line1 then
      let comment : Comment := { pos, text := String.ofList text }
      modify fun s => { s with comments := s.comments.push comment }
      next
      return some comment
    else
      goback start
      next
      return none
  | some _ =>
    modify fun s => { s with leadComments := #[] }
    goback start
    next
    return none

/-- parser.rs:236-244 -/
def identifier (site : String := "") : P Ident := do
  let cur ← takeCurrent
  match cur with
  | some (pos, .literal .Ident name) => do next; return { pos, name := String.ofList name }
  | _ => unexpected [LitKind.Ident] cur site

def identifierListLoop : Nat → List Ident → P (List Ident)
  | 0, _ => throw .fuel
  | fuel+1, acc => do
    if ← skipped Operator.Comma then
      let id ← identifier
      identifierListLoop fuel (acc ++ [id])
    else pure acc

def loopFuel : P Nat := do let s ← get; return s.scan.src.size + 4

/-- parser.rs:246-257 -/
def identifierList (first : Option Ident) : P (List Ident) := do
  let first ← match first with
    | some id => pure id
    | none => identifier
  identifierListLoop (← loopFuel) [first]

def stringLiteralOrNone : P (Option StringLit) := do
  match ← current with
  | some (pos, .literal .String value) => do
    setCurrent none
    next
    return some { pos, value := String.ofList value }
  | _ => return none

def stringLiteral : P StringLit := do
  let cur ← takeCurrent
  match cur with
  | some (pos, .literal .String value) => do next; return { pos, value := String.ofList value }
  | _ => unexpected [LitKind.String] cur "string_literal"

end Gosyn.Model
