import Gosyn.Gen.Tables
import Gosyn.Gen.Unicode
/-!
Model of `/repo/src/scanner.rs`, function by function.  Chars are Unicode scalar values (`Char`),
positions are char indices, exactly as in the Rust (`chars: Vec<char>`).  Every scanning function is
written over the list of remaining chars (`chars[pos..]`) by structural recursion, so that the
theorems of `Props/C07…C10, C16, C17` can be proved by induction on the input.

Byte-level view of `next_nstr` (the only `unsafe` of the crate): `Model/Utf8.lean`.
-/
namespace Gosyn.Model
open Gosyn.Gen

inductive Token where
  | comment (text : List Char)
  | keyword (k : Keyword)
  | operator (o : Operator)
  | literal (k : LitKind) (text : List Char)
deriving DecidableEq, Repr, Inhabited

/-- source text of a token (`Token::str_len` counts its bytes; here: its chars) -/
def Token.text : Token → List Char
  | .comment t => t
  | .keyword k => k.str
  | .operator o => o.str
  | .literal _ t => t

/-- build profile: decides what `usize` underflow does -/
inductive Profile | debug | release
deriving DecidableEq, Repr

/-- a scanning failure inside one token: char offset relative to the token start, and the reason -/
structure Fail where
  off : Nat
  reason : String
  /-- `true`: the Rust code panics here (index out of bounds, `unwrap`), it does not return an error -/
  panic : Bool := false
  /-- text scanned before the failure whose newlines are entered into the line table before the
      location is computed (an unterminated raw string) -/
  scanned : List Char := []
deriving Repr, DecidableEq

structure ScanErr where
  loc : Nat × Nat
  reason : String
deriving Repr, DecidableEq

inductive SErr where
  | scan (e : ScanErr)
  | panic (site : String)
deriving Repr, DecidableEq

/-! ### line table -/

/-- `usize` subtraction: panic in debug, wrap in release -/
def usub (p : Profile) (a b : Nat) : Except SErr Nat :=
  if b ≤ a then .ok (a - b)
  else match p with
    | .debug => .error (.panic "attempt to subtract with overflow")
    | .release => .ok (a + 2^64 - b)

/-- `slice::binary_search` of core 1.95 (branch-free loop) -/
def binarySearchLoop (a : Array Nat) (x : Nat) : Nat → Nat → Nat → Nat
  | 0, base, _ => base
  | fuel+1, base, size =>
    if size > 1 then
      let half := size / 2
      let mid := base + half
      let base' := if a[mid]! > x then base else mid
      binarySearchLoop a x fuel base' (size - half)
    else base

/-- `Sum.inl i` = `Ok(i)`, `Sum.inr i` = `Err(i)` -/
def binarySearch (a : Array Nat) (x : Nat) : Sum Nat Nat :=
  if a.size = 0 then .inr 0 else
  let base := binarySearchLoop a x a.size 0 a.size
  let v := a[base]!
  if v = x then .inl base else .inr (base + (if v < x then 1 else 0))

/-- `slice::partition_point(|&start| start <= x)` (core: the same branch-free loop with a comparator
    that never answers `Equal`) -/
def partitionPoint (a : Array Nat) (x : Nat) : Nat :=
  if a.size = 0 then 0 else
  let base := binarySearchLoop a x a.size 0 a.size
  base + (if a[base]! ≤ x then 1 else 0)

/-- scanner.rs `line_of`: 1-based number of the line holding the offset -/
def lineOfTable (lines : Array Nat) (pos : Nat) : Nat := partitionPoint lines pos + 1

/-- scanner.rs `line_info` on a line table -/
def lineInfoOf (profile : Profile) (lines : Array Nat) (pos : Nat) : Except SErr (Nat × Nat) :=
  match binarySearch lines pos with
  | .inl index => .ok (index + 1, 0)
  | .inr 0 => .ok (1, pos)
  | .inr index => do
    let startAt := lines[index - 1]!
    let col ← usub profile pos startAt
    pure (index, col)

/-! ### character classes (the five digit predicates are transcribed; letters / digits / white space
are the generated tables of `Gen/Unicode.lean`) -/

def isBinaryDigit (c : Char) : Bool := c = '0' || c = '1'
def isOctalDigit (c : Char) : Bool := '0' ≤ c && c ≤ '7'
def isDecimalDigit (c : Char) : Bool := '0' ≤ c && c ≤ '9'
def isHexDigit (c : Char) : Bool := isDecimalDigit c || ('a' ≤ c && c ≤ 'f') || ('A' ≤ c && c ≤ 'F')
def isEscapedChar (c : Char) : Bool := escapedChars.contains c

def opFromChars (cs : List Char) : Option Operator := Operator.all.find? fun o => o.str == cs
def kwFromChars (cs : List Char) : Option Keyword := Keyword.all.find? fun k => k.str == cs

/-- scanner.rs `try_insert_semicolon` (generated table) -/
def tryInsertSemicolon : Token → Bool
  | .literal .. => semiTriggerLit
  | .operator o => semiTriggerOp o
  | .keyword k => semiTriggerKw k
  | .comment _ => false

/-! ### look-ahead for the automatic semicolon -/

mutual
/-- scanner.rs `line_ended`, on the remaining chars -/
def lineEndedS : List Char → Bool
  | [] => true
  | '\n' :: _ => true
  | '/' :: '/' :: _ => true
  | '/' :: '*' :: cs => generalS cs
  | c :: cs => if isWhite c then lineEndedS cs else false
/-- inside `/* … */` -/
def generalS : List Char → Bool
  | [] => true
  | '\n' :: _ => true
  | '*' :: '/' :: cs => lineEndedS cs
  | _ :: cs => generalS cs
end

/-! ### white space -/

/-- scanner.rs `skip_whitespace`: number of chars skipped -/
def skipCount : List Char → Nat
  | [] => 0
  | c :: cs => if isWhite c then skipCount cs + 1 else 0

/-- line starts recorded for the newlines among the first `n` chars of `cs`, `cs` starting at `pos` -/
def newlineStarts (pos : Nat) : List Char → List Nat
  | [] => []
  | c :: cs => if c = '\n' then (pos + 1) :: newlineStarts (pos + 1) cs else newlineStarts (pos + 1) cs

/-! ### comments and identifiers -/

/-- scanner.rs `scan_line_comment`: up to, excluding, the newline -/
def scanLineComment (cs : List Char) : List Char := cs.takeWhile (· ≠ '\n')

/-- text after `/*` up to and including the first `*/` -/
def generalBody : List Char → Option (List Char)
  | [] => none
  | '*' :: '/' :: _ => some ['*', '/']
  | c :: cs => (generalBody cs).map (c :: ·)

/-- scanner.rs `scan_general_comment` (`cs` starts with `/*`) -/
def scanGeneralComment (cs : List Char) : Except Fail (List Char) :=
  match generalBody (cs.drop 2) with
  | some body => .ok ('/' :: '*' :: body)
  | none => .error { off := 0, reason := "comment no termination '*/'" }

/-- scanner.rs `scan_identifier` -/
def scanIdentifier (cs : List Char) : List Char := cs.takeWhile fun ch => isLetterC ch || isUnicodeDigit ch

/-! ### runes and strings -/

def digitVal (c : Char) : Nat :=
  if isDecimalDigit c then c.toNat - 48 else if 'a' ≤ c && c ≤ 'f' then c.toNat - 87 else c.toNat - 55

def parseRadix (radix : Nat) (ds : List Char) : Nat := ds.foldl (fun acc c => acc * radix + digitVal c) 0

/-- `char::from_u32(v).is_some()` -/
def validScalar (v : Nat) : Bool := v < 0xD800 || (0xDFFF < v && v ≤ 0x10FFFF)

/-- the closure `match_n`: exactly `n` chars of `cs`, all `valid` -/
def matchN (valid : Char → Bool) : Nat → List Char → Except Fail (List Char)
  | 0, _ => .ok []
  | _+1, [] => .error { off := 0, reason := "literal not terminated" }
  | n+1, c :: cs =>
    if valid c then
      match matchN valid n cs with
      | .ok r => .ok (c :: r)
      | .error e => .error e
    else .error { off := 0, reason := "illegal rune literal" }

/-- scanner.rs `scan_rune(start_at, quote)`, `cs = chars[start_at..]`.  All failures are located at
    the token start (`self.pos`). -/
def scanRune (quote : Char) (cs : List Char) : Except Fail (List Char) :=
  match cs with
  | [] => .error { off := 0, reason := "literal not terminated" }
  | '\\' :: [] => .error { off := 0, reason := "literal not terminated" }
  | '\\' :: n2 :: after =>
    let numeric (radix : Nat) (count : Nat) (valid : Char → Bool) (lead : List Char) : Except Fail (List Char) :=
      match matchN valid count after with
      | .error e => .error e
      | .ok ds =>
        let value := parseRadix radix (lead ++ ds)
        if (radix ≠ 8 || value ≤ 255) && validScalar value then .ok ('\\' :: n2 :: ds)
        else .error { off := 0, reason := "invalid Unicode code point" }
    if n2 = 'x' then numeric 16 2 isHexDigit []
    else if n2 = 'u' then numeric 16 4 isHexDigit []
    else if n2 = 'U' then numeric 16 8 isHexDigit []
    else if isOctalDigit n2 then numeric 8 2 isOctalDigit [n2]
    else if isEscapedChar n2 && (n2 = quote || !(n2 = '\'' || n2 = '"')) then .ok ['\\', n2]
    else .error { off := 0, reason := "unknown escape sequence" }
  | c :: _ =>
    if c = '\'' && quote = '\'' then .error { off := 0, reason := "empty rune literal" }
    else if c ≠ '\n' then .ok [c]
    else .error { off := 0, reason := "unexpected character" }

/-- scanner.rs `scan_lit_rune` (`cs` starts with the opening quote) -/
def scanLitRune (cs : List Char) : Except Fail (List Char) :=
  match scanRune '\'' (cs.drop 1) with
  | .error e => .error e
  | .ok rune =>
    match (cs.drop (1 + rune.length)).head? with
    | some '\'' => .ok ('\'' :: (rune ++ ['\'']))
    | some _ => .error { off := 0, reason := "rune literal expect termination" }
    | none => .error { off := 0, reason := "rune literal not termination" }

/-- raw string body after the opening back quote: up to and including the next back quote -/
def rawBody : List Char → List Char × Bool
  | [] => ([], false)
  | c :: cs => if c = '`' then (['`'], true) else let r := rawBody cs; (c :: r.1, r.2)

/-- interpreted string body after the opening quote; the fuel is the number of chars left (every
    rune has at least one char) -/
def strBody : Nat → List Char → Except Fail (List Char × Bool)
  | 0, _ => .ok ([], false)
  | _, [] => .ok ([], false)
  | fuel+1, cs@(_ :: _) =>
    match scanRune '"' cs with
    | .error e => .error e
    | .ok rune =>
      if rune = ['"'] then .ok (rune, true)
      else match strBody fuel (cs.drop rune.length) with
        | .error e => .error e
        | .ok (r, t) => .ok (rune ++ r, t)

/-- scanner.rs `scan_lit_string` (`cs` starts with the opening quote) -/
def scanLitString (cs : List Char) : Except Fail (List Char) :=
  match cs with
  | [] => .error { off := 0, reason := "index out of bounds: chars[pos] (scan_lit_string)", panic := true }
  | quote :: body =>
    let r : Except Fail (List Char × Bool) :=
      if quote = '`' then .ok (rawBody body) else strBody (body.length + 1) body
    match r with
    | .error e => .error e
    | .ok (text, terminated) =>
      if terminated then .ok (quote :: text)
      else .error { off := 1 + text.length, reason := "string literal not terminated", scanned := quote :: text }

/-! ### numbers -/

/-- scanner.rs `scan_digits` / `scan_digits2`: the run taken from `cs`; `underline` starts `true`, so
    one leading `_` is taken, and the run stops before a second consecutive `_` -/
def scanDigitsGo (valid : Char → Bool) : Bool → List Char → List Char
  | _, [] => []
  | u, c :: cs =>
    if (c = '_' && !u) || (c ≠ '_' && !valid c) then []
    else c :: scanDigitsGo valid (c ≠ '_') cs

def scanDigits (valid : Char → Bool) (cs : List Char) : List Char := scanDigitsGo valid true cs

def endsWith (l : List Char) (c : Char) : Bool := l.getLast? = some c

/-- scanner.rs `scan_lit_number`, first step: radix and integer part (with its prefix) -/
def numPrefix (cs : List Char) : Nat × List Char :=
  match cs with
  | [] => (10, [])
  | '.' :: _ => (10, [])
  | _ =>
    let next2 := cs.take 2
    if next2 = ['0', 'b'] || next2 = ['0', 'B'] then (2, next2 ++ scanDigits isBinaryDigit (cs.drop 2))
    else if next2 = ['0', 'o'] || next2 = ['0', 'O'] then (8, next2 ++ scanDigits isDecimalDigit (cs.drop 2))
    else if next2 = ['0', 'x'] || next2 = ['0', 'X'] then (16, next2 ++ scanDigits isHexDigit (cs.drop 2))
    else (10, scanDigits isDecimalDigit cs)

/-- the fraction part: `.` and the digits after it, or nothing -/
def facPartOf (radix : Nat) (afterInt : List Char) : List Char :=
  if afterInt.head? = some '.' then
    '.' :: scanDigits (if radix = 16 then isHexDigit else isDecimalDigit) (afterInt.drop 1)
  else []

/-- the exponent part: `e|E|p|P`, an optional sign and a digit run, or nothing -/
def expPartOf (afterMant : List Char) : List Char :=
  match afterMant with
  | e :: r =>
    if e = 'e' || e = 'E' || e = 'p' || e = 'P' then
      match r with
      | sg :: r' =>
        if sg = '+' || sg = '-' then e :: sg :: scanDigits isDecimalDigit r'
        else e :: scanDigits isDecimalDigit r
      | [] => [e]
    else []
  | [] => []

/-- the final classification (`numlit` = mantissa ++ exponent) -/
def numFinish (radix : Nat) (cs numlit : List Char) (isFloat : Bool) : Except Fail (LitKind × List Char × Nat) :=
  if (cs.drop numlit.length).head? = some 'i' then .ok (.Imag, numlit ++ ['i'], numlit.length + 1)
  else if isFloat then .ok (.Float, numlit, numlit.length)
  else if radix = 10 && numlit.length > 1 && numlit.head? = some '0' && (numlit.contains '8' || numlit.contains '9') then
    .error { off := 0, reason := "invalid digit in octal literal" }
  else .ok (.Integer, numlit, numlit.length)

/-- the checks on the exponent, then the classification -/
def numExp (radix : Nat) (cs mant facPart expPart : List Char) : Except Fail (LitKind × List Char × Nat) :=
  if !expPart.isEmpty && !(match expPart.getLast? with | some c => isDecimalDigit c | none => false) then
    .error { off := mant.length + expPart.length, reason := "exponent has no digits" }
  else if radix = 16 && !facPart.isEmpty && expPart.isEmpty then
    .error { off := mant.length + expPart.length, reason := "mantissa has no digits" }
  else if ((expPart.drop 1).find? fun ch => ch ≠ '+' && ch ≠ '-') = some '_' || endsWith expPart '_' then
    .error { off := mant.length + expPart.length, reason := "'_' must separate successive digits" }
  else numFinish radix cs (mant ++ expPart) (!facPart.isEmpty || !expPart.isEmpty)

/-- the checks on the mantissa, then the exponent -/
def numMant (radix : Nat) (cs intPart facPart : List Char) : Except Fail (LitKind × List Char × Nat) :=
  let mant := intPart ++ facPart
  let next1 := (cs.drop mant.length).head?
  if mant.isEmpty then .error { off := mant.length, reason := "invalid radix point" }
  else if radix ≠ 10 && intPart.length = 2 && facPart.length ≤ 1 then .error { off := mant.length, reason := "mantissa has no digits" }
  else if radix ≠ 10 && (next1 = some 'e' || next1 = some 'E') then
    .error { off := mant.length, reason := "E exponent requires decimal mantissa" }
  else if radix ≠ 16 && (next1 = some 'p' || next1 = some 'P') then
    .error { off := mant.length, reason := "P exponent requires hexadecimal mantissa" }
  else numExp radix cs mant facPart (expPartOf (cs.drop mant.length))

/-- scanner.rs `scan_lit_number` after the integer part: kind, text, char count -/
def scanLitNumberWith (radix : Nat) (intPart : List Char) (cs : List Char) : Except Fail (LitKind × List Char × Nat) :=
  if endsWith intPart '_' then .error { off := intPart.length, reason := "'_' must separate successive digits" }
  else if radix = 8 && (intPart.contains '8' || intPart.contains '9') then
    .error { off := 0, reason := "invalid digit in octal literal" }
  else
  let afterInt := cs.drop intPart.length
  if afterInt.head? = some '.' && (radix = 2 || radix = 8) then .error { off := intPart.length, reason := "invalid radix point" }
  else
  let facPart := facPartOf radix afterInt
  if (facPart.take 2 = ['.', '_']) || endsWith facPart '_' then
    .error { off := intPart.length, reason := "'_' must separate successive digits" }
  else numMant radix cs intPart facPart

/-- scanner.rs `scan_lit_number` on `cs = chars[pos..]`: kind, text, char count -/
def scanLitNumber (cs : List Char) : Except Fail (LitKind × List Char × Nat) :=
  scanLitNumberWith (numPrefix cs).1 (numPrefix cs).2 cs

/-! ### one token -/

/-- scanner.rs `scan_token` on `cs = chars[pos..]`, `cs ≠ []`: token and char count.
    `next_nstr(n)` is `cs.take n` (see `Model/Utf8.lean` for the byte-level statement). -/
def scanToken (cs : List Char) : Except Fail (Token × Nat) :=
  match opFromChars (cs.take 3) with
  | some op => .ok (.operator op, op.str.length)
  | none =>
  let two := cs.take 2
  if two = ['/', '/'] then
    let c := scanLineComment cs
    .ok (.comment c, c.length)
  else if two = ['/', '*'] then
    match scanGeneralComment cs with
    | .ok c => .ok (.comment c, c.length)
    | .error e => .error e
  else match opFromChars two with
  | some op => .ok (.operator op, op.str.length)
  | none =>
  match cs with
  | [] => .error { off := 0, reason := "index out of bounds: indices[pos] (next_nstr)", panic := true }
  | next0 :: tl =>
    let next1IsDigit := match tl.head? with | some c => isDecimalDigit c | none => false
    if isDecimalDigit next0 || (next0 = '.' && next1IsDigit) then
      match scanLitNumber cs with
      | .ok (k, text, n) => .ok (.literal k text, n)
      | .error e => .error e
    else if next0 = '\'' then
      match scanLitRune cs with
      | .ok r => .ok (.literal .Char r, r.length)
      | .error e => .error e
    else if next0 = '"' || next0 = '`' then
      match scanLitString cs with
      | .ok r => .ok (.literal .String r, r.length)
      | .error e => .error e
    else if isLetterC next0 then
      let ident := scanIdentifier cs
      match kwFromChars ident with
      | some k => .ok (.keyword k, ident.length)
      | none => .ok (.literal .Ident ident, ident.length)
    else match opFromChars [next0] with
      | some op => .ok (.operator op, op.str.length)
      | none => .error { off := 0, reason := "unresolved character" }

/-! ### the scanner state machine -/

structure Scanner where
  src : Array Char
  pos : Nat := 0
  semi : Bool := false
  lines : Array Nat := #[]
  profile : Profile := .debug
deriving Repr

namespace Scanner

/-- the remaining input `chars[pos..]` -/
def rest (s : Scanner) : List Char := (s.src.extract s.pos s.src.size).toList

def lineInfo (s : Scanner) (pos : Nat) : Except SErr (Nat × Nat) := lineInfoOf s.profile s.lines pos

def errorAt (s : Scanner) (pos : Nat) (reason : String) : SErr :=
  match s.lineInfo pos with
  | .ok loc => .scan ⟨loc, reason⟩
  | .error e => e

def lineEnded (s : Scanner) : Bool := lineEndedS s.rest

/-- scanner.rs `skip_whitespace` -/
def skipWhitespace (s : Scanner) : Scanner :=
  let r := s.rest
  let n := skipCount r
  { s with pos := s.pos + n, lines := s.lines ++ (newlineStarts s.pos (r.take n)).toArray }

/-- scanner.rs `add_token_cross_line` -/
def addTokenCrossLine (s : Scanner) : Token → Scanner
  | .comment text | .literal _ text => { s with lines := s.lines ++ (newlineStarts s.pos text).toArray }
  | _ => s

/-- scanner.rs `next_token` -/
def nextToken (s : Scanner) : Except SErr (Option (Nat × Token)) × Scanner :=
  if s.semi && s.lineEnded then
    (.ok (some (s.pos, .operator .SemiColon)), { s with semi := false })
  else
    let s := { s with semi := false }
    let s := s.skipWhitespace
    if s.pos ≥ s.src.size then (.ok none, s)
    else
      let current := s.pos
      match scanToken s.rest with
      | .error f =>
        let s := { s with lines := s.lines ++ (newlineStarts s.pos f.scanned).toArray }
        (.error (if f.panic then .panic f.reason else s.errorAt (s.pos + f.off) f.reason), s)
      | .ok (tok, charCount) =>
        let s := s.addTokenCrossLine tok
        let s := { s with pos := s.pos + charCount }
        let s := { s with semi := tryInsertSemicolon tok }
        (.ok (some (current, tok)), s)

def preback (s : Scanner) : Nat × Bool := (s.pos, s.semi)

/-- scanner.rs `goback`: also forgets the lines that will be scanned again -/
def goback (s : Scanner) (pre : Nat × Bool) : Scanner :=
  { s with pos := pre.1, semi := pre.2, lines := s.lines.filter (· ≤ pre.1) }

end Scanner
end Gosyn.Model
