import Gosyn.Gen.Tables
import Gosyn.Gen.Unicode
/-!
Model of `/repo/src/scanner.rs`, function by function, bug for bug (state of the pinned tree).
Chars are Unicode scalar values (`Char`), positions are char indices, exactly as in the Rust.
-/
namespace Gosyn.Model
open Gosyn.Gen

inductive Token where
  | comment (text : List Char)
  | keyword (k : Keyword)
  | operator (o : Operator)
  | literal (k : LitKind) (text : List Char)
deriving DecidableEq, Repr, Inhabited

/-- build profile: decides what `usize` underflow does -/
inductive Profile | debug | release
deriving DecidableEq, Repr

structure ScanErr where
  loc : Nat × Nat
  reason : String
deriving Repr, DecidableEq

inductive SErr where
  | scan (e : ScanErr)
  | panic (site : String)
deriving Repr, DecidableEq

structure Scanner where
  src : Array Char
  pos : Nat := 0
  semi : Bool := false
  lines : Array Nat := #[]
  utf8Bad : Nat := 0          -- ghost: number of `next_nstr` calls that built an invalid `&str`
  profile : Profile := .debug
deriving Repr

namespace Scanner

/-- `usize` subtraction: panic in debug, wrap in release -/
def usub (p : Profile) (a b : Nat) : Except SErr Nat :=
  if b ≤ a then .ok (a - b)
  else match p with
    | .debug => .error (.panic "attempt to subtract with overflow")
    | .release => .ok (a + 2^64 - b)

/-- `slice::binary_search` of core 1.95 (branch-free loop); `Sum.inl i` = `Ok(i)`, `Sum.inr i` = `Err(i)` -/
def binarySearchLoop (a : Array Nat) (x : Nat) : Nat → Nat → Nat → Nat
  | 0, base, _ => base
  | fuel+1, base, size =>
    if size > 1 then
      let half := size / 2
      let mid := base + half
      let base' := if a[mid]! > x then base else mid
      binarySearchLoop a x fuel base' (size - half)
    else base

def binarySearch (a : Array Nat) (x : Nat) : Sum Nat Nat :=
  if a.size = 0 then .inr 0 else
  let base := binarySearchLoop a x a.size 0 a.size
  let v := a[base]!
  if v = x then .inl base else .inr (base + (if v < x then 1 else 0))

/-- scanner.rs:78-87 -/
def lineInfo (s : Scanner) (pos : Nat) : Except SErr (Nat × Nat) :=
  match binarySearch s.lines pos with
  | .inl index => .ok (index + 1, 0)
  | .inr 0 => .ok (1, pos)
  | .inr index => do
    let startAt := s.lines[index - 1]!
    let col ← usub s.profile pos startAt
    pure (index, col)

def errorAt (s : Scanner) (pos : Nat) (reason : String) : SErr :=
  match s.lineInfo pos with
  | .ok loc => .scan ⟨loc, reason⟩
  | .error e => e

def error (s : Scanner) (reason : String) : SErr := s.errorAt s.pos reason

def nextChar (s : Scanner) (skp : Nat) : Option Char := s.src[s.pos + skp]?

/-- the remaining input -/
def rest (s : Scanner) : List Char := (s.src.extract s.pos s.src.size).toList

/-- scanner.rs:110-115: the first `n` BYTES of the remaining input, and whether they are valid UTF-8 -/
def nextNstr (s : Scanner) (n : Nat) : List UInt8 × Bool :=
  let cs := s.rest.take n                       -- n chars cover at least n bytes
  let bytes := (cs.flatMap String.utf8EncodeChar).take n
  -- valid iff the cut falls on a char boundary
  let rec boundary : List Char → Nat → Bool
    | _, 0 => true
    | [], _ => true
    | c :: cs, k => if c.utf8Size ≤ k then boundary cs (k - c.utf8Size) else false
  (bytes, boundary cs n)

def opBytes (o : Operator) : List UInt8 := o.str.map fun c => c.toNat.toUInt8

def opFromBytes (b : List UInt8) : Option Operator := Operator.all.find? fun o => opBytes o == b

def kwFromChars (cs : List Char) : Option Keyword := Keyword.all.find? fun k => k.str == cs

/-- scanner.rs:117-133 -/
def tryInsertSemicolon : Token → Bool
  | .literal .. => semiTriggerLit
  | .operator o => semiTriggerOp o
  | .keyword k => semiTriggerKw k
  | .comment _ => false

/-- scanner.rs:135-156 on the remaining chars -/
def lineEndedGo : Nat → List Char → Bool
  | 0, _ => true
  | _, [] => true
  | _, '\n' :: _ => true
  | fuel+1, c :: cs =>
    if isWhite c then lineEndedGo fuel cs
    else if c = '/' then
      match cs with
      | '/' :: _ => true
      | '*' :: cs' => generalGo fuel cs'
      | _ => false
    else false
where
  /-- inside `/* … */` -/
  generalGo : Nat → List Char → Bool
    | 0, _ => true
    | _, [] => true
    | _, '\n' :: _ => true
    | fuel+1, '*' :: '/' :: cs => lineEndedGo fuel cs
    | fuel+1, _ :: cs => generalGo fuel cs

def lineEnded (s : Scanner) : Bool := let r := s.rest; lineEndedGo (r.length + 1) r

/-- scanner.rs:158-174 -/
def skipWhitespace (s : Scanner) : Scanner := Id.run do
  let mut s := s
  for _ in [0:s.src.size + 1] do
    match s.nextChar 0 with
    | some ch =>
      if isWhite ch then
        if ch = '\n' then s := { s with lines := s.lines.push (s.pos + 1) }
        s := { s with pos := s.pos + 1 }
      else break
    | none => break
  return s

/-- scanner.rs:198-209 -/
def addTokenCrossLine (s : Scanner) : Token → Scanner
  | .comment text | .literal _ text => Id.run do
    let mut s := s
    let mut index := 0
    for ch in text do
      if ch = '\n' then s := { s with lines := s.lines.push (s.pos + index + 1) }
      index := index + 1
    return s
  | _ => s

def isBinaryDigit (c : Char) : Bool := c = '0' || c = '1'
def isOctalDigit (c : Char) : Bool := '0' ≤ c && c ≤ '7'
def isDecimalDigit (c : Char) : Bool := '0' ≤ c && c ≤ '9'
def isHexDigit (c : Char) : Bool := isDecimalDigit c || ('a' ≤ c && c ≤ 'f') || ('A' ≤ c && c ≤ 'F')
def isEscapedChar (c : Char) : Bool := escapedChars.contains c


/-- scanner.rs:276-288 -/
def scanLineComment (s : Scanner) : List Char := s.rest.takeWhile (· ≠ '\n')

/-- scanner.rs:290-310 -/
def scanGeneralComment (s : Scanner) : Except SErr (List Char) := do
  let chars := s.src
  if chars[s.pos]? ≠ some '/' then throw (.panic "assert_eq chars[pos] == '/'")
  if chars[s.pos + 1]? ≠ some '*' then throw (.panic "assert_eq chars[pos+1] == '*'")
  let start := s.pos
  let mut «end» := start + 2
  let mut happy := false
  let lenm1 ← usub s.profile chars.size 1
  for _ in [0:chars.size + 1] do
    if «end» < lenm1 && !happy then
      happy := chars[«end»]! = '*' && chars[«end» + 1]! = '/'
      «end» := «end» + 1
    else break
  if happy then
    let e := min («end» + 1) chars.size
    return (chars.extract start e).toList
  throw (s.error "comment no termination '*/'")

/-- scanner.rs:312-326 -/
def scanIdentifier (s : Scanner) : List Char := s.rest.takeWhile fun ch => isLetterC ch || isUnicodeDigit ch

def digitVal (c : Char) : Nat :=
  if isDecimalDigit c then c.toNat - 48 else if 'a' ≤ c && c ≤ 'f' then c.toNat - 87 else c.toNat - 55

def parseRadix (radix : Nat) (ds : List Char) : Nat := ds.foldl (fun acc c => acc * radix + digitVal c) 0

def validScalar (v : Nat) : Bool := v < 0xD800 || (0xDFFF < v && v ≤ 0x10FFFF)

/-- scanner.rs:328-380 (`start_at` given as the char list from there) -/
def scanRune (s : Scanner) (cs : List Char) : Except SErr (List Char) := do
  let next1 := cs.head?
  let next2 := cs.tail.head?
  -- must match exactly n valid characters taken from `after`
  let matchN (n : Nat) (valid : Char → Bool) (after : List Char) : Except SErr (List Char) := do
    let mut acc := []
    let mut l := after
    for _ in [0:n] do
      match l with
      | c :: l' => if valid c then acc := acc ++ [c]; l := l' else throw (s.error "illegal rune literal")
      | [] => throw (s.error "literal not terminated")
    return acc
  let after2 := cs.drop 2
  let seq ← match next1 with
    | some '\\' => match next2 with
      | some 'x' => matchN 2 isHexDigit after2
      | some 'u' => matchN 4 isHexDigit after2
      | some 'U' => matchN 8 isHexDigit after2
      | some ch =>
        if isOctalDigit ch then matchN 2 isOctalDigit after2
        else if isEscapedChar ch then return ['\\', ch]
        else throw (s.error "unknown escape sequence")
      | none => throw (s.error "literal not terminated")
    | some ch => if ch ≠ '\n' then return [ch] else throw (s.errorAt s.pos "unexpected character")
    | none => throw (s.errorAt s.pos "literal not terminated")
  let n1 := next1.getD ' '
  let n2 := next2.getD ' '
  let es := [n1, n2] ++ seq
  let (radix, digits) := if n2 = 'x' || n2 = 'u' || n2 = 'U' then (16, es.drop 2) else (8, es.drop 1)
  if validScalar (parseRadix radix digits) then return es
  throw (s.error "invalid Unicode code point")

/-- scanner.rs:382-397 -/
def scanLitRune (s : Scanner) : Except SErr (List Char) := do
  if s.src[s.pos]? ≠ some '\'' then throw (.panic "assert_eq chars[pos] == '\\''")
  let rune ← s.scanRune (s.rest.drop 1)
  match s.src[s.pos + 1 + rune.length]? with
  | some '\'' => return ['\''] ++ rune ++ ['\'']
  | some _ => throw (s.errorAt s.pos "rune literal expect termination")
  | none => throw (s.errorAt s.pos "rune literal not termination")

/-- scanner.rs:399-432 -/
def scanLitString (s : Scanner) : Except SErr (List Char) := do
  let some quote := s.src[s.pos]? | throw (.panic "index out of bounds: chars[pos]")
  let mut result := [quote]
  if quote = '`' then
    for ch in s.rest.drop 1 do
      result := result ++ [ch]
      if ch = quote then break
  else
    let «end» := s.src.size
    let mut pos := s.pos + 1
    for _ in [0:s.src.size + 1] do
      if pos < «end» then
        let rune ← s.scanRune ((s.src.extract pos s.src.size).toList)
        pos := pos + rune.length
        let quit := rune.length = 1 && rune.head? = some quote
        result := result ++ rune
        if quit then break
      else break
  if result.length ≥ 2 && result.getLast? = some quote then return result
  throw (s.errorAt (s.pos + result.length) "string literal not terminated")

/-- scanner.rs:434-456: `scan_digits` / `scan_digits2` from `pos + skp`, appended to `result` -/
def scanDigits (s : Scanner) (skp : Nat) (result : List Char) (valid : Char → Bool) : List Char := Id.run do
  let mut underline := true
  let mut result := result
  for ch in (s.src.extract (s.pos + skp) s.src.size).toList do
    if (ch = '_' && !underline) || (ch ≠ '_' && !valid ch) then break
    result := result ++ [ch]
    underline := ch ≠ '_'
  return result

def startsWith (l p : List Char) : Bool := p.isPrefixOf l
def endsWith (l : List Char) (c : Char) : Bool := l.getLast? = some c

/-- scanner.rs:458-560 -/
def scanLitNumber (s : Scanner) : Except SErr (Token × Nat) := do
  let (radix, numlit0) : Nat × List Char := match s.nextChar 0 with
    | some '.' | none => (10, [])
    | some _ =>
      let (b, ok) := s.nextNstr 2
      let _ := ok
      let next2 : List Char := b.map fun x => Char.ofNat x.toNat     -- only compared with ASCII below
      if next2 = ['0', 'b'] || next2 = ['o', 'B'] then (2, s.scanDigits 2 next2 isBinaryDigit)
      else if next2 = ['0', 'o'] || next2 = ['0', 'O'] then (8, s.scanDigits 2 next2 isDecimalDigit)
      else if next2 = ['0', 'x'] || next2 = ['0', 'X'] then (16, s.scanDigits 2 next2 isHexDigit)
      else (10, s.scanDigits 0 [] isDecimalDigit)
  let mut numlit := numlit0
  if endsWith numlit '_' then
    throw (s.errorAt (s.pos + numlit.length) "'_' must separate successive digits")
  let facStart := numlit.length
  if s.nextChar facStart = some '.' then
    numlit := numlit ++ ['.']
    if radix = 2 || radix = 8 then throw (s.errorAt (s.pos + facStart) "invalid radix point")
    else if radix = 16 then numlit := s.scanDigits (facStart + 1) numlit isHexDigit
    else numlit := s.scanDigits (facStart + 1) numlit isDecimalDigit
  let facPart := numlit.drop facStart
  if startsWith facPart ['.', '_'] || endsWith facPart '_' then
    throw (s.errorAt (s.pos + facStart) "'_' must separate successive digits")
  let skipped := numlit.length
  let intPart := numlit.take facStart
  let next1 := s.nextChar facStart
  if numlit.isEmpty then throw (s.errorAt (s.pos + skipped) "invalid radix point")
  else if radix = 16 && intPart.length = 2 && facPart.length = 1 then
    throw (s.errorAt (s.pos + skipped) "mantissa has no digits")
  else if radix ≠ 10 && (next1 = some 'e' || next1 = some 'E') then
    throw (s.errorAt (s.pos + skipped) "E exponent requires decimal mantissa")
  else if radix ≠ 16 && (next1 = some 'p' || next1 = some 'P') then
    throw (s.errorAt (s.pos + skipped) "P exponent requires hexadecimal mantissa")
  let expStart := numlit.length
  match s.nextChar skipped with
  | some exp =>
    if exp = 'e' || exp = 'E' || exp = 'p' || exp = 'P' then
      numlit := numlit ++ [exp]
      match s.nextChar (skipped + 1) with
      | some sg => if sg = '+' || sg = '-' then numlit := numlit ++ [sg]
      | none => pure ()
      numlit := s.scanDigits numlit.length numlit (if radix = 16 then isHexDigit else isDecimalDigit)
  | none => pure ()
  let expPart := numlit.drop expStart
  let facPart := numlit.drop facStart
  if radix = 16 && !facPart.isEmpty && expPart.isEmpty then
    throw (s.errorAt (s.pos + skipped + expPart.length) "mantissa has no digits")
  if ((expPart.drop 1).find? fun ch => ch ≠ '+' && ch ≠ '-') = some '_' || endsWith expPart '_' then
    throw (s.errorAt (s.pos + skipped + expPart.length) "'_' must separate successive digits")
  let charCount := numlit.length
  if s.nextChar charCount = some 'i' then return (.literal .Imag (numlit ++ ['i']), charCount + 1)
  else if numlit.contains '.' then return (.literal .Float numlit, charCount)
  else return (.literal .Integer numlit, charCount)

/-- scanner.rs:211-274; returns the token, its char count, and the scanner with the ghost counter updated -/
def scanToken (s : Scanner) : Except SErr (Token × Nat × Scanner) := do
  if s.pos ≥ s.src.size then throw (.panic "index out of bounds: indices[pos]")
  let (b3, ok3) := s.nextNstr 3
  let s := if ok3 then s else { s with utf8Bad := s.utf8Bad + 1 }
  if let some op := opFromBytes b3 then return (.operator op, op.str.length, s)
  let (b2, ok2) := s.nextNstr 2
  let s := if ok2 then s else { s with utf8Bad := s.utf8Bad + 1 }
  if b2 = [47, 47] then
    let c := s.scanLineComment
    return (.comment c, c.length, s)
  if b2 = [47, 42] then
    let c ← s.scanGeneralComment
    return (.comment c, c.length, s)
  if let some op := opFromBytes b2 then return (.operator op, op.str.length, s)
  let some next0 := s.nextChar 0 | throw (.panic "unwrap on None: next_char(0)")
  let next1IsDigit := match s.nextChar 1 with | some c => isDecimalDigit c | none => false
  let next0Op := opFromBytes (String.utf8EncodeChar next0)
  if isDecimalDigit next0 || (next0 = '.' && next1IsDigit) then
    -- `scan_lit_number` calls `next_nstr(2)` itself unless the literal starts with '.'
    let s := if next0 ≠ '.' && !(s.nextNstr 2).2 then { s with utf8Bad := s.utf8Bad + 1 } else s
    let (t, n) ← s.scanLitNumber
    return (t, n, s)
  else if next0 = '\'' then
    let r ← s.scanLitRune
    return (.literal .Char r, r.length, s)
  else if next0 = '"' || next0 = '`' then
    let r ← s.scanLitString
    return (.literal .String r, r.length, s)
  else if isLetterC next0 then
    let ident := s.scanIdentifier
    match kwFromChars ident with
    | some k => return (.keyword k, ident.length, s)
    | none => return (.literal .Ident ident, ident.length, s)
  else match next0Op with
    | some op => return (.operator op, op.str.length, s)
    | none => throw (s.error s!"unresolved character {repr next0}")

/-- scanner.rs:176-196 -/
def nextToken (s : Scanner) : Except SErr (Option (Nat × Token)) × Scanner :=
  if s.semi && s.lineEnded then
    (.ok (some (s.pos, .operator .SemiColon)), { s with semi := false })
  else
    let s := { s with semi := false }
    let s := s.skipWhitespace
    if s.pos ≥ s.src.size then (.ok none, s)
    else
      let current := s.pos
      match s.scanToken with
      | .error e => (.error e, s)
      | .ok (tok, charCount, s) =>
        let s := s.addTokenCrossLine tok
        let s := { s with pos := s.pos + charCount }
        let s := { s with semi := tryInsertSemicolon tok }
        (.ok (some (current, tok)), s)

def preback (s : Scanner) : Nat × Bool := (s.pos, s.semi)
def goback (s : Scanner) (pre : Nat × Bool) : Scanner := { s with pos := pre.1, semi := pre.2 }

end Scanner
end Gosyn.Model
