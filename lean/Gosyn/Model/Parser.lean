import Gosyn.Model.AstFns
/-!
Model of the productions of parser.rs:283-2216, one non-recursive body per Rust function,
callees through the open-recursion table `Tbl` (DESIGN.md §3.3).
-/
namespace Gosyn.Model
open Gosyn.Gen Gosyn.Ast P

structure Tbl where
  parseFuncDecl : P FuncDecl
  parseDeclVar : P DeclVarSpec
  parseDeclType : P DeclTypeSpec
  parseDeclConst : P DeclConstSpec
  parseTypeSpec : P TypeSpec
  parseVarSpec : P VarSpec
  parseConstSpec : Nat → P ConstSpec
  parseTypeList : P (List Expression)
  type_ : P Expression
  typeList : Bool → P (Expression × Bool)
  typeOrNone : P (Option Expression)
  parseTypeParameters : P (FieldList × Bool)
  funcType : P FuncType
  structType : P StructType
  fieldDecl : P Field
  parseInterfaceType : P InterfaceType
  parseMethodElem : P Field
  parseTypeElem : P Expression
  parseTypeTerm : P Expression
  arrayLen : P Expression
  expressionList : P (List Expression)
  parseNextLevelExpr : P Expression
  expression : P Expression
  binaryExpression : Option Expression → Nat → P Expression
  unaryExpression : P Expression
  primaryExpression : Option Expression → P Expression
  operand : P Expression
  parseSliceIndexOrTypeInst : P (Option Operator × List (Option Expression))
  parseLitValue : P LiteralValue
  parseElement : P KeyedElement
  parseElementValue : P Element
  parseResult : P FieldList
  paramsList : Operator → Operator → P FieldList
  parseParameterDecl : P (List Field)
  arrayOrTypeargs : P Expression
  qualifiedIdent : Option Ident → P Expression
  typeInstance : Expression → P Expression
  parseStmtList : P (List Statement)
  parseStmt : P Statement
  parseSimpleStmt : P Statement
  parseBlockStmt : P BlockStmt
  parseIfStmt : P IfStmt
  parseIfHeader : P (Option Statement × Expression)
  parseSwitchStmt : P Statement
  parseCaseBlock : Bool → P CaseBlock
  parseCommStmt : P Statement
  parseCommBlock : P CommBlock
  parseForStmt : P Statement

def Tbl.parameters (r : Tbl) : P FieldList := r.paramsList .ParenLeft .ParenRight

/-- a `while cond { body }` loop with fuel; `body` returns `true` to continue -/
def whileLoop (step : P Bool) : Nat → P Unit
  | 0 => throw .fuel
  | fuel+1 => do if ← step then whileLoop step fuel

def isTok (k : TokenKind) : P Bool := currentIs k

/-! ### file level (prims) -/

def parsePackage : P Ident := do
  let _ ← expect Keyword.Package "parse_package"
  let id ← identifier "parse_package"
  if id.name ≠ "_" then pure id else elseErrorAt id.pos "package name can't be blank" "parse_package"

/-- parser.rs `parse_import_spec` -/
def parseImportSpec : P Import := do
  let expList : List TokenKind := [Operator.Dot, LitKind.Ident, LitKind.String]
  let some (pos, tok) ← takeCurrent | elseError "unexpected EOF" "parse_import_spec"
  next
  match tok with
  | .literal .Ident name => do
    let path ← stringLiteral
    return { name := some { pos, name := String.ofList name }, path }
  | .operator .Dot => do
    let path ← stringLiteral
    return { name := some { pos, name := "." }, path }
  | .literal .String value => do
    return { name := none, path := { pos, value := String.ofList value } }
  | other => unexpected expList (some (pos, other)) "parse_import_spec"

def importLoop : Nat → List Import → P (List Import)
  | 0, _ => throw .fuel
  | fuel+1, acc => do
    if !(← currentIs Operator.ParenRight) then
      let i ← parseImportSpec
      let _ ← skipped Operator.SemiColon
      importLoop fuel (acc ++ [i])
    else pure acc

def parseImportDecl : P (List Import) := do
  let _ ← expect Keyword.Import "parse_import_decl"
  if ← skipped Operator.ParenLeft then
    let imports ← importLoop (← loopFuel) []
    let _ ← expect Operator.ParenRight "parse_import_decl"
    pure imports
  else
    return [← parseImportSpec]

/-- parser.rs:1341-1349 -/
def literal : P BasicLit := do
  match ← takeCurrent with
  | some (pos, .literal kind value) => do next; return { pos, kind, value := String.ofList value }
  | _ => elseError "expect basic literal" "literal"

/-! ### declarations -/

def parseFuncDeclBody (r : Tbl) : P FuncDecl := do
  let docs ← drainComments
  let pos ← expect Keyword.Func "parse_func_decl"
  let recv ← if ← currentIs Operator.ParenLeft then (some <$> r.parameters) else pure none
  let name ← identifier "parse_func_decl"
  let typParams ← if recv.isNone && (← currentIs Operator.BarackLeft) then (·.1) <$> r.parseTypeParameters
                  else pure FieldList.empty
  let params ← r.parameters
  let params ← checkFieldList params true
  let result ← r.parseResult
  let result ← checkFieldList result false
  let typ : FuncType := .mk pos typParams params result
  let body ← if ← currentIs Operator.BraceLeft then (some <$> r.parseBlockStmt) else pure none
  let _ ← skipped Operator.SemiColon
  return { docs, name, typ, recv, body }

/-- parser.rs:422-450, generic over the spec parser; returns the fields of `Decl<S>` -/
def parseDeclGeneric {S : Type} (parseSpec : Nat → P S) (withDocs : S → List Comment → S) :
    P (List Comment × Nat × Option (Nat × Nat) × List S) := do
  let pos0 ← currentPos
  let docs ← drainComments
  next
  if ← currentIs Operator.ParenLeft then
    let left ← expect Operator.ParenLeft "parse_decl"
    let rec go : Nat → Nat → List S → P (List S)
      | 0, _, _ => throw .fuel
      | fuel+1, index, acc => do
        if !(← currentIs Operator.ParenRight) then
          let sp ← parseSpec index
          let _ ← skipped Operator.SemiColon
          go fuel (index + 1) (acc ++ [sp])
        else pure acc
    let specs ← go (← loopFuel) 0 []
    let right ← expect Operator.ParenRight "parse_decl"
    let _ ← skipped Operator.SemiColon
    return (docs, pos0, some (left, right), specs)
  let sp ← parseSpec 0
  let _ ← skipped Operator.SemiColon
  return ([], pos0, none, [withDocs sp docs])

def parseDeclVarBody (r : Tbl) : P DeclVarSpec := do
  let (d, p0, p1, s) ← parseDeclGeneric (fun _ => r.parseVarSpec)
    (fun sp docs => match sp with | .mk _ n t v => .mk docs n t v)
  return .mk d p0 p1 s
def parseDeclTypeBody (r : Tbl) : P DeclTypeSpec := do
  let (d, p0, p1, s) ← parseDeclGeneric (fun _ => r.parseTypeSpec)
    (fun sp docs => match sp with | .mk _ a n p t => .mk docs a n p t)
  return .mk d p0 p1 s
def parseDeclConstBody (r : Tbl) : P DeclConstSpec := do
  let (d, p0, p1, s) ← parseDeclGeneric r.parseConstSpec
    (fun sp docs => match sp with | .mk _ n t v => .mk docs n t v)
  return .mk d p0 p1 s

/-- parser.rs:452-519 -/
def parseTypeSpecBody (r : Tbl) : P TypeSpec := do
  let docs ← drainComments
  let name ← identifier "parse_type_spec"
  let pos0 ← currentPos
  let start ← preback
  if !(← skipped Operator.BarackLeft) then
    let alias ← skipped Operator.Assign
    let typ ← r.type_
    return .mk docs alias name FieldList.empty typ
  match ← currentKind with
  | .literal .Ident => do
    let start2 ← preback
    let mut x : Expression := .Ident (← identifier)
    if !(← currentIs Operator.BarackRight) && !(← currentIs Operator.BarackLeft) then
      incExprLevel
      let p ← r.primaryExpression (some x)
      x ← r.binaryExpression (some p) 0
      decExprLevel
    let some (pname, ptype) := extract x (← currentIs Operator.Comma) | throw (.panic "extract lost")
    if pname.isSome && (ptype.isSome || !(← currentIs Operator.BarackRight)) then
      goback start
      let params ← (·.1) <$> r.parseTypeParameters
      let alias ← skipped Operator.Assign
      let typ ← r.type_
      return .mk docs alias name params typ
    goback start2
    let len ← r.parseNextLevelExpr
    let pos1 ← expect Operator.BarackRight "parse_type_spec"
    let typ ← r.type_
    return .mk docs false name FieldList.empty (.TypeArray (.mk (pos0, pos1) len typ))
  | .operator .BarackRight => do
    let pos1 ← expect Operator.BarackRight "parse_type_spec"
    let typ ← r.type_
    return .mk docs false name FieldList.empty (.TypeSlice (.mk (pos0, pos1) typ))
  | _ => do
    let len ← r.arrayLen
    let pos1 ← expect Operator.BarackRight "parse_type_spec"
    let typ ← r.type_
    return .mk docs false name FieldList.empty (.TypeArray (.mk (pos0, pos1) len typ))

def parseVarSpecBody (r : Tbl) : P VarSpec := do
  let docs ← drainComments
  let name ← identifierList none
  let mut typ : Option Expression := none
  let mut values : List Expression := []
  if ← skipped Operator.Assign then
    values ← r.expressionList
  else
    typ := some (← r.type_)
    if ← skipped Operator.Assign then values ← r.expressionList
  if typ.isNone && values.isEmpty then
    elseErrorAt (← currentPos) "mission variable type or initialization" "parse_var_spec"
  else return .mk docs name typ values

def parseConstSpecBody (r : Tbl) (index : Nat) : P ConstSpec := do
  let docs ← drainComments
  let name ← identifierList none
  let mut typ : Option Expression := none
  let mut values : List Expression := []
  if ← skipped Operator.Assign then
    values ← r.expressionList
  else if !((← current).isNone || (← currentIs Operator.SemiColon) || (← currentIs Operator.ParenRight)) then
    typ := some (← r.type_)
    let _ ← expect Operator.Assign "parse_const_spec"
    values ← r.expressionList
  if values.isEmpty && (typ.isSome || index = 0) then
    elseErrorAt (← currentPos) "mission constant value" "parse_const_spec"
  else return .mk docs name typ values

/-! ### types -/

def commaList {α} (item : P α) : Nat → List α → P (List α)
  | 0, _ => throw .fuel
  | fuel+1, acc => do
    if ← skipped Operator.Comma then
      let x ← item
      commaList item fuel (acc ++ [x])
    else pure acc

def parseTypeListBody (r : Tbl) : P (List Expression) := do
  let first ← r.type_
  commaList r.type_ (← loopFuel) [first]

/-- parser.rs `type_or_blank`: a type, or the blank identifier where a type is required -/
def typeOrBlank (r : Tbl) : P (Option Expression) := do
  match ← r.typeOrNone with
  | none =>
    match ← current with
    | some (_, .literal .Ident name) =>
      if name = ['_'] then do return some (← r.qualifiedIdent none) else return none
    | _ => return none
  | typ => return typ

def typeBody (r : Tbl) : P Expression := do
  incExprLevel
  match ← typeOrBlank r with
  | some typ => do decExprLevel; pure typ
  | none => elseError "expect a type representation" "type_"

def typeListBody (r : Tbl) (strict : Bool) : P (Expression × Bool) := do
  incExprLevel
  let expr ← if strict then r.type_ else r.expression
  let comma ← skipped Operator.Comma
  if comma then
    if let some typ ← typeOrBlank r then
      let rec go : Nat → List Expression → P (List Expression)
        | 0, _ => throw .fuel
        | fuel+1, acc => do
          if ← skipped Operator.Comma then
            match ← typeOrBlank r with
            | some t => go fuel (acc ++ [t])
            | none => pure acc
          else pure acc
      let list ← go (← loopFuel) [expr, typ]
      decExprLevel
      return (.List list, true)
  decExprLevel
  return (expr, comma)

def typeOrNoneBody (r : Tbl) : P (Option Expression) := do
  match ← current with
  | some (_, .operator .Star) => do
    let pos ← expect Operator.Star
    let typ ← r.type_
    return some (.TypePointer (.mk pos typ))
  | some (_, .operator .Arrow) => do
    let pos ← expect Operator.Arrow
    let pos1 ← expect Keyword.Chan "type_or_none"
    let typ ← r.type_
    return some (.TypeChannel (.mk (pos, pos1) (some .Recv) typ))
  | some (_, .keyword .Func) => do
    return some (.TypeFunction (← r.funcType))
  | some (_, .operator .BarackLeft) => do
    let pos ← expect Operator.BarackLeft
    if ← currentIs Operator.BarackRight then
      let pos1 ← expect Operator.BarackRight
      let typ ← r.type_
      return some (.TypeSlice (.mk (pos, pos1) typ))
    let len ← r.arrayLen
    let pos1 ← expect Operator.BarackRight "type_or_none"
    let typ ← r.type_
    return some (.TypeArray (.mk (pos, pos1) len typ))
  | some (_, .keyword .Chan) => do
    let pos ← expect Keyword.Chan
    let pos1 ← currentPos
    let dir := if ← skipped Operator.Arrow then some ChanMode.Send else none
    let typ ← r.type_
    return some (.TypeChannel (.mk (pos, pos1) dir typ))
  | some (_, .keyword .Map) => do
    next
    let pos0 ← expect Operator.BarackLeft "type_or_none"
    let key ← r.type_
    let pos1 ← expect Operator.BarackRight "type_or_none"
    let val ← r.type_
    return some (.TypeMap (.mk (pos0, pos1) key val))
  | some (_, .keyword .Struct) => do return some (.TypeStruct (← r.structType))
  | some (_, .keyword .Interface) => do return some (.TypeInterface (← r.parseInterfaceType))
  | some (_, .literal .Ident name) => do
    if name = ['_'] then return none
    return some (← r.qualifiedIdent none)
  | some (pos0, .operator .ParenLeft) => do
    next
    let typ ← r.type_
    let pos1 ← expect Operator.ParenRight "type_or_none"
    return some (.Paren (.mk (pos0, pos1) typ))
  | _ => return none

def parseTypeParametersBody (r : Tbl) : P (FieldList × Bool) := do
  let pos0 ← expect Operator.BarackLeft "parse_type_parameters"
  let rec go : Nat → List Field → Bool → P (List Field × Bool)
    | 0, _, _ => throw .fuel
    | fuel+1, acc, extra => do
      if !(← currentIs Operator.BarackRight) then
        let name ← identifierList none
        let typ ← r.parseTypeElem
        let extra ← skipped Operator.Comma
        go fuel (acc ++ [.mk name typ none []]) extra
      else pure (acc, extra)
  let (list, extra) ← go (← loopFuel) [] false
  let pos1 ← expect Operator.BarackRight "parse_type_parameters"
  return (.mk (some (pos0, pos1)) list, extra)

def funcTypeBody (r : Tbl) : P FuncType := do
  let pos ← expect Keyword.Func "func_type"
  if ← currentIs Operator.BarackLeft then elseError "func type should have no type parameters" "func_type"
  let params ← r.parameters
  let params ← checkFieldList params true
  let result ← r.parseResult
  let result ← checkFieldList result false
  return .mk pos FieldList.empty params result

def structTypeBody (r : Tbl) : P StructType := do
  let _ ← expect Keyword.Struct "struct_type"
  let pos0 ← expect Operator.BraceLeft "struct_type"
  let rec go : Nat → List Field → P (List Field)
    | 0, _ => throw .fuel
    | fuel+1, acc => do
      if !(← currentIs Operator.BraceRight) then
        let field ← r.fieldDecl
        let field := match ← lineEndComment with
          | some c => match field with | .mk n t tg cs => Field.mk n t tg (cs ++ [c])
          | none => field
        let _ ← skipped Operator.SemiColon
        go fuel (acc ++ [field])
      else pure acc
  let fields ← go (← loopFuel) []
  let pos1 ← expect Operator.BraceRight "struct_type"
  return .mk (pos0, pos1) fields

def fieldDeclBody (r : Tbl) : P Field := do
  match ← current with
  | some (_, .literal .Ident _) => do
    let name ← identifier
    let embedded := match ← current with
      | some (_, .operator .Dot) | some (_, .operator .SemiColon) | some (_, .operator .BraceRight)
      | some (_, .literal .String _) => true
      | _ => false
    if embedded then
      let typ ← r.qualifiedIdent (some name)
      let tag ← stringLiteralOrNone
      let comments ← drainComments
      return .mk [] typ tag comments
    else
      let names ← identifierList (some name)
      let typ ← if names.length = 1 && (← currentIs Operator.BarackLeft) then do
          let typ ← r.arrayOrTypeargs
          if let .Index (.mk ipos _ index) := typ then
            let some nm := names.getLast? | throw (.panic "name.pop().unwrap()")
            let tag ← stringLiteralOrNone
            let comments ← drainComments
            return .mk [] (.Index (.mk ipos (.Ident nm) index)) tag comments
          pure typ
        else r.type_
      let tag ← stringLiteralOrNone
      let comments ← drainComments
      return .mk names typ tag comments
  | some (pos, .operator .Star) => do
    next
    let typ ← r.qualifiedIdent none
    let typ := Expression.TypePointer (.mk pos typ)
    let tag ← stringLiteralOrNone
    let comments ← drainComments
    return .mk [] typ tag comments
  | _ => elseError "expect field name or embeded field" "field_decl"

def parseInterfaceTypeBody (r : Tbl) : P InterfaceType := do
  let pos ← expect Keyword.Interface "parse_interface_type"
  let pos1 ← expect Operator.BraceLeft "parse_interface_type"
  let rec go : Nat → List Field → P (List Field)
    | 0, _ => throw .fuel
    | fuel+1, acc => do
      if !(← currentIs Operator.BraceRight) then
        let start ← preback
        if ← currentIs LitKind.Ident then
          if let .ok field ← attempt r.parseMethodElem then
            return ← go fuel (acc ++ [field])
        goback start
        let typ ← r.parseTypeElem
        if !(← currentIs Operator.BraceRight) then
          let _ ← expect Operator.SemiColon "parse_interface_type"
        go fuel (acc ++ [.mk [] typ none []])
      else pure acc
  let list ← go (← loopFuel) []
  let pos2 ← expect Operator.BraceRight "parse_interface_type"
  return .mk pos (.mk (some (pos1, pos2)) list)

def parseMethodElemBody (r : Tbl) : P Field := do
  let id ← identifier
  let params ← r.parameters
  let params ← checkFieldList params true
  let result ← r.parseResult
  let result ← checkFieldList result false
  let func : FuncType := .mk 0 FieldList.empty params result
  if !(← currentIs Operator.BraceRight) then
    let _ ← expect Operator.SemiColon "parse_method_elem"
  return .mk [id] (.TypeFunction func) none []

def parseTypeElemBody (r : Tbl) : P Expression := do
  let first ← r.parseTypeTerm
  let rec go : Nat → Expression → P Expression
    | 0, _ => throw .fuel
    | fuel+1, typ => do
      if ← currentIs Operator.Or then
        let pos ← currentPos
        next
        let y ← r.parseTypeTerm
        go fuel (.Operation (.mk pos .Or typ (some y)))
      else pure typ
  go (← loopFuel) first

def parseTypeTermBody (r : Tbl) : P Expression := do
  let pos ← currentPos
  let under ← skipped Operator.Tiled
  let typ ← r.type_
  return if under then .Operation (.mk pos .Tiled typ none) else typ

def arrayLenBody (r : Tbl) : P Expression := do
  let pos ← currentPos
  if ← skipped Operator.DotDotDot then return .Ellipsis (.mk pos none)
  r.parseNextLevelExpr

/-! ### expressions -/

def expressionListBody (r : Tbl) : P (List Expression) := do
  let first ← r.expression
  commaList r.expression (← loopFuel) [first]

def parseNextLevelExprBody (r : Tbl) : P Expression := do
  incExprLevel
  let e ← attempt r.expression
  decExprLevel
  match e with
  | .ok e => pure e
  | .error err => throw err

def expressionBody (r : Tbl) : P Expression := do
  if !(← get).started then next
  r.binaryExpression none 0

def binaryExpressionBody (r : Tbl) (p : Option Expression) (prec : Nat) : P Expression := do
  let x ← match p with
    | some e => pure e
    | none => r.unaryExpression
  let rec go : Nat → Expression → P Expression
    | 0, _ => throw .fuel
    | fuel+1, x => do
      match ← current with
      | some (pos, .operator op) =>
        let prec2 := op.prec
        if prec2 > prec then
          next
          let y ← r.binaryExpression none prec2
          go fuel (.Operation (.mk pos op x (some y)))
        else pure x
      | _ => pure x
  go (← loopFuel) x

def unaryExpressionBody (r : Tbl) : P Expression := do
  match ← current with
  | some (pos, .operator op) =>
    if op = .Star || op = .Add || op = .Sub || op = .Not || op = .Xor || op = .Tiled then do
      next
      let x ← r.unaryExpression
      return .Operation (.mk pos op x none)
    else if op = .And then do
      next
      let x := unparen (← r.unaryExpression)
      return .Operation (.mk pos op x none)
    else if op = .Arrow then do
      next
      match ← r.unaryExpression with
      | .TypeChannel typ => return .TypeChannel (← resetChanArrow pos typ)
      | x => return .Operation (.mk pos op x none)
    else r.primaryExpression none
  | _ => r.primaryExpression none

def callArgsLoop (r : Tbl) : Nat → List Expression → Bool → P (List Expression × Bool)
  | 0, _, _ => throw .fuel
  | fuel+1, args, endWithComma => do
    if (← currentNot Operator.ParenRight) && (← currentNot Operator.DotDotDot) then
      let mut ewc := endWithComma
      if !args.isEmpty then
        let _ ← expect Operator.Comma "call args"
        ewc := true
      if (← currentNot Operator.ParenRight) && (← currentNot Operator.DotDotDot) then
        let a ← r.parseNextLevelExpr
        callArgsLoop r fuel (args ++ [a]) false
      else callArgsLoop r fuel args ewc
    else pure (args, endWithComma)

def primaryExpressionBody (r : Tbl) (p : Option Expression) : P Expression := do
  let x ← match p with
    | some e => pure e
    | none => r.operand
  let rec go : Nat → Expression → P Expression
    | 0, _ => throw .fuel
    | fuel+1, x => do
      let pos ← currentPos
      match ← current with
      | some (_, .operator .Dot) => do
        next
        match ← current with
        | some (_, .literal .Ident _) => do
          let sel ← identifier
          go fuel (.Selector (.mk pos x sel))
        | some (_, .operator .ParenLeft) => do
          next
          let right ← if ← skipped Keyword.Type then pure none else some <$> r.type_
          let rp ← expect Operator.ParenRight "type assertion"
          go fuel (.TypeAssert (.mk (pos, rp) x right))
        | _ => elseError "expect name or '('" "primary_expression"
      | some (_, .operator .BarackLeft) => do
        let (op, index) ← r.parseSliceIndexOrTypeInst
        let rb ← expect Operator.BarackRight "index"
        let pp := (pos, rb)
        match op with
        | none =>
          match index.getLast? with
          | some (some i) => go fuel (.Index (.mk pp x i))
          | _ => throw (.panic "index.pop().unwrap().unwrap()")
        | some .Comma => go fuel (.IndexList (.mk pp x (index.filterMap id)))
        | some .Colon =>
          let len := index.length
          let rev := index.reverse
          let i3 := (rev[0]?).getD none
          let i2 := (rev[1]?).getD none
          let i1 := (rev[2]?).getD none
          let tri ← match len with
            | 3 => pure (i1, i2, i3)
            | 2 => pure (i2, i3, none)
            | 1 => pure (i3, none, none)
            | _ => throw (.panic "len should less then 3")
          go fuel (.Slice (.mk pp x tri))
        | _ => throw (.panic "bad operator")
      | some (_, .operator .ParenLeft) => do
        next
        let (args, endWithComma) ← callArgsLoop r (← loopFuel) [] false
        let currentPos' ← currentPos
        let dots := if ← skipped Operator.DotDotDot then some currentPos' else none
        if dots.isSome && (endWithComma || args.isEmpty) then
          elseErrorAt currentPos' "dotdotdot has no name" "call"
        let _ ← skipped Operator.Comma
        let rp ← expect Operator.ParenRight "call"
        go fuel (.Call (.mk (pos, rp) args x dots))
      | some (_, .operator .BraceLeft) => do
        if !(← checkBrace x) then return x
        let val ← r.parseLitValue
        go fuel (.CompositeLit (.mk x val))
      | _ => pure x
  go (← loopFuel) x

def operandBody (r : Tbl) : P Expression := do
  match ← current with
  | some (_, .literal .Ident _) => return .Ident (← identifier)
  | some (_, .literal _ _) => return .BasicLit (← literal)
  | some (_, .operator .ParenLeft) => do
    let pos ← currentPos
    next
    let e ← r.parseNextLevelExpr
    let pos1 ← expect Operator.ParenRight "operand"
    return .Paren (.mk (pos, pos1) e)
  | some (_, .keyword .Func) => do
    let typ ← r.funcType
    if ← currentIs Operator.BraceLeft then
      let body ← r.parseBlockStmt
      return .FuncLit (.mk typ body)
    return .TypeFunction typ
  | some (_, .operator .BarackLeft) | some (_, .keyword .Chan) | some (_, .keyword .Map)
  | some (_, .keyword .Struct) | some (_, .keyword .Interface) => r.type_
  | _ => elseError "expect expression" "operand"

def parseSliceIndexOrTypeInstBody (r : Tbl) : P (Option Operator × List (Option Expression)) := do
  next
  let mut colon := 0
  let mut index : List (Option Expression) := []
  if ← skipped Operator.Colon then
    colon := colon + 1
    index := index ++ [none]
    if ← currentIs Operator.BarackRight then return (some .Colon, index)
  index := index ++ [some (← r.parseNextLevelExpr)]
  if ← currentIs Operator.BarackRight then
    return (if colon > 0 then some .Colon else none, index)
  match ← current with
  | some (_, .operator .Comma) => do
    if colon ≠ 0 then
      let cur ← takeCurrent
      unexpected [Operator.Colon, Operator.Comma] cur "slice"
    let rec go : Nat → List (Option Expression) → P (List (Option Expression))
      | 0, _ => throw .fuel
      | fuel+1, acc => do
        if ← skipped Operator.Comma then
          if ← currentIs Operator.BarackRight then pure acc   -- a trailing comma
          else
            let e ← r.parseNextLevelExpr
            go fuel (acc ++ [some e])
        else pure acc
    let index2 ← go (← loopFuel) index
    return (if index2.length > 1 then some .Comma else none, index2)
  | some (_, .operator .Colon) => do
    next
    if ← currentIs Operator.BarackRight then return (some .Colon, index)
    index := index ++ [some (← r.parseNextLevelExpr)]
    if ← currentIs Operator.BarackRight then return (some .Colon, index)
    if index.length = 3 then
      elseErrorAt (← currentPos) "expect ] in slice [:a:b..." "slice"
    let _ ← expect Operator.Colon "slice"
    index := index ++ [some (← r.parseNextLevelExpr)]
    return (some .Colon, index)
  | _ => do
    let cur ← takeCurrent
    unexpected [Operator.Colon, Operator.Comma] cur "slice"

def parseLitValueBody (r : Tbl) : P LiteralValue := do
  incExprLevel
  let pos0 ← expect Operator.BraceLeft "parse_lit_value"
  let rec go : Nat → List KeyedElement → P (List KeyedElement)
    | 0, _ => throw .fuel
    | fuel+1, acc => do
      if !(← currentIs Operator.BraceRight) then
        let e ← r.parseElement
        let _ ← skipped Operator.Comma
        go fuel (acc ++ [e])
      else pure acc
  let values ← go (← loopFuel) []
  decExprLevel
  let pos1 ← expect Operator.BraceRight "parse_lit_value"
  return .mk (pos0, pos1) values

def parseElementBody (r : Tbl) : P KeyedElement := do
  let key ← r.parseElementValue
  if ← skipped Operator.Colon then
    let val ← r.parseElementValue
    return .mk (some key) val
  else return .mk none key

def parseElementValueBody (r : Tbl) : P Element := do
  if ← currentIs Operator.BraceLeft then return .LitValue (← r.parseLitValue)
  else return .Expr (← r.expression)

def parseResultBody (r : Tbl) : P FieldList := do
  match ← current with
  | some (_, .operator .ParenLeft) => r.parameters
  | _ => do
    let list := match ← r.typeOrNone with
      | some typ => [fieldOfExpr typ]
      | none => []
    return .mk none list

def paramsListBody (r : Tbl) (op cl : Operator) : P FieldList := do
  let pos0 ← expect op "params_list"
  let rec go : Nat → List Field → P (List Field)
    | 0, _ => throw .fuel
    | fuel+1, acc => do
      if !(← currentIs cl) then
        let fs ← r.parseParameterDecl
        let _ ← skipped Operator.Comma
        go fuel (acc ++ fs)
      else pure acc
  let list ← go (← loopFuel) []
  let pos1 ← expect cl "params_list"
  return .mk (some (pos0, pos1)) list

/-- parser.rs:1426-1549 -/
def parseParameterDeclBody (r : Tbl) : P (List Field) := do
  if ← currentIs Operator.DotDotDot then
    let pos ← expect Operator.DotDotDot
    let elt ← r.type_
    return [fieldOfExpr (.Ellipsis (.mk pos (some elt)))]
  if ← currentNot LitKind.Ident then
    return [fieldOfExpr (← r.type_)]
  let first ← identifier
  let rec go : Nat → List Ident → Bool → P (List Field)
    | 0, _, _ => throw .fuel
    | fuel+1, idList, endWithComma => do
      match ← currentKind with
      | .operator .ParenRight => return idList.map fieldOfIdent
      | .operator .BarackLeft => do
        if endWithComma then
          let t ← r.type_
          return idList.map fieldOfIdent ++ [fieldOfExpr t]
        match ← r.arrayOrTypeargs with
        | .Index (.mk ipos _ index) =>
          let some id := idList.getLast? | throw (.panic "id_list.pop().unwrap()")
          return idList.dropLast.map fieldOfIdent ++ [fieldOfExpr (.Index (.mk ipos (.Ident id) index))]
        | typ => return [.mk idList typ none []]
      | .operator .DotDotDot => do
        if endWithComma then
          let pos ← expect Operator.DotDotDot
          let elt ← r.type_
          return idList.map fieldOfIdent ++ [fieldOfExpr (.Ellipsis (.mk pos (some elt)))]
        if idList.length > 1 then elseError "ellipsis type should have only one parameter" "param"
        let pos ← expect Operator.DotDotDot
        let elt ← r.type_
        return [.mk idList (.Ellipsis (.mk pos (some elt))) none []]
      | .operator .Dot => do
        if endWithComma then elseError "unexpected '.' after ','" "param"
        let pkg := idList.getLast?
        let typ ← r.qualifiedIdent pkg
        return idList.dropLast.map fieldOfIdent ++ [fieldOfExpr typ]
      | .operator .Comma => do
        next
        if ← currentIs LitKind.Ident then
          let id ← identifier
          go fuel (idList ++ [id]) false
        else go fuel idList true
      | _ => do
        if endWithComma then return idList.map fieldOfIdent
        let typ ← r.parseTypeElem
        return [.mk idList typ none []]
  go (← loopFuel) [first] false

def arrayOrTypeargsBody (r : Tbl) : P Expression := do
  let pos0 ← expect Operator.BarackLeft "array_or_typeargs"
  if ← currentIs Operator.BarackRight then
    let pos1 ← expect Operator.BarackRight
    let typ ← r.type_
    return .TypeSlice (.mk (pos0, pos1) typ)
  let (expr, comma) ← r.typeList false
  let pos1 ← expect Operator.BarackRight "array_or_typeargs"
  if !comma then
    if let some typ ← r.typeOrNone then
      return .TypeArray (.mk (pos0, pos1) expr typ)
  return .Index (.mk (pos0, pos1) (.List []) expr)

def qualifiedIdentBody (r : Tbl) (name : Option Ident) : P Expression := do
  let name ← match name with
    | some n => pure n
    | none => identifier "qualified_ident"
  let mut x : Expression := .Ident name
  let pos ← currentPos
  if ← skipped Operator.Dot then
    let sel ← identifier "qualified_ident"
    x := .Selector (.mk pos x sel)
  if ← currentIs Operator.BarackLeft then r.typeInstance x else pure x

def typeInstanceBody (r : Tbl) (left : Expression) : P Expression := do
  let pos0 ← expect Operator.BarackLeft "type_instance"
  if ← currentIs Operator.BarackRight then elseError "expect type argument list" "type_instance"
  let (index, _) ← r.typeList true
  let pos1 ← expect Operator.BarackRight "type_instance"
  return .Index (.mk (pos0, pos1) left index)

/-! ### statements -/

def stmtListStop : P Bool := do
  match ← current with
  | none => pure true
  | some (_, .keyword .Case) | some (_, .keyword .Default) | some (_, .operator .BraceRight) => pure true
  | _ => pure false

def parseStmtListBody (r : Tbl) : P (List Statement) := do
  let rec go : Nat → List Statement → P (List Statement)
    | 0, _ => throw .fuel
    | fuel+1, acc => do
      if !(← stmtListStop) then
        let s ← r.parseStmt
        go fuel (acc ++ [s])
      else pure acc
  go (← loopFuel) []

def parseRangeExpr (r : Tbl) : P RangeExpr := do
  let pos ← expect Keyword.Range "parse_range_expr"
  let right ← r.expression
  return .mk pos right

def isAssignOp (op : Operator) : Bool :=
  op = .Define || op = .Assign || op = .AddAssign || op = .SubAssign || op = .MulAssign || op = .QuoAssign ||
  op = .RemAssign || op = .AndAssign || op = .OrAssign || op = .XorAssign || op = .ShlAssign ||
  op = .ShrAssign || op = .AndNotAssign

def parseSimpleStmtBody (r : Tbl) : P Statement := do
  let left ← r.expressionList
  let some (pos, tok) ← current | elseError "unexpected EOF" "parse_simple_stmt"
  match tok with
  | .operator op =>
    if isAssignOp op then
      next
      let isRange ← currentIs Keyword.Range
      let isAssign := op = .Assign || op = .Define
      let right ← if isRange && isAssign then do pure [Expression.Range (← parseRangeExpr r)]
                  else r.expressionList
      if op = .Define then checkAssignStmt left
      if left.length < right.length then
        elseErrorAt pos "left side can not less than right side for assign" "parse_simple_stmt"
      return .Assign (.mk pos op left right)
    else pure ()
  | _ => pure ()
  let expr ← checkSingleExpr left
  match ← current with
  | some (_, .operator .Colon) =>
    match expr with
    | .Ident name => do
      next
      let stmt ← r.parseStmt
      return .Label (.mk pos name stmt)
    | _ => elseErrorAt pos "illegal label declaration" "parse_simple_stmt"
  | some (_, .operator .Arrow) => do
    next
    let value ← r.expression
    return .Send (.mk pos expr value)
  | some (_, .operator .Inc) => do next; return .IncDec (.mk pos .Inc expr)
  | some (_, .operator .Dec) => do next; return .IncDec (.mk pos .Dec expr)
  | _ => return .Expr (.mk expr)

def parseDeclStmt (r : Tbl) : P DeclStmt := do
  match ← current with
  | some (_, .keyword .Var) => return .Variable (← r.parseDeclVar)
  | some (_, .keyword .Type) => return .Type (← r.parseDeclType)
  | some (_, .keyword .Const) => return .Const (← r.parseDeclConst)
  | _ => throw (.panic "must call at var | const | type")

def parseBlockStmtBody (r : Tbl) : P BlockStmt := do
  incExprLevel
  let pos0 ← expect Operator.BraceLeft "parse_block_stmt"
  let rec go : Nat → List Statement → P (List Statement)
    | 0, _ => throw .fuel
    | fuel+1, acc => do
      if !(← currentIs Operator.BraceRight) then
        let s ← r.parseStmt
        go fuel (acc ++ [s])
      else pure acc
  let list ← go (← loopFuel) []
  decExprLevel
  let pos1 ← expect Operator.BraceRight "parse_block_stmt"
  return .mk (pos0, pos1) list

def parseGoStmt (r : Tbl) : P GoStmt := do
  let pos ← expect Keyword.Go
  match ← r.expression with
  | .Call call => do
    let _ ← skipped Operator.SemiColon
    return .mk pos call
  | _ => elseErrorAt (pos + 2) "must be invoked function after go" "parse_go_stmt"

def parseDeferStmt (r : Tbl) : P DeferStmt := do
  let pos ← expect Keyword.Defer
  match ← r.expression with
  | .Call call => do
    let _ ← skipped Operator.SemiColon
    return .mk pos call
  | _ => elseErrorAt (pos + 2) "must be invoked function after go" "parse_defer_stmt"

def parseReturnStmt (r : Tbl) : P ReturnStmt := do
  let pos ← expect Keyword.Return
  let ret ← if (← currentNot Operator.SemiColon) && (← currentNot Operator.BraceRight) then r.expressionList
            else pure []
  let _ ← skipped Operator.SemiColon
  return .mk pos ret

def parseBranchStmt (key : Keyword) : P BranchStmt := do
  let pos ← expect key
  let ident ← if key ≠ .FallThrough && (← currentIs LitKind.Ident) then some <$> identifier else pure none
  let _ ← skipped Operator.SemiColon
  return { pos, key, ident }

def parseSelectStmt (r : Tbl) : P SelectStmt := do
  let pos ← expect Keyword.Select
  let body ← r.parseCommBlock
  return .mk pos body

def isSimpleStart : Token → Bool
  | .literal .. => true
  | .keyword k => k = .Func || k = .Struct || k = .Map || k = .Chan || k = .Interface
  | .operator o => o = .Add || o = .Sub || o = .Star || o = .Xor || o = .Arrow || o = .Not ||
      o = .ParenLeft || o = .BarackLeft
  | _ => false

def parseStmtBody (r : Tbl) : P Statement := do
  if !(← get).started then next
  let some (pos, tok) ← current | elseError "expect statement" "parse_stmt"
  if isSimpleStart tok then
    let stmt ← r.parseSimpleStmt
    let _ ← skipped Operator.SemiColon
    return stmt
  match tok with
  | .keyword .Var | .keyword .Type | .keyword .Const => return .Declaration (← parseDeclStmt r)
  | .operator .BraceLeft => return .Block (← r.parseBlockStmt)
  | .keyword .Go => return .Go (← parseGoStmt r)
  | .keyword .Defer => return .Defer (← parseDeferStmt r)
  | .keyword .Return => return .Return (← parseReturnStmt r)
  | .keyword .If => return .If (← r.parseIfStmt)
  | .keyword .Switch => r.parseSwitchStmt
  | .keyword .Select => return .Select (← parseSelectStmt r)
  | .keyword .For => r.parseForStmt
  | .operator .SemiColon => do next; return .Empty { pos }
  | .operator .BraceRight => return .Empty { pos }
  | .keyword .Break => return .Branch (← parseBranchStmt .Break)
  | .keyword .FallThrough => return .Branch (← parseBranchStmt .FallThrough)
  | .keyword .Continue => return .Branch (← parseBranchStmt .Continue)
  | .keyword .Goto => return .Branch (← parseBranchStmt .Goto)
  | _ => elseErrorAt pos "expect statement" "parse_stmt"

def parseIfStmtBody (r : Tbl) : P IfStmt := do
  let pos ← expect Keyword.If
  let (init, cond) ← r.parseIfHeader
  let body ← r.parseBlockStmt
  let else_ : Option Statement ← if ← skipped Keyword.Else then
      match ← current with
      | some (_, .keyword .If) => do pure (some (.If (← r.parseIfStmt)))
      | some (_, .operator .BraceLeft) => do
        let block ← r.parseBlockStmt
        let _ ← skipped Operator.SemiColon
        pure (some (.Block block))
      | _ => elseError "expect else or if statement" "parse_if_stmt"
    else pure none
  if else_.isNone then
    let _ ← skipped Operator.SemiColon
  return .mk pos init cond body else_

def parseIfHeaderBody (r : Tbl) : P (Option Statement × Expression) := do
  if ← currentIs Operator.BraceLeft then elseError "mission condition in if statement" "parse_if_header"
  let prevLevel := (← get).exprLevel
  modify fun s => { s with exprLevel := -1 }
  let init ← if ← currentNot Operator.SemiColon then
      if ← currentIs Keyword.Var then elseError "var declaration not allowed in if statement" "parse_if_header"
      else some <$> r.parseSimpleStmt
    else pure none
  let cond ← if ← currentNot Operator.BraceLeft then do
      let _ ← expect Operator.SemiColon "parse_if_header"
      some <$> r.parseSimpleStmt
    else pure none
  let (init, cond) ← match init, cond with
    | some i, some c => pure (some i, c)
    | some i, none => pure (none, i)
    | none, some c => pure (none, c)
    | none, none => elseError "mission cond in if statement" "parse_if_header"
  let cond ← match cond with
    | .Expr (.mk e) => pure e
    | _ => elseError "cond must be boolean expression" "parse_if_header"
  modify fun s => { s with exprLevel := prevLevel }
  return (init, cond)

def parseSwitchStmtBody (r : Tbl) : P Statement := do
  let pos ← expect Keyword.Switch
  let mut init : Option Statement := none
  let mut tag : Option Statement := none
  let prevLevel := (← get).exprLevel
  modify fun s => { s with exprLevel := -1 }
  if ← currentNot Operator.BraceLeft then
    if ← currentNot Operator.SemiColon then tag := some (← r.parseSimpleStmt)
    if ← skipped Operator.SemiColon then
      init := tag
      tag := none
      if ← currentNot Operator.BraceLeft then tag := some (← r.parseSimpleStmt)
  modify fun s => { s with exprLevel := prevLevel }
  let typeSwitch ← isTypeSwitch tag
  let block ← r.parseCaseBlock typeSwitch
  if typeSwitch then
    return .TypeSwitch (.mk pos init tag block)
  else
    let tagE ← match tag with
      | none => pure none
      | some (.Expr (.mk e)) => pure (some e)
      | _ => elseError "switch tag must be an expression" "parse_switch_stmt"
    return .Switch (.mk pos init tagE block)

def parseCaseBlockBody (r : Tbl) (typeAssert : Bool) : P CaseBlock := do
  let pos ← expect Operator.BraceLeft "parse_case_block"
  let rec go : Nat → List CaseClause → P (List CaseClause)
    | 0, _ => throw .fuel
    | fuel+1, acc => do
      if ← currentNot Operator.BraceRight then
        let (p0, tok, list) ← match ← current with
          | some (_, .keyword .Case) => do
            let p ← expect Keyword.Case
            let l ← if typeAssert then r.parseTypeList else r.expressionList
            pure (p, Keyword.Case, l)
          | _ => do
            let p ← expect Keyword.Default "parse_case_block"
            pure (p, Keyword.Default, [])
        let colon ← expect Operator.Colon "parse_case_block"
        let body ← r.parseStmtList
        go fuel (acc ++ [.mk tok (p0, colon) list body])
      else pure acc
  let body ← go (← loopFuel) []
  let pos1 ← expect Operator.BraceRight "parse_case_block"
  return .mk (pos, pos1) body

def parseCommStmtBody (r : Tbl) : P Statement := do
  let list ← r.expressionList
  match ← current with
  | some (pos, .operator .Arrow) => do
    next
    let value ← r.expression
    let chan ← checkSingleExpr list
    return .Send (.mk pos chan value)
  | some (pos, .operator op) =>
    if op = .Define || op = .Assign then do
      if list.length > 2 then elseError "expect 1 or 2 expression" "parse_comm_stmt"
      next
      if op = .Define then checkAssignStmt list
      let right ← r.expression
      return .Assign (.mk pos op list [right])
    else do
      let expr ← checkSingleExpr list
      return .Expr (.mk expr)
  | _ => do
    let expr ← checkSingleExpr list
    return .Expr (.mk expr)

def parseCommBlockBody (r : Tbl) : P CommBlock := do
  let pos ← expect Operator.BraceLeft "parse_comm_block"
  let rec go : Nat → List CommClause → P (List CommClause)
    | 0, _ => throw .fuel
    | fuel+1, acc => do
      if ← currentNot Operator.BraceRight then
        let p0 ← currentPos
        let (comm, tok) ← match ← current with
          | some (_, .keyword .Case) => do
            let _ ← expect Keyword.Case
            let stmt ← r.parseCommStmt
            pure (some stmt, Keyword.Case)
          | _ => do
            let _ ← expect Keyword.Default "parse_comm_block"
            pure (none, Keyword.Default)
        let colon ← expect Operator.Colon "parse_comm_block"
        let body ← r.parseStmtList
        go fuel (acc ++ [.mk (p0, colon) tok comm body])
      else pure acc
  let body ← go (← loopFuel) []
  let pos1 ← expect Operator.BraceRight "parse_comm_block"
  return .mk (pos, pos1) body

def assignIsRange : Statement → Bool
  | .Assign (.mk _ _ _ (.Range _ :: _)) => true
  | _ => false

def parseForStmtBody (r : Tbl) : P Statement := do
  let pos ← expect Keyword.For
  let prevLevel := (← get).exprLevel
  modify fun s => { s with exprLevel := -1 }
  if ← currentIs Keyword.Range then
    let rp ← expect Keyword.Range
    let expr ← r.expression
    modify fun s => { s with exprLevel := prevLevel }
    let body ← r.parseBlockStmt
    return .Range (.mk (pos, rp) none none none expr body)
  if ← currentIs Operator.BraceLeft then
    modify fun s => { s with exprLevel := prevLevel }
    let body ← r.parseBlockStmt
    return .For (.mk pos none none none body)
  let mut cond : Option Statement := none
  if ← currentNot Operator.SemiColon then
    let stmt ← r.parseSimpleStmt
    if assignIsRange stmt then
      match stmt with
      | .Assign (.mk apos aop left right) =>
        if left.length > 2 then elseErrorAt apos "expect at most 2 expression" "parse_for_stmt"
        let key := left[0]?
        let value := left[1]?
        match right.getLast? with
        | some (.Range (.mk pos1 expr)) =>
          modify fun s => { s with exprLevel := prevLevel }
          let body ← r.parseBlockStmt
          return .Range (.mk (pos, pos1) key value (some (apos, aop)) expr body)
        | _ => throw (.panic "internal error: entered unreachable code (parser.rs:2169)")
      | _ => throw (.panic "unreachable")
    cond := some stmt
  let mut init : Option Statement := none
  let mut post : Option Statement := none
  if ← currentIs Operator.SemiColon then
    next
    init := cond
    cond := none
    if ← currentNot Operator.SemiColon then cond := some (← r.parseSimpleStmt)
    let _ ← expect Operator.SemiColon "parse_for_stmt"
    if ← currentNot Operator.BraceLeft then post := some (← r.parseSimpleStmt)
  modify fun s => { s with exprLevel := prevLevel }
  let body ← r.parseBlockStmt
  return .For (.mk pos init cond post body)

/-! ### the table -/

/-- ghost recursion-depth accounting around every table entry -/
def enter (m : P α) : P α := fun s =>
  let d := s.depth + 1
  match m { s with depth := d, maxDepth := max s.maxDepth d } with
  | (r, s') => (r, { s' with depth := s'.depth - 1 })

def Tbl.bot : Tbl where
  parseFuncDecl := throw .fuel
  parseDeclVar := throw .fuel
  parseDeclType := throw .fuel
  parseDeclConst := throw .fuel
  parseTypeSpec := throw .fuel
  parseVarSpec := throw .fuel
  parseConstSpec := fun _ => throw .fuel
  parseTypeList := throw .fuel
  type_ := throw .fuel
  typeList := fun _ => throw .fuel
  typeOrNone := throw .fuel
  parseTypeParameters := throw .fuel
  funcType := throw .fuel
  structType := throw .fuel
  fieldDecl := throw .fuel
  parseInterfaceType := throw .fuel
  parseMethodElem := throw .fuel
  parseTypeElem := throw .fuel
  parseTypeTerm := throw .fuel
  arrayLen := throw .fuel
  expressionList := throw .fuel
  parseNextLevelExpr := throw .fuel
  expression := throw .fuel
  binaryExpression := fun _ _ => throw .fuel
  unaryExpression := throw .fuel
  primaryExpression := fun _ => throw .fuel
  operand := throw .fuel
  parseSliceIndexOrTypeInst := throw .fuel
  parseLitValue := throw .fuel
  parseElement := throw .fuel
  parseElementValue := throw .fuel
  parseResult := throw .fuel
  paramsList := fun _ _ => throw .fuel
  parseParameterDecl := throw .fuel
  arrayOrTypeargs := throw .fuel
  qualifiedIdent := fun _ => throw .fuel
  typeInstance := fun _ => throw .fuel
  parseStmtList := throw .fuel
  parseStmt := throw .fuel
  parseSimpleStmt := throw .fuel
  parseBlockStmt := throw .fuel
  parseIfStmt := throw .fuel
  parseIfHeader := throw .fuel
  parseSwitchStmt := throw .fuel
  parseCaseBlock := fun _ => throw .fuel
  parseCommStmt := throw .fuel
  parseCommBlock := throw .fuel
  parseForStmt := throw .fuel

def Tbl.step (r : Tbl) : Tbl where
  parseFuncDecl := enter (parseFuncDeclBody r)
  parseDeclVar := enter (parseDeclVarBody r)
  parseDeclType := enter (parseDeclTypeBody r)
  parseDeclConst := enter (parseDeclConstBody r)
  parseTypeSpec := enter (parseTypeSpecBody r)
  parseVarSpec := enter (parseVarSpecBody r)
  parseConstSpec := fun i => enter (parseConstSpecBody r i)
  parseTypeList := enter (parseTypeListBody r)
  type_ := enter (typeBody r)
  typeList := fun b => enter (typeListBody r b)
  typeOrNone := enter (typeOrNoneBody r)
  parseTypeParameters := enter (parseTypeParametersBody r)
  funcType := enter (funcTypeBody r)
  structType := enter (structTypeBody r)
  fieldDecl := enter (fieldDeclBody r)
  parseInterfaceType := enter (parseInterfaceTypeBody r)
  parseMethodElem := enter (parseMethodElemBody r)
  parseTypeElem := enter (parseTypeElemBody r)
  parseTypeTerm := enter (parseTypeTermBody r)
  arrayLen := enter (arrayLenBody r)
  expressionList := enter (expressionListBody r)
  parseNextLevelExpr := enter (parseNextLevelExprBody r)
  expression := enter (expressionBody r)
  binaryExpression := fun p n => enter (binaryExpressionBody r p n)
  unaryExpression := enter (unaryExpressionBody r)
  primaryExpression := fun p => enter (primaryExpressionBody r p)
  operand := enter (operandBody r)
  parseSliceIndexOrTypeInst := enter (parseSliceIndexOrTypeInstBody r)
  parseLitValue := enter (parseLitValueBody r)
  parseElement := enter (parseElementBody r)
  parseElementValue := enter (parseElementValueBody r)
  parseResult := enter (parseResultBody r)
  paramsList := fun a b => enter (paramsListBody r a b)
  parseParameterDecl := enter (parseParameterDeclBody r)
  arrayOrTypeargs := enter (arrayOrTypeargsBody r)
  qualifiedIdent := fun n => enter (qualifiedIdentBody r n)
  typeInstance := fun e => enter (typeInstanceBody r e)
  parseStmtList := enter (parseStmtListBody r)
  parseStmt := enter (parseStmtBody r)
  parseSimpleStmt := enter (parseSimpleStmtBody r)
  parseBlockStmt := enter (parseBlockStmtBody r)
  parseIfStmt := enter (parseIfStmtBody r)
  parseIfHeader := enter (parseIfHeaderBody r)
  parseSwitchStmt := enter (parseSwitchStmtBody r)
  parseCaseBlock := fun b => enter (parseCaseBlockBody r b)
  parseCommStmt := enter (parseCommStmtBody r)
  parseCommBlock := enter (parseCommBlockBody r)
  parseForStmt := enter (parseForStmtBody r)

def tbl : Nat → Tbl
  | 0 => Tbl.bot
  | n+1 => (tbl n).step

/-- parser.rs:286-331 -/
def parseFile (r : Tbl) : P File := do
  if !(← get).started then next
  let docs ← drainComments
  let pkgName ← parsePackage
  let _ ← skipped Operator.SemiColon
  let rec imports : Nat → List Import → P (List Import)
    | 0, _ => throw .fuel
    | fuel+1, acc => do
      if ← currentIs Keyword.Import then
        let is ← parseImportDecl
        let _ ← skipped Operator.SemiColon
        imports fuel (acc ++ is)
      else pure acc
  let imps ← imports (← loopFuel) []
  let rec decls : Nat → List Declaration → P (List Declaration)
    | 0, _ => throw .fuel
    | fuel+1, acc => do
      match ← current with
      | none => pure acc
      | some (_, .keyword .Func) => do let d ← r.parseFuncDecl; decls fuel (acc ++ [.Function d])
      | some (_, .keyword .Var) => do let d ← r.parseDeclVar; decls fuel (acc ++ [.Variable d])
      | some (_, .keyword .Type) => do let d ← r.parseDeclType; decls fuel (acc ++ [.Type d])
      | some (_, .keyword .Const) => do let d ← r.parseDeclConst; decls fuel (acc ++ [.Const d])
      | _ => do
        let cur ← takeCurrent
        unexpected [Keyword.Func, Keyword.Var, Keyword.Type, Keyword.Const] cur "parse_file"
  let ds ← decls (← loopFuel) []
  let s ← get
  set { s with comments := #[] }
  return { path := s.path, line_info := [], docs, pkg_name := pkgName, imports := imps, decl := ds,
           comments := s.comments.toList }

def initState (src : String) (profile : Profile := .debug) : PState :=
  { scan := { src := src.toList.toArray, profile } }

def fuelFor (src : String) : Nat := 16 * (src.length + 4)

def runFile (src : String) (profile : Profile := .debug) : Except PErr File × PState :=
  parseFile (tbl (fuelFor src)) (initState src profile)
def runExpr (src : String) (profile : Profile := .debug) : Except PErr Expression × PState :=
  (tbl (fuelFor src)).expression (initState src profile)
def runStmt (src : String) (profile : Profile := .debug) : Except PErr Statement × PState :=
  (tbl (fuelFor src)).parseStmt (initState src profile)

end Gosyn.Model
