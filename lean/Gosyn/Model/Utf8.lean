/-!
Byte-level model of `Scanner::next_nstr` (`/repo/src/scanner.rs`), the only place where the crate
leaves safe Rust: it hands `source.as_bytes()[start..end]` to `str::from_utf8_unchecked`, with
`start = indices[pos]` and `end = indices.get(pos + n)` or `source.len()`, where
`(indices, chars) = source.char_indices().unzip()`.  It is called only with `pos < chars.len()`.

Proved here (core Lean only, no Mathlib: this file may be linked into the driver):
* `nextNstr_eq`: the slice is exactly the UTF-8 encoding of `chars[pos .. min(pos + n, len)]`;
* `nextNstr_bounds`: neither `indices[pos]` nor the slicing panics;
* `nextNstr_valid`: the slice satisfies core's `ByteArray.IsValidUTF8` (the invariant of `String`);
* `old_cex`: the previous `end = min(start + n, source.len())` produced invalid UTF-8 on `"aé"`.
-/
namespace Gosyn.Model.Utf8

/-- `source.as_bytes()` for `source = cs.collect::<String>()` -/
def enc (cs : List Char) : List UInt8 := cs.flatMap String.utf8EncodeChar

/-- `source.char_indices().map(|(i, _)| i)` started at byte offset `off` -/
def indicesFrom (off : Nat) : List Char → List Nat
  | [] => []
  | c :: cs => off :: indicesFrom (off + c.utf8Size) cs

/-- `indices`: byte offset of every char -/
def indices (cs : List Char) : List Nat := indicesFrom 0 cs

/-- `&bytes[start..end]` (total: the panicking cases are excluded by `nextNstr_bounds`) -/
def slice (bytes : List UInt8) (start end_ : Nat) : List UInt8 :=
  (bytes.drop start).take (end_ - start)

/-- `next_nstr`, line by line -/
def nextNstrBytes (cs : List Char) (pos n : Nat) : List UInt8 :=
  let source := enc cs
  let indices := indices cs
  let start := indices[pos]!
  let end_ := match indices[pos + n]? with
    | some end_ => end_
    | none => source.length
  slice source start end_

theorem length_indicesFrom (off : Nat) (cs : List Char) : (indicesFrom off cs).length = cs.length := by
  induction cs generalizing off with
  | nil => rfl
  | cons c cs ih => simp [indicesFrom, ih]

theorem enc_nil : enc [] = [] := rfl
theorem enc_cons (c : Char) (cs : List Char) : enc (c :: cs) = String.utf8EncodeChar c ++ enc cs := by
  simp [enc]
theorem enc_append (a b : List Char) : enc (a ++ b) = enc a ++ enc b := by
  simp [enc]

theorem indicesFrom_getElem? (off : Nat) (cs : List Char) (k : Nat) (h : k < cs.length) :
    (indicesFrom off cs)[k]? = some (off + (enc (cs.take k)).length) := by
  induction cs generalizing off k with
  | nil => simp at h
  | cons c cs ih =>
    cases k with
    | zero => simp [indicesFrom, enc_nil]
    | succ k =>
      simp only [List.length_cons, Nat.add_lt_add_iff_right] at h
      simp only [indicesFrom, List.getElem?_cons_succ, ih _ _ h, List.take_succ_cons, enc_cons,
        List.length_append, String.length_utf8EncodeChar]
      congr 1; omega

theorem indices_getElem? (cs : List Char) (k : Nat) (h : k < cs.length) :
    (indices cs)[k]? = some (enc (cs.take k)).length := by
  simp [indices, indicesFrom_getElem? 0 cs k h]

theorem indices_getElem?_none (cs : List Char) (k : Nat) (h : cs.length ≤ k) :
    (indices cs)[k]? = none := by
  simp [indices, length_indicesFrom, h]

/-- slicing `[a.length, a.length + b.length)` out of `a ++ b ++ c` gives `b` -/
theorem slice_append (a b c : List UInt8) : slice (a ++ b ++ c) a.length (a.length + b.length) = b := by
  simp [slice, List.append_assoc]

/-- the three-way split of the source at char positions `pos` and `pos + n` -/
theorem enc_split (cs : List Char) (pos n : Nat) :
    enc cs = enc (cs.take pos) ++ enc ((cs.drop pos).take n) ++ enc (cs.drop (pos + n)) := by
  rw [← enc_append, ← enc_append]
  congr 1
  rw [List.append_assoc, ← List.drop_drop, List.take_append_drop, List.take_append_drop]

theorem take_add_eq (cs : List Char) (pos n : Nat) :
    cs.take (pos + n) = cs.take pos ++ (cs.drop pos).take n := by
  rw [List.take_add]

/-- the value of `end` in both branches of the `match` -/
theorem end_eq (cs : List Char) (pos n : Nat) :
    (match (indices cs)[pos + n]? with
      | some e => e
      | none => (enc cs).length)
    = (enc (cs.take pos)).length + (enc ((cs.drop pos).take n)).length := by
  by_cases h : pos + n < cs.length
  · rw [indices_getElem? cs _ h, take_add_eq, enc_append, List.length_append]
  · have h : cs.length ≤ pos + n := by omega
    rw [indices_getElem?_none cs _ h]
    have : cs.drop (pos + n) = [] := List.drop_eq_nil_of_le h
    conv => lhs; rw [enc_split cs pos n]
    simp [this, enc_nil]

theorem nextNstr_eq (cs : List Char) (pos n : Nat) (h : pos < cs.length) :
    nextNstrBytes cs pos n = enc ((cs.drop pos).take n) := by
  have hs : (indices cs)[pos]! = (enc (cs.take pos)).length := by
    rw [getElem!_def, indices_getElem? cs pos h]
  unfold nextNstrBytes
  simp only [hs, end_eq]
  conv => lhs; rw [enc_split cs pos n]
  exact slice_append _ _ _

/-- no panic: `indices[pos]` is in bounds, and `start ≤ end ≤ source.len()` for the slice -/
theorem nextNstr_bounds (cs : List Char) (pos n : Nat) (h : pos < cs.length) :
    pos < (indices cs).length ∧
    (indices cs)[pos]! ≤ (match (indices cs)[pos + n]? with
      | some e => e
      | none => (enc cs).length) ∧
    (match (indices cs)[pos + n]? with
      | some e => e
      | none => (enc cs).length) ≤ (enc cs).length := by
  have hs : (indices cs)[pos]! = (enc (cs.take pos)).length := by
    rw [getElem!_def, indices_getElem? cs pos h]
  refine ⟨by simpa [indices, length_indicesFrom] using h, ?_, ?_⟩
  · rw [hs, end_eq]; omega
  · rw [end_eq]
    conv => rhs; rw [enc_split cs pos n]
    simp only [List.length_append]; omega

/-! ### validity, in core's sense -/

/-- the byte list, as a `ByteArray`, satisfies core's `ByteArray.IsValidUTF8`
    (the invariant of `String`, i.e. what `from_utf8_unchecked` assumes) -/
def valid (bs : List UInt8) : Prop := (ByteArray.mk bs.toArray).IsValidUTF8

theorem toByteArray_eq (bs : List UInt8) : bs.toByteArray = ByteArray.mk bs.toArray := by
  have h := List.data_toByteArray (l := bs)
  cases hb : bs.toByteArray with
  | mk d => rw [hb] at h; simp at h; rw [h]

/-- `enc` is core's `List.utf8Encode` -/
theorem utf8Encode_eq (l : List Char) : l.utf8Encode = ByteArray.mk (enc l).toArray := by
  rw [← toByteArray_eq]; rfl

theorem valid_iff (bs : List UInt8) : valid bs ↔ ∃ l : List Char, bs = enc l := by
  constructor
  · rintro ⟨l, hl⟩
    refine ⟨l, ?_⟩
    rw [utf8Encode_eq] at hl
    have := congrArg (fun b => b.data.toList) hl
    simpa using this
  · rintro ⟨l, rfl⟩
    exact ⟨l, (utf8Encode_eq l).symm⟩

theorem valid_enc (l : List Char) : valid (enc l) := (valid_iff _).2 ⟨l, rfl⟩

theorem nextNstr_valid (cs : List Char) (pos n : Nat) (h : pos < cs.length) :
    valid (nextNstrBytes cs pos n) := by
  rw [nextNstr_eq cs pos n h]; exact valid_enc _

/-- the same, spelled out -/
theorem nextNstr_isValidUTF8 (cs : List Char) (pos n : Nat) (h : pos < cs.length) :
    (ByteArray.mk (nextNstrBytes cs pos n).toArray).IsValidUTF8 := nextNstr_valid cs pos n h

/-! ### the old version -/

/-- before the repair: `end = min(start + n, source.len())` — `n` bytes instead of `n` chars -/
def nextNstrBytesOld (cs : List Char) (pos n : Nat) : List UInt8 :=
  let source := enc cs
  let indices := indices cs
  let start := indices[pos]!
  let end_ := min (start + n) source.length
  slice source start end_

theorem old_cex_bytes : nextNstrBytesOld ['a', 'é'] 0 2 = [0x61, 0xC3] := by decide

theorem old_cex : ¬ valid (nextNstrBytesOld ['a', 'é'] 0 2) := by
  rw [old_cex_bytes, valid, ← ByteArray.validateUTF8_eq_false_iff]
  decide

/-- stated on lists, without `ByteArray`: the old slice is not the encoding of any char sequence -/
theorem old_cex_list : ¬ ∃ l : List Char, nextNstrBytesOld ['a', 'é'] 0 2 = enc l :=
  fun h => old_cex ((valid_iff _).2 h)

/-- and via the checked conversion: `String::from_utf8` would have rejected it -/
theorem old_cex_fromUTF8? :
    String.fromUTF8? (ByteArray.mk (nextNstrBytesOld ['a', 'é'] 0 2).toArray) = none := by
  have h : ¬ (ByteArray.mk (nextNstrBytesOld ['a', 'é'] 0 2).toArray).IsValidUTF8 := old_cex
  simp [String.fromUTF8?, h]

/-! ### non-vacuity: multi-byte chars -/

-- "aé世😀b": 1 + 2 + 3 + 4 + 1 bytes
example : indices ['a', 'é', '世', '😀', 'b'] = [0, 1, 3, 6, 10] := by decide
example : (enc ['a', 'é', '世', '😀', 'b']).length = 11 := by decide
example : enc ['é'] = [0xC3, 0xA9] := by decide
example : enc ['世'] = [0xE4, 0xB8, 0x96] := by decide
example : enc ['😀'] = [0xF0, 0x9F, 0x98, 0x80] := by decide
-- two chars from `pos = 1`: "é世", 5 bytes
example : nextNstrBytes ['a', 'é', '世', '😀', 'b'] 1 2 = [0xC3, 0xA9, 0xE4, 0xB8, 0x96] := by decide
example : nextNstrBytes ['a', 'é', '世', '😀', 'b'] 1 2 = enc ['é', '世'] := by decide
-- `pos + n` past the end (the `None` branch): the rest of the input, "😀b"
example : nextNstrBytes ['a', 'é', '世', '😀', 'b'] 3 5 = enc ['😀', 'b'] := by decide
example : nextNstrBytes ['a', 'é', '世', '😀', 'b'] 3 5 = [0xF0, 0x9F, 0x98, 0x80, 0x62] := by decide
-- `pos + n = len` exactly (also the `None` branch)
example : nextNstrBytes ['a', 'é', '世', '😀', 'b'] 3 2 = enc ['😀', 'b'] := by decide
-- `n = 0`
example : nextNstrBytes ['a', 'é', '世', '😀', 'b'] 2 0 = [] := by decide
-- the instance of the theorem
example : nextNstrBytes ['a', 'é', '世', '😀', 'b'] 1 3 = enc ['é', '世', '😀'] :=
  nextNstr_eq _ 1 3 (by decide)
-- the old version on the same input: cuts '世' after its first byte
example : nextNstrBytesOld ['a', 'é', '世', '😀', 'b'] 1 3 = [0xC3, 0xA9, 0xE4] := by decide
-- old and new agree on ASCII
example : nextNstrBytesOld ['a', 'b', 'c'] 1 2 = nextNstrBytes ['a', 'b', 'c'] 1 2 := by decide
-- the validity check itself runs and accepts / rejects
example : (ByteArray.mk (nextNstrBytes ['a', 'é', '世', '😀', 'b'] 1 3).toArray).validateUTF8 = true := by
  decide
example : (ByteArray.mk (nextNstrBytesOld ['a', 'é', '世', '😀', 'b'] 1 3).toArray).validateUTF8 = false := by
  decide

#print axioms nextNstr_eq
#print axioms nextNstr_bounds
#print axioms nextNstr_valid
#print axioms nextNstr_isValidUTF8
#print axioms old_cex
#print axioms old_cex_list
#print axioms old_cex_fromUTF8?

end Gosyn.Model.Utf8
