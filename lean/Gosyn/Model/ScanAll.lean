import Gosyn.Model.Scanner
/-!
The token loop: what every client of `Scanner` does (`while let Some(t) = scanner.next_token()? { … }`,
the shape of `scanner::tests`, of the harness's `scan` mode and of the parser's own sequence of
`scan_next` calls when nothing is re-read).  `Driver/ModelRun.lean` answers the harness's `scan` cases
with exactly this function, so the whole-input theorems of `Props/C07b.lean` are about the object the
correspondence check compares with the implementation.
-/
namespace Gosyn.Model

structure ScanResult where
  /-- the `(offset, token)` pairs in the order they were returned -/
  toks : List (Nat × Token)
  /-- the error that ended the loop, if one did -/
  err : Option SErr
  /-- the model's own loop bound was hit (`scanTokens_fuel`: never with `scanFuel`) -/
  fuelOut : Bool
  final : Scanner

/-- calls `next_token` until end of input or the first error (`acc`: tokens so far, newest first) -/
def scanTokensAcc : Nat → Scanner → List (Nat × Token) → ScanResult
  | 0, s, acc => ⟨acc.reverse, none, true, s⟩
  | fuel+1, s, acc =>
    match s.nextToken with
    | (.ok (some pt), s') => scanTokensAcc fuel s' (pt :: acc)
    | (.ok none, s') => ⟨acc.reverse, none, false, s'⟩
    | (.error e, s') => ⟨acc.reverse, some e, false, s'⟩

/-- enough for every input: each call either consumes at least one char or spends the pending flag -/
def scanFuel (s : Scanner) : Nat := 2 * (s.src.size - s.pos) + 3

def scanTokens (s : Scanner) : ScanResult := scanTokensAcc (scanFuel s) s []

end Gosyn.Model
