import Gosyn.Spec.Prec
/-!
The precedence-climbing loop of `Parser::binary_expression` (parser.rs) as a pure function over a
flat operand/operator sequence: operands (`α`: unary and primary expressions, already parsed) and
binary operators in between.  `precOf` is the operator table (`Operator::precedence`, regenerated
from token.rs as `Gen.Operator.prec`).

    fn binary_expression(&mut self, prec: usize) -> Result<Expression> {
        let mut x = self.unray_expression()?;
        while let Some((pos, Token::Operator(op))) = self.current {
            let prec2 = op.precedence();
            if prec2 <= prec { break }          // written `if prec2 > prec { … } else { return x }`
            self.next()?;
            let y = self.binary_expression(prec2)?;
            x = Operation { op, x, y };
        }
    }
-/
namespace Gosyn.Model
open Gosyn.Gen Gosyn.Spec

variable {α : Type}

/-- the loop; `x` is the accumulator, `rest` the remaining (operator, operand) pairs, `p` the
    precedence of the caller.  Returns the tree and what is left for the caller. -/
def climb (precOf : Operator → Nat) : Nat → T α → List (Operator × α) → Nat → T α × List (Operator × α)
  | 0, x, rest, _ => (x, rest)
  | _+1, x, [], _ => (x, [])
  | fuel+1, x, (o, a) :: rest, p =>
      if precOf o > p then
        let r := climb precOf fuel (.atom a) rest (precOf o)
        climb precOf fuel (.bin o x r.1) r.2 p
      else (x, (o, a) :: rest)

/-- parse a flat sequence `a₀ o₁ a₁ o₂ a₂ …` from the top level (precedence 0) -/
def climbAll (precOf : Operator → Nat) (a0 : α) (rest : List (Operator × α)) : T α × List (Operator × α) :=
  climb precOf (rest.length + 1) (.atom a0) rest 0

end Gosyn.Model
