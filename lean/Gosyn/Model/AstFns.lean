import Gosyn.Model.Monad
/-! Pure helpers of ast.rs and parser.rs:2218-2330 -/
namespace Gosyn.Model
open Gosyn.Gen Gosyn.Ast P

/-- ast.rs:625-654; `List(_) => unimplemented!()` -/
def exprPos : Expression → Except String Nat
  | .Call (.mk pos _ _ _) => .ok pos.1
  | .Index (.mk pos _ _) => .ok pos.1
  | .Slice (.mk pos _ _) => .ok pos.1
  | .Ident x => .ok x.pos
  | .FuncLit (.mk (.mk pos _ _ _) _) => .ok pos
  | .Ellipsis (.mk pos _) => .ok pos
  | .Selector (.mk _ x _) => exprPos x
  | .BasicLit x => .ok x.pos
  | .Range (.mk pos _) => .ok pos
  | .Star (.mk pos _) => .ok pos
  | .Paren (.mk pos _) => .ok pos.1
  | .TypeAssert (.mk _ left _) => exprPos left
  | .CompositeLit (.mk typ _) => exprPos typ
  | .IndexList (.mk _ left _) => exprPos left
  | .List _ => .error "not implemented: list may empty"
  | .Operation (.mk _ _ x _) => exprPos x
  | .TypeMap (.mk pos _ _) => .ok pos.1
  | .TypeArray (.mk pos _ _) => .ok pos.1
  | .TypeSlice (.mk pos _) => .ok pos.1
  | .TypeFunction (.mk pos _ _ _) => .ok pos
  | .TypeStruct (.mk pos _) => .ok pos.1
  | .TypeChannel (.mk pos _ _) => .ok pos.1
  | .TypePointer (.mk pos _) => .ok pos
  | .TypeInterface (.mk pos _) => .ok pos

def exprPosP (e : Expression) : P Nat :=
  match exprPos e with
  | .ok p => pure p
  | .error m => throw (.panic m)

/-- ast.rs:607-623 -/
def fieldListPos : FieldList → P Nat
  | .mk (some (pos, _)) _ => pure pos
  | .mk none [] => throw (.panic "call pos on empty FieldList")
  | .mk none (.mk name typ _ _ :: _) =>
    match name with
    | n :: _ => pure n.pos
    | [] => exprPosP typ

def fieldOfExpr (e : Expression) : Field := .mk [] e none []
def fieldOfIdent (id : Ident) : Field := .mk [] (.Ident id) none []

def _root_.Gosyn.Ast.FieldList.list : FieldList → List Field | .mk _ l => l
def _root_.Gosyn.Ast.Field.names : Field → List Ident | .mk n _ _ _ => n
def _root_.Gosyn.Ast.Field.typ : Field → Expression | .mk _ t _ _ => t
def _root_.Gosyn.Ast.FieldList.empty : FieldList := .mk none []

/-- parser.rs:2306-2311 -/
def unparen : Expression → Expression
  | .Paren (.mk _ e) => e
  | e => e

/-- parser.rs:2313-2330 -/
def isTypeElem : Expression → Bool
  | .TypeArray _ | .TypeStruct _ | .TypeFunction _ | .TypeInterface _ | .TypeSlice _ | .TypeMap _
  | .TypeChannel _ => true
  | .Paren (.mk _ e) => isTypeElem e
  | .Operation (.mk _ op x y) =>
    if op = .Tiled then true
    else match y with
      | some y => isTypeElem y
      | none => isTypeElem x
  | _ => false

/-- parser.rs:2231-2304.  `panic!("extract lost")` is the `none` result. -/
def extract : Expression → Bool → Option (Option Ident × Option Expression)
  | .Ident id, _ => some (some id, none)
  | .Operation (.mk pos op x none), _ => some (none, some (.Operation (.mk pos op x none)))
  | .Operation (.mk pos .Star x (some y)), force =>
    match x with
    | .Ident id =>
      if force || isTypeElem y then some (some id, some (.Operation (.mk pos .Star y none)))
      else some (none, some (.Operation (.mk pos .Star x (some y))))
    | _ => some (none, some (.Operation (.mk pos .Star x (some y))))
  | .Operation (.mk pos .Or x (some y)), force =>
    match extract x (force || isTypeElem y) with
    | some (some name, some lhs) => some (some name, some (.Operation (.mk pos .Or lhs (some y))))
    | some (some name, none) => some (none, some (.Operation (.mk pos .Or (.Ident name) (some y))))
    | some (none, some e) => some (none, some (.Operation (.mk pos .Or e (some y))))
    | _ => none
  | .Operation o, _ => some (none, some (.Operation o))
  | .Call (.mk pos args func dots), force =>
    match func with
    | .Ident id =>
      match args with
      | [arg0] =>
        if dots.isNone && (force || isTypeElem arg0) then some (some id, some arg0)
        else some (none, some (.Call (.mk pos args func dots)))
      | _ => some (none, some (.Call (.mk pos args func dots)))
    | _ => some (none, some (.Call (.mk pos args func dots)))
  | e, _ => some (none, some e)

/-- parser.rs:1233-1265 -/
def resetChanArrow (pos : Nat) : ChannelType → P ChannelType
  | .mk tpos (some .Recv) _ =>
    unexpected [Keyword.Chan] (some (tpos.2, .operator .Arrow)) "reset_chan_arrow"
  | .mk tpos none typ => pure (.mk (tpos.1, pos) (some .Recv) typ)
  | .mk tpos (some .Send) typ =>
    match typ with
    | .TypeChannel ct => do
      let ct ← resetChanArrow tpos.2 ct
      pure (.mk (tpos.1, pos) (some .Recv) (.TypeChannel ct))
    | _ => elseErrorAt tpos.2 "expect channel type" "reset_chan_arrow"

/-- parser.rs:1628-1650 -/
def checkFieldList (fields : FieldList) (trailing : Bool) : P FieldList := do
  match fields.list with
  | [] => pure fields
  | first :: _ =>
    let named := !first.names.isEmpty
    let pos ← fieldListPos fields
    let list := fields.list
    let n := list.length
    let rec go : List Field → Nat → P Unit
      | [], _ => pure ()
      | f :: fs, index => do
        if f.names.isEmpty == named then
          elseErrorAt pos "mixed named and unnamed parameters" "check_field_list"
        let isEllipsis := match f.typ with | .Ellipsis _ => true | _ => false
        if isEllipsis && (index ≠ n - 1 || !trailing) then
          elseErrorAt pos "can only use ... with final parameter in list" "check_field_list"
        go fs (index + 1)
    go list 0
    pure fields

/-- parser.rs:1797-1810 -/
def checkSingleExpr (list : List Expression) : P Expression := do
  match list.reverse with
  | [e] => pure e
  | [] => elseErrorAt (← currentPos) "expect single expression" "check_single_expr"
  | _ :: rest =>
    -- the last element was popped; `list.first()` of what remains
    match rest.reverse with
    | f :: _ => do elseErrorAt (← exprPosP f) "expect single expression" "check_single_expr"
    | [] => elseErrorAt (← currentPos) "expect single expression" "check_single_expr"

/-- parser.rs:1812-1820 -/
def checkAssignStmt : List Expression → P Unit
  | [] => pure ()
  | e :: es => do
    match e with
    | .Ident _ => checkAssignStmt es
    | _ => elseErrorAt (← exprPosP e) "expect identifier on left side of :=" "check_assign_stmt"

/-- parser.rs:2031-2050; the `unreachable!()` at 2045 -/
def isTypeSwitch : Option Statement → P Bool
  | some (.Expr (.mk (.TypeAssert (.mk _ _ right)))) => pure right.isNone
  | some (.Assign (.mk pos op left right)) =>
    if left.length = 1 && right.length = 1 && (match right.head? with | some (.TypeAssert _) => true | _ => false) then
      if op = .Define then pure true
      else if op = .Assign then elseErrorAt pos "expect := found =" "is_type_switch"
      else pure false
    else pure false
  | _ => pure false

/-- parser.rs:1267-1280 -/
def checkBrace (e : Expression) : P Bool := do
  match e with
  | .TypeStruct _ | .TypeMap _ | .TypeArray _ | .TypeSlice _ => pure true
  | .Ident _ | .IndexList _ | .Selector _ | .Index _ => return (← get).exprLevel ≥ 0
  | _ => pure false

end Gosyn.Model
