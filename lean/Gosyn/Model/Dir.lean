import Gosyn.Model.Parser
/-!
Model of `/repo/src/lib.rs` (`parse_file`, `parse_dir`) and `Scanner::from_file` over an abstract
directory: a list of entries in the order `read_dir` yields them.  Reading a regular file gives its
bytes; a dangling symlink or a directory cannot be read (`fs::read_to_string` fails).
-/
namespace Gosyn.Model
open Gosyn.Ast

inductive EntryKind where
  | file (bytes : ByteArray)
  | dangling
  | dir

structure DirEntry where
  name : String
  kind : EntryKind

inductive DirErr where
  | io                      -- `Error::IO`: unreadable, not UTF-8, no such directory
  | parse (e : PErr)        -- the parser's own error for one file

/-- `Path::extension() == Some("go")` for a plain file name: the part after the last `.` is `go`, and
    the part before that `.` is not empty (`.go` has no extension) -/
def hasGoExt (name : String) : Bool :=
  let cs := name.toList.reverse
  match cs with
  | 'o' :: 'g' :: '.' :: before => !before.isEmpty
  | _ => false

/-- `source.starts_with(BOM)` then `split_off` -/
def stripBOM (s : String) : String :=
  match s.toList with
  | c :: cs => if c.toNat = 0xFEFF then String.ofList cs else s
  | [] => s

/-- `parse_source` with a given path recorded -/
def parseSourceAt (path : String) (src : String) : Except PErr File :=
  (parseFile (tbl (fuelFor src)) { initState src with path := path }).1

/-- `parse_file(path)` for an entry -/
def parseFileAt (path : String) (k : EntryKind) : Except DirErr File :=
  match k with
  | .dangling => .error .io
  | .dir => .error .io
  | .file bytes =>
    match String.fromUTF8? bytes with
    | none => .error .io
    | some s =>
      match parseSourceAt path (stripBOM s) with
      | .ok f => .ok f
      | .error e => .error (.parse e)

/-- the result map, as an association list in insertion order -/
abbrev PkgMap := List (String × List File)

def filesOf (m : PkgMap) (name : String) : List File := (m.lookup name).getD []

/-- `result.entry(name).or_insert(…).files.push(file)` -/
def insertFile : PkgMap → String → File → PkgMap
  | [], name, f => [(name, [f])]
  | (k, fs) :: rest, name, f => if name == k then (k, fs ++ [f]) :: rest else (k, fs) :: insertFile rest name f

/-- the loop of `parse_dir` over the entries -/
def parseDirGo (dirPath : String) : List DirEntry → PkgMap → Except DirErr PkgMap
  | [], m => .ok m
  | e :: es, m =>
    if hasGoExt e.name then
      match parseFileAt (dirPath ++ "/" ++ e.name) e.kind with
      | .error err => .error err
      | .ok f => parseDirGo dirPath es (insertFile m f.pkg_name.name f)
    else parseDirGo dirPath es m

/-- `parse_dir`; `none` = the directory does not exist -/
def parseDir (dirPath : String) (entries : Option (List DirEntry)) : Except DirErr PkgMap :=
  match entries with
  | none => .error .io
  | some es => parseDirGo dirPath es []

end Gosyn.Model
