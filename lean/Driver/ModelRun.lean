import Driver.Proto
import Gosyn.Model.Climb
import Gosyn.Model.Dir
import Gosyn.Model.ScanAll
import Lean.Data.Json
/-! `driver model`: the model's answer for one harness case line, in the harness's output format. -/
open Gosyn.Model Gosyn.Gen Gosyn.Ast

namespace Driver

/-- the harness's `scan` mode: the model's token loop (`Model/ScanAll.lean`, the object of the whole-input
    theorems of `Props/C07b.lean`) -/
def scanAll (src : String) : String :=
  let r := scanTokens { src := src.toList.toArray }
  let toks := r.toks.map posTokJson
  let err := if r.fuelOut then serrJson (.panic "scan_all: out of fuel") else
    match r.err with | some e => serrJson e | none => "null"
  let ls := ",".intercalate (r.final.lines.toList.map toString)
  s!"\{\"toks\":[{",".intercalate toks}],\"err\":{err},\"lines\":[{ls}]}"

/-- repeated calls of one entry point on one parser (C15) -/
def repeatEntry {α} (entry : Tbl → P α) (toJ : α → J) (k : Nat) (src : String) : String := Id.run do
  let t := tbl (fuelFor src)
  let mut st := initState src
  let mut outs : Array String := #[]
  for _ in [0:k] do
    let (r, st') := entry t st
    st := st'
    outs := outs.push (outcomeOf toJ r)
    if !(r matches .ok _) then break
  return "[" ++ ",".intercalate outs.toList ++ "]"

def okClass {α} (r : Except PErr α) : String :=
  match r with
  | .ok _ => "{\"ok_debug_len\":0}"
  | .error (.panic _) => "{\"panic\":true}"
  | .error e => "{\"err\":" ++ errJson e ++ "}"

/-- the precedence-climbing kernel (`Model/Climb.lean`, the object of the C04 theorems) on a
    space-separated sequence `a + b * c`; prints the grouping fully parenthesised -/
partial def shapeOf : Gosyn.Spec.T String → String
  | .atom a => a
  | .bin o l r => "(" ++ shapeOf l ++ " " ++ String.ofList o.str ++ " " ++ shapeOf r ++ ")"

def climbCase (s : String) : String :=
  let ws := (s.splitOn " ").filter (· ≠ "")
  match ws with
  | [] => "{\"bad-op\":true}"
  | a0 :: rest =>
    let rec pairs : List String → Option (List (Operator × String))
      | [] => some []
      | o :: a :: tl => do
        let op ← opFromChars o.toList
        let r ← pairs tl
        pure ((op, a) :: r)
      | _ => none
    match pairs rest with
    | none => "{\"bad-op\":true}"
    | some ps =>
      let r := climbAll Operator.prec a0 ps
      "{\"shape\":" ++ jsonStr (shapeOf r.1).toList ++ ",\"left\":" ++ toString r.2.length ++ "}"

/-- directory case (C18): the case text is a JSON array of entries, as the harness reads it -/
def dirCase (txt : String) : String :=
  match Lean.Json.parse txt with
  | .error _ => "{\"bad-input\":\"json\"}"
  | .ok j =>
    match j.getArr? with
    | .error _ => "{\"bad-input\":\"json\"}"
    | .ok arr =>
      let missing := arr.any fun e => (e.getObjVal? "missing").isOk
      let entries : List DirEntry := arr.toList.filterMap fun e =>
        match e.getObjValAs? String "name", e.getObjValAs? String "kind" with
        | .ok name, .ok kind =>
          if kind = "file" then
            let hx := (e.getObjValAs? String "hex").toOption.getD ""
            some { name, kind := .file (unhexBytes hx) }
          else if kind = "symlink" then some { name, kind := .dangling }
          else if kind = "dir" then some { name, kind := .dir }
          else none
        | _, _ => none
      match parseDir "<dir>" (if missing then none else some entries) with
      | .error .io => "{\"err\":{\"kind\":\"IO\"}}"
      | .error (.parse (.panic _)) => "{\"panic\":true}"
      | .error (.parse e) => "{\"err\":" ++ errJson e ++ "}"
      | .ok m =>
        let pkgs := m.map fun ((name, files) : String × List File) =>
          let fs := files.map fun (f : File) => "{\"path\":" ++ jsonStr f.path.toList ++ ",\"tree\":" ++ jText (File.toJson f) ++ "}"
          let fs := fs.mergeSort (fun a b => a ≤ b)
          (name, "{\"name\":" ++ jsonStr name.toList ++ ",\"path\":\"<dir>\",\"files\":[" ++ ",".intercalate fs ++ "]}")
        let pkgs := pkgs.mergeSort (fun a b => a.1 ≤ b.1)
        "{\"ok\":[" ++ ",".intercalate (pkgs.map (·.2)) ++ "]}"

def modelCase (mode : String) (hex : String) : String :=
  let bytes := unhexBytes hex
  if mode = "dir" then
    match String.fromUTF8? (unhexBytes hex) with
    | none => "{\"bad-input\":\"not utf-8\"}"
    | some t => dirCase t
  else
  if mode = "disk" then
    match String.fromUTF8? bytes with
    | none => "{\"err\":{\"kind\":\"IO\"}}"
    | some s =>
      let s := stripBOM s
      let st := { initState s with path := "<disk>" }
      outcomeOf File.toJson (parseFile (tbl (fuelFor s)) st).1
  else
  match String.fromUTF8? bytes with
  | none => "{\"bad-input\":\"not utf-8\"}"
  | some s =>
    if mode = "scan" then scanAll s
    else if mode = "climb" then climbCase s
    else if mode = "file" then outcomeOf File.toJson (runFile s).1
    else if mode = "expr" then outcomeOf Expression.toJson (runExpr s).1
    else if mode = "stmt" then outcomeOf Statement.toJson (runStmt s).1
    else if mode = "json" then
      match (runFile s).1 with
      | .ok _ => "{\"rt\":\"done\",\"same_json\":true,\"same_debug\":true}"
      | .error (.panic _) => "{\"panic\":true}"
      | .error e => "{\"err\":" ++ errJson e ++ "}"
    else if mode = "dfile" then okClass (runFile s).1
    else if mode = "dexpr" then okClass (runExpr s).1
    else if mode = "dstmt" then okClass (runStmt s).1
    else if mode.startsWith "stmts" then
      repeatEntry (fun t => t.parseStmt) Statement.toJson ((mode.drop 5).toString.toNat?.getD 1) s
    else if mode.startsWith "exprs" then
      repeatEntry (fun t => t.expression) Expression.toJson ((mode.drop 5).toString.toNat?.getD 1) s
    else "{\"bad-op\":true}"

def modelLine (line : String) : String :=
  match line.trimAscii.toString.splitOn " " with
  | [mode, hex] => "u=0 " ++ modelCase mode hex
  | [mode] => "u=0 " ++ modelCase mode ""
  | _ => "u=0 {\"bad-op\":true}"

end Driver
