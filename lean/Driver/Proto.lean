import Gosyn.Model.Parser
import Gosyn.Gen.Json
/-! Line protocol shared by all driver subcommands: hex decoding, serde_json-compatible text. -/
open Gosyn.Model Gosyn.Gen Gosyn.Ast

namespace Driver

def hexNibble (c : Char) : Nat :=
  if c.isDigit then c.toNat - 48 else if 'a' ≤ c && c ≤ 'f' then c.toNat - 87 else c.toNat - 55

def unhexBytes (s : String) : ByteArray :=
  let rec go : List Char → ByteArray → ByteArray
    | a :: b :: r, acc => go r (acc.push (hexNibble a * 16 + hexNibble b).toUInt8)
    | _, acc => acc
  go s.toList ByteArray.empty

def unhex? (s : String) : Option String := String.fromUTF8? (unhexBytes s)
def unhex (s : String) : String := (unhex? s).getD ""

def hexDigits : Array Char := "0123456789abcdef".toList.toArray
def hexOfBytes (b : ByteArray) : String := Id.run do
  let mut out := ""
  for x in b do
    out := out.push hexDigits[x.toNat / 16]! |>.push hexDigits[x.toNat % 16]!
  return out
def hexOf (s : String) : String := hexOfBytes s.toUTF8

/-- JSON string escaping exactly as serde_json does it -/
def jsonStr (cs : List Char) : String := Id.run do
  let mut out := "\""
  for c in cs do
    if c = '"' then out := out ++ "\\\""
    else if c = '\\' then out := out ++ "\\\\"
    else if c = '\n' then out := out ++ "\\n"
    else if c = '\r' then out := out ++ "\\r"
    else if c = '\t' then out := out ++ "\\t"
    else if c.toNat = 8 then out := out ++ "\\b"
    else if c.toNat = 12 then out := out ++ "\\f"
    else if c.toNat < 32 then
      out := out ++ "\\u00" ++ String.singleton (hexDigits[c.toNat / 16]!) ++ String.singleton (hexDigits[c.toNat % 16]!)
    else out := out.push c
  return out ++ "\""

def opName (o : Operator) : String := match Operator.toJson o with | .str s => s | _ => "?"
def kwName (k : Keyword) : String := match Keyword.toJson k with | .str s => s | _ => "?"
def litName (k : LitKind) : String := match LitKind.toJson k with | .str s => s | _ => "?"

/-- `["Kind", text]` as the harness prints a token -/
def tokJson : Token → String
  | .comment x => s!"[\"Comment\",{jsonStr x}]"
  | .keyword k => s!"[\"Keyword\",\"{kwName k}\"]"
  | .operator o => s!"[\"Operator\",\"{opName o}\"]"
  | .literal k x => s!"[\"{litName k}\",{jsonStr x}]"

def posTokJson : Nat × Token → String
  | (p, t) => s!"[{p}," ++ ((tokJson t).drop 1).toString

partial def jText : J → String
  | .null => "null"
  | .num n => toString n
  | .str s => jsonStr s.toList
  | .bool b => if b then "true" else "false"
  | .arr l => "[" ++ ",".intercalate (l.map jText) ++ "]"
  | .obj l => "{" ++ ",".intercalate (l.map fun (k, v) => jsonStr k.toList ++ ":" ++ jText v) ++ "}"

def serrJson : SErr → String
  | .scan e => s!"\{\"kind\":\"Else\",\"line\":{e.loc.1},\"col\":{e.loc.2}}"
  | .panic _ => "{\"kind\":\"Panic\"}"

def errJson (e : PErr) : String :=
  match e with
  | .unexpected loc _ actual site =>
    let a := match actual with
      | some (_, t) => tokJson t
      | none => "null"
    s!"\{\"kind\":\"Unexpected\",\"line\":{loc.1},\"col\":{loc.2},\"actual\":{a},\"x\":\{\"site\":{jsonStr site.toList}}}"
  | .other loc reason site => s!"\{\"kind\":\"Else\",\"line\":{loc.1},\"col\":{loc.2},\"x\":\{\"site\":{jsonStr site.toList},\"reason\":{jsonStr reason.toList}}}"
  | .panic _ => "{\"kind\":\"Panic\"}"
  | .fuel => "{\"kind\":\"Fuel\"}"

def outcomeOf {α} (toJ : α → J) (r : Except PErr α) : String :=
  match r with
  | .ok a => "{\"ok\":" ++ jText (toJ a) ++ "}"
  | .error (.panic _) => "{\"panic\":true}"
  | .error e => "{\"err\":" ++ errJson e ++ "}"

end Driver
