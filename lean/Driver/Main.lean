import Driver.ModelRun
open Driver

partial def loopLines (h : IO.FS.Stream) (out : IO.FS.Stream) (f : String → String) : IO Unit := do
  let line ← h.getLine
  if line.isEmpty then return ()
  if line.trimAscii.toString.isEmpty then loopLines h out f else
  out.putStrLn (f line)
  loopLines h out f

def main (args : List String) : IO UInt32 := do
  let stdin ← IO.getStdin
  let stdout ← IO.getStdout
  match args with
  | ["model"] => loopLines stdin stdout modelLine; return 0
  | _ =>
    IO.eprintln "usage: driver model < cases"
    return 2
