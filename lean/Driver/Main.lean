import Gosyn.Model.Parser
import Gosyn.Gen.Json
open Gosyn.Model Gosyn.Gen Gosyn.Ast

def hexNibble (c : Char) : Nat :=
  if c.isDigit then c.toNat - 48 else if 'a' ≤ c && c ≤ 'f' then c.toNat - 87 else c.toNat - 55

def unhex (s : String) : String :=
  let cs := s.toList
  let rec go : List Char → ByteArray → ByteArray
    | a :: b :: r, acc => go r (acc.push (hexNibble a * 16 + hexNibble b).toUInt8)
    | _, acc => acc
  match String.fromUTF8? (go cs ByteArray.empty) with
  | some s => s
  | none => ""

/-- JSON string escaping exactly as serde_json does it -/
def jsonStr (cs : List Char) : String := Id.run do
  let mut out := "\""
  for c in cs do
    if c = '"' then out := out ++ "\\\""
    else if c = '\\' then out := out ++ "\\\\"
    else if c = '\n' then out := out ++ "\\n"
    else if c = '\r' then out := out ++ "\\r"
    else if c = '\t' then out := out ++ "\\t"
    else if c.toNat = 8 then out := out ++ "\\b"
    else if c.toNat = 12 then out := out ++ "\\f"
    else if c.toNat < 32 then
      let h := "0123456789abcdef".toList
      out := out ++ "\\u00" ++ String.singleton (h[c.toNat / 16]!) ++ String.singleton (h[c.toNat % 16]!)
    else out := out.push c
  return out ++ "\""

def tokJson : Nat × Token → String
  | (p, .comment x) => s!"[{p},\"Comment\",{jsonStr x}]"
  | (p, .keyword k) => s!"[{p},\"Keyword\",\"{reprStr k |>.splitOn "." |>.getLast!}\"]"
  | (p, .operator o) => s!"[{p},\"Operator\",\"{reprStr o |>.splitOn "." |>.getLast!}\"]"
  | (p, .literal k x) => s!"[{p},\"{reprStr k |>.splitOn "." |>.getLast!}\",{jsonStr x}]"

def scanAll (src : String) : String := Id.run do
  let mut s : Scanner := { src := src.toList.toArray }
  let mut toks : Array String := #[]
  let mut err := "null"
  for _ in [0:2 * s.src.size + 4] do
    match s.nextToken with
    | (.ok (some pt), s') => toks := toks.push (tokJson pt); s := s'
    | (.ok none, s') => s := s'; break
    | (.error (.scan e), s') => err := s!"\{\"kind\":\"Else\",\"line\":{e.loc.1},\"col\":{e.loc.2}}"; s := s'; break
    | (.error (.panic site), s') => err := s!"\{\"kind\":\"Panic\",\"site\":{jsonStr site.toList}}"; s := s'; break
  let ls := ", ".intercalate (s.lines.toList.map toString)
  return s!"\{\"toks\":[{",".intercalate toks.toList}],\"err\":{err},\"lines\":[{ls}]}"

partial def jText : J → String
  | .null => "null"
  | .num n => toString n
  | .str s => jsonStr s.toList
  | .bool b => if b then "true" else "false"
  | .arr l => "[" ++ ",".intercalate (l.map jText) ++ "]"
  | .obj l => "{" ++ ",".intercalate (l.map fun (k, v) => jsonStr k.toList ++ ":" ++ jText v) ++ "}"

def tokText : Token → List Char
  | .comment t => t
  | .keyword k => k.str
  | .operator o => o.str
  | .literal _ t => t

def errJson (e : PErr) : String :=
  match e with
  | .unexpected loc _ actual _ =>
    let a := match actual with
      | some (_, t) => jsonStr (tokText t)
      | none => "null"
    s!"\{\"kind\":\"Unexpected\",\"line\":{loc.1},\"col\":{loc.2},\"actual\":{a}}"
  | .other loc _ _ => s!"\{\"kind\":\"Else\",\"line\":{loc.1},\"col\":{loc.2}}"
  | .panic _ => "{\"kind\":\"Panic\"}"
  | .fuel => "{\"kind\":\"Fuel\"}"

def outcome {α} (toJ : α → J) (r : Except PErr α × PState) : String :=
  match r.1 with
  | .ok a => "{\"ok\":" ++ jText (toJ a) ++ "}"
  | .error e => "{\"err\":" ++ errJson e ++ "}"

partial def loop (h : IO.FS.Stream) : IO Unit := do
  let line ← h.getLine
  if line.isEmpty then return ()
  match line.trimAscii.toString.splitOn " " with
  | ["scan", hex] => IO.println (scanAll (unhex hex))
  | ["file", hex] => IO.println (outcome File.toJson (runFile (unhex hex)))
  | ["expr", hex] => IO.println (outcome Expression.toJson (runExpr (unhex hex)))
  | ["stmt", hex] => IO.println (outcome Statement.toJson (runStmt (unhex hex)))
  | ["file"] => IO.println (outcome File.toJson (runFile ""))
  | ["expr"] => IO.println (outcome Expression.toJson (runExpr ""))
  | ["stmt"] => IO.println (outcome Statement.toJson (runStmt ""))
  | ["scan"] => IO.println (scanAll "")
  | _ => IO.println "{\"bad-op\":true}"
  loop h

def main : IO Unit := do loop (← IO.getStdin)
