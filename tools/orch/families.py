"""Adversarial deep / long families, one per recursive or iterative construct of the parser (C01).  fams(n) -> {family: (mode, text)}.  Modes dfile/dexpr/dstmt: parse, print with Debug, drop."""
def fams(n):
    F = {}
    F['paren'] = ('dexpr', '('*n + 'x' + ')'*n)
    F['index'] = ('dexpr', 'x' + '[x'*n + ']'*n)
    F['callargs'] = ('dexpr', 'f('*n + 'x' + ')'*n)
    F['complit'] = ('dexpr', 'T{'*n + '}'*n)
    F['block'] = ('dfile', 'package p; func f() {' + '{'*n + '}'*n + '}')
    F['ptrtype'] = ('dfile', 'package p; var x ' + '*'*n + 'int')
    F['slicetype'] = ('dfile', 'package p; var x ' + '[]'*n + 'int')
    F['maptype'] = ('dfile', 'package p; var x ' + 'map[int]'*n + 'int')
    F['chantype'] = ('dfile', 'package p; var x ' + 'chan '*n + 'int')
    F['functype'] = ('dfile', 'package p; var x ' + 'func('*n + ')'*n)
    F['structtype'] = ('dfile', 'package p; var x ' + 'struct{a '*n + 'int' + '}'*n)
    F['unary-minus-sp'] = ('dexpr', '- '*n + 'x')
    F['unary-not'] = ('dexpr', '!'*n + 'x')
    F['unary-star'] = ('dexpr', '*'*n + 'x')
    F['unary-arrow'] = ('dexpr', '<-'*n + 'x')
    F['unary-amp'] = ('dexpr', '& '*n + 'x')
    F['labels'] = ('dstmt', 'a: '*n + 'x')
    F['elseif'] = ('dstmt', 'if x {} ' + 'else if x {} '*n)
    F['casebody'] = ('dstmt', 'switch { case x: '*n + '}'*n)
    F['commbody'] = ('dstmt', 'select { default: '*n + '}'*n)
    F['funclit-if'] = ('dstmt', 'if func() bool { '*n + 'return true' + ' }() {}'*n)
    F['funclit-for'] = ('dstmt', 'for func() bool { '*n + 'return true' + ' }() {}'*n)
    F['funclit-switch'] = ('dstmt', 'switch func() int { '*n + 'return 1' + ' }() {}'*n)
    F['binary-chain'] = ('dexpr', 'a' + '+a'*n)
    F['selector-chain'] = ('dexpr', 'a' + '.b'*n)
    F['call-chain'] = ('dexpr', 'a' + '()'*n)
    F['index-chain'] = ('dexpr', 'a' + '[0]'*n)
    F['union-chain'] = ('dfile', 'package p; type I interface{ a' + '|a'*n + ' }')
    F['typespec-backtrack'] = ('dfile', 'package p; ' + 'type T[a[func(){ '*min(n,14) + 'x' + ' }]]int'*min(n,14))
    F['iface-backtrack'] = ('dfile', 'package p; type I ' + 'interface{ m(x '*n + 'int' + ') }'*n)
    F['stmts-long'] = ('dfile', 'package p; func f() {' + 'x = 1;'*n + '}')
    F['decls-long'] = ('dfile', 'package p;' + 'var x = 1;'*n)
    F['args-long'] = ('dexpr', 'f(' + 'x,'*n + ')')
    F['string-long'] = ('dexpr', '"' + 'a'*n + '"')
    F['comment-long'] = ('dfile', 'package p /*' + 'a\n'*n + '*/')
    F['go-funclit'] = ('dstmt', 'go func() { '*n + '}()'*n)
    F['arraylen'] = ('dfile', 'package p; var x ' + '[len('*0 + '[1]'*n + 'int')
    F['conv-paren-type'] = ('dfile', 'package p; var x ' + '('*n + 'int' + ')'*n)
    F['typeassert-chain'] = ('dexpr', 'a' + '.(T)'*n)
    F['slice-chain'] = ('dexpr', 'a' + '[:]'*n)
    F['generic-inst'] = ('dfile', 'package p; var x ' + 'T['*n + 'int' + ']'*n)
    F['composite-keyed'] = ('dexpr', 'T{a: '*n + 'x' + '}'*n)
    # bodies of control statements (each body is a block: counted against the cap, so every one of these must
    # answer with the depth error, whatever the header form)
    F['if-body'] = ('dstmt', 'if x { '*n + '}'*n)
    F['for-body'] = ('dstmt', 'for { '*n + '}'*n)
    F['for-cond-body'] = ('dstmt', 'for x { '*n + '}'*n)
    F['for-clause-body'] = ('dstmt', 'for i := 0; i < n; i++ { '*n + '}'*n)
    F['for-range-body'] = ('dstmt', 'for range x { '*n + '}'*n)
    F['for-range-kv-body'] = ('dstmt', 'for k, v := range x { '*n + '}'*n)
    F['func-lit-body'] = ('dstmt', 'f = func() { '*n + '}'*n)
    F['if-else-body'] = ('dstmt', 'if x {} else { '*n + '}'*n)
    return F

UNCOUNTED = ['unary-minus-sp', 'unary-not', 'unary-star', 'unary-arrow', 'unary-amp', 'labels', 'elseif', 'casebody', 'commbody', 'funclit-if', 'funclit-for', 'funclit-switch']
LEFTDEEP = ['binary-chain', 'selector-chain', 'call-chain', 'index-chain', 'union-chain', 'typeassert-chain', 'slice-chain']


def expo(d):
    """families whose cost doubles per level (re-parse after backtracking)"""
    return {'typespec-backtrack': ('dfile', 'package p; ' + 'type T[a[func(){ ' * d + 'x' + ' }]]int' * d)}
