"""Generic part of every property check: prepare (translators, builds), proof obligations + axiom
audit, verdict against known_findings.json, replay files, evidence."""
import os, sys, json, subprocess, time, fcntl, hashlib, re, shutil
from . import run as R

VERIF = R.VERIF
LEAN = os.path.join(VERIF, 'lean')
WORK = R.WORK
ALLOWED_AXIOMS = {'propext', 'Classical.choice', 'Quot.sound'}
TRUSTED_BASE = [
    "Lean 4.33 kernel; axioms allowed in any theorem: propext, Classical.choice, Quot.sound (audited with #print axioms on every run); no sorry/admit/native_decide/bv_decide/implemented_by/unsafe (grep on every run)",
    "Gosyn/Spec/*.lean: the formalisation of the Go specification the theorems are stated against",
    "tools/extract.py, tools/gen_ast.py, tools/gen_unicode.py: translators of tables, AST types and character classes from /repo/src into Gosyn/Gen/*.lean (re-run on every check)",
    "the hand-written model Gosyn/Model/*.lean is tied to the code only by the correspondence (differential) check run by this command: harness (real code, in-process) vs compiled Lean driver on the same inputs",
    "Lean compiler (the compiled driver is assumed to agree with the kernel's view of the same definitions), rustc/cargo, the hook code under cfg(gosyn_verif)",
]


def sh(cmd, cwd=None, timeout=3600, env=None):
    e = dict(os.environ)
    e['CARGO_NET_OFFLINE'] = 'true'
    if env:
        e.update(env)
    p = subprocess.run(cmd, shell=isinstance(cmd, str), cwd=cwd, capture_output=True, text=True, timeout=timeout, env=e)
    return p.returncode, p.stdout, p.stderr


class Lock:
    def __enter__(self):
        os.makedirs(WORK, exist_ok=True)
        self.f = open(os.path.join(WORK, '.lock'), 'w')
        fcntl.flock(self.f, fcntl.LOCK_EX)
        return self

    def __exit__(self, *a):
        fcntl.flock(self.f, fcntl.LOCK_UN)
        self.f.close()


def prepare(need_release=False, log=print):
    """translators + builds, serialised.  Returns a dict of problems (empty = all fine)."""
    problems = {}
    with Lock():
        h = os.path.join(VERIF, 'harness')
        if not os.path.exists(os.path.join(h, 'Cargo.lock')):
            shutil.copy('/repo/Cargo.lock', os.path.join(h, 'Cargo.lock'))
        t = time.time()
        rc, so, se = sh('cargo build --offline 2>&1', cwd=h, timeout=1200)
        if rc != 0:
            problems['harness_build'] = (so + se)[-3000:]
        if need_release and not problems:
            rc, so, se = sh('cargo build --release --offline 2>&1', cwd=h, timeout=1200)
            if rc != 0:
                problems['harness_build_release'] = (so + se)[-3000:]
        log(f'[prepare] harness built in {time.time()-t:.1f}s')
        gen = os.path.join(LEAN, 'Gosyn/Gen')
        if 'harness_build' not in problems:
            rc, so, se = sh(['python3', os.path.join(VERIF, 'tools/gen_unicode.py'), R.HARNESS_DEBUG, os.path.join(gen, 'Unicode.lean')])
            if rc != 0:
                problems['translator_unicode'] = (so + se)[-2000:]
        rc, so, se = sh(['python3', os.path.join(VERIF, 'tools/extract.py'), '/repo', os.path.join(gen, 'Tables.lean')])
        if rc != 0:
            problems['translator_tables'] = (so + se)[-2000:]
        rc, so, se = sh(['python3', os.path.join(VERIF, 'tools/gen_ast.py'), '/repo', gen])
        if rc != 0:
            problems['translator_ast'] = (so + se)[-2000:]
        t = time.time()
        rc, so, se = sh('lake build Gosyn.Model.Parser Gosyn.Gen.Json driver 2>&1', cwd=LEAN, timeout=2400)
        if rc != 0:
            problems['driver_build'] = (so + se)[-4000:]
        log(f'[prepare] lean model + driver built in {time.time()-t:.1f}s')
    return problems


def load_obligations():
    return json.load(open(os.path.join(VERIF, 'obligations.json')))


FORBIDDEN = re.compile(r'\b(sorry|admit|native_decide|bv_decide|implemented_by)\b|^\s*axiom\s|^\s*unsafe\s|maxHeartbeats\s+0\b', re.M)


def strip_lean_comments(src):
    src = re.sub(r'/-.*?-/', '', src, flags=re.S)
    src = re.sub(r'--[^\n]*', '', src)
    src = re.sub(r'"(?:[^"\\]|\\.)*"', '""', src)
    return src


def prove(prop, log=print):
    """build the property's proof modules, audit axioms.  Returns (obligations, discharged, details,
    problems)."""
    obl = load_obligations().get(prop, {})
    thms = obl.get('theorems', [])
    modules = obl.get('modules', [])
    problems = []
    details = []
    if not thms:
        return 0, 0, details, problems
    with Lock():
        t = time.time()
        rc, so, se = sh('lake build ' + ' '.join(modules) + ' 2>&1', cwd=LEAN, timeout=3000)
        log(f'[prove] lake build {" ".join(modules)}: rc={rc} in {time.time()-t:.1f}s')
        if rc != 0:
            problems.append({'kind': 'proof', 'what': 'lake build failed for ' + ' '.join(modules), 'log': (so + se)[-4000:]})
        # forbidden constructs
        for m in modules:
            path = os.path.join(LEAN, m.replace('.', '/') + '.lean')
            try:
                src = strip_lean_comments(open(path).read())
            except OSError:
                continue
            bad = FORBIDDEN.findall(src)
            if bad:
                problems.append({'kind': 'proof', 'what': f'forbidden construct in {m}: {bad[:3]}'})
        os.makedirs(os.path.join(WORK, 'audit'), exist_ok=True)
        audit = os.path.join(WORK, 'audit', f'Audit_{prop}.lean')
        with open(audit, 'w') as f:
            for m in modules:
                f.write(f'import {m}\n')
            for th in thms:
                f.write(f'#print axioms {th["name"]}\n')
        rc2, so2, se2 = sh(['lake', 'env', 'lean', audit], cwd=LEAN, timeout=900)
        out = so2 + se2
    ok = 0
    for th in thms:
        name = th['name']
        m = re.search(r"'" + re.escape(name) + r"' (does not depend on any axioms|depends on axioms: \[([^\]]*)\])", out)
        if not m:
            details.append({'theorem': name, 'status': 'missing', 'kind': th.get('kind', '')})
            problems.append({'kind': 'proof', 'what': f'theorem {name} does not check (not found by #print axioms)', 'log': out[-1500:]})
            continue
        axs = set(a.strip() for a in (m.group(2) or '').split(',') if a.strip())
        if axs <= ALLOWED_AXIOMS:
            ok += 1
            details.append({'theorem': name, 'status': 'checked', 'axioms': sorted(axs), 'kind': th.get('kind', ''), 'says': th.get('says', '')})
        else:
            details.append({'theorem': name, 'status': 'bad-axioms', 'axioms': sorted(axs)})
            problems.append({'kind': 'proof', 'what': f'theorem {name} depends on non-allowed axioms {sorted(axs - ALLOWED_AXIOMS)}'})
    return len(thms), ok, details, problems


def leanchecker(prop, log=print):
    obl = load_obligations().get(prop, {})
    res = []
    for m in obl.get('modules', []):
        rc, so, se = sh(['lake', 'env', 'leanchecker', m], cwd=LEAN, timeout=1800)
        res.append({'module': m, 'rc': rc, 'out': (so + se)[-500:]})
        log(f'[leanchecker] {m}: rc={rc}')
    return res


def load_findings():
    p = os.path.join(VERIF, 'known_findings.json')
    if not os.path.exists(p):
        return []
    return json.load(open(p))


class Check:
    """Accumulates what a property check saw and produces verdict, evidence and exit code."""

    def __init__(self, prop, tier, seed, level='proof'):
        self.prop, self.tier, self.seed, self.level = prop, tier, seed, level
        self.t0 = time.time()
        self.evaluations = 0
        self.nontrivial = set()
        self.samples = []
        self.rule = ''
        self.disagreements = []      # model vs implementation
        self.oracle_failures = []    # implementation vs property oracle: dicts with 'signature'
        self.problems = []           # proof / translator problems
        self.extra = {}
        self.programs = 0
        self.disagreements_checked = 0
        self.streams = {}
        self.log_lines = []

    def log(self, *a):
        s = ' '.join(str(x) for x in a)
        self.log_lines.append(s)
        print(s, flush=True)

    def count(self, stream, cases, nontrivial_keys=None):
        self.evaluations += len(cases)
        self.streams[stream] = self.streams.get(stream, 0) + len(cases)
        if nontrivial_keys is not None:
            for k in nontrivial_keys:
                self.nontrivial.add(hashlib.blake2b(repr(k).encode(), digest_size=8).digest())

    def sample(self, x, limit=8):
        if len(self.samples) < limit:
            self.samples.append(x)

    def disagree(self, stream, mode, data, impl_line, model_line):
        if isinstance(data, str):
            data = data.encode()
        self.disagreements.append({'stream': stream, 'mode': mode, 'hex': data.hex(), 'text': data.decode('utf-8', 'replace')[:400],
                                   'impl': impl_line[:1500], 'model': model_line[:1500]})

    def oracle_fail(self, signature, mode, data, observed, expected, what):
        if isinstance(data, str):
            data = data.encode()
        self.oracle_failures.append({'signature': signature, 'mode': mode, 'hex': data.hex(), 'text': data.decode('utf-8', 'replace')[:400],
                                     'observed': str(observed)[:1500], 'expected': str(expected)[:1500], 'what': what})

    def finish(self, obligations=0, discharged=0, theorem_details=None, assumptions=None):
        prop = self.prop
        findings = [f for f in load_findings() if f.get('property') == prop]
        open_sigs = {f['signature']: f for f in findings if f.get('status') == 'open'}
        seen_known = {}
        new_fail = []
        for f in self.oracle_failures:
            if f['signature'] in open_sigs:
                seen_known.setdefault(f['signature'], f)
            else:
                new_fail.append(f)
        os.makedirs(os.path.join(WORK, 'replays'), exist_ok=True)
        lines = []
        rc = 0
        for sig, f in seen_known.items():
            k = open_sigs[sig]
            lines.append(f'KNOWN-FINDING: property={prop} {k["id"]}: {k["what"]}')
        if new_fail:
            rc = 1
            for f in new_fail[:6]:
                print(f'[oracle] FAIL {f["signature"]} {f["mode"]} {f["text"]!r:.160}: observed {f["observed"][:240]} expected {f["expected"][:240]} ({f["what"]})', flush=True)
            # smallest input first
            new_fail.sort(key=lambda f: len(f['hex']))
            seen = set()
            n = 0
            for f in new_fail:
                if f['signature'] in seen:
                    continue
                seen.add(f['signature'])
                path = os.path.join(WORK, 'replays', f'{prop}-{n}.json')
                json.dump({'property': prop, 'kind': 'failing-input', 'seed': self.seed, **f}, open(path, 'w'), indent=1, ensure_ascii=False)
                lines.append(f'VIOLATION property={prop} replay={path}')
                n += 1
                if n >= 5:
                    break
        elif self.disagreements or self.problems:
            rc = 1
            path = os.path.join(WORK, 'replays', f'{prop}-unproved.json')
            json.dump({'property': prop, 'kind': 'no-failing-input-found', 'seed': self.seed,
                       'broken_obligations': self.problems[:10],
                       'correspondence_disagreements': self.disagreements[:10],
                       'note': 'a theorem, a translator step or the model/implementation correspondence no longer checks; the search over this run\'s streams found no input on which the property itself fails'},
                      open(path, 'w'), indent=1, ensure_ascii=False)
            lines.append(f'VIOLATION property={prop} replay={path} no-failing-input-found')
        cov = {
            'obligations': obligations, 'discharged': discharged,
            'checker_cmd': f'cd /verif/lean && lake build <modules of obligations.json[{prop}]> && lake env lean work/audit/Audit_{prop}.lean  (#print axioms per theorem)',
            'trusted_base': TRUSTED_BASE,
            'evaluations': self.evaluations, 'distinct_nontrivial': len(self.nontrivial), 'rule': self.rule,
            'samples': self.samples[:8],
            'programs': self.programs or self.evaluations, 'disagreements_checked': self.disagreements_checked or self.evaluations,
            'correspondence_disagreements': len(self.disagreements),
            'oracle_failures_total': len(self.oracle_failures), 'oracle_failures_known': len(self.oracle_failures) - len(new_fail),
            'known_findings_reobserved': sorted(open_sigs[s]['id'] for s in seen_known),
            'streams': self.streams,
            'theorems': theorem_details or [],
            'labelled_as_tests': 'evaluations / distinct_nontrivial / streams count differential and oracle TESTS (validation of the model against the code and search for failing inputs); only `theorems` are proofs',
        }
        cov.update(self.extra)
        ev = {'property_id': prop, 'tier': self.tier, 'seed': self.seed, 'level': self.level, 'coverage': cov,
              'assumptions': assumptions or [], 'wall_s': round(time.time() - self.t0, 2),
              'violations': 0 if rc == 0 else max(1, len(new_fail))}
        os.makedirs(os.path.join(VERIF, 'evidence'), exist_ok=True)
        json.dump(ev, open(os.path.join(VERIF, 'evidence', f'{prop}.json'), 'w'), indent=1, ensure_ascii=False)
        for l in lines:
            print(l, flush=True)
        print(f'[{prop}] tier={self.tier} seed={self.seed} evaluations={self.evaluations} nontrivial={len(self.nontrivial)} '
              f'theorems={discharged}/{obligations} disagreements={len(self.disagreements)} oracle_failures={len(self.oracle_failures)} '
              f'(new {len(new_fail)}) wall={time.time()-self.t0:.1f}s -> exit {rc}', flush=True)
        return rc
