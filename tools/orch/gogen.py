"""Generator of syntactically valid Go programs as DERIVATION TREES in gosyn's tree vocabulary (the
serde-JSON shapes of ast.rs, without positions), following the Go specification's grammar
production by production.  goprint turns a tree into tokens, golayout into text; the tree is what
the parser must return (C03) and the text must be accepted (C02).

Spec well-formedness is built in: binary operations are parenthesised exactly where precedence and
left associativity demand it, unary operands that are binary operations are parenthesised,
composite literals in control-clause headers are parenthesised, identifiers are not keywords,
literal texts are drawn from the spec's literal grammars, parameter lists are all-named or
all-unnamed, nesting depth stays below 16.

Every random choice derives from the `random.Random` passed in.  `COVER` counts productions x
contexts visited (printed into the evidence)."""
import collections

COVER = collections.Counter()
PREC = {'OrOr': 1, 'AndAnd': 2, 'Equal': 3, 'NotEqual': 3, 'Less': 3, 'LessEqual': 3, 'Greater': 3, 'GreaterEqual': 3,
        'Add': 4, 'Sub': 4, 'Or': 4, 'Xor': 4, 'Star': 5, 'Quo': 5, 'Rem': 5, 'Shl': 5, 'Shr': 5, 'And': 5, 'AndNot': 5}
BINOPS = list(PREC)
UNOPS = ['Add', 'Sub', 'Not', 'Xor', 'Star', 'And', 'Arrow']
ASSIGNOPS = ['Assign', 'AddAssign', 'SubAssign', 'MulAssign', 'QuoAssign', 'RemAssign', 'AndAssign', 'OrAssign', 'XorAssign', 'ShlAssign', 'ShrAssign', 'AndNotAssign']
VALS = ['x', 'y', 'z', 'a', 'b', 'n', 'i', 'v', 'ok', 'err', 'buf', 'é', 'π2', '_x', 'x1', 'ctx', '世界']
TYPES = ['int', 'string', 'T', 'U', 'error', 'bool', 'byte', 'any', 'Node', 'Ж']
PKGS = ['fmt', 'os', 'pkg', 'io']
FIELDS = ['f', 'g', 'Name', 'next', 'val']
INTS = ['0', '1', '42', '0x1F', '0b101', '0o17', '017', '1_000', '0XFF']
FLOATS = ['1.5', '.5', '1e3', '1.', '0x1p-2', '2.5e+10', '1E-3', '0x.8p1']
IMAGS = ['2i', '1.5i', '0x1p-2i', '08i']
RUNES = ["'a'", "'\\n'", "'\\''", "'世'", "'\\x41'", "'\\u00e9'", "'\\377'", "'😀'", "'\\U0001F600'"]
STRINGS = ['"s"', '""', '"a\\"b"', '"é\\n"', '`r`', '`multi\nline`', '"\\u00e9\\x41\\101"', '`a\\b`']
TAGS = ['`json:"a"`', '"tag"']


def P(pos=0): return pos


def ident(name): return {'Ident': {'pos': 0, 'name': name}}
def rawident(name): return {'pos': 0, 'name': name}
def lit(kind, value): return {'BasicLit': {'pos': 0, 'kind': kind, 'value': value}}
def paren(e): return {'Paren': {'pos': [0, 0], 'expr': e}}
def fieldlist(fields, paren_=True): return {'pos': [0, 0] if paren_ else None, 'list': fields}
def field(names, typ, tag=None): return {'name': [rawident(n) for n in names], 'typ': typ, 'tag': ({'pos': 0, 'value': tag} if tag else None), 'comments': []}
def nofields(): return fieldlist([], False)
def block(stmts): return {'pos': [0, 0], 'list': stmts}


def kind_of(e):
    (k, v), = e.items()
    return k, v


class Gen:
    def __init__(self, rng, maxdepth=5):
        self.rng = rng
        self.maxdepth = maxdepth

    # ---------------------------------------------------------------- helpers
    def pick(self, xs): return self.rng.choice(xs)
    def chance(self, p): return self.rng.random() < p
    def cov(self, prod, ctx): COVER[(prod, ctx)] += 1

    def name(self): return self.pick(VALS)
    def tname(self): return self.pick(TYPES)

    # ---------------------------------------------------------------- types
    def typ(self, d, ctx='type'):
        r = self.rng
        opts = ['name', 'name', 'qualified', 'pointer', 'slice', 'array', 'map', 'chan', 'func', 'struct', 'interface', 'generic', 'paren']
        if d <= 0: opts = ['name', 'name', 'qualified']
        k = r.choice(opts)
        self.cov('type-' + k, ctx)
        if k == 'name': return ident(self.tname())
        if k == 'qualified': return {'Selector': {'pos': 0, 'x': ident(self.pick(PKGS)), 'sel': rawident(self.pick(['Reader', 'T', 'File']))}}
        if k == 'pointer': return {'TypePointer': {'pos': 0, 'typ': self.typ(d - 1, 'pointer')}}
        if k == 'slice': return {'TypeSlice': {'pos': [0, 0], 'typ': self.typ(d - 1, 'slice')}}
        if k == 'array': return {'TypeArray': {'pos': [0, 0], 'len': self.const_expr(), 'typ': self.typ(d - 1, 'array')}}
        if k == 'map': return {'TypeMap': {'pos': [0, 0], 'key': self.typ(d - 1, 'mapkey'), 'val': self.typ(d - 1, 'mapval')}}
        if k == 'chan':
            dir_ = r.choice([None, 'Send', 'Recv'])
            elem = self.typ(d - 1, 'chan')
            # `chan <-chan T` would read as `chan<- chan T`: the spec's "<- associates with the leftmost chan possible"
            if dir_ is None and kind_of(elem)[0] == 'TypeChannel' and kind_of(elem)[1]['dir'] == 'Recv':
                elem = paren(elem)
            return {'TypeChannel': {'pos': [0, 0], 'dir': dir_, 'typ': elem}}
        if k == 'func': return {'TypeFunction': self.signature(d - 1, 'functype')}
        if k == 'struct': return {'TypeStruct': {'pos': [0, 0], 'fields': [self.struct_field(d - 1) for _ in range(r.randint(0, 3))]}}
        if k == 'interface': return {'TypeInterface': {'pos': 0, 'methods': fieldlist([self.iface_elem(d - 1) for _ in range(r.randint(0, 3))])}}
        if k == 'generic':
            args = [self.typ(d - 1, 'typearg') for _ in range(r.choice([1, 1, 2]))]
            left = ident(self.pick(['G', 'List', 'Map']))
            if len(args) == 1: return {'Index': {'pos': [0, 0], 'left': left, 'index': args[0]}}
            return {'Index': {'pos': [0, 0], 'left': left, 'index': {'List': args}}}
        if k == 'paren': return paren(self.typ(d - 1, 'parentype'))

    def signature(self, d, ctx, typarams=False):
        r = self.rng
        return {'pos': 0, 'typ_params': self.type_params(d) if typarams else nofields(),
                'params': self.params(d, ctx, variadic=True), 'result': self.result(d, ctx)}

    def params(self, d, ctx, variadic=False):
        r = self.rng
        n = r.randint(0, 3)
        named = self.chance(0.6)
        fields = []
        for i in range(n):
            t = self.typ(d - 1, ctx + '-param')
            if variadic and i == n - 1 and self.chance(0.25):
                t = {'Ellipsis': {'pos': 0, 'elt': t}}
                self.cov('variadic', ctx)
            if named:
                k = 1 if kind_of(t)[0] == 'Ellipsis' else r.choice([1, 1, 2])
                fields.append(field([self.pick(VALS + ['_']) for _ in range(k)], t))
            else:
                fields.append(field([], t))
        self.cov('params-named' if named else 'params-unnamed', ctx)
        return fieldlist(fields)

    def result(self, d, ctx):
        r = self.rng
        k = r.choice(['none', 'none', 'single', 'list', 'named'])
        self.cov('result-' + k, ctx)
        if k == 'none': return nofields()
        if k == 'single':
            t = self.typ(d - 1, ctx + '-result')
            if kind_of(t)[0] == 'Paren':      # `func() (T)` is a parenthesised result LIST
                t = kind_of(t)[1]['expr']
                return fieldlist([field([], t)])
            return fieldlist([field([], t)], False)
        if k == 'list': return fieldlist([field([], self.typ(d - 1, ctx + '-result')) for _ in range(r.randint(1, 3))])
        return fieldlist([field([self.name() for _ in range(r.choice([1, 2]))], self.typ(d - 1, ctx + '-result')) for _ in range(r.randint(1, 2))])

    def type_params(self, d):
        r = self.rng
        out = []
        for _ in range(r.randint(1, 2)):
            out.append(field([self.pick(['P', 'Q', 'K', 'V']) for _ in range(r.choice([1, 1, 2]))], self.constraint(d)))
        self.cov('type-params', 'decl')
        return fieldlist(out)

    def constraint(self, d):
        r = self.rng
        k = r.choice(['any', 'name', 'union', 'interface', 'tilde', 'pointer', 'slice', 'array', 'map', 'chan', 'func', 'generic', 'qualified', 'struct', 'ptr-struct', 'iface-methods'])
        self.cov('constraint-' + k, 'typeparam')
        if k == 'struct': return {'TypeStruct': {'pos': [0, 0], 'fields': [self.struct_field(1) for _ in range(r.randint(1, 3))]}}
        if k == 'ptr-struct': return {'TypePointer': {'pos': 0, 'typ': {'TypeStruct': {'pos': [0, 0], 'fields': [self.struct_field(1) for _ in range(r.randint(1, 3))]}}}}
        if k == 'iface-methods': return {'TypeInterface': {'pos': 0, 'methods': fieldlist([self.iface_elem(1) for _ in range(r.randint(1, 3))])}}
        if k == 'slice': return {'TypeSlice': {'pos': [0, 0], 'typ': ident(self.tname())}}
        if k == 'array': return {'TypeArray': {'pos': [0, 0], 'len': lit('Integer', '3'), 'typ': ident(self.tname())}}
        if k == 'map': return {'TypeMap': {'pos': [0, 0], 'key': ident('string'), 'val': ident(self.tname())}}
        if k == 'chan': return {'TypeChannel': {'pos': [0, 0], 'dir': None, 'typ': ident(self.tname())}}
        if k == 'func': return {'TypeFunction': {'pos': 0, 'typ_params': nofields(), 'params': fieldlist([]), 'result': nofields()}}
        if k == 'generic': return {'Index': {'pos': [0, 0], 'left': ident('C'), 'index': ident(self.tname())}}
        if k == 'qualified': return {'Selector': {'pos': 0, 'x': ident('constraints'), 'sel': rawident('Ordered')}}
        if k == 'any': return ident('any')
        if k == 'name': return ident(self.pick(['comparable', 'Number', 'C']))
        if k == 'tilde': return {'Operation': {'pos': 0, 'op': 'Tiled', 'x': ident(self.tname()), 'y': None}}
        if k == 'pointer': return {'TypePointer': {'pos': 0, 'typ': ident(self.tname())}}
        if k == 'interface': return {'TypeInterface': {'pos': 0, 'methods': fieldlist([self.iface_elem(d - 1) for _ in range(r.randint(0, 2))])}}
        return self.union(d)

    def union(self, d):
        r = self.rng
        terms = []
        n = r.randint(2, 4)
        for i in range(n):
            k = r.choice(['name', 'name', 'name', 'lit', 'pointer', 'paren', 'qualified'])
            if k == 'name': t = ident(self.tname())
            elif k == 'lit': t = self.pick([{'TypeSlice': {'pos': [0, 0], 'typ': ident('byte')}}, {'TypeMap': {'pos': [0, 0], 'key': ident('string'), 'val': ident('int')}},
                                            {'TypeChannel': {'pos': [0, 0], 'dir': None, 'typ': ident('int')}}, {'TypeStruct': {'pos': [0, 0], 'fields': []}},
                                            {'TypeArray': {'pos': [0, 0], 'len': lit('Integer', '4'), 'typ': ident('int')}}])
            elif k == 'pointer': t = {'TypePointer': {'pos': 0, 'typ': ident(self.tname())}}
            elif k == 'paren': t = paren(ident(self.tname()))
            else: t = {'Selector': {'pos': 0, 'x': ident(self.pick(PKGS)), 'sel': rawident('T')}}
            if k in ('name', 'lit', 'qualified') and self.chance(0.35): t = {'Operation': {'pos': 0, 'op': 'Tiled', 'x': t, 'y': None}}
            terms.append(t)
        self.cov('union-%d' % n, 'constraint')
        e = terms[0]
        for t in terms[1:]:
            e = {'Operation': {'pos': 0, 'op': 'Or', 'x': e, 'y': t}}
        return e

    def struct_field(self, d):
        r = self.rng
        k = r.choice(['named', 'named', 'named', 'embedded', 'embedded-ptr', 'embedded-qual', 'embedded-generic'])
        self.cov('field-' + k, 'struct')
        tag = self.pick(TAGS) if self.chance(0.2) else None
        if k == 'named':
            t = self.typ(d - 1, 'field') if self.chance(0.6) else self.pick([{'TypeArray': {'pos': [0, 0], 'len': ident('N'), 'typ': ident('T')}}, {'TypeSlice': {'pos': [0, 0], 'typ': ident('T')}}, {'Index': {'pos': [0, 0], 'left': ident('G'), 'index': ident('T')}}, {'TypeArray': {'pos': [0, 0], 'len': lit('Integer', '4'), 'typ': ident('byte')}}])
            return field([self.pick(FIELDS + ['_']) for _ in range(r.choice([1, 1, 2]))], t, tag)
        if k == 'embedded': return field([], ident(self.tname()), tag)
        if k == 'embedded-ptr': return field([], {'TypePointer': {'pos': 0, 'typ': ident(self.tname())}}, tag)
        if k == 'embedded-qual': return field([], {'Selector': {'pos': 0, 'x': ident(self.pick(PKGS)), 'sel': rawident('T')}}, tag)
        return field([], {'Index': {'pos': [0, 0], 'left': ident('G'), 'index': ident(self.tname())}}, tag)

    def iface_elem(self, d):
        r = self.rng
        k = r.choice(['method', 'method', 'embedded', 'union', 'tilde', 'qualified'])
        self.cov('iface-' + k, 'interface')
        if k == 'method':
            sig = self.signature(d - 1, 'method')
            return field([self.pick(['Read', 'm', 'String', 'Len'])], {'TypeFunction': sig})
        if k == 'embedded': return field([], ident(self.pick(['Stringer', 'E', 'any'])))
        if k == 'qualified': return field([], {'Selector': {'pos': 0, 'x': ident(self.pick(PKGS)), 'sel': rawident('Reader')}})
        if k == 'tilde': return field([], {'Operation': {'pos': 0, 'op': 'Tiled', 'x': ident(self.tname()), 'y': None}})
        return field([], self.union(d))

    # ---------------------------------------------------------------- expressions
    def const_expr(self):
        r = self.rng
        k = r.choice(['int', 'name', 'binop'])
        if k == 'int': return lit('Integer', self.pick(INTS))
        if k == 'name': return ident(self.pick(['N', 'size', 'n']))
        return self.fix_binop(self.pick(['Add', 'Star', 'Shl', 'Sub']), ident('N'), lit('Integer', '2'))

    def basic_lit(self):
        r = self.rng
        k = r.choice(['Integer', 'Integer', 'Float', 'Imag', 'Char', 'String', 'String'])
        return lit(k, self.pick({'Integer': INTS, 'Float': FLOATS, 'Imag': IMAGS, 'Char': RUNES, 'String': STRINGS}[k]))

    def fix_binop(self, op, x, y):
        """parenthesise operands exactly where precedence / left associativity demand it"""
        p = PREC[op]
        kx, vx = kind_of(x)
        if kx == 'Operation' and vx['y'] is not None and PREC[vx['op']] < p: x = paren(x)
        ky, vy = kind_of(y)
        if ky == 'Operation' and vy['y'] is not None and PREC[vy['op']] <= p: y = paren(y)
        return {'Operation': {'pos': 0, 'op': op, 'x': x, 'y': y}}

    def expr(self, d, ctx='expr', nolit=False):
        """nolit: inside an if/for/switch header, outside any bracket: composite literals must be parenthesised"""
        r = self.rng
        if d <= 0:
            k = r.choice(['ident', 'ident', 'lit'])
        else:
            k = r.choice(['ident', 'lit', 'binop', 'binop', 'unary', 'paren', 'selector', 'index', 'slice', 'call', 'call', 'assert', 'complit', 'funclit', 'conv', 'generic-call', 'method-expr', 'addr-complit', 'anon-struct', 'chan-conv'])
        self.cov('expr-' + k, ctx)
        if k == 'ident': return ident(self.name())
        if k == 'lit': return self.basic_lit()
        if k == 'binop':
            return self.fix_binop(self.pick(BINOPS), self.expr(d - 1, ctx, nolit), self.expr(d - 1, ctx, nolit))
        if k == 'unary':
            op = self.pick(UNOPS)
            x = self.expr(d - 1, ctx, nolit)
            if op == 'And' and kind_of(x)[0] in ('Operation', 'Paren'):
                x = ident(self.name())
            kx, vx = kind_of(x)
            if kx == 'Operation' and vx['y'] is not None: x = paren(x)
            return {'Operation': {'pos': 0, 'op': op, 'x': x, 'y': None}}
        if k == 'paren': return paren(self.expr(d - 1, 'paren'))
        if k == 'selector': return {'Selector': {'pos': 0, 'x': self.primary(d - 1, ctx, nolit), 'sel': rawident(self.pick(FIELDS))}}
        if k == 'index': return {'Index': {'pos': [0, 0], 'left': self.primary(d - 1, ctx, nolit), 'index': self.expr(d - 1, 'index')}}
        if k == 'slice':
            form = r.choice(['::', 'l:', ':h', 'l:h', 'l:h:m', ':h:m'])
            e = lambda c: self.expr(d - 1, 'slice') if c in form else None
            i2 = self.expr(d - 1, 'slice') if form.endswith(':m') else None
            i1 = self.expr(d - 1, 'slice') if 'h' in form else None
            i0 = self.expr(d - 1, 'slice') if form.startswith('l') else None
            return {'Slice': {'pos': [0, 0], 'left': self.primary(d - 1, ctx, nolit), 'index': [i0, i1, i2]}}
        if k == 'call':
            args = [self.expr(d - 1, 'arg') for _ in range(r.randint(0, 3))]
            dots = 0 if (args and self.chance(0.15)) else None
            return {'Call': {'pos': [0, 0], 'args': args, 'func': self.primary(d - 1, ctx, nolit), 'dots': dots}}
        if k == 'assert': return {'TypeAssert': {'pos': [0, 0], 'left': self.primary(d - 1, ctx, nolit), 'right': self.typ(d - 1, 'assert')}}
        if k == 'complit':
            e = self.complit(d - 1)
            return paren(e) if nolit else e
        if k == 'funclit':
            return {'FuncLit': {'typ': self.signature(d - 1, 'funclit'), 'body': block(self.stmts(d - 1, r.randint(0, 2)))}}
        if k == 'conv':
            t = self.pick([{'TypeSlice': {'pos': [0, 0], 'typ': ident('byte')}}, ident('float64'), paren({'Operation': {'pos': 0, 'op': 'Star', 'x': ident('T'), 'y': None}}),
                           {'TypeMap': {'pos': [0, 0], 'key': ident('string'), 'val': ident('int')}}, paren({'TypeChannel': {'pos': [0, 0], 'dir': 'Recv', 'typ': ident('int')}}),
                           paren({'TypeFunction': {'pos': 0, 'typ_params': nofields(), 'params': fieldlist([]), 'result': nofields()}})])
            return {'Call': {'pos': [0, 0], 'args': [self.expr(d - 1, 'arg')], 'func': t, 'dots': None}}
        if k == 'generic-call':
            targs = [ident(self.tname()) for _ in range(r.choice([1, 2]))]
            f = ident(self.pick(['Map', 'Max', 'New']))
            fn = {'Index': {'pos': [0, 0], 'left': f, 'index': targs[0]}} if len(targs) == 1 else {'IndexList': {'pos': [0, 0], 'left': f, 'indices': targs}}
            return {'Call': {'pos': [0, 0], 'args': [self.expr(d - 1, 'arg') for _ in range(r.randint(0, 2))], 'func': fn, 'dots': None}}
        if k == 'addr-complit':
            e = {'Operation': {'pos': 0, 'op': 'And', 'x': self.complit(d - 1), 'y': None}}
            return paren(e) if nolit else e
        if k == 'anon-struct':
            e = {'CompositeLit': {'typ': {'TypeStruct': {'pos': [0, 0], 'fields': [field(['a'], ident('int'))]}}, 'val': {'pos': [0, 0], 'values': [{'key': None, 'val': {'Expr': lit('Integer', '1')}}]}}}
            return paren(e) if nolit else e
        if k == 'chan-conv':
            # `<-chan int(c)` is `<-(chan int(c))`; a conversion to a receive-only channel needs parentheses
            if self.chance(0.5):
                return {'Call': {'pos': [0, 0], 'args': [ident('c')], 'func': paren({'TypeChannel': {'pos': [0, 0], 'dir': 'Recv', 'typ': ident('int')}}), 'dots': None}}
            return {'Operation': {'pos': 0, 'op': 'Arrow', 'x': {'Call': {'pos': [0, 0], 'args': [ident('c')], 'func': {'TypeChannel': {'pos': [0, 0], 'dir': None, 'typ': ident('int')}}, 'dots': None}}, 'y': None}}
        if k == 'method-expr':
            return {'Selector': {'pos': 0, 'x': paren({'Operation': {'pos': 0, 'op': 'Star', 'x': ident('T'), 'y': None}}), 'sel': rawident('m')}}

    def primary(self, d, ctx, nolit=False):
        """an operand that can take a postfix: not a bare unary/binary operation"""
        e = self.expr(d, ctx, nolit)
        k, v = kind_of(e)
        if k == 'Operation' or k == 'FuncLit' and False: return paren(e)
        if k == 'BasicLit' and v['kind'] in ('Integer', 'Float', 'Imag'):
            return ident(self.name())                      # `1.f` / `1[0]` would lex or read differently
        return e

    def complit(self, d):
        r = self.rng
        tk = r.choice(['name', 'slice', 'array', 'ellipsis-array', 'map', 'struct', 'qualified', 'generic'])
        self.cov('complit-' + tk, 'expr')
        t = {'name': lambda: ident(self.pick(['T', 'Point', 'Node'])),
             'slice': lambda: {'TypeSlice': {'pos': [0, 0], 'typ': self.typ(d - 1, 'complit')}},
             'array': lambda: {'TypeArray': {'pos': [0, 0], 'len': lit('Integer', '3'), 'typ': ident('int')}},
             'ellipsis-array': lambda: {'TypeArray': {'pos': [0, 0], 'len': {'Ellipsis': {'pos': 0, 'elt': None}}, 'typ': ident('string')}},
             'map': lambda: {'TypeMap': {'pos': [0, 0], 'key': ident('string'), 'val': self.typ(d - 1, 'complit')}},
             'struct': lambda: {'TypeStruct': {'pos': [0, 0], 'fields': [field(['a', 'b'], ident('int'))]}},
             'qualified': lambda: {'Selector': {'pos': 0, 'x': ident('pkg'), 'sel': rawident('T')}},
             'generic': lambda: {'Index': {'pos': [0, 0], 'left': ident('G'), 'index': ident('int')}}}[tk]()
        return {'CompositeLit': {'typ': t, 'val': self.litvalue(d)}}

    def litvalue(self, d):
        r = self.rng
        vals = []
        for _ in range(r.randint(0, 3)):
            key = None
            if self.chance(0.4):
                key = {'Expr': self.pick([ident(self.pick(FIELDS)), lit('String', '"k"'), lit('Integer', '2')])}
            if d > 0 and self.chance(0.25): val = {'LitValue': self.litvalue(d - 1)}
            else: val = {'Expr': self.expr(d - 1, 'element')}
            vals.append({'key': key, 'val': val})
        return {'pos': [0, 0], 'values': vals}

    # ---------------------------------------------------------------- statements
    def stmts(self, d, n):
        return [self.stmt(d, 'block') for _ in range(n)]

    def simple(self, d, ctx, nolit=False):
        r = self.rng
        k = r.choice(['call', 'assign', 'assign', 'define', 'incdec', 'send', 'recv', 'opassign'])
        self.cov('simple-' + k, ctx)
        ex = lambda c='rhs': self.expr(d - 1, c, nolit)
        lhs = lambda: self.pick([ident(self.name()), {'Selector': {'pos': 0, 'x': ident(self.name()), 'sel': rawident(self.pick(FIELDS))}},
                                 {'Index': {'pos': [0, 0], 'left': ident(self.name()), 'index': ident('i')}}, {'Operation': {'pos': 0, 'op': 'Star', 'x': ident('p'), 'y': None}}, ident('_')])
        if k == 'call':
            return {'Expr': {'expr': {'Call': {'pos': [0, 0], 'args': [ex('arg') for _ in range(r.randint(0, 2))], 'func': self.pick([ident('f'), {'Selector': {'pos': 0, 'x': ident('fmt'), 'sel': rawident('Println')}}]), 'dots': None}}}}
        if k == 'assign':
            n = r.choice([1, 1, 2])
            return {'Assign': {'pos': 0, 'op': 'Assign', 'left': [lhs() for _ in range(n)], 'right': [ex() for _ in range(n)]}}
        if k == 'opassign':
            return {'Assign': {'pos': 0, 'op': self.pick(ASSIGNOPS[1:]), 'left': [lhs()], 'right': [ex()]}}
        if k == 'define':
            n = r.choice([1, 1, 2])
            return {'Assign': {'pos': 0, 'op': 'Define', 'left': [ident(self.pick(VALS + ['_'])) for _ in range(n)], 'right': [ex() for _ in range(r.choice([1, n]))]}}
        if k == 'incdec': return {'IncDec': {'pos': 0, 'op': self.pick(['Inc', 'Dec']), 'expr': lhs()}}
        if k == 'send': return {'Send': {'pos': 0, 'chan': ident('ch'), 'value': ex()}}
        return {'Expr': {'expr': {'Operation': {'pos': 0, 'op': 'Arrow', 'x': ident('ch'), 'y': None}}}}

    def stmt(self, d, ctx):
        r = self.rng
        if d <= 0:
            k = r.choice(['simple', 'simple', 'return', 'branch'])
        else:
            k = r.choice(['simple', 'simple', 'simple', 'decl', 'return', 'branch', 'block', 'if', 'if', 'for', 'range', 'switch', 'typeswitch', 'select', 'go', 'defer', 'label', 'empty', 'funclit-call'])
        self.cov('stmt-' + k, ctx)
        if k == 'simple': return self.simple(d, ctx)
        if k == 'decl':
            dk = r.choice(['Variable', 'Const', 'Type'])
            return {'Declaration': {dk: self.decl_body(dk, d - 1)}}
        if k == 'return': return {'Return': {'pos': 0, 'ret': [self.expr(d - 1, 'return') for _ in range(r.randint(0, 2))]}}
        if k == 'branch':
            key = r.choice(['Break', 'Continue', 'Goto', 'FallThrough'])
            idn = rawident('L') if key == 'Goto' or (key in ('Break', 'Continue') and self.chance(0.3)) else None
            return {'Branch': {'pos': 0, 'key': key, 'ident': idn}}
        if k == 'block': return {'Block': block(self.stmts(d - 1, r.randint(0, 3)))}
        if k == 'if': return {'If': self.if_stmt(d)}
        if k == 'for':
            form = r.choice(['inf', 'cond', 'three', 'three-partial'])
            self.cov('for-' + form, ctx)
            body = block(self.stmts(d - 1, r.randint(0, 2)))
            if form == 'inf': return {'For': {'pos': 0, 'init': None, 'cond': None, 'post': None, 'body': body}}
            cond = {'Expr': {'expr': self.expr(d - 1, 'for-cond', nolit=True)}}
            if form == 'cond': return {'For': {'pos': 0, 'init': None, 'cond': cond, 'post': None, 'body': body}}
            init = self.simple(d - 1, 'for-init', nolit=True) if form == 'three' or self.chance(0.5) else None
            post = self.simple_post(d - 1) if form == 'three' or self.chance(0.5) else None
            c = cond if form == 'three' or self.chance(0.5) else None
            if init is None and post is None and c is not None:
                post = self.simple_post(d - 1)
            return {'For': {'pos': 0, 'init': init, 'cond': c, 'post': post, 'body': body}}
        if k == 'range':
            form = r.choice(['none', 'k', 'kv', 'k=', 'kv=', 'idx='])
            self.cov('range-' + form, ctx)
            key = value = op = None
            if form == 'idx=':
                key = {'Index': {'pos': [0, 0], 'left': ident('a'), 'index': ident('i')}}; op = [0, 'Assign']
            elif form != 'none':
                key = ident(self.pick(['i', 'k', '_'])); op = [0, 'Assign' if form.endswith('=') else 'Define']
                if form.startswith('kv'): value = ident(self.pick(['v', '_']))
            return {'Range': {'pos': [0, 0], 'key': key, 'value': value, 'op': op, 'expr': self.expr(d - 1, 'range', nolit=True), 'body': block(self.stmts(d - 1, r.randint(0, 2)))}}
        if k == 'switch':
            init = self.simple(d - 1, 'switch-init', nolit=True) if self.chance(0.3) else None
            tag = self.expr(d - 1, 'switch-tag', nolit=True) if self.chance(0.7) or init is None and False else None
            return {'Switch': {'pos': 0, 'init': init, 'tag': tag, 'block': self.case_block(d, types=False)}}
        if k == 'typeswitch':
            init = self.simple(d - 1, 'switch-init', nolit=True) if self.chance(0.3) else None
            ta = {'TypeAssert': {'pos': [0, 0], 'left': self.primary(d - 1, 'typeswitch', nolit=True), 'right': None}}
            tag = {'Assign': {'pos': 0, 'op': 'Define', 'left': [ident('t')], 'right': [ta]}} if self.chance(0.5) else {'Expr': {'expr': ta}}
            return {'TypeSwitch': {'pos': 0, 'init': init, 'tag': tag, 'block': self.case_block(d, types=True)}}
        if k == 'select':
            clauses = []
            for _ in range(r.randint(0, 3)):
                ck = r.choice(['send', 'recv', 'recv-define', 'recv-assign', 'default'])
                self.cov('comm-' + ck, 'select')
                rc = {'Operation': {'pos': 0, 'op': 'Arrow', 'x': ident('ch'), 'y': None}}
                comm = {'send': lambda: {'Send': {'pos': 0, 'chan': ident('ch'), 'value': self.expr(d - 1, 'send')}},
                        'recv': lambda: {'Expr': {'expr': rc}},
                        'recv-define': lambda: {'Assign': {'pos': 0, 'op': 'Define', 'left': [ident('v')] + ([ident('ok')] if self.chance(0.5) else []), 'right': [rc]}},
                        'recv-assign': lambda: {'Assign': {'pos': 0, 'op': 'Assign', 'left': [ident('v')], 'right': [rc]}},
                        'default': lambda: None}[ck]()
                clauses.append({'pos': [0, 0], 'tok': 'Default' if ck == 'default' else 'Case', 'comm': comm, 'body': self.stmts(d - 1, r.randint(0, 2))})
            return {'Select': {'pos': 0, 'body': {'pos': [0, 0], 'body': clauses}}}
        if k in ('go', 'defer'):
            c = {'pos': [0, 0], 'args': [self.expr(d - 1, 'arg') for _ in range(r.randint(0, 2))], 'func': self.pick([ident('f'), {'Selector': {'pos': 0, 'x': ident('x'), 'sel': rawident('Close')}}]), 'dots': None}
            if self.chance(0.3):
                c = {'pos': [0, 0], 'args': [], 'func': {'FuncLit': {'typ': self.signature(0, 'funclit') | {'params': fieldlist([]), 'result': nofields()}, 'body': block(self.stmts(d - 1, r.randint(0, 2)))}}, 'dots': None}
            return {'Go' if k == 'go' else 'Defer': {'pos': 0, 'call': c}}
        if k == 'label': return {'Label': {'pos': 0, 'name': rawident(self.pick(['L', 'outer', 'loop'])), 'stmt': self.stmt(d - 1, 'label')}}
        if k == 'empty': return {'Empty': {'pos': 0}}
        if k == 'funclit-call':
            fl = {'FuncLit': {'typ': {'pos': 0, 'typ_params': nofields(), 'params': fieldlist([]), 'result': nofields()}, 'body': block(self.stmts(d - 1, r.randint(0, 2)))}}
            return {'Expr': {'expr': {'Call': {'pos': [0, 0], 'args': [], 'func': fl, 'dots': None}}}}

    def simple_post(self, d):
        s = self.simple(d, 'for-post', nolit=True)
        k, v = kind_of(s)
        if k == 'Assign' and v['op'] == 'Define':           # the post statement may not be a short variable declaration
            v['op'] = 'Assign'
        return s

    def if_stmt(self, d):
        r = self.rng
        init = self.simple(d - 1, 'if-init', nolit=True) if self.chance(0.3) else None
        els = None
        if d > 1 and self.chance(0.4):
            els = {'If': self.if_stmt(d - 1)} if self.chance(0.4) else {'Block': block(self.stmts(d - 1, r.randint(0, 2)))}
            self.cov('else-' + kind_of(els)[0], 'if')
        return {'pos': 0, 'init': init, 'cond': self.expr(d - 1, 'if-cond', nolit=True), 'body': block(self.stmts(d - 1, r.randint(0, 2))), 'else_': els}

    def case_block(self, d, types):
        r = self.rng
        clauses = []
        had_default = False
        for _ in range(r.randint(0, 3)):
            if not had_default and self.chance(0.25):
                had_default = True
                clauses.append({'tok': 'Default', 'pos': [0, 0], 'list': [], 'body': self.stmts(d - 1, r.randint(0, 2))})
            else:
                lst = [self.typ(d - 1, 'case-type') if types else self.expr(d - 1, 'case') for _ in range(r.randint(1, 3))]
                clauses.append({'tok': 'Case', 'pos': [0, 0], 'list': lst, 'body': self.stmts(d - 1, r.randint(0, 2))})
        return {'pos': [0, 0], 'body': clauses}

    # ---------------------------------------------------------------- declarations
    def decl_body(self, kind, d):
        r = self.rng
        grouped = self.chance(0.35)
        n = r.randint(0, 3) if grouped else 1
        self.cov(('decl-%s-' % kind) + ('group' if grouped else 'single'), 'decl')
        specs = []
        for i in range(n):
            if kind == 'Type': specs.append(self.type_spec(d))
            else:
                names = [self.pick(VALS + ['_']) for _ in range(r.choice([1, 1, 2]))]
                form = r.choice(['t', 'v', 'tv']) if kind == 'Variable' else r.choice(['v', 'tv', 'v'] + (['bare'] if grouped and i > 0 else []))
                typ = self.typ(d - 1, 'spec') if 't' in form and form != 'bare' else None
                vals = [self.expr(d - 1, 'init') for _ in names] if 'v' in form else []
                if vals and self.chance(0.2): vals = vals[:1] if len(names) == 1 else [self.expr(d - 1, 'init')]
                specs.append({'docs': [], 'name': [rawident(x) for x in names], 'typ': typ, 'values': vals})
        return {'docs': [], 'pos0': 0, 'pos1': [0, 0] if grouped else None, 'specs': specs}

    def type_spec(self, d):
        r = self.rng
        alias = self.chance(0.2)
        params = nofields()
        if not alias and self.chance(0.3):
            params = self.type_params(d)
        typ = self.typ(d, 'typespec')
        if params['pos'] is None and self.chance(0.3):
            ln = self.pick([ident('N'), lit('Integer', '8'), self.fix_binop('Star', ident('N'), lit('Integer', '2')), self.fix_binop('Add', ident('n'), ident('m')),
                            {'Call': {'pos': [0, 0], 'args': [ident('x')], 'func': ident('len'), 'dots': None}}, {'Selector': {'pos': 0, 'x': ident('pkg'), 'sel': rawident('N')}},
                            paren(ident('N')), self.fix_binop('Shl', lit('Integer', '1'), ident('k')),
                            self.fix_binop('Star', ident('N'), {'Call': {'pos': [0, 0], 'args': [{'Selector': {'pos': 0, 'x': {'CompositeLit': {'typ': {'TypeStruct': {'pos': [0, 0], 'fields': [field(['a'], {'TypeArray': {'pos': [0, 0], 'len': lit('Integer', '2'), 'typ': ident('int')}}), field(['b'], ident('T'))]}}, 'val': {'pos': [0, 0], 'values': []}}}, 'sel': rawident('a')}}], 'func': ident('len'), 'dots': None}})])
            typ = {'TypeArray': {'pos': [0, 0], 'len': ln, 'typ': self.typ(d - 1, 'typespec-array')}}
            self.cov('typespec-array', 'decl')
        return {'docs': [], 'alias': alias, 'name': rawident(self.pick(['T', 'Node', 'List', 'Ж'])), 'params': params, 'typ': typ}

    def func_decl(self, d):
        r = self.rng
        recv = None
        typarams = False
        if self.chance(0.35):
            rk = r.choice(['val', 'ptr', 'generic', 'unnamed', 'generic-blank', 'generic2', 'ptr-unnamed'])
            self.cov('recv-' + rk, 'funcdecl')
            t = {'val': ident('T'), 'ptr': {'TypePointer': {'pos': 0, 'typ': ident('T')}}, 'unnamed': ident('T'),
                 'generic': {'TypePointer': {'pos': 0, 'typ': {'Index': {'pos': [0, 0], 'left': ident('List'), 'index': ident('P')}}}},
                 'generic-blank': {'Index': {'pos': [0, 0], 'left': ident('List'), 'index': ident('_')}},
                 'generic2': {'Index': {'pos': [0, 0], 'left': ident('Map'), 'index': {'List': [ident('K'), ident('V')]}}},
                 'ptr-unnamed': {'TypePointer': {'pos': 0, 'typ': ident('T')}}}[rk]
            recv = fieldlist([field([] if rk in ('unnamed', 'ptr-unnamed') else [self.pick(['r', 's', '_'])], t)])
        else:
            typarams = self.chance(0.25)
        body = block(self.stmts(d, r.randint(0, 4))) if self.chance(0.9) else None
        self.cov('funcdecl-' + ('body' if body else 'nobody'), 'decl')
        return {'docs': [], 'recv': recv, 'name': rawident(self.pick(['f', 'main', 'String', 'do'])), 'typ': self.signature(d - 1, 'funcdecl', typarams), 'body': body}

    def file(self, ndecl=None):
        r = self.rng
        d = self.maxdepth
        imports = []
        for _ in range(r.choice([0, 0, 1, 2, 3])):
            nm = r.choice([None, None, 'x', '.', '_'])
            imports.append({'name': rawident(nm) if nm else None, 'path': {'pos': 0, 'value': self.pick(['"fmt"', '"os"', '`io`', '"a/b"'])}})
        decls = []
        for _ in range(ndecl if ndecl is not None else r.randint(0, 5)):
            k = r.choice(['Function', 'Function', 'Variable', 'Const', 'Type'])
            decls.append({'Function': self.func_decl(d)} if k == 'Function' else {k: self.decl_body(k, d)})
        return {'path': '<input>', 'line_info': [], 'docs': [], 'pkg_name': rawident(self.pick(['p', 'main', 'pkg'])), 'imports': imports, 'decl': decls, 'comments': []}


# ---------------------------------------------------------------------------------------------
# exhaustive enumerations of small derivations around the grammar's known ambiguities


def enum_typeparam_decls():
    """type declarations `type T[<params>] <type>` with every shape of first constraint: the brackets are a
    type-parameter list or an array length depending on the constraint (Go spec, Type parameter declarations,
    "parsing ambiguity")"""
    import itertools
    C = lambda n: ident(n)
    firsts = {'C': C('C'), '*C': {'TypePointer': {'pos': 0, 'typ': C('C')}}, '(C)': paren(C('C')), '~C': {'Operation': {'pos': 0, 'op': 'Tiled', 'x': C('C'), 'y': None}},
              '[]C': {'TypeSlice': {'pos': [0, 0], 'typ': C('C')}}, '[3]C': {'TypeArray': {'pos': [0, 0], 'len': lit('Integer', '3'), 'typ': C('C')}}, 'p.C': {'Selector': {'pos': 0, 'x': C('p'), 'sel': rawident('C')}},
              'interface{}': {'TypeInterface': {'pos': 0, 'methods': fieldlist([])}}, 'map': {'TypeMap': {'pos': [0, 0], 'key': C('K'), 'val': C('V')}}, 'G[C]': {'Index': {'pos': [0, 0], 'left': C('G'), 'index': C('C')}},
              '*p.C': {'TypePointer': {'pos': 0, 'typ': {'Selector': {'pos': 0, 'x': C('p'), 'sel': rawident('C')}}}}, 'chan C': {'TypeChannel': {'pos': [0, 0], 'dir': None, 'typ': C('C')}},
              'func()': {'TypeFunction': {'pos': 0, 'typ_params': nofields(), 'params': fieldlist([]), 'result': nofields()}}}
    more = {'D': C('D'), '~D': {'Operation': {'pos': 0, 'op': 'Tiled', 'x': C('D'), 'y': None}}, '*D': {'TypePointer': {'pos': 0, 'typ': C('D')}}, '[]D': {'TypeSlice': {'pos': [0, 0], 'typ': C('D')}}, '(D)': paren(C('D'))}
    bodies = [ident('int'), {'TypeStruct': {'pos': [0, 0], 'fields': []}}, {'TypeSlice': {'pos': [0, 0], 'typ': ident('P')}}]
    out = []
    for fk, f in firsts.items():
        for n in range(0, 3):
            for extra in itertools.product(more.items(), repeat=n):
                e = f
                for _, t in extra:
                    e = {'Operation': {'pos': 0, 'op': 'Or', 'x': e, 'y': t}}
                for names in (['P'], ['P', 'Q']):
                    for second in (False, True):
                        fields = [field(names, e)] + ([field(['R'], ident('any'))] if second else [])
                        body = bodies[(len(out)) % len(bodies)]
                        spec = {'docs': [], 'alias': False, 'name': rawident('T'), 'params': fieldlist(fields), 'typ': body}
                        tree = {'path': '<input>', 'line_info': [], 'docs': [], 'pkg_name': rawident('p'), 'imports': [],
                                'decl': [{'Type': {'docs': [], 'pos0': 0, 'pos1': None, 'specs': [spec]}}], 'comments': []}
                        out.append((f'typeparams:{fk}+{"|".join(k for k, _ in extra)}:{len(names)}names:{"2nd" if second else "single"}', tree))
    return out


def enum_array_decls():
    """type declarations whose brackets are an array length (the other side of the same ambiguity)"""
    N = ident('N')
    lens = {'N': N, '3': lit('Integer', '3'), 'N*2': {'Operation': {'pos': 0, 'op': 'Star', 'x': N, 'y': lit('Integer', '2')}}, 'N*M': {'Operation': {'pos': 0, 'op': 'Star', 'x': N, 'y': ident('M')}},
            'N+1': {'Operation': {'pos': 0, 'op': 'Add', 'x': N, 'y': lit('Integer', '1')}}, 'len(x)': {'Call': {'pos': [0, 0], 'args': [ident('x')], 'func': ident('len'), 'dots': None}},
            'N(M)': {'Call': {'pos': [0, 0], 'args': [ident('M')], 'func': N, 'dots': None}}, 'p.N': {'Selector': {'pos': 0, 'x': ident('p'), 'sel': rawident('N')}}, '(N)': paren(N),
            'N|M': {'Operation': {'pos': 0, 'op': 'Or', 'x': N, 'y': ident('M')}}, 'N*M|K': {'Operation': {'pos': 0, 'op': 'Or', 'x': {'Operation': {'pos': 0, 'op': 'Star', 'x': N, 'y': ident('M')}}, 'y': ident('K')}},
            '1<<N': {'Operation': {'pos': 0, 'op': 'Shl', 'x': lit('Integer', '1'), 'y': N}}, 'N<<1': {'Operation': {'pos': 0, 'op': 'Shl', 'x': N, 'y': lit('Integer', '1')}}, '-N': {'Operation': {'pos': 0, 'op': 'Sub', 'x': N, 'y': None}},
            'N.f': {'Selector': {'pos': 0, 'x': N, 'sel': rawident('f')}}, 'N&^M': {'Operation': {'pos': 0, 'op': 'AndNot', 'x': N, 'y': ident('M')}}}
    elems = [ident('int'), {'TypePointer': {'pos': 0, 'typ': ident('T')}}, {'TypeSlice': {'pos': [0, 0], 'typ': ident('byte')}}, {'TypeArray': {'pos': [0, 0], 'len': lit('Integer', '2'), 'typ': ident('int')}}]
    out = []
    for lk, ln in lens.items():
        for el in elems:
            spec = {'docs': [], 'alias': False, 'name': rawident('A'), 'params': nofields(), 'typ': {'TypeArray': {'pos': [0, 0], 'len': ln, 'typ': el}}}
            tree = {'path': '<input>', 'line_info': [], 'docs': [], 'pkg_name': rawident('p'), 'imports': [],
                    'decl': [{'Type': {'docs': [], 'pos0': 0, 'pos1': None, 'specs': [spec]}}], 'comments': []}
            out.append((f'arraydecl:{lk}', tree))
    return out
