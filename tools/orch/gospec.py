"""Independent reference for the lexical part of the Go specification, written from the spec text
(EBNF transcribed to regular expressions / a small recogniser) and from nothing in gosyn or in the
Lean model.  Used only by ORACLES (search for failing inputs); theorems are stated against
Gosyn/Spec/*.lean.  tools/spec_xcheck (thorough tier) cross-checks the two formulations where both
are executable."""
import re, unicodedata

# ---- numeric literals (spec: Integer literals, Floating-point literals, Imaginary literals)
DD = r'[0-9](?:_?[0-9])*'; BD = r'[01](?:_?[01])*'; OD = r'[0-7](?:_?[0-7])*'; HD = r'[0-9a-fA-F](?:_?[0-9a-fA-F])*'
INT = rf'(?:0[bB]_?{BD}|0[oO]?_?{OD}|0[xX]_?{HD}|0|[1-9](?:_?{DD})?)'
EXP = rf'[eE][+-]?{DD}'
DF = rf'(?:{DD}\.(?:{DD})?(?:{EXP})?|{DD}{EXP}|\.{DD}(?:{EXP})?)'
HM = rf'(?:_?{HD}\.(?:{HD})?|_?{HD}|\.{HD})'
HF = rf'0[xX]{HM}[pP][+-]?{DD}'
FLT = rf'(?:{DF}|{HF})'
IMAG = rf'(?:{DD}|{INT}|{FLT})i'
rI, rF, rM = re.compile(INT), re.compile(FLT), re.compile(IMAG)


def number_kind(s):
    """kind of the numeric literal s per the spec, or None if s is not one"""
    if rI.fullmatch(s): return 'Integer'
    if rF.fullmatch(s): return 'Float'
    if rM.fullmatch(s): return 'Imag'
    return None


# ---- rune / string literals
def _elem(body, i, quote):
    if i >= len(body): return None
    c = body[i]
    if c == '\n' or c == quote: return None
    if c != '\\': return i + 1
    if i + 1 >= len(body): return None
    d = body[i + 1]
    if d in 'abfnrtv\\': return i + 2
    if d == "'": return i + 2 if quote == "'" else None
    if d == '"': return i + 2 if quote == '"' else None
    if d in '01234567':
        t = body[i + 1:i + 4]
        if len(t) == 3 and all(ch in '01234567' for ch in t) and int(t, 8) <= 255: return i + 4
        return None
    for k, nn in (('x', 2), ('u', 4), ('U', 8)):
        if d == k:
            t = body[i + 2:i + 2 + nn]
            if len(t) == nn and all(ch in '0123456789abcdefABCDEF' for ch in t):
                v = int(t, 16)
                if k == 'x' or (v <= 0x10FFFF and not (0xD800 <= v <= 0xDFFF)): return i + 2 + nn
            return None
    return None


def quoted_ok(quote, body):
    """is quote+body+quote a well-formed literal (body given without the quotes)"""
    if quote == '`': return '`' not in body
    i = n = 0
    while i < len(body):
        j = _elem(body, i, quote)
        if j is None: return False
        i = j; n += 1
    return n == 1 if quote == "'" else True


def scan_quoted(src, i):
    """longest well-formed rune/string literal starting at src[i] (a quote char), or None"""
    q = src[i]
    if q == '`':
        j = src.find('`', i + 1)
        return None if j < 0 else src[i:j + 1]
    j = i + 1; n = 0
    while j < len(src):
        if src[j] == q:
            if q == "'" and n != 1: return None
            return src[i:j + 1]
        k = _elem(src, j, q)
        if k is None: return None
        j = k; n += 1
    return None


# ---- tokens
KEYWORDS = set("break default func interface select case defer go map struct chan else goto package switch const fallthrough if range type continue for import return var".split())
OPERATORS = ["+", "&", "+=", "&=", "&&", "==", "!=", "(", ")", "-", "|", "-=", "|=", "||", "<", "<=", "[", "]",
             "*", "^", "*=", "^=", "<-", ">", ">=", "{", "}", "/", "<<", "/=", "<<=", "++", "=", ":=", ",", ";",
             "%", ">>", "%=", ">>=", "--", "!", "...", ".", ":", "&^", "&^=", "~"]
OPS_BY_LEN = sorted(OPERATORS, key=len, reverse=True)
TRIGGER_KW = {'break', 'continue', 'fallthrough', 'return'}
TRIGGER_OP = {'++', '--', ')', ']', '}'}


def is_letter(c): return c == '_' or unicodedata.category(c).startswith('L')
def is_digit(c): return unicodedata.category(c) == 'Nd'

NUMSTART = re.compile(r'[0-9]|\.[0-9]')
# maximal candidate run for a number: the spec's longest-match applied to numeric literals
NUMRUN = re.compile(rf'{IMAG}|{FLT}|{INT}')


def tokens(src, with_comments=True, insert_semicolons=True):
    """Reference tokenisation: list of (offset, kind, text) with kind in
    Comment Keyword Ident Integer Float Imag Char String Operator; automatic semicolons are
    (offset, 'Operator', ';', synthetic=True) 4-tuples.  Returns None when the text is not lexically
    valid Go (such inputs are not judged by token-level oracles)."""
    out = []
    i = 0
    n = len(src)
    last = None   # last non-comment token (kind, text) on the current line

    def trig(t):
        if t is None: return False
        k, x = t
        return k in ('Ident', 'Integer', 'Float', 'Imag', 'Char', 'String') or (k == 'Keyword' and x in TRIGGER_KW) or (k == 'Operator' and x in TRIGGER_OP)

    def semi(at):
        nonlocal last
        if insert_semicolons and trig(last):
            out.append((at, 'Operator', ';', True))
        last = None

    pending_at = None
    while i < n:
        c = src[i]
        if c == '\n':
            semi(pending_at if pending_at is not None else i)
            pending_at = None
            i += 1; continue
        if c in ' \t\r':
            i += 1; continue
        if src.startswith('//', i):
            j = src.find('\n', i)
            if j < 0: j = n
            # a line comment acts like a newline: the semicolon goes right after the last token
            at = pending_at if pending_at is not None else i
            semi(at); pending_at = None
            if with_comments: out.append((i, 'Comment', src[i:j]))
            i = j; continue
        if src.startswith('/*', i):
            j = src.find('*/', i + 2)
            if j < 0: return None
            text = src[i:j + 2]
            if '\n' in text:
                at = pending_at if pending_at is not None else i
                semi(at); pending_at = None
            if with_comments: out.append((i, 'Comment', text))
            i = j + 2; continue
        # a real token starts here
        if NUMSTART.match(src, i):
            m = NUMRUN.match(src, i)
            if not m: return None
            text = m.group(0)
            # the literal must not be directly followed by something that would extend a number
            j = i + len(text)
            # (a literal directly followed by '.' is not judged either: the spec's longest-match rule gives
            # `0x1F` `...` for "0x1F...", the Go compiler itself rejects it as a malformed hex float)
            if j < n and (src[j].isalnum() or src[j] == '_' or src[j] == '.'):
                return None
            kind = number_kind(text)
            tok = (kind, text)
        elif c in '\'"`':
            text = scan_quoted(src, i)
            if text is None: return None
            tok = ('Char' if c == "'" else 'String', text)
        elif is_letter(c):
            j = i + 1
            while j < n and (is_letter(src[j]) or is_digit(src[j])): j += 1
            text = src[i:j]
            tok = ('Keyword' if text in KEYWORDS else 'Ident', text)
        else:
            for op in OPS_BY_LEN:
                if src.startswith(op, i):
                    tok = ('Operator', op); text = op
                    break
            else:
                return None
        out.append((i, tok[0], text))
        last = tok
        i += len(text)
        pending_at = i
    semi(pending_at if pending_at is not None else n)
    # a synthetic semicolon sits at the end of the line's last token, before any comment after it
    out.sort(key=lambda t: (t[0], 0 if len(t) == 4 else 1))
    return out
