"""Python-side case streams: hand-written snippet corpora in several embeddings, token-level mutants,
token soup, literal enumerations.  (Generated *valid programs* with their expected trees come from
the Lean spec layer: `driver gen`.)  Every random choice derives from one `random.Random(seed)`."""
import os, re, random, itertools
from .run import VERIF

SEP = "\n%%%%\n"
def load(name):
    return [x.strip('\n') for x in open(os.path.join(VERIF, 'corpus', name)).read().split(SEP) if x.strip('\n')]

TOKRE = re.compile(r'\s+|[^\W\d]\w*|\d[\w.]*|"(?:[^"\\\n]|\\.)*"|`[^`]*`|\'(?:[^\'\\\n]|\\.)*\'|//[^\n]*|/\*.*?\*/|<<=|>>=|&\^=|\.\.\.|&&|\|\||<-|\+\+|--|==|!=|<=|>=|:=|<<|>>|&\^|[-+*/%&|^]=|.', re.S)
INSERTS = ['(', ')', '{', '}', '[', ']', ',', ';', 'x', '1', '+', '*', '.', 'func', 'type', 'struct', 'interface',
           '/*c*/', '\n', '<-', 'chan', '...', ':', ':=', '=', 'range', 'if', 'for', 'else', 'case', 'default', '|', '~',
           'go', 'defer', 'return', 'switch', 'select', 'map', 'var', 'const', 'import', 'package', '"s"', "'c'", '1.5', '0x1p-2', '&', '!', '-', '++']

def snippet_cases():
    """(mode, text) for every snippet in several embeddings"""
    decls, stmts, files = load('decls.txt'), load('stmts.txt'), load('files.txt')
    cases = []
    for e in decls:
        cases.append(('file', 'package p\n' + e + '\n'))
        if '\n' not in e:
            cases.append(('file', 'package p;' + e))
    for e in stmts:
        cases.append(('file', 'package p\nfunc f() {\n' + e + '\n}\n'))
        cases.append(('stmt', e)); cases.append(('stmt', e + '\n'))
        if '\n' not in e:
            cases.append(('file', 'package p;func f() { ' + e + ' }'))
            cases.append(('file', 'package p;func f() { x(); ' + e + '; y() }'))
            if e.startswith('_ = '):
                cases.append(('expr', e[4:]))
    cases += [('file', f) for f in files]
    return cases

def mutate(rng, text, k=1):
    toks = TOKRE.findall(text)
    if not toks:
        return text
    for _ in range(k):
        kind = rng.choice(['del', 'dup', 'swap', 'ins', 'ins'])
        i = rng.randrange(len(toks))
        if kind == 'del' and len(toks) > 1:
            del toks[i]
        elif kind == 'dup':
            toks.insert(i, toks[i])
        elif kind == 'swap' and len(toks) > 1:
            j = rng.randrange(len(toks)); toks[i], toks[j] = toks[j], toks[i]
        else:
            toks.insert(i, rng.choice(INSERTS))
    return ''.join(toks)

def mutants(rng, cases, per_case=3, maxk=3):
    out = []
    for m, s in cases:
        for _ in range(per_case):
            out.append((m, mutate(rng, s, rng.randint(1, maxk))))
    return out

SOUP = ["package", "p", "func", "return", "break", "x", "_y", "é", "世界", "1", "0x1F", "1.5e3", "'a'", "\"s\"", "`r\n`", "+", "++", "+=", "&^=", "<-", "<<=", "...", ".", ";", ",", "(", ")", "[", "]", "{", "}", ":=", ":", "==", "!", "~", " ", "\t", "\n", "\r\n", "// c\n", "/* c */", "/* c\n */", "//", "/*", "/**/", " ", "@", "#", "?", "$", "|", "||", "&&", "&", "&^", "%", "%=", "^", "^=", "<", ">", "<=", ">=", "=", "!=", "-", "--", "-=", "*", "*=", "/", "/=", ">>", ">>=",
        "if", "else", "for", "range", "switch", "case", "default", "select", "go", "defer", "var", "const", "type", "struct", "interface", "map", "chan", "import", "fallthrough", "continue", "goto", "\U0001F600", "a.b", "f()", "[]int", "T{}", "x:=1"]

def soup(rng, n, maxlen=14, modes=('file', 'expr', 'stmt', 'scan')):
    out = []
    for _ in range(n):
        s = ''.join(rng.choice(SOUP) for _ in range(rng.randint(1, maxlen)))
        m = rng.choice(modes)
        if m == 'file' and rng.random() < 0.7:
            s = 'package p\n' + s
        out.append((m, s))
    return out

def utf8_soup(rng, n, maxlen=24):
    pool = [chr(c) for c in list(range(32, 127)) + [9, 10, 13, 0xA0, 0xE9, 0x4E16, 0x1F600, 0x2028, 0xFEFF, 0x37E, 0x660]]
    out = []
    for _ in range(n):
        s = ''.join(rng.choice(pool) for _ in range(rng.randint(0, maxlen)))
        out.append((rng.choice(['file', 'expr', 'stmt', 'scan']), s))
    return out

def dedup(cases):
    return list(dict.fromkeys(cases))


# exhaustive short token sequences in the syntactic contexts whose parsing code has guarded panic
# sites or multi-way disambiguation (slice/index, parameter lists, struct fields, control headers,
# type-parameter lists, interface elements, simple statements)
CONTEXTS = [
    ('slice',     'expr', 'a[{}]',                         ['x', ':', ',', '...'],                              7, 6),
    ('call',      'expr', 'f({})',                         ['x', ',', '...', 'T', '[]T', '*'],                  5, 4),
    ('params',    'file', 'package p; func f({}) {{}}',     ['a', 'T', ',', '...', '[]', '*', '[N]'],            5, 4),
    ('results',   'file', 'package p; func f() ({}) {{}}',  ['a', 'T', ',', '*', '[]', '('],                     5, 4),
    ('recv',      'file', 'package p; func ({}) m() {{}}',  ['a', 'T', ',', '*', '[', ']', '_'],                 5, 4),
    ('fields',    'file', 'package p; type S struct{{ {} }}', ['a', 'T', ',', '*', '.', ';', '"t"', '[', ']', '1'],  5, 4),
    ('for',       'stmt', 'for {} {{}}',                    ['x', ';', ':=', 'range', ',', '=', 'y++', '<-'],    5, 4),
    ('switch',    'stmt', 'switch {} {{}}',                 ['x', ';', ':=', '.(type)', '=', '+=', 'y', '()'],   5, 4),
    ('if',        'stmt', 'if {} {{}}',                     ['x', ';', ':=', 'T{{}}', '(', ')', '=', '!'],         5, 4),
    ('typeparams','file', 'package p; type T[{}] int',     ['P', 'any', ',', '*', '|', '~', '(', ')', '[', ']', '3'], 5, 4),
    ('iface',     'file', 'package p; type I interface{{ {} }}', ['m', '(', ')', '|', '~', 'T', ';', '*', '[', ']', '.'], 5, 4),
    ('simple',    'stmt', '{}',                            ['x', ',', '=', ':=', ':', '<-', '++', '+=', 'y', '1'], 5, 4),
    ('case',      'stmt', 'switch x {{ {} }}',              ['case', 'default', ':', 'x', ',', ';', 'T', 'fallthrough'], 5, 4),
    ('select',    'stmt', 'select {{ {} }}',                ['case', 'default', ':', 'x', '<-', ':=', '=', ';', ','], 5, 4),
    ('import',    'file', 'package p; import {}',          ['"a"', '(', ')', ';', 'x', '.', '_', '\n'],          5, 4),
    ('complit',   'expr', 'T{{{}}}',                        ['x', ':', ',', '{', '}', '1', '[', ']'],             5, 4),
    ('arraytype', 'file', 'package p; var v [{}]int',      ['N', '...', '3', '*', ']', '[', 'T', ','],           5, 4),
    ('chan',      'file', 'package p; var v {}',           ['chan', '<-', 'int', '(', ')', '*', '[]'],           6, 5),
    ('unaryexpr', 'expr', '{}',                            ['<-', 'chan', 'x', '(', ')', '*', '&', 'int', '.f'],  5, 4),
]


def contexts(thorough=False):
    import itertools
    out = []
    for name, mode, tmpl, alpha, nt, nq in CONTEXTS:
        n = nt if thorough else nq
        for k in range(0, n + 1):
            for t in itertools.product(alpha, repeat=k):
                out.append((name, mode, tmpl.format(' '.join(t))))
    return out


def single_edits(cases, kinds=('del', 'dup', 'swap')):
    """every single-token deletion, duplication and adjacent swap of every case (exhaustive)"""
    out = []
    for m, text in cases:
        toks = TOKRE.findall(text)
        idx = [i for i, t in enumerate(toks) if not t.isspace()]
        for i in idx:
            if 'del' in kinds: out.append((m, ''.join(toks[:i] + toks[i + 1:])))
            if 'dup' in kinds: out.append((m, ''.join(toks[:i] + [toks[i], ' ', toks[i]] + toks[i + 1:])))
        if 'swap' in kinds:
            for a, b in zip(idx, idx[1:]):
                t2 = list(toks); t2[a], t2[b] = t2[b], t2[a]
                out.append((m, ''.join(t2)))
    return out
