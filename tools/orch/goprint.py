"""A straightforward printer for gosyn trees (serde-JSON vocabulary, positions ignored): each node
prints the concrete syntax of the production in parser.rs that builds it, parentheses only where the
tree has a `Paren` node (plus the one place where the parser itself drops them: the operand of `&`).

`tokens(tree)` returns a flat list of token texts with the pseudo-token SEMI for every statement /
declaration terminator; `layout(tokens, rng or None)` turns it into text (canonical or randomised,
see golayout.py).  Used by the oracles of C14 (print and re-parse), C02/C03 (generated trees),
C11/C12/C13 (layouts).  It is an oracle-side tool: nothing here is part of a proof."""
from .gospec import KEYWORDS

SEMI = '\x00;'          # terminator: ';' or a newline, may be dropped before ')' and '}'
OPTC = '\x00,'          # optional trailing comma
OPTEXT = {"Add": "+", "Sub": "-", "Star": "*", "Quo": "/", "Rem": "%", "And": "&", "Or": "|", "Xor": "^", "Shl": "<<", "Shr": ">>", "AndNot": "&^",
          "AddAssign": "+=", "SubAssign": "-=", "MulAssign": "*=", "QuoAssign": "/=", "RemAssign": "%=", "AndAssign": "&=", "OrAssign": "|=", "XorAssign": "^=",
          "ShlAssign": "<<=", "ShrAssign": ">>=", "AndNotAssign": "&^=", "AndAnd": "&&", "OrOr": "||", "Arrow": "<-", "Inc": "++", "Dec": "--", "Equal": "==",
          "Less": "<", "Greater": ">", "Assign": "=", "Not": "!", "Tiled": "~", "NotEqual": "!=", "LessEqual": "<=", "GreaterEqual": ">=", "Define": ":=",
          "DotDotDot": "...", "ParenLeft": "(", "ParenRight": ")", "BarackLeft": "[", "BarackRight": "]", "BraceLeft": "{", "BraceRight": "}", "Comma": ",",
          "Colon": ":", "Dot": ".", "SemiColon": ";"}
KWTEXT = {'FallThrough': 'fallthrough'}


class Unprintable(Exception):
    pass


def kw(k):
    return KWTEXT.get(k, k.lower())


def commas(items, f):
    out = []
    for i, x in enumerate(items):
        if i: out.append(',')
        out += f(x)
    return out


def expr(e):
    (k, v), = e.items()
    return EXPR[k](v)


def ident(v):
    return [v['name']]


def field_list_params(fl, open_='(', close=')'):
    """(a, b T, c ...U)"""
    out = [open_]
    out += commas(fl['list'], field_param)
    if fl['list']: out.append(OPTC)
    out.append(close)
    return out


def field_param(f):
    out = commas(f['name'], ident)
    out += expr(f['typ'])
    return out


def func_sig(ft, with_typarams=True):
    out = []
    tp = ft['typ_params']
    if with_typarams and (tp['pos'] is not None or tp['list']):
        out += field_list_params(tp, '[', ']')
    out += field_list_params(ft['params'])
    res = ft['result']
    if res['pos'] is not None:
        out += field_list_params(res)
    elif res['list']:
        if len(res['list']) != 1 or res['list'][0]['name']:
            raise Unprintable('unparenthesised result list with names or several entries')
        out += expr(res['list'][0]['typ'])
    return out


def struct_field(f):
    out = commas(f['name'], ident)
    out += expr(f['typ'])
    if f['tag'] is not None:
        out.append(f['tag']['value'])
    return out


def iface_elem(f):
    if f['name']:
        if len(f['name']) != 1: raise Unprintable('method element with several names')
        (k, v), = f['typ'].items()
        if k != 'TypeFunction': raise Unprintable('named interface element that is not a method')
        return [f['name'][0]['name']] + func_sig(v, with_typarams=False)
    return expr(f['typ'])


def block(b):
    return ['{'] + stmts(b['list']) + ['}']


def stmts(lst):
    out = []
    for s in lst:
        out += stmt(s)
        out.append(SEMI)
    return out


def literal_value(v):
    out = ['{']
    out += commas(v['values'], keyed)
    if v['values']: out.append(OPTC)
    out.append('}')
    return out


def element(el):
    (k, v), = el.items()
    return expr(v) if k == 'Expr' else literal_value(v)


def keyed(ke):
    out = []
    if ke['key'] is not None:
        out += element(ke['key']) + [':']
    return out + element(ke['val'])


def call(v):
    out = expr(v['func']) + ['(']
    out += commas(v['args'], expr)
    if v['dots'] is not None: out.append('...')
    if v['args']: out.append(OPTC)
    out.append(')')
    return out


def operation(v):
    op = OPTEXT[v['op']]
    if v['y'] is None:
        x = v['x']
        inner = expr(x)
        if v['op'] == 'And':
            (k, xv), = x.items()
            if k == 'Operation' and xv['y'] is not None:        # parser.rs unparens the operand of '&'
                inner = ['('] + inner + [')']
        return [op] + inner
    return expr(v['x']) + [op] + expr(v['y'])


def slice_(v):
    out = expr(v['left']) + ['[']
    i0, i1, i2 = v['index']
    if i0 is not None: out += expr(i0)
    out.append(':')
    if i1 is not None: out += expr(i1)
    if i2 is not None:
        out.append(':'); out += expr(i2)
    out.append(']')
    return out


def chan(v):
    d = v['dir']
    pre = {None: ['chan'], 'Recv': ['<-', 'chan'], 'Send': ['chan', '<-']}[d]
    return pre + expr(v['typ'])


EXPR = {
    'Call': call,
    'Index': lambda v: expr(v['left']) + ['['] + expr(v['index']) + [OPTC, ']'],      # Index = "[" Expression [ "," ] "]", TypeArgs = "[" TypeList [ "," ] "]"
    'IndexList': lambda v: expr(v['left']) + ['['] + commas(v['indices'], expr) + [OPTC, ']'],
    'Slice': slice_,
    'Ident': ident,
    'FuncLit': lambda v: ['func'] + func_sig(v['typ']) + block(v['body']),
    'Ellipsis': lambda v: ['...'] + (expr(v['elt']) if v['elt'] is not None else []),
    'Selector': lambda v: expr(v['x']) + ['.', v['sel']['name']],
    'BasicLit': lambda v: [v['value']],
    'Range': lambda v: ['range'] + expr(v['right']),
    'Star': lambda v: ['*'] + expr(v['right']),
    'Paren': lambda v: ['('] + expr(v['expr']) + [')'],
    'TypeAssert': lambda v: expr(v['left']) + ['.', '('] + (expr(v['right']) if v['right'] is not None else ['type']) + [')'],
    'CompositeLit': lambda v: expr(v['typ']) + literal_value(v['val']),
    'List': lambda v: commas(v, expr),
    'Operation': operation,
    'TypeMap': lambda v: ['map', '['] + expr(v['key']) + [']'] + expr(v['val']),
    'TypeArray': lambda v: ['['] + expr(v['len']) + [']'] + expr(v['typ']),
    'TypeSlice': lambda v: ['[', ']'] + expr(v['typ']),
    'TypeFunction': lambda v: ['func'] + func_sig(v),
    'TypeStruct': lambda v: ['struct', '{'] + [t for f in v['fields'] for t in struct_field(f) + [SEMI]] + ['}'],
    'TypeChannel': chan,
    'TypePointer': lambda v: ['*'] + expr(v['typ']),
    'TypeInterface': lambda v: ['interface', '{'] + [t for f in v['methods']['list'] for t in iface_elem(f) + [SEMI]] + ['}'],
}


def opt_stmt(s):
    return stmt(s) if s is not None else []


def if_stmt(v):
    out = ['if']
    if v['init'] is not None: out += stmt(v['init']) + [';']
    out += expr(v['cond']) + block(v['body'])
    if v['else_'] is not None:
        out.append('else')
        out += stmt(v['else_'])
    return out


def for_stmt(v):
    out = ['for']
    if v['init'] is None and v['post'] is None:
        if v['cond'] is not None: out += stmt(v['cond'])
    else:
        out += opt_stmt(v['init']) + [';'] + opt_stmt(v['cond']) + [';'] + opt_stmt(v['post'])
    return out + block(v['body'])


def range_stmt(v):
    out = ['for']
    if v['key'] is not None:
        out += expr(v['key'])
        if v['value'] is not None: out += [','] + expr(v['value'])
        if v['op'] is None: raise Unprintable('range with key but no operator')
        out.append(OPTEXT[v['op'][1] if isinstance(v['op'], list) else v['op']])
    elif v['value'] is not None:
        raise Unprintable('range with value but no key')
    out += ['range'] + expr(v['expr']) + block(v['body'])
    return out


def case_block(b):
    out = ['{']
    for c in b['body']:
        out.append(kw(c['tok']))
        if c['tok'] == 'Case': out += commas(c['list'], expr)
        out.append(':')
        out += stmts(c['body'])
    out.append('}')
    return out


def switch_stmt(v):
    out = ['switch']
    if v['init'] is not None: out += stmt(v['init']) + [';']
    if v['tag'] is not None: out += expr(v['tag'])
    return out + case_block(v['block'])


def type_switch(v):
    out = ['switch']
    if v['init'] is not None: out += stmt(v['init']) + [';']
    if v['tag'] is not None: out += stmt(v['tag'])
    return out + case_block(v['block'])


def select_stmt(v):
    out = ['select', '{']
    for c in v['body']['body']:
        out.append(kw(c['tok']))
        if c['tok'] == 'Case':
            if c['comm'] is None: raise Unprintable('case clause without communication')
            out += stmt(c['comm'])
        out.append(':')
        out += stmts(c['body'])
    out.append('}')
    return out


def decl(kwd, d, spec):
    out = [kwd]
    if d['pos1'] is not None:
        out.append('(')
        for s in d['specs']:
            out += spec(s) + [SEMI]
        out.append(')')
    else:
        if len(d['specs']) != 1: raise Unprintable('ungrouped declaration with %d specs' % len(d['specs']))
        out += spec(d['specs'][0])
    return out


def value_spec(s):
    out = commas(s['name'], ident)
    if s['typ'] is not None: out += expr(s['typ'])
    if s['values']:
        out.append('='); out += commas(s['values'], expr)
    return out


TYPE_LITS = ('TypeMap', 'TypeArray', 'TypeSlice', 'TypeFunction', 'TypeStruct', 'TypeChannel', 'TypeInterface')


def is_type_elem(e):
    (k, v), = e.items()
    if k in TYPE_LITS: return True
    if k == 'Operation':
        if v['y'] is None: return v['op'] == 'Tiled'
        return is_type_elem(v['x']) or is_type_elem(v['y'])
    if k == 'Paren': return is_type_elem(v['expr'])
    return False


def typeparams_need_comma(tp):
    """the Go rule for `type T[P C] …`: with a single parameter P whose constraint, read together with P, is an
    expression (`P *C`, `P (C)`, `P *C | D`) and contains no type element (~T or a type literal), the brackets
    are an array length unless a comma follows"""
    if len(tp['list']) != 1: return False
    f = tp['list'][0]
    if len(f['name']) == 0: return True            # unnamed entry (only from accepted invalid input)
    if len(f['name']) != 1: return False
    c = f['typ']
    if is_type_elem(c): return False
    left = c
    while True:
        (k, v), = left.items()
        if k == 'Operation' and v['y'] is not None: left = v['x']
        else: break
    (k, v), = left.items()
    return k in ('TypePointer', 'Star', 'Paren') or (k == 'Operation' and v['y'] is None)


def type_spec(s):
    out = [s['name']['name']]
    tp = s['params']
    if tp['pos'] is not None or tp['list']:
        fl = field_list_params(tp, '[', ']')
        # `type T[P *C] …` reads as an array type and `type T[P] …` is one: there the (always legal) trailing
        # comma is required; elsewhere it is optional
        if tp['list']:
            fl = fl[:-2] + [',' if typeparams_need_comma(tp) else OPTC, ']']
        out += fl
    if s['alias']: out.append('=')
    return out + expr(s['typ'])


def any_decl(d):
    (k, v), = d.items()
    if k == 'Function': return func_decl(v)
    return decl({'Type': 'type', 'Const': 'const', 'Variable': 'var'}[k], v, type_spec if k == 'Type' else value_spec)


def func_decl(v):
    out = ['func']
    if v['recv'] is not None: out += field_list_params(v['recv'])
    out.append(v['name']['name'])
    out += func_sig(v['typ'])
    if v['body'] is not None: out += block(v['body'])
    return out


def stmt(s):
    (k, v), = s.items()
    return STMT[k](v)


STMT = {
    'Go': lambda v: ['go'] + call(v['call']),
    'Defer': lambda v: ['defer'] + call(v['call']),
    'If': if_stmt,
    'For': for_stmt,
    'Send': lambda v: expr(v['chan']) + ['<-'] + expr(v['value']),
    'Expr': lambda v: expr(v['expr']),
    'Block': block,
    'Range': range_stmt,
    'Empty': lambda v: [],
    'Label': lambda v: [v['name']['name'], ':'] + (stmt(v['stmt']) or [';']),
    'IncDec': lambda v: expr(v['expr']) + [OPTEXT[v['op']]],
    'Assign': lambda v: commas(v['left'], expr) + [OPTEXT[v['op']]] + commas(v['right'], expr),
    'Return': lambda v: ['return'] + commas(v['ret'], expr),
    'Branch': lambda v: [kw(v['key'])] + ([v['ident']['name']] if v['ident'] is not None else []),
    'Switch': switch_stmt,
    'Select': select_stmt,
    'TypeSwitch': type_switch,
    'Declaration': any_decl,
}


def file_tokens(f):
    out = ['package', f['pkg_name']['name'], SEMI]
    for im in f['imports']:
        out.append('import')
        if im['name'] is not None: out.append(im['name']['name'])
        out += [im['path']['value'], SEMI]
    for d in f['decl']:
        out += any_decl(d) + [SEMI]
    return out


def canonical(tokens):
    """one token per space, every terminator an explicit ';' followed by a newline"""
    if not tokens: return ';'
    out = []
    for t in tokens:
        if t == SEMI: out.append(';\n')
        elif t == OPTC: pass
        else: out.append(t + ' ')
    return ''.join(out)
