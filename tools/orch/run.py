"""Running the implementation harness and the Lean model driver on the same cases.

A case is (mode, bytes).  Both programs read `<mode> <hex>` lines and answer one line per case.
Batches run in child processes so that a crash (stack overflow, abort) or a hang of the real code
is observed, attributed to one input and survived."""
import os, subprocess, json, re, time, signal, concurrent.futures as cf

VERIF = os.path.dirname(os.path.dirname(os.path.dirname(os.path.abspath(__file__))))
HARNESS_DEBUG = os.path.join(VERIF, 'harness/target/debug/harness')
HARNESS_RELEASE = os.path.join(VERIF, 'harness/target/release/harness')
DRIVER = os.path.join(VERIF, 'lean/.lake/build/bin/driver')
WORK = os.path.join(VERIF, 'work')
NPROC = min(16, os.cpu_count() or 4)


def case_line(mode, data):
    if isinstance(data, str):
        data = data.encode('utf-8')
    return mode + ' ' + data.hex() + '\n'


def _run_chunk(argv, text, timeout):
    try:
        p = subprocess.run(argv, input=text.encode(), capture_output=True, timeout=timeout)
        return p.returncode, p.stdout.decode('utf-8', 'replace'), p.stderr.decode('utf-8', 'replace')[-2000:]
    except subprocess.TimeoutExpired as e:
        out = e.stdout.decode('utf-8', 'replace') if e.stdout else ''
        return 'timeout', out, ''


def run_lines(argv, lines, timeout=600, shards=NPROC, min_shard=200, max_shard=1500):
    """Run `argv` over the case lines (split into chunks run by a pool of `shards` workers); returns the
    output lines in order.  Raises on a short answer — use run_lines_robust for inputs that may kill the
    process.  Chunks are bounded so that the per-chunk time limit scales with the work in it."""
    n = len(lines)
    if n == 0:
        return []
    k = max(1, min(shards, n // min_shard or 1))
    size = min(max_shard, (n + k - 1) // k)
    chunks = [lines[i:i + size] for i in range(0, n, size)]
    with cf.ThreadPoolExecutor(max_workers=k) as ex:
        res = list(ex.map(lambda c: _run_chunk(argv, ''.join(c), timeout + 2.0 * len(c)), chunks))
    out = []
    for c, (rc, so, se) in zip(chunks, res):
        ls = so.split('\n')
        if ls and ls[-1] == '':
            ls.pop()
        if rc != 0 or len(ls) != len(c):
            raise RuntimeError(f'{argv[0]} failed: rc={rc} got {len(ls)} of {len(c)} lines; stderr: {se}')
        out.extend(ls)
    return out


def run_lines_robust(argv, lines, timeout_per_case=20.0, batch=64, total_timeout=None):
    """Like run_lines, but survives crashes and hangs: returns for every case either its output line
    or a synthetic record {"crash": <signal/rc>} / {"timeout": true}.  The harness is run with
    --flush so that the answers before the fatal case are not lost."""
    results = [None] * len(lines)

    def work(idx_range):
        lo, hi = idx_range
        i = lo
        while i < hi:
            chunk = lines[i:hi]
            rc, so, se = _run_chunk(argv + ['--flush'], ''.join(chunk), timeout_per_case * len(chunk) + 5)
            ls = so.split('\n')
            if ls and ls[-1] == '':
                ls.pop()
            # a partial last line can appear when the process died mid-write
            good = ls[:len(chunk)]
            if rc not in (0,) and good and not good[-1].endswith('}') and not good[-1].endswith(']'):
                good.pop()
            for j, l in enumerate(good):
                results[i + j] = l
            i += len(good)
            if i < hi and len(good) < len(chunk):
                if rc == 'timeout':
                    results[i] = 'u=0 {"timeout":true}'
                else:
                    sig = -rc if isinstance(rc, int) and rc < 0 else rc
                    name = signal.Signals(sig).name if isinstance(sig, int) and 0 < sig < 65 and rc < 0 else str(rc)
                    results[i] = 'u=0 {"crash":"%s"}' % name
                i += 1
    ranges = [(i, min(i + batch, len(lines))) for i in range(0, len(lines), batch)]
    with cf.ThreadPoolExecutor(max_workers=NPROC) as ex:
        list(ex.map(work, ranges))
    return results


def strip_x(v):
    if isinstance(v, dict):
        return {k: strip_x(x) for k, x in v.items() if k != 'x'}
    if isinstance(v, list):
        return [strip_x(x) for x in v]
    return v


def split_u(line):
    """'u=<n> <json>' -> (n, json text)"""
    if line.startswith('u='):
        a, _, b = line.partition(' ')
        return int(a[2:]), b
    return 0, line


def core(line):
    """the part of an implementation line that the model predicts: extras under "x" removed, panic
    payloads and Debug lengths dropped"""
    u, js = split_u(line)
    if '"x":' in js or '"panic":' in js or '"ok_debug_len":' in js:
        try:
            v = strip_x(json.loads(js))
            v = _norm(v)
            js = json.dumps(v, separators=(',', ':'), ensure_ascii=False)
        except Exception:
            pass
    return u, js


def _norm(v):
    if isinstance(v, dict):
        if 'panic' in v:
            return {'panic': True}
        if 'ok_debug_len' in v:
            return {'ok_debug_len': 0}
        return {k: _norm(x) for k, x in v.items()}
    if isinstance(v, list):
        return [_norm(x) for x in v]
    return v


def impl(lines, profile='debug', robust=False, extra=(), **kw):
    argv = [HARNESS_RELEASE if profile == 'release' else HARNESS_DEBUG] + list(extra)
    if robust:
        return run_lines_robust(argv, lines, **kw)
    return run_lines(argv, lines, **kw)


def model(lines, **kw):
    return run_lines([DRIVER, 'model'], lines, **kw)


def driver(args, lines, **kw):
    return run_lines([DRIVER] + list(args), lines, **kw)


def compare(lines, impl_out, model_out, project=None):
    """indices where implementation and model disagree (after `core` and an optional projection)"""
    bad = []
    for i, (a, b) in enumerate(zip(impl_out, model_out)):
        if a == b:
            continue
        ua, ja = core(a)
        ub, jb = core(b)
        if project is not None:
            try:
                ja = project(json.loads(ja))
                jb = project(json.loads(jb))
            except Exception:
                pass
        if ja != jb or ua != ub:
            bad.append(i)
    return bad
