"""Valid programs built around INTERACTIONS the ordinary corpora rarely write: constructs the parser reads twice
(type-parameter list vs array length, interface elements tried as methods first, struct field line-end comments)
combined with everything that keeps state across the re-read (comments, multi-line tokens, literals, line breaks,
nested rollback points); control headers (nesting level -1) combined with generic types, index lists with
trailing commas, function literals holding further control statements; pending comments before multi-line
tokens; labels at the end of a block; a key-less range loop before composite literals.  Every text is a valid
Go file; `variants` of one program differ only in layout / optional punctuation and must give the same tree."""

RUNES = ["'a'", "'\\''", "'\\\\'", "'\\n'", "'\\x41'", "'\\u00e9'", "'\\U0001F600'", "'é'", "'世'", "'\"'"]
STRS = ['"s"', '"a\\"b"', '"\\\\"', '"é\\n😀"', '`r`', '`r\nq`', '`日本\n語`', '"//"', '"/*"', '"\'"', '`\\`']
CJK = '// 第一个参数是多行的原始字符串字面量，注意缩进，还有更多的文字在这里以便超过一行的长度'
TYPES = ['Pair[int, string]', 'G[int]', 'pkg.Map[K, V]', '[]Pair[int, string]', 'map[K]Pair[A, B]', 'func(Pair[A, B]) G[C]', '*Pair[A, B]', 'chan Pair[A, B]', 'Tri[A, B, C]']


def with_commas(t):
    """the same type text with the optional trailing comma in every bracketed / parenthesised list"""
    out, depth = '', 0
    for i, c in enumerate(t):
        if c in ')]' and i > 0 and t[i - 1] not in '([' and not (c == ']' and t[i - 1] == '['):
            # only lists: `[]T` and `map[K]` brackets hold no list
            j = i - 1; d = 0
            while j >= 0:
                if t[j] in ')]': d += 1
                elif t[j] in '([':
                    if d == 0: break
                    d -= 1
                j -= 1
            opener_prev = t[:j].rstrip()
            is_list = c == ')' or (opener_prev and (opener_prev[-1].isalnum() or opener_prev[-1] in '_') and not opener_prev.endswith('map'))
            if is_list: out += ','
        out += c
    return out


def programs():
    """list of dicts {family, text, variants}"""
    P = []
    def add(family, text, variants=()):
        P.append({'family': family, 'text': text, 'variants': list(variants)})
    H = 'package p\n'
    # F1: literals inside an array length that starts with an identifier (scanned twice)
    for r in RUNES:
        add('reread-literal', H + 'const N = 1\ntype T [N + %s]byte\n' % r)
        add('reread-literal', H + 'type T[P interface{ ~[N + %s]int }] int\n' % r)
    for s in STRS:
        add('reread-literal', H + 'const N = 1\ntype T [N + len(%s)]byte\n' % s)
        add('reread-literal', H + 'type T[P *struct{ a int %s }, Q any] int\n' % (s if s[0] != "'" else '`t`'))
    # F2: comments, line breaks and nested rollback points inside re-read regions
    add('reread-comments', H + 'type T[P *struct {\n\ta int // first\n\t// lead b\n\tb int /* second */\n}, Q any] int\n')
    add('reread-comments', H + 'type A [unsafe.Sizeof(struct {\n\ta int // first\n\tb int // second\n\t/* x */ c int\n}{})]byte // tail\n')
    add('reread-comments', H + 'type A [N /* rows */ * /* cols */ M]int\n', [H + 'type A [N * M]int\n'])
    add('reread-comments', H + 'type S[ /* key */ K /* constraint */ comparable, V any] struct{}\n', [H + 'type S[K comparable, V any] struct{}\n'])
    add('reread-comments', H + 'type A [N + // one\n\tM + // two\n\t1]int\n', [H + 'type A [N + M + 1]int\n'])
    add('reread-comments', H + 'type T /* paramètres */ [P any] struct{}\ntype U /* 长度 */ [N]int\n', [H + 'type T [P any] struct{}\ntype U [N]int\n'])
    add('reread-comments', H + 'type I interface {\n\t// 读取器\n\tio.Reader\n\t/* é */ ~int | ~string\n\t// 方法\n\tm()\n}\n', [H + 'type I interface { io.Reader; ~int | ~string; m() }\n'])
    add('reread-comments', H + 'type S struct {\n\ta int /* é */; b int // 世界\n\tc I /* 😀 */\n}\n', [H + 'type S struct { a int; b int; c I }\n'])
    add('iface-elements', H + 'type I interface { M /* c */ (x int) string; N/**/(); O /* é */ () }\n', [H + 'type I interface { M(x int) string; N(); O() }\n'])
    add('reread-lines', H + 'type A [\n\tN]int\n', [H + 'type A [N]int\n', H + 'type A [ // c\n\tN]int\n'])
    add('reread-lines', H + 'type A [N +\n\t2]int\n', [H + 'type A [N + 2]int\n'])
    add('reread-lines', H + 'type T[\n\tP any,\n\tQ any,\n] int\n', [H + 'type T[P any, Q any] int\n', H + 'type T[P any, Q any,] int\n'])
    add('reread-lines', H + 'type A [unsafe.Sizeof(struct {\n\ta int\n\tb int\n}{})]byte\nvar after = 1\n', [H + 'type A [unsafe.Sizeof(struct { a int; b int }{})]byte\nvar after = 1\n'])
    add('reread-lines', H + 'type T[P *struct {\n\ta int\n\tb int\n}, Q any] int\nvar after = 1\n', [H + 'type T[P *struct { a int; b int }, Q any] int\nvar after = 1\n'])
    add('reread-lines', H + 'func f() {\n\ttype A [unsafe.Sizeof(struct {\n\t\ta int\n\t\tb int\n\t}{})]byte\n\tvar after = 1\n}\n')
    # F3: interface elements (each non-method element is first tried as a method, then re-read)
    add('iface-elements', H + 'type I interface {\n\tio /* pkg */ /* dot */ .Reader\n\t~int | G[T] // elems\n\tm() // method\n}\n', [H + 'type I interface { io.Reader; ~int | G[T]; m() }\n'])
    add('iface-elements', H + 'type I interface {\n\tReader }\n', [H + 'type I interface { Reader }\n'])
    add('iface-elements', H + 'type I interface {\n\tpkg.T\n\tE[int, string,]\n\tF[X,]\n}\n', [H + 'type I interface { pkg.T; E[int, string]; F[X] }\n'])
    # F4: struct fields whose type backtracks, with leading and line-end comments (C12 gives the expectations)
    add('field-comments', H + 'type S struct {\n\t// the reader\n\tr interface{ io.Reader }\n\t// c1\n\t// c2\n\tc interface{ ~int | ~string } // trailing c\n\tm interface{ Read() int } // trailing m\n\tg G[int, string,] // trailing g\n}\n')
    # F5: control headers with generic types / index lists and optional trailing commas
    for t in TYPES:
        tc = with_commas(t)
        a = H + 'func f() {\n\tif p, ok := v.(%s); ok && p.key == k {\n\t\treturn\n\t}\n\tfor _, e := range v.(%s).items {\n\t}\n\tswitch q := v.(%s); q.key {\n\t}\n}\n'
        add('header-generic', a % (tc, tc, tc), [a % (t, t, t)])
    add('header-index', H + 'func f() {\n\tif m[a, b,] == k {\n\t}\n\tfor g[int, string,](x) > n {\n\t}\n\tswitch s[i,]; x {\n\t}\n}\n', [H + 'func f() {\n\tif m[a, b] == k {\n\t}\n\tfor g[int, string](x) > n {\n\t}\n\tswitch s[i]; x {\n\t}\n}\n'])
    # F6: a control statement inside a function literal inside a control header, then code that depends on the level
    inner = ['for _, x := range xs {\n\t\t\ttotal += x\n\t\t}', 'if total > 0 {\n\t\t\ttotal--\n\t\t}', 'switch total {\n\t\tcase 0:\n\t\t}', 'for total > 0 {\n\t\t\ttotal--\n\t\t}']
    for inn in inner:
        add('nested-header', H + 'func ready(xs []int) bool {\n\tif func() bool {\n\t\ttotal := 0\n\t\t%s\n\t\treturn total > 0\n\t}() {\n\t\treturn true\n\t}\n\treturn false\n}\nvar origin = Point{1, 2}\n' % inn)
        add('nested-header', H + 'func each() {\n\tfor i := 0; i < n; i++ {\n\t\tif err := walk(root, func(p string) error {\n\t\t\t%s\n\t\t\treturn nil\n\t\t}); err != nil {\n\t\t\treturn\n\t\t}\n\t}\n}\nvar origin = Point{1, 2}\n' % inn.replace('\t\t', '\t\t\t'))
        add('nested-header', H + 'func sw() {\n\tswitch x := g(func() {\n\t\t%s\n\t}); x {\n\tcase 1:\n\t}\n\tp := Point{X: 1}\n\t_ = p\n}\n' % inn)
    # F7: a pending (own-line) comment, also multi-byte, before a multi-line token
    raw = '`a\nb\nc`'
    for c in ['// ascii comment', CJK, '/* é */', '/* multi\n\t line 世界 */']:
        add('pending-comment', H + 'var _ = f(\n\t%s\n\t%s,\n)\n' % (c, raw))
        add('pending-comment', H + 'var _ = []string{\n\t%s\n\t%s,\n\t"x",\n}\n' % (c, raw))
        add('pending-comment', H + 'func g() {\n\t%s\n\ts := %s\n\t_ = s\n}\n' % (c, raw))
        add('pending-comment', H + '%s\nvar s = %s\n' % (c, raw))
    # F8: labels at the end of a block
    add('label-end', H + 'func f() { L: }\n', [H + 'func f() {\nL:\n}\n', H + 'func f() { L: ; }\n', H + 'func f() {\nL:\n\t;\n}\n'])
    add('label-end', H + 'func f() { if x { L: } }\n', [H + 'func f() { if x { L: ; } }\n'])
    add('label-end', H + 'func f() {\n\tgoto done\ndone:\n}\n', [H + 'func f() {\n\tgoto done;\ndone: ;\n}\n'])
    add('label-end', H + 'func f() {\n\tswitch x {\n\tcase 1:\n\t\tgoto next\n\tnext:\n\t}\n\tselect {\n\tdefault:\n\tout:\n\t}\n\tfor {\n\tA:\n\tB:\n\t}\n}\n',
        [H + 'func f() {\n\tswitch x {\n\tcase 1:\n\t\tgoto next;\n\tnext: ;\n\t}\n\tselect {\n\tdefault:\n\tout: ;\n\t}\n\tfor {\n\tA:\n\tB: ;\n\t}\n}\n'])
    # F9: a key-less range loop before composite literals and unary operators on them
    add('range-then-literal', H + 'func f() {\n\tfor range ch {\n\t}\n\tx := T{}\n\t_ = -T{1}.v\n\ty := a * T{b}.v\n\tz := pkg.T{a: 1, b: 2}\n}\nfunc g() T { return T{a: 1, b: 2} }\n')
    # F10: a line end that inserts a semicolon, reached through blanks and several comments, where the next line could
    # continue the statement (the statement list tolerates a missing `;`, so only such pairs show a wrong line end)
    GLUE = [('return', 'g()'), ('x := a', '-b'), ('_ = h', '(g)'), ('break', 'L()'), ('x++', '+y'), ('_ = s[i]', '[1]int{}'), ('_ = T{}', '{}')]
    UNITS = ['/**/', '/* c */', '/***/', '/* a **/', '/*\n*/', ' ', '\t']
    ENDS = ['', '// c', '//', '/*\n * box *\n */']
    seqs = [[]] + [[u] for u in UNITS] + [[u, v] for u in UNITS[:5] for v in UNITS[:5]] + [[u, ' ', v] for u in UNITS[:4] for v in UNITS[:4]] + [['/**/', '/**/', '/**/'], ['/* c */', '/***/', '/* c */']]
    for gi, (a_, b_) in enumerate(GLUE):
        for si, sq in enumerate(seqs):
            for e_ in (ENDS if si % 5 == gi % 5 else ENDS[:1]):
                mid = ''.join(sq) + e_
                if not mid: continue
                body = 'for {\n\t\t%s%s%s\n\t\t%s\n\t}' % (a_, ' ' if mid[0] == '/' and a_[-1] in '*/' else '', mid, b_)
                ref = 'for {\n\t\t%s;\n\t\t%s;\n\t}' % (a_, b_)
                add('line-end-glue', H + 'func f() {\nL:\n\t%s\n}\n' % body, [H + 'func f() {\nL:\n\t%s\n}\n' % ref])
    # F11: channel types of every direction, nested, where an expression is expected (the parser reads `<-chan T` there as
    # a receive operation first and re-labels it)
    DIRS = ['chan ', 'chan<- ', '<-chan ']
    def chans(depth):
        if depth == 0: return ['int', 'T']
        out = []
        for d_ in DIRS:
            for e_ in chans(depth - 1):
                if d_ == 'chan ' and e_.startswith('<-'): e_ = '(' + e_ + ')'
                out.append(d_ + e_)
        return out
    cts = chans(1) + chans(2) + chans(3)
    for i, ct in enumerate(cts):
        ctx = ['var _ = make(%s)', 'var _ = make(%s, 4)', 'var _ = new(%s)', 'var _ = (%s)(x)', 'var _ = f[%s](x)', 'var _ = []%s{}', 'var _ = g(x, %s)', 'var _ = make( /* é */ %s)'][i % 8]
        add('chan-in-expr', H + ctx % ct + '\n' + 'var _ = make(%s)\n' % ct)
    return P


def invalid_programs():
    """near misses of the above that must be rejected"""
    H = 'package p\n'
    return [H + 'func f() { L: } }\n', H + 'func f() { if x { L: } } }\n', H + 'func f() {\n\tgoto done\ndone:\n}\n}\n', H + 'type I interface {\n\tm(x [ }\n']
