"""Layout engine: turns a token list (goprint: texts plus the pseudo-tokens SEMI = statement/declaration
terminator and OPTC = optional trailing comma) into source text, making every choice the Go spec leaves
open from one PRNG: blanks, tabs, CR LF, newlines wherever no semicolon would be inserted (or one is
wanted), explicit / newline / omitted terminators, optional trailing commas, line and general comments
(with or without newlines, with multi-byte characters) at any gap.

Returns the text, the list of comments it wrote [(char offset, text)] and the char offset of every
real token.  Oracle-side tool (C02, C03, C05, C11, C12, C13); nothing here is part of a proof."""
import functools
from . import gospec
from .goprint import SEMI, OPTC
TRIGGER_KW = gospec.TRIGGER_KW
TRIGGER_OP = gospec.TRIGGER_OP
OPSET = set(gospec.OPERATORS)


def is_trigger(tok):
    """would a newline directly after this token become a semicolon (Go spec, Semicolons)"""
    if tok in OPSET: return tok in TRIGGER_OP
    if tok in gospec.KEYWORDS: return tok in TRIGGER_KW
    return True          # identifier or literal


@functools.lru_cache(maxsize=None)
def can_touch(a, b):
    """may b follow a with nothing in between: lexing the concatenation gives back exactly a, b"""
    if '\n' in a or '\n' in b:
        pass
    r = gospec.tokens(a + b, insert_semicolons=False)
    return r is not None and [t[2] for t in r] == [a, b]


class Style:
    def __init__(self, rng, comments=0.0, newlines=0.25, crlf=False, tabs=0.2, explicit_semi=0.3, drop_semi=0.5, trailing_comma=0.5, touch=0.15, multibyte=True):
        self.rng, self.comments, self.newlines, self.crlf, self.tabs = rng, comments, newlines, crlf, tabs
        self.explicit_semi, self.drop_semi, self.trailing_comma, self.touch, self.multibyte = explicit_semi, drop_semi, trailing_comma, touch, multibyte

    @staticmethod
    def random(rng, comments=None):
        return Style(rng, comments=rng.choice([0, 0, 0.1, 0.4]) if comments is None else comments, newlines=rng.choice([0, 0.1, 0.3, 0.6]),
                     crlf=rng.random() < 0.2, tabs=rng.random() * 0.5, explicit_semi=rng.choice([0, 0.3, 1.0]), drop_semi=rng.choice([0, 0.5, 1.0]),
                     trailing_comma=rng.choice([0, 0.5, 1.0]), touch=rng.choice([0, 0.2, 0.6]))


COMMENT_WORDS = ['c', 'note', 'TODO: x', 'é', '注释', '😀 ok', 'a*b', '**', '* /', '/ *', '"q"', "it's", '`r`', 'x;y', '{', '}', '//', 'func main()']


def make_comment(rng, allow_newline, multibyte=True):
    """(text, ends_line): a line comment or a general comment; without allow_newline only a newline-free general comment"""
    w = ' '.join(rng.choice(COMMENT_WORDS) for _ in range(rng.randint(0, 3)))
    if not multibyte:
        w = w.encode('ascii', 'ignore').decode()
    kind = rng.random()
    if allow_newline and kind < 0.45:
        return '//' + w.replace('\n', ' '), True
    body = w.replace('*/', '* /')
    if allow_newline and kind < 0.6:
        return '/*' + body + '\n ' + rng.choice(['', '*', ' more ']) + '*/', False
    return '/*' + body + '*/', False


def layout(tokens, style):
    rng = style.rng
    nl = '\r\n' if style.crlf else '\n'
    out = []          # pieces of text
    pos = 0           # chars written so far
    comments = []
    offsets = []
    # resolve pseudo tokens into a list of (text | None, kind) with decisions attached
    items = []
    n = len(tokens)
    real = [t for t in tokens if t not in (SEMI, OPTC)]

    def emit(s):
        nonlocal pos
        out.append(s); pos += len(s)

    def gap(prev, nxt, may_newline, must_separate):
        """white space / comments between two tokens; returns nothing.  may_newline: a newline here inserts no
        unwanted semicolon; must_separate: the two tokens may not touch"""
        wrote = False
        k = 0
        while rng.random() < style.comments and k < 3:
            text, ends_line = make_comment(rng, may_newline, style.multibyte)
            if prev.endswith('/') or (not wrote and rng.random() < 0.7): emit(' ')
            comments.append((pos, text)); emit(text)
            if ends_line: emit(nl)
            elif rng.random() < 0.5: emit(' ')
            wrote = True; k += 1
        if may_newline and rng.random() < style.newlines:
            emit(nl * rng.choice([1, 1, 1, 2]) + ('\t' if rng.random() < style.tabs else ''))
        elif wrote:
            if rng.random() < 0.3: emit(' ')
        elif must_separate or rng.random() >= style.touch:
            emit('\t' if rng.random() < style.tabs else ' ' * rng.choice([1, 1, 1, 2]))

    prev = None           # previous real token text
    i = 0
    pending = None        # None | 'semi-newline': a terminator rendered as newline is pending before the next token
    while i < n:
        t = tokens[i]
        if t == SEMI or t == OPTC:
            # look ahead to the next real token
            j = i + 1
            while j < n and tokens[j] in (SEMI, OPTC): j += 1
            nxt = tokens[j] if j < n else None
            if t == SEMI:
                closer = nxt in (')', '}')
                r = rng.random()
                if prev is None:
                    emit(';')
                elif closer and rng.random() < style.drop_semi:
                    pass                                            # omitted before ')' or '}'
                elif nxt is None and prev != '\n;' and is_trigger(prev) and rng.random() < 0.5:
                    pass                                            # end of input: inserted automatically
                elif prev != '\n;' and is_trigger(prev) and rng.random() >= style.explicit_semi:
                    # a newline (or a line comment, or a general comment with a newline) right here
                    if rng.random() < style.comments:
                        text, ends_line = make_comment(rng, True, style.multibyte)
                        emit(' '); comments.append((pos, text)); emit(text)
                        if ends_line or '\n' in text: emit(nl if ends_line else '')
                        else: emit(nl)
                    else:
                        emit((' ' if rng.random() < 0.1 else '') + nl)
                    if rng.random() < style.newlines: emit(nl)
                    if rng.random() < style.tabs: emit('\t')
                    prev = '\n;'
                    i += 1
                    continue
                else:
                    if rng.random() < 0.2: emit(' ')
                    emit(';')
                    prev = ';'
            else:
                if prev not in (None, ',', '(', '[', '{') and rng.random() < style.trailing_comma:
                    if rng.random() < 0.2: emit(' ')
                    emit(','); prev = ','
            i += 1
            continue
        # a real token
        if prev is not None:
            p = ';' if prev == '\n;' else prev
            may_newline = (prev == '\n;') or (not is_trigger(p) and p != 'package')   # `package` + newline: known finding K1, probed by C08
            if prev == '\n;':
                if rng.random() < 0.5: gap(p, t, True, False)
            else:
                gap(p, t, may_newline, not can_touch(p, t))
        elif rng.random() < style.comments:
            gap('', t, True, False)
        offsets.append(pos)
        emit(t)
        prev = t
        i += 1
    if rng.random() < 0.7: emit(nl)
    if rng.random() < style.comments:
        text, _ = make_comment(rng, True, style.multibyte)
        comments.append((pos, text)); emit(text)
        if rng.random() < 0.5: emit(nl)
    return ''.join(out), comments, offsets
