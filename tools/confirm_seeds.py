#!/usr/bin/env python3
"""Confirms seeded changes (seeded/<id>/patch.diff + demo.rs) in ONE scratch worktree of /repo under
/tmp: (a) the unedited suite passes with the change, (b) the demo fails with it, (c) the demo passes
without it.  Writes seeded/<id>/meta.json (keeps fields already there).  Usage: confirm_seeds.py <id>..."""
import sys, os, subprocess, json, re, shutil
VERIF = os.path.dirname(os.path.dirname(os.path.abspath(__file__)))
WT = '/tmp/confirm_wt'
ENV = dict(os.environ, CARGO_NET_OFFLINE='true')

def sh(cmd, cwd=WT, timeout=3000):
    p = subprocess.run(cmd, shell=True, cwd=cwd, capture_output=True, text=True, timeout=timeout, env=ENV)
    return p.returncode, p.stdout + p.stderr

def tests_summary(out):
    ok = sum(int(x) for x in re.findall(r'test result: \w+\. (\d+) passed', out))
    bad = sum(int(x) for x in re.findall(r'test result: \w+\. \d+ passed; (\d+) failed', out))
    return ok, bad

def main(ids):
    if not os.path.exists(WT):
        rc, o = sh(f'git -C /repo worktree add -q --detach {WT} HEAD', cwd='/')
        assert rc == 0, o
    for sid in ids:
        d = os.path.join(VERIF, 'seeded', sid)
        meta_p = os.path.join(d, 'meta.json')
        meta = json.load(open(meta_p)) if os.path.exists(meta_p) else {}
        sh('git checkout -q -- . && git clean -fdq -e target')
        rc, o = sh(f'git apply {d}/patch.diff')
        if rc != 0:
            meta['confirmed'] = False; meta['confirm_note'] = 'patch does not apply: ' + o[-300:]
            json.dump(meta, open(meta_p, 'w'), indent=1); print(sid, 'PATCH FAILS'); continue
        rc1, o1 = sh('cargo test --workspace --no-fail-fast --offline 2>&1')
        ok1, bad1 = tests_summary(o1)
        shutil.copy(os.path.join(d, 'demo.rs'), os.path.join(WT, 'tests/seed_demo.rs'))
        demo_cmd = 'cargo test --offline --test seed_demo 2>&1'
        needs_serde = 'serde_json' in open(os.path.join(d, 'demo.rs')).read()
        def add_dep():
            if needs_serde:
                ct = open(os.path.join(WT, 'Cargo.toml')).read()
                if 'serde_json' not in ct:
                    open(os.path.join(WT, 'Cargo.toml'), 'w').write(ct.replace('[dev-dependencies]', '[dev-dependencies]\nserde_json = "1"'))
        if needs_serde:
            demo_cmd = 'cargo test --offline --features serde --test seed_demo 2>&1'
            shutil.copy('/repo/Cargo.lock', os.path.join(WT, 'Cargo.lock.bak'))
        add_dep()
        rc2, o2 = sh(demo_cmd)
        ok2, bad2 = tests_summary(o2)
        sh('git checkout -q -- .')
        add_dep()
        rc3, o3 = sh(demo_cmd)
        sh('git checkout -q -- .')
        ok3, bad3 = tests_summary(o3)
        os.remove(os.path.join(WT, 'tests/seed_demo.rs'))
        confirmed = (rc1 == 0 and ok1 == 37 and bad1 == 0) and (rc2 != 0) and (rc3 == 0 and bad3 == 0 and ok3 > 0)
        meta.update({'confirmed': confirmed,
                     'ran': {'suite_with_change': f'cargo test --workspace --no-fail-fast --offline -> rc={rc1}, {ok1} passed, {bad1} failed',
                             'demo_with_change': f'{demo_cmd} -> rc={rc2}, {ok2} passed, {bad2} failed',
                             'demo_without_change': f'rc={rc3}, {ok3} passed, {bad3} failed'}})
        json.dump(meta, open(meta_p, 'w'), indent=1, ensure_ascii=False)
        print(sid, 'CONFIRMED' if confirmed else 'NOT CONFIRMED', meta['ran'], flush=True)
    sh(f'git -C /repo worktree remove --force {WT}', cwd='/')

if __name__ == '__main__':
    main(sys.argv[1:])
