#!/usr/bin/env python3
"""Writes /verif/MANIFEST.json from the table below (one entry per claimed property) and checks it
against /root/.vp/MANIFEST.schema.json.  Properties without an entry in CLAIMS are listed under
not_applicable with the reason given in NOT_CLAIMED."""
import json, os, sys
VERIF = os.path.dirname(os.path.dirname(os.path.abspath(__file__)))
sys.path.insert(0, os.path.join(VERIF, 'tools'))
from claims import CLAIMS, NOT_CLAIMED

HOOK_COMMITS = ['f5d97d82ff349b2f85d7af27d214b1391bed0fc1']
BASE_NOTE = ("Trusted: Lean 4.33 kernel (axioms propext, Classical.choice, Quot.sound only; audited per theorem on every run); "
             "the formalisation of the Go spec in lean/Gosyn/Spec; the translators tools/extract.py, gen_ast.py, gen_unicode.py "
             "(tables, AST types, character classes regenerated from /repo/src on every run); the hand-written model "
             "lean/Gosyn/Model is tied to the code by the correspondence run of this command (differential test, not a proof); "
             "Lean compiler for the driver, rustc/cargo, hook code under cfg(gosyn_verif). ")


def main():
    props = [json.loads(l)['id'] for l in open(os.path.join(VERIF, 'properties.jsonl'))]
    checks = []
    for p in props:
        if p not in CLAIMS:
            continue
        c = CLAIMS[p]
        checks.append({
            'property_id': p,
            'quick_cmd': f'./check {p} --tier quick',
            'thorough_cmd': f'./check {p} --tier thorough',
            'evidence_file': f'/verif/evidence/{p}.json',
            'replay_cmd_template': f'./check {p} --replay {{path}}',
            'engine': 'lean-proof+correspondence',
            'level_claimed': {'category': c.get('category', 'proof'), 'text': c['text'], 'design_ref': c.get('design_ref', 'DESIGN.md §5 ' + p)},
            'level_note': BASE_NOTE + c.get('note', ''),
            'technique': c['technique'],
        })
    na = [{'property_id': p, 'reason': NOT_CLAIMED.get(p, 'check not built yet in this round; see DESIGN.md §8 build order')} for p in props if p not in CLAIMS]
    m = {
        'version': 1,
        'setup_cmd': './setup.sh',
        'hooks': {
            'guard': 'gosyn_verif',
            'enable': 'RUSTFLAGS="--cfg gosyn_verif" (set in /verif/harness/.cargo/config.toml; the harness crate depends on /repo by path with feature serde)',
            'baseline_off_cmd': 'cd /repo && cargo test --workspace --no-fail-fast --offline',
            'source_commits': HOOK_COMMITS,
            'add_only': True,
        },
        'engines': [{
            'name': 'lean-proof+correspondence', 'path': '/verif/check',
            'serves_properties': [c['property_id'] for c in checks],
            'kind_free_text': 'Lean 4 theorems over a formal model of scanner.rs / parser.rs / lib.rs (lean/Gosyn), model tied to /repo by regenerated tables + AST (translators) and by a differential correspondence run (Rust harness in-process vs compiled Lean driver); per-property oracles search for a concrete failing input',
        }],
        'checks': checks,
        'not_applicable': na,
        'notes': 'See DESIGN.md. Known findings: known_findings.json. Seeded changes used to test the checks: seeded/.',
    }
    # all twenty are claimed: the list is kept, empty, so that the manifest says so explicitly
    path = os.path.join(VERIF, 'MANIFEST.json')
    json.dump(m, open(path, 'w'), indent=1, ensure_ascii=False)
    try:
        import jsonschema
        jsonschema.validate(m, json.load(open('/root/.vp/MANIFEST.schema.json')))
        print('MANIFEST.json valid;', len(checks), 'claimed,', len(na), 'not claimed')
    except ImportError:
        print('MANIFEST.json written (jsonschema not importable here);', len(checks), 'claimed')


if __name__ == '__main__':
    main()
