"""C05 — every position in the tree is the exact char offset of the token it names."""
import random, json, os
from orch import run as R, streams, goprint
from .common import *
from . import genprog

LEVEL = 'proof'
ASSUMPTIONS = ["the constraint table (which lexeme each position field names) is written out in this file, per AST struct, from DESIGN.md appendix A.7; the tree is walked by TYPE using the schema tools/gen_ast.py extracts from ast.rs on every run",
               "unconstrained by the property: LabeledStmt.pos, FuncType.pos of an interface method element, ChannelType.pos of a channel without arrow (second component), File.line_info"]

KW = {'DeclTypeSpec': 'type', 'DeclConstSpec': 'const', 'DeclVarSpec': 'var'}
SIMPLE = {'PointerType': '*', 'StarExpression': '*', 'Ellipsis': '...', 'RangeExpr': 'range', 'Selector': '.', 'InterfaceType': 'interface', 'IfStmt': 'if', 'ForStmt': 'for',
          'SwitchStmt': 'switch', 'TypeSwitchStmt': 'switch', 'SelectStmt': 'select', 'GoStmt': 'go', 'DeferStmt': 'defer', 'ReturnStmt': 'return', 'SendStmt': '<-'}
PAIRS = {'ParenExpression': ('(', ')', ['expr']), 'Call': ('(', ')', ['args']), 'Index': ('[', ']', ['index']), 'IndexList': ('[', ']', ['indices']), 'Slice': ('[', ']', ['index']),
         'TypeAssertion': ('.', ')', ['right']), 'LiteralValue': ('{', '}', ['values']), 'BlockStmt': ('{', '}', ['list']), 'CaseBlock': ('{', '}', ['body']), 'CommBlock': ('{', '}', ['body']),
         'StructType': ('{', '}', ['fields']), 'ArrayType': ('[', ']', ['len']), 'SliceType': ('[', ']', []), 'MapType': ('[', ']', ['key'])}
BRANCH = {'Break': 'break', 'Continue': 'continue', 'Goto': 'goto', 'FallThrough': 'fallthrough'}


class Walker:
    def __init__(self, schema, src):
        self.S, self.src, self.fails = schema, src, []

    def at(self, p, text):
        return isinstance(p, int) and self.src.startswith(text, p)

    def fail(self, typ, field, got, want):
        near = self.src[got:got + 12] if isinstance(got, int) else None
        self.fails.append((typ + '.' + field, got, want, near))

    def positions(self, t, v, out):
        """all position values in the subtree (for containment / order checks)"""
        n, args = t[0], t[1]
        if v is None: return
        if n in ('Box', 'Rc', 'Option'): return self.positions(args[0], v, out)
        if n in ('Vec', 'Array'):
            for x in v: self.positions(args[0], x, out)
            return
        if n == 'Tuple':
            for a, x in zip(args, v): self.positions(a, x, out)
            return
        if n not in self.S: return
        d = self.S[n]
        if d['kind'] == 'enum':
            if isinstance(v, dict):
                (k, x), = v.items()
                for name, vt in d['items']:
                    if name == k and vt: self.positions(vt, x, out)
            return
        for f, ft in d['items']:
            x = v.get(f)
            if f in ('pos', 'pos0', 'dots') and isinstance(x, int):
                if not (n == 'FuncType' and x == 0) and n not in ('LabeledStmt', 'EmptyStmt'): out.append(x)
            elif f in ('pos', 'pos1') and isinstance(x, list):
                if n == 'ChannelType':
                    out.append(min(x) if v.get('dir') else x[0])
                else: out += [p for p in x if isinstance(p, int)]
            elif f == 'op' and isinstance(x, list): out.append(x[0])
            elif f in ('docs', 'comments', 'line_info'): pass
            else: self.positions(ft, x, out)

    def walk(self, t, v, ctx=''):
        n, args = t[0], t[1]
        if v is None: return
        if n in ('Box', 'Rc', 'Option'): return self.walk(args[0], v, ctx)
        if n in ('Vec', 'Array'):
            prev = None
            for x in v:
                self.walk(args[0], x, ctx)
                if args[0][0] in ('Comment',) or (n == 'Array'): continue
                ps = []
                self.positions(args[0], x, ps)
                if ps:
                    if prev is not None and min(ps) <= prev and args[0][0] not in ('Rc',):
                        self.fail('Vec<' + str(args[0][0]) + '>', 'order', min(ps), f'> {prev} (siblings in source order)')
                    prev = min(ps)
            return
        if n == 'Tuple':
            for a, x in zip(args, v): self.walk(a, x, ctx)
            return
        if n not in self.S: return
        d = self.S[n]
        if d['kind'] == 'enum':
            if isinstance(v, dict):
                (k, x), = v.items()
                for name, vt in d['items']:
                    if name == k and vt: self.walk(vt, x, ctx)
            return
        self.check(n, v, ctx)
        for f, ft in d['items']:
            if f in ('pos', 'pos0', 'pos1', 'dots', 'line_info'): continue
            if f == 'op' and isinstance(v.get(f), list): continue
            sub = ctx
            if n == 'InterfaceType' and f == 'methods': sub = 'iface'
            elif n == 'Field' and f == 'typ' and ctx == 'iface' and v.get('name'): sub = 'method'
            elif n != 'FieldList': sub = '' if ctx not in ('iface',) or n != 'FieldList' else ctx
            if n == 'FieldList': sub = ctx
            self.walk(ft, v.get(f), sub)

    def inside(self, n, v, fields, lo, hi):
        for f in fields:
            ft = dict((a, b) for a, b in self.S[n]['items'])[f]
            ps = []
            self.positions(ft, v.get(f), ps)
            for p in ps:
                if not (lo < p < hi):
                    self.fail(n, f + '-inside', p, f'strictly between {lo} and {hi}')
                    break

    def check(self, n, v, ctx):
        src = self.src
        if n == 'Comment':
            if not self.at(v['pos'], v['text']): self.fail(n, 'pos', v['pos'], 'comment text')
        elif n == 'Ident':
            if not self.at(v['pos'], v['name']): self.fail(n, 'pos', v['pos'], v['name'])
        elif n in ('BasicLit', 'StringLit'):
            if not self.at(v['pos'], v['value']): self.fail(n, 'pos', v['pos'], v['value'])
        elif n in SIMPLE:
            if not self.at(v['pos'], SIMPLE[n]): self.fail(n, 'pos', v['pos'], SIMPLE[n])
        elif n == 'FuncType':
            if ctx != 'method' and not self.at(v['pos'], 'func'): self.fail(n, 'pos', v['pos'], 'func')
        elif n in ('Operation', 'AssignStmt', 'IncDecStmt'):
            if not self.at(v['pos'], OPTEXT[v['op']]): self.fail(n, 'pos', v['pos'], OPTEXT[v['op']])
        elif n == 'BranchStmt':
            if not self.at(v['pos'], BRANCH[v['key']]): self.fail(n, 'pos', v['pos'], BRANCH[v['key']])
        elif n == 'EmptyStmt':
            p = v['pos']
            # an explicit ';', the '}' that ends the list, or - for an automatic semicolon - the offset right after the line's final token
            if not (p == len(src) or (p < len(src) and src[p] in ';}\n\r/ \t')): self.fail(n, 'pos', p, "';' / '}' / end of the line's last token")
        elif n in KW:
            if not self.at(v['pos0'], KW[n]): self.fail(n, 'pos0', v['pos0'], KW[n])
            if v['pos1'] is not None:
                a, b = v['pos1']
                if not (self.at(a, '(') and self.at(b, ')') and a < b): self.fail(n, 'pos1', v['pos1'], '( )')
                else: self.inside(n, v, ['specs'], a, b)
        elif n in ('CaseClause', 'CommClause'):
            a, b = v['pos']
            if not (self.at(a, 'case' if v['tok'] == 'Case' else 'default') and self.at(b, ':') and a < b): self.fail(n, 'pos', v['pos'], 'keyword, colon')
        elif n == 'RangeStmt':
            a, b = v['pos']
            if not (self.at(a, 'for') and self.at(b, 'range') and a < b): self.fail(n, 'pos', v['pos'], 'for, range')
            if v['op'] is not None and not self.at(v['op'][0], OPTEXT[v['op'][1]]): self.fail(n, 'op', v['op'], OPTEXT[v['op'][1]])
        elif n == 'FieldList':
            if v['pos'] is not None:
                a, b = v['pos']
                ok = (self.at(a, '(') and self.at(b, ')')) or (self.at(a, '[') and self.at(b, ']')) or (self.at(a, '{') and self.at(b, '}'))
                if not (ok and a < b): self.fail(n, 'pos', v['pos'], 'bracket pair')
                else: self.inside(n, v, ['list'], a, b)
        elif n == 'ChannelType':
            a, b = v['pos']
            if v['dir'] is None:
                if not self.at(a, 'chan'): self.fail(n, 'pos.0', a, 'chan')
            else:
                c, ar = (a, b) if self.at(a, 'chan') else (b, a)
                if not (self.at(c, 'chan') and self.at(ar, '<-')): self.fail(n, 'pos', v['pos'], 'offsets of chan and <-')
                elif v['dir'] == 'Recv' and not ar < c: self.fail(n, 'pos', v['pos'], '<- before chan')
                elif v['dir'] == 'Send' and not c < ar: self.fail(n, 'pos', v['pos'], 'chan before <-')
            # the element type comes after `chan` and after the arrow
            lo = a if v['dir'] is None else max(a, b)
            ps = []
            self.positions(dict(self.S[n]['items'])['typ'], v.get('typ'), ps)
            if ps and isinstance(lo, int) and not min(ps) > lo: self.fail(n, 'typ-after', min(ps), f'> {lo} (element type after chan and <-)')
        elif n in PAIRS:
            o, c, fields = PAIRS[n]
            a, b = v['pos']
            if not (self.at(a, o) and self.at(b, c) and a < b): self.fail(n, 'pos', v['pos'], f'{o} {c}')
            else: self.inside(n, v, fields, a, b)
            if n == 'Call' and v['dots'] is not None and not (self.at(v['dots'], '...') and a < v['dots'] < b): self.fail(n, 'dots', v['dots'], '...')
        # operand order around an operator
        if n == 'Operation':
            for f, before in (('x', v['y'] is not None), ('y', False)):
                ps = []
                self.positions(['Option', [['Box', [['Expression', []]]]]], v.get(f), ps)
                if ps and before and not max(ps) < v['pos']:
                    self.fail(n, 'x-before-op', max(ps), f'< {v["pos"]} (every token of the left operand before the operator)')
                if ps and f == 'y' and not min(ps) > v['pos']:
                    self.fail(n, 'y-after-op', min(ps), f'> {v["pos"]}')
                if ps and f == 'x' and v['y'] is None and not min(ps) > v['pos']:
                    self.fail(n, 'operand-after-unary-op', min(ps), f'> {v["pos"]}')


def check_tree(schema, mode, tree, src):
    w = Walker(schema, src)
    root = {'file': ['File', []], 'expr': ['Expression', []], 'stmt': ['Statement', []]}[mode]
    w.walk(root, tree)
    return w.fails


def run(chk):
    progs_i, li = interaction_stream(chk)          # correspondence on the interaction corpus (tools/orch/interact.py)
    rng = random.Random(chk.seed)
    schema = json.load(open(os.path.join(R.WORK, 'ast_schema.json')))
    for t_, l_ in li.items():
        k_, v_ = outcome(l_)
        if k_ != 'ok': continue
        for (field, got, want, near) in check_tree(schema, 'file', v_, t_)[:3]:
            chk.oracle_fail('pos:' + field, 'file', t_, {'field': field, 'value': got, 'text_there': near}, want, 'a position does not name the lexeme it stands for / is not ordered or nested as required')
    n = 800 if chk.tier == 'quick' else 4000
    k = 2 if chk.tier == 'quick' else 4
    chk.rule = ('accepted inputs: %d generated programs x %d random layouts with comments (multi-byte characters in identifiers, strings and comments before the checked tokens, tabs, CR LF, multi-line raw strings and comments), all corpus snippets, 1-3 token mutants, token soup and the 19 exhaustive context streams (every accepted one is checked); '
                'oracle: every position field names the lexeme the constraint table says, bracket pairs are ordered and contain their contents strictly, siblings are in source order.  non-trivial: accepted inputs with at least one non-ASCII char or a comment before the last token count separately in `multibyte_or_comment_cases`; distinct by text.' % (n, k))
    cases = []
    for tree, toks in genprog.programs(rng, n):
        for text, cm, offs, desc in genprog.layouts(rng, toks, k, comments=rng.choice([0.1, 0.3, 0.5])):
            cases.append(('file', text))
    base = [c for c in streams.snippet_cases() if c[0] in ('file', 'expr', 'stmt')]
    m = 2 if chk.tier == 'quick' else 8
    cases += base + streams.mutants(rng, base, m, 3) + streams.soup(rng, 3000 * m, modes=('file', 'expr', 'stmt')) + [(mo, s) for _, mo, s in streams.contexts(chk.tier != 'quick')]
    # multi-byte prefixes in front of corpus snippets
    for mo, s in base[:: 3]:
        if mo == 'file':
            cases.append((mo, s.replace('package p', '/* 注释 😀 é */ package p // ключ\n', 1)))
        elif mo == 'expr':
            cases.append((mo, '/*世界😀*/ ' + s))
    # a byte order mark in front of an in-memory source is an ordinary (illegal) character of that string: if such an
    # input is ever accepted, its positions must still index the string the caller passed
    cases += [(mo, '\ufeff' + s) for mo, s in base[:: 5]]
    # the same through parse_file (from disk): CR LF files, a byte order mark in front
    disk = [('disk', s) for (mo, s) in cases if mo == 'file' and '\r\n' in s][:400]
    disk += [('disk', '\ufeff' + s) for (mo, s) in cases if mo == 'file' and any(ord(c) > 127 for c in s)][:200]
    cases = streams.dedup(cases + disk)
    a, b = run_both(chk, 'accepted', cases, robust=True)
    acc = mb = 0
    for (mo, s), x in zip(cases, a):
        kx, vx = outcome(x)
        if kx != 'ok': continue
        acc += 1
        if any(ord(c) > 127 for c in s) or '/*' in s or '//' in s: mb += 1
        if mo == 'disk':
            mo, s = 'file', (s[1:] if s.startswith('\ufeff') else s)
        for (field, got, want, near) in check_tree(schema, mo, vx, s)[:3]:
            chk.oracle_fail('pos:' + field, mo, s, {'field': field, 'value': got, 'text_there': near}, want, 'a position does not name the lexeme it stands for / is not ordered or nested as required')
    chk.count('accepted', cases, [s for (mo, s), x in zip(cases, a) if outcome(x)[0] == 'ok'])
    chk.extra['accepted'] = acc
    chk.extra['multibyte_or_comment_cases'] = mb
    for (mo, s) in [c for c in cases if any(ord(ch) > 127 for ch in c[1])][:3]:
        chk.sample({'mode': mo, 'input': s[:300]})
    chk.programs = len(cases)
    chk.disagreements_checked = len(cases)
