"""C02 — every syntactically valid Go source file is accepted."""
import random, json
from orch import run as R, streams, gogen
from .common import *
from . import genprog

LEVEL = 'proof'
ASSUMPTIONS = ["valid programs come from tools/orch/gogen.py (derivations of the Go spec grammar, nesting < 16) rendered by tools/orch/golayout.py (every legal layout choice from one PRNG) and from the hand-written corpus",
               "a newline after the keyword `package` is not generated here (known finding K1 of C08, pinned by a unit test)"]


def run(chk):
    progs_i, li = interaction_stream(chk)
    for t_, l_ in li.items():
        if outcome(l_)[0] != 'ok':
            chk.oracle_fail('interaction-rejected', 'file', t_, R.core(l_)[1][:200], 'accepted', 'a valid program (interaction corpus) is rejected')
    rng = random.Random(chk.seed)
    n = 1500 if chk.tier == 'quick' else 30000
    k = 2 if chk.tier == 'quick' else 3
    chk.rule = ('generated: %d derivations of SourceFile (tools/orch/gogen.py), each rendered in the canonical layout and in %d random layouts (blanks, tabs, CR LF, newlines where no semicolon is inserted, explicit / newline / omitted terminators, trailing commas, comments); '
                'enumerated: every shape of first constraint / array length in `type T[...] ...` with and without optional commas; repeated: every corpus declaration and statement 70 times in one flat file; corpus: the hand-written valid snippets in their embeddings.  oracle: the implementation accepts.  non-trivial: distinct program texts with at least one declaration.' % (n, k))
    progs = genprog.programs(rng, n)
    cases, meta = [], []
    for tree, toks in progs:
        cases.append(('file', goprint_canonical(toks))); meta.append('canonical')
        for text, cm, offs, desc in genprog.layouts(rng, toks, k):
            cases.append(('file', text)); meta.append(desc)
    a, b = run_both(chk, 'generated', cases, robust=True)
    for (m, s), desc, x, y in zip(cases, meta, a, b):
        kx, vx = outcome(x)
        if kx == 'ok': continue
        ky, vy = outcome(y)
        site = (vy.get('x', {}).get('site') if ky == 'err' and isinstance(vy, dict) else None) or '?'
        act = vx.get('actual') if kx == 'err' else None
        sig = f'reject:{site}:{act[0] + ":" + act[1] if act and act[0] in ("Operator", "Keyword") else (act[0] if act else (vx.get("x", {}).get("reason", kx) if kx == "err" else kx))}'
        chk.oracle_fail(sig, m, s, R.core(x)[1][:300], 'accepted', f'a valid program is rejected (layout: {desc})')
    chk.count('generated', cases, [s for (m, s) in cases if s.count('\n') > 1 or ';' in s])
    corp = [c for c in streams.dedup(streams.snippet_cases()) if c[1] not in genprog.KNOWN_INVALID_CORPUS and c[0] in ('file', 'expr', 'stmt')]
    a2, b2 = run_both(chk, 'corpus', corp)
    for (m, s), x, y in zip(corp, a2, b2):
        kx, vx = outcome(x)
        if kx == 'ok': continue
        ky, vy = outcome(y)
        site = (vy.get('x', {}).get('site') if ky == 'err' and isinstance(vy, dict) else None) or '?'
        chk.oracle_fail(f'reject-corpus:{site}', m, s, R.core(x)[1][:300], 'accepted', 'a valid hand-written snippet is rejected')
    chk.count('corpus', corp, [s for m, s in corp])
    # enumerated small derivations around the ambiguities
    en = genprog.enumerated()
    ec = [('file', t) for _, _, t in en]
    a3, b3 = run_both(chk, 'enumerated', ec)
    for (name, tree, t), x in zip(en, a3):
        if outcome(x)[0] != 'ok':
            chk.oracle_fail('reject-enum:' + ':'.join(name.split(':')[:2]), 'file', t, R.core(x)[1][:300], 'accepted', f'a valid declaration is rejected ({name})')
    chk.count('enumerated', ec, [t for _, _, t in en])
    # long flat files: a construct that is accepted once must be accepted 70 times in a row
    rep = genprog.repeated(70)
    single = {}
    sa = R.impl([R.case_line('file', 'package p\n' + e + '\n' if kind == 'decl' else 'package p\nfunc f() {\n' + e + '\n}\n') for kind, e, _ in rep])
    rc = [('file', t) for _, _, t in rep]
    a4, b4 = run_both(chk, 'repeated', rc, robust=True)
    for (kind, e, t), one, x in zip(rep, sa, a4):
        if outcome(one)[0] == 'ok' and outcome(x)[0] != 'ok':
            chk.oracle_fail('reject-repeated', 'file', t, R.core(x)[1][:300], 'accepted (a single copy is)', f'a construct accepted once is rejected when repeated 70 times in one file ({kind}): {e[:80]!r}')
    chk.count('repeated', rc, [t for _, _, t in rep])
    chk.extra['coverage_matrix_production_x_context'] = genprog.coverage_matrix()
    chk.extra['productions_visited'] = len(genprog.coverage_matrix())
    for (m, s) in cases[1:8:3]:
        chk.sample({'mode': m, 'input': s[:400]})
    chk.programs = len(cases) + len(corp)
    chk.disagreements_checked = chk.programs


def goprint_canonical(toks):
    from orch import goprint
    return goprint.canonical(toks)
