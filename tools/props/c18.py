"""C18 — file and directory entry points agree with in-memory parsing and fail cleanly."""
import random, json, os
from orch import run as R, streams
from .common import *

LEVEL = 'proof'
ASSUMPTIONS = ["directories are materialised under /verif/work/tmp by the harness and removed; enumeration order is the OS's (results are canonicalised by sorting)",
               "permission errors are not exercised (the sandbox runs as root); a directory named like a .go file is generated only in the thorough tier and reported as an observation"]
BOM = '﻿'


def gen_dir(rng, good, damaged, tier):
    n = rng.randint(0, 8)
    entries, names = [], set()
    fault_budget = rng.choice([0, 0, 1, 1, 1, 2])
    for _ in range(n):
        stem = rng.choice(['a', 'b', 'main', 'x_test', 'é', 'util', 'z9', '.hidden', 'a.b', ''])
        ext = rng.choice(['.go', '.go', '.go', '.go', '.GO', '.go.txt', '.txt', '', '.g', '.goo', '.mod'])
        name = stem + ext
        if name in names or name in ('', '.', '..') or '/' in name: continue
        names.add(name)
        pkg = rng.choice(['p', 'p', 'p', 'q', 'main', 'p_test'])
        r = rng.random()
        is_go = name.endswith('.go') and len(name) > 3
        if fault_budget and r < 0.25:
            fault_budget -= 1
            kind = rng.choice(['utf8', 'symlink', 'damaged'] + (['dir'] if tier != 'quick' else []))
            if kind == 'utf8': entries.append({'name': name, 'kind': 'file', 'hex': (b'package ' + pkg.encode() + b'\nvar s = "\xff\xfe"\n').hex(), 'fault': 'utf8' if is_go else None})
            elif kind == 'symlink': entries.append({'name': name, 'kind': 'symlink', 'fault': 'symlink' if is_go else None})
            elif kind == 'dir': entries.append({'name': name, 'kind': 'dir', 'fault': 'dir' if is_go else None})
            else:
                src = rng.choice(damaged).replace('package p', 'package ' + pkg, 1)
                entries.append({'name': name, 'kind': 'file', 'hex': src.encode().hex(), 'fault': 'damaged' if is_go else None, 'src': src})
        else:
            src = rng.choice(good).replace('package p', 'package ' + pkg, 1)
            if rng.random() < 0.35: src = src.rstrip('\n') + rng.choice(['\n\n// end of file\n', '\n// trailing é\n', '\n\n/* closing\n   remark */\n', '\n//x'])     # state a parser could carry into the next file
            if rng.random() < 0.15: src = '// leading remark\n\n' + src
            if rng.random() < 0.25: src = BOM + src
            if rng.random() < 0.05: src = BOM + BOM + src      # only ONE BOM is stripped: this one is a damaged file
            entries.append({'name': name, 'kind': 'file', 'hex': src.encode().hex(), 'src': src, 'pkg': pkg,
                            'fault': ('damaged' if src.startswith(BOM + BOM) else None) if is_go else None})
    spec = [{k: v for k, v in e.items() if k in ('name', 'kind', 'hex')} for e in entries]
    if rng.random() < 0.04:
        spec = [{'missing': True}] + spec
    return entries, spec


def run(chk):
    rng = random.Random(chk.seed)
    chk.rule = ('dir: generated directories of 0-8 entries (names a.go, .go, x.GO, y.go.txt, no extension, non-ASCII; package names; 0-2 BOMs; corpus programs valid or damaged; faults: invalid UTF-8 file, dangling symlink, nonexistent directory%s) through parse_dir; '
                'disk: single files through parse_file vs parse_source of the decoded, BOM-stripped contents.  oracle: the property evaluated on the abstract directory.  non-trivial: at least one .go entry; distinct by directory spec.' % (', directory named *.go' if chk.tier != 'quick' else ''))
    files = [s for (m, s) in streams.snippet_cases() if m == 'file']
    la = R.impl([R.case_line('file', s) for s in files])
    good = [s for s, l in zip(files, la) if outcome(l)[0] == 'ok']
    mutated = [streams.mutate(rng, s, 2) for s in files]
    # every kind of scanner-level rejection too (each has its own error path): bad escapes, invalid code points,
    # unterminated literals and comments, stray characters, malformed numbers
    LEX = ["var r = '\\ud800'", 'var s = "\\uDFFF"', 'var s = "\\U00110000"', "var r = '\\400'", 'var s = "\\q"', "var r = '\\x4'", "var r = 'ab'", "var r = ''",
           'var s = "open', "var r = 'a", 'var s = `open', '/* open', 'var x = #', 'var x = 0x', 'var x = 1e+', 'var x = 1__0', 'var x = 0b2', 'var x = 09', 'var s = "a\nb"', 'var x = @']
    lexbad = ['package p\n' + e + '\n' for e in LEX] + ['package p\nfunc f() {\n\t' + e + '\n}\n' for e in LEX]
    rng.shuffle(mutated)
    pool = lexbad + files + mutated
    damaged = [s for s, l in zip(pool, R.impl([R.case_line('file', s) for s in pool])) if outcome(l)[0] == 'err'][:400]
    chk.extra['damaged_lexical'] = len([s for s in damaged if s in lexbad])
    rng = random.Random(chk.seed)
    n = 300 if chk.tier == 'quick' else 5000
    dirs = [gen_dir(rng, good, damaged, chk.tier) for _ in range(n)]
    # every lexically damaged source once on its own and once beside a good file (each scanner rejection has its own error path)
    for src_ in lexbad:
        if src_ not in damaged: continue
        for extra in ([], [rng.choice(good)]):
            ents = [{'name': 'bad.go', 'kind': 'file', 'hex': src_.encode().hex(), 'fault': 'damaged', 'src': src_}]
            for g_ in extra:
                ents.append({'name': 'good.go', 'kind': 'file', 'hex': g_.encode().hex(), 'src': g_, 'pkg': 'p', 'fault': None})
            dirs.append((ents, [{k: v for k, v in e.items() if k in ('name', 'kind', 'hex')} for e in ents]))
    cases = [('dir', json.dumps(spec)) for _, spec in dirs]
    lines = [R.case_line(m, s) for m, s in cases]
    a = R.impl(lines, robust=True, extra=['--workdir', os.path.join(R.WORK, 'tmp')])
    b = R.model(lines)
    # expected trees of every good source, from memory
    srcs = sorted({e['src'] for es, _ in dirs for e in es if e.get('src') is not None})
    mem = dict(zip(srcs, R.impl([R.case_line('file', s[1:] if s.startswith(BOM) else s) for s in srcs])))
    for (entries, spec), (m, s), x, y in zip(dirs, cases, a, b):
        missing = any('missing' in e for e in spec)
        go = [e for e in entries if e['name'].endswith('.go') and len(e['name']) > 3]
        faults = [e for e in go if e.get('fault')]
        kx, vx = outcome(x)
        ky, vy = outcome(y)
        # --- correspondence (errors: class only when several entries are faulty, since the OS order decides which is met first)
        if kx != ky or (kx == 'ok' and R.core(x)[1] != R.core(y)[1]) or (kx == 'err' and len(faults) + missing <= 1 and R.core(x)[1] != R.core(y)[1]):
            chk.disagree('dir', m, s, x, y)
            if len(chk.disagreements) <= 3: chk.log(f'[dir] DISAGREEMENT on {s[:300]}\n   impl : {R.core(x)[1][:300]}\n   model: {R.core(y)[1][:300]}')
        # --- oracle: the property itself
        if kx in ('panic', 'crash', 'timeout'):
            chk.oracle_fail('dir-' + kx, m, s, x[:200], 'a result or an error value', 'parse_dir did not return'); continue
        must_fail = missing or bool(faults)
        if must_fail:
            if kx != 'err':
                chk.oracle_fail('dir-partial-result:' + (('missing' if missing else faults[0]['fault'])), m, s, x[:300], 'an error', 'a .go entry cannot be read / decoded / parsed (or the directory does not exist) but parse_dir returned a result')
            elif vx['kind'] not in ('IO', 'Unexpected', 'Else'):
                chk.oracle_fail('dir-error-untyped', m, s, vx, "the crate's error type", "the failure is not a value of the crate's error type")
            elif (missing or all(f['fault'] in ('utf8', 'symlink', 'dir') for f in faults)) and vx['kind'] != 'IO':
                chk.oracle_fail('dir-error-kind', m, s, vx, 'Error::IO', 'an I/O failure is not reported as Error::IO')
            continue
        if kx != 'ok':
            chk.oracle_fail('dir-spurious-error', m, s, x[:300], 'a result', 'every .go entry is readable and parses, but parse_dir failed'); continue
        exp = {}
        for e in go:
            k2, t = outcome(mem[e['src']])
            if k2 != 'ok': exp = None; break
            t = dict(t); t['path'] = '<dir>/' + e['name']
            exp.setdefault(t['pkg_name']['name'], []).append(t)
        if exp is None: continue
        got = {p['name']: p for p in vx}
        if set(got) != set(exp):
            chk.oracle_fail('dir-packages', m, s, sorted(got), sorted(exp), 'the set of package names differs from the names declared by the .go files'); continue
        for name, p in got.items():
            gt = sorted(json.dumps(f['tree'], sort_keys=True) for f in p['files'])
            et = sorted(json.dumps(t, sort_keys=True) for t in exp[name])
            if gt != et or p['path'] != '<dir>' or any(f['path'] != f['tree']['path'] for f in p['files']):
                chk.oracle_fail('dir-files', m, s, [f['path'] for f in p['files']], [t['path'] for t in exp[name]], 'a package does not hold exactly the trees of the .go files declaring it (each once, tree = in-memory parse, path recorded)')
    chk.count('dir', cases, [s for (es, _), (m, s) in zip(dirs, cases) if any(e['name'].endswith('.go') and len(e['name']) > 3 for e in es)])
    # --- single files from disk
    one = [s for s in good[:: 3]] + [BOM + s for s in good[:: 7]] + damaged[:: 5] + [BOM + BOM + s for s in good[:: 29]]
    dc = [('disk', s) for s in one] + [('disk', b'package p\nvar s = "\xff"\n'), ('disk', b'\xef\xbb\xbfpackage p\n'), ('disk', b'')]
    dl = [R.case_line(m, s) for m, s in dc]
    da = R.impl(dl, robust=True, extra=['--workdir', os.path.join(R.WORK, 'tmp')])
    db = R.model(dl)
    for i in R.compare(dl, da, db):
        chk.disagree('disk', dc[i][0], dc[i][1], da[i], db[i])
    ma = R.impl([R.case_line('file', s[1:] if s.startswith(BOM) else s) for s in one])
    for s, x, y in zip(one, da, ma):
        kx, vx = outcome(x); ky, vy = outcome(y)
        if kx != ky:
            chk.oracle_fail('disk-vs-memory', 'disk', s, x[:200], y[:200], 'parse_file and parse_source of the contents disagree on acceptance'); continue
        if kx == 'ok':
            vy = dict(vy); vy['path'] = '<disk>'
            if vx != vy:
                chk.oracle_fail('disk-vs-memory', 'disk', s, 'different tree', 'same tree with the path recorded', 'parse_file gives a different tree than parse_source of the contents')
        elif kx == 'err':
            if (vx['kind'], vx.get('line'), vx.get('col')) != (vy['kind'], vy.get('line'), vy.get('col')) or vx.get('x', {}).get('path') != '<disk>':
                chk.oracle_fail('disk-vs-memory-error', 'disk', s, vx, vy, 'parse_file reports a different error / no path')
    for x in da[len(one):len(one) + 1]:
        if outcome(x)[0] != 'err' or outcome(x)[1]['kind'] != 'IO':
            chk.oracle_fail('disk-utf8', 'disk', 'invalid utf-8', x[:200], 'Error::IO', 'a file that is not UTF-8 is not reported as Error::IO')
    chk.count('disk', dc, one)
    for (es, spec), x in list(zip(dirs, a))[:3]:
        chk.sample({'directory': [{k: (v[:40] if isinstance(v, str) else v) for k, v in e.items()} for e in spec], 'impl': R.core(x)[1][:200]})
    chk.programs = len(cases) + len(dc)
    chk.disagreements_checked = chk.programs
