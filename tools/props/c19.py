"""C19 — parsing is a pure function of the input: deterministic, isolated across parsers."""
import random, json, os, re, subprocess
from orch import run as R, core, streams
from .common import *

LEVEL = 'proof'
ASSUMPTIONS = ["interleavings are whatever the OS scheduler produces for 16 threads; a data race that never manifests in these runs is not exhibited",
               "the static scan of /repo/src (no shared mutable state) is textual"]

FORBIDDEN = [r'\bstatic\s+(mut\s+)?[A-Z_]+\s*:', r'thread_local!', r'lazy_static', r'\bOnce(Cell|Lock)\b', r'\bLazy(Lock|Cell)?\b', r'\bMutex\b', r'\bRwLock\b',
             r'\bAtomic[A-Z]\w*', r'\bRefCell\b', r'\bCell<', r'\bUnsafeCell\b', r'\bunsafe\b']


def strip_rust(src):
    """drop comments, string literals, #[cfg(test)] mod blocks and items under #[cfg(gosyn_verif)]"""
    src = re.sub(r'//[^\n]*', '', src)
    src = re.sub(r'/\*.*?\*/', '', src, flags=re.S)
    src = re.sub(r'"(?:[^"\\]|\\.)*"', '""', src)
    out, i = [], 0
    for m in re.finditer(r'#\[cfg\((test|gosyn_verif)\)\]', src):
        if m.start() < i: continue
        out.append(src[i:m.start()])
        # skip the following item: up to the matching brace of its first '{', or the next ';' if that comes first
        j = m.end()
        b = src.find('{', j); sc = src.find(';', j)
        if sc != -1 and (b == -1 or sc < b):
            i = sc + 1; continue
        d = 0; k = b
        while k < len(src):
            if src[k] == '{': d += 1
            elif src[k] == '}':
                d -= 1
                if d == 0: break
            k += 1
        i = k + 1
    out.append(src[i:])
    return ''.join(out)


def static_scan():
    hits = []
    for fn in sorted(os.listdir('/repo/src')):
        if not fn.endswith('.rs'): continue
        txt = strip_rust(open(os.path.join('/repo/src', fn)).read())
        for pat in FORBIDDEN:
            for m in re.finditer(pat, txt):
                line = txt[:m.start()].count('\n') + 1
                ctx = txt[max(0, m.start() - 60):m.end() + 60].replace('\n', ' ')
                hits.append((fn, pat, ctx))
    # the one allowed unsafe: from_utf8_unchecked in next_nstr
    allowed = [h for h in hits if h[0] == 'scanner.rs' and h[1] == r'\bunsafe\b' and 'from_utf8_unchecked' in h[2]]
    rest = [h for h in hits if h not in allowed]
    return allowed, rest


def twins(rng, n):
    """inputs whose non-ASCII chars come in pairs that agree in their low 16 bits (or low byte): what a
    truncating cache key or table index would confuse"""
    out = []
    for _ in range(n):
        cp = rng.choice([0x2000, 0x3000, 0x00A0, 0x4E16, 0xF914, 0x0660, 0x0041 + 0x100, 0x2028, 0x00E9, rng.randrange(0x80, 0xD7FF)])
        tw = [cp, cp + 0x10000, cp + 0x20000, (cp & 0xFF) + 0x100, (cp & 0xFF) + 0x1000]
        for t in tw:
            if 0xD800 <= t <= 0xDFFF or t > 0x10FFFF: continue
            c = chr(t)
            out.append(('file', f'package p\nvar a{c}b int\n'))
            out.append(('file', f'package p\nvar {c} = 1\n'))
            out.append(('expr', f'x{c}+{c}y'))
    return out


def escapes(rng, n):
    """literals with complete, truncated and damaged numeric escapes, valid and invalid alternating: whatever a
    scanner keeps between two literals (a scratch buffer, a digit count) is exposed by the next literal"""
    heads = ['\\x', '\\u', '\\U', '\\']
    full = {'\\x': ['41', 'e9', '7f'], '\\u': ['00e9', '4e16', 'd7ff'], '\\U': ['0001F600', '00000041'], '\\': ['101', '377', '000']}
    out = []
    for _ in range(n):
        h = rng.choice(heads)
        d = rng.choice(full[h])
        kind = rng.choice(['ok', 'ok', 'cut', 'bad', 'eof'])
        if kind == 'ok': body = h + d
        elif kind == 'cut': body = h + d[:rng.randrange(1, len(d))]
        elif kind == 'bad': k = rng.randrange(1, len(d)); body = h + d[:k] + 'g' + d[k + 1:]
        else: body = None
        q = rng.choice(['"', "'"])
        if body is None:
            out.append(('file', 'package p\nvar s = ' + q + h + d[:rng.randrange(1, len(d))]))
        else:
            tail = rng.choice(['', 'BC', ' é']) if q == '"' else ''
            out.append(('file', 'package p\nvar s = ' + q + body + tail + q + '\n'))
            out.append(('expr', q + body + tail + q))
    return out


def run(chk):
    rng = random.Random(chk.seed)
    chk.rule = ('static: /repo/src scanned for shared mutable state.  threads: 16 threads each parse the whole stream (corpus programs, mutants, soup, twin-character inputs, literals with complete / truncated / damaged numeric escapes) in its own shuffled order in one process; '
                'every per-input result must be the same on all threads, equal to a sequential run and equal to the Lean model.  repeated: the stream parsed twice in one process.  non-trivial: distinct inputs with >= 2 tokens.')
    allowed, rest = static_scan()
    chk.extra['static_scan'] = {'allowed_unsafe': len(allowed), 'forbidden_hits': [f'{a}: {c}' for a, b, c in rest][:10]}
    if len(allowed) != 1:
        chk.problems.append({'kind': 'translator', 'what': f'expected exactly one unsafe (from_utf8_unchecked in next_nstr), found {len(allowed)}'})
    for fn, pat, ctx in rest:
        chk.problems.append({'kind': 'translator', 'what': f'shared mutable state / unsafe in {fn}: {ctx}'})
    base = streams.snippet_cases()
    n = 1 if chk.tier == 'quick' else 6
    cases = streams.dedup(base + streams.mutants(rng, base, n, 3) + streams.soup(rng, 2000 * n, modes=('file', 'expr', 'stmt')) + twins(rng, 60 * n) + escapes(rng, 300 * n))
    rng.shuffle(cases)
    lines = [R.case_line(m, s) for m, s in cases]
    seq = R.impl(lines)                           # sequential baseline (sharded over processes)
    mod = R.model(lines)
    bad = R.compare(lines, seq, mod)
    for i in bad:
        chk.disagree('sequential', cases[i][0], cases[i][1], seq[i], mod[i])
    # threaded: one process, 16 threads, shuffled orders
    p = subprocess.run([R.HARNESS_DEBUG, '--threads', '16'], input=''.join(lines).encode(), capture_output=True, timeout=3000)
    thr = p.stdout.decode('utf-8', 'replace').split('\n')
    if thr and thr[-1] == '': thr.pop()
    if p.returncode != 0 or len(thr) != len(lines):
        chk.oracle_fail('threads-crash', 'file', '', f'rc={p.returncode} lines={len(thr)}', 'all answers', 'the threaded run died')
    else:
        for (m, s), t, q in zip(cases, thr, seq):
            tag, _, body = t.partition(' ')
            if tag != 'same':
                chk.oracle_fail('threads-differ', m, s, body[:300], 'same result on all 16 threads', 'threads disagree on the result for one input')
            elif R.core('u=0 ' + body)[1] != R.core(q)[1]:
                chk.oracle_fail('threads-vs-sequential', m, s, body[:300], R.core(q)[1][:300], 'result under concurrency differs from the sequential result')
    # repeated: whole stream twice in ONE process, second pass must equal first
    one = R.run_lines([R.HARNESS_DEBUG], lines + lines, shards=1)
    for (m, s), x, y in zip(cases, one[:len(lines)], one[len(lines):]):
        if x != y:
            chk.oracle_fail('repeat-differs', m, s, y[:300], x[:300], 'parsing the same text again in the same process gives a different result')
    for (m, s), x, q in zip(cases, one[:len(lines)], seq):
        if R.core(x)[1] != R.core(q)[1]:
            chk.oracle_fail('history-dependent', m, s, x[:300], q[:300], 'result depends on what was parsed before in the process')
    chk.count('threads', cases * 16, [s for (m, s) in cases if len(s.split()) >= 2])
    chk.extra['threads'] = 16
    chk.extra['inputs'] = len(cases)
    for (m, s), l in list(zip(cases, thr))[:3]:
        chk.sample({'mode': m, 'input': s[:120], 'threads': l[:120]})
    chk.programs = len(cases)
    chk.disagreements_checked = len(cases)
