"""C04 — operators bind with the spec's precedence and associativity."""
import random, itertools, json
from orch import run as R, gospec, streams
from .common import *

LEVEL = 'proof'
ASSUMPTIONS = ["oracle = specTree: split the flat sequence at the rightmost operator of minimal precedence (the spec's five levels, written out in this file), independent of model and code",
               "the Lean kernel `climb` (object of the theorems) is run by the driver beside the full parser model and the implementation on every flat case"]
LEVELS = {5: ['*', '/', '%', '<<', '>>', '&', '&^'], 4: ['+', '-', '|', '^'], 3: ['==', '!=', '<', '<=', '>', '>='], 2: ['&&'], 1: ['||']}
PREC = {o: p for p, os_ in LEVELS.items() for o in os_}
BIN = [o for p in (5, 4, 3, 2, 1) for o in LEVELS[p]]
UNARY = ['+', '-', '!', '^', '*', '&', '<-']
NAMES = 'abcdefghijklm'


def spec_tree(atoms, ops):
    if not ops: return atoms[0]
    m = min(PREC[o] for o in ops)
    i = max(k for k, o in enumerate(ops) if PREC[o] == m)
    return '(' + spec_tree(atoms[:i + 1], ops[:i]) + ' ' + ops[i] + ' ' + spec_tree(atoms[i + 1:], ops[i + 1:]) + ')'


def shape(e, strip_paren=False):
    """fully parenthesised rendering of an implementation expression tree"""
    (k, v), = e.items()
    if k == 'Ident': return v['name']
    if k == 'BasicLit': return v['value']
    if k == 'Operation':
        op = OPTEXT[v['op']]
        if v['y'] is None: return '{' + op + ' ' + shape(v['x'], strip_paren) + '}'
        return '(' + shape(v['x'], strip_paren) + ' ' + op + ' ' + shape(v['y'], strip_paren) + ')'
    if k == 'Paren': return shape(v['expr'], strip_paren) if strip_paren else '[' + shape(v['expr']) + ']'
    if k == 'Star': return '{* ' + shape(v['right'], strip_paren) + '}'
    if k == 'Selector': return shape(v['x'], strip_paren) + '.' + v['sel']['name']
    if k == 'Call': return shape(v['func'], strip_paren) + '(' + ','.join(shape(a, strip_paren) for a in v['args']) + ')'
    if k == 'Index': return shape(v['left'], strip_paren) + '[' + shape(v['index'], strip_paren) + ']'
    if k == 'Slice': return shape(v['left'], strip_paren) + '[' + ':'.join('' if i is None else shape(i, strip_paren) for i in v['index'][:2]) + ']'
    if k == 'TypeAssert': return shape(v['left'], strip_paren) + '.(' + (shape(v['right'], strip_paren) if v['right'] else 'type') + ')'
    if k == 'TypeChannel': return {None: 'chan ', 'Recv': '<-chan ', 'Send': 'chan<- '}[v['dir']] + shape(v['typ'], strip_paren)
    if k == 'CompositeLit': return shape(v['typ'], strip_paren) + '{}'
    return k


def expr_of(line, mode):
    k, v = outcome(line)
    if k != 'ok': return None
    if mode == 'expr': return v
    try:
        return v['decl'][0]['Variable']['specs'][0]['values'][0]
    except Exception:
        return None


def run(chk):
    interaction_stream(chk)          # correspondence on the interaction corpus (tools/orch/interact.py)
    rng = random.Random(chk.seed)
    maxn = 3 if chk.tier == 'quick' else 4
    chk.rule = ('flat: every ordered pair, triple%s of the 19 binary operators over distinct operands (exhaustive), through Parser::expression and through parse_source; '
                'the Lean kernel `climb` (driver mode climb), the parser model and the implementation must all give specTree.  unary: every unary operator in every operand slot of every binary operator; '
                'every unary operator before every postfix form.  operands: every ordered pair of binary operators over operands of every lexical kind (identifiers, numbers, runes, strings and raw strings with multi-byte text, postfix forms) written without blanks where the tokenisation allows.  positions: every ordered pair (and a sample of triples) of binary operators as the array length of a type declaration and of a variable type, as call argument, index and case expression.  parens: redundant and needed parentheses.  random mixtures to 10 operators.  non-trivial: >= 2 operators; distinct by text.' % (', quadruple' if maxn == 4 else ''))
    flat = []
    for n in range(1, maxn + 1):
        for ops in itertools.product(BIN, repeat=n):
            flat.append((list(NAMES[:n + 1]), list(ops)))
    for _ in range(3000 if chk.tier == 'quick' else 40000):
        n = rng.randint(4, 10)
        flat.append((list(NAMES[:n + 1]), [rng.choice(BIN) for _ in range(n)]))
    texts = [' '.join(x for pair in zip(a, o + ['']) for x in pair if x) for a, o in flat]
    exp = [spec_tree(a, o) for a, o in flat]
    for mode, wrap in (('expr', lambda t: t), ('file', lambda t: 'package p; var _ = ' + t)):
        cases = [(mode, wrap(t)) for t in texts]
        a, b = run_both(chk, 'flat-' + mode, cases)
        for (m, s), e, line in zip(cases, exp, a):
            x = expr_of(line, mode)
            got = shape(x) if x is not None else None
            if got != e:
                chk.oracle_fail('grouping-flat', m, s, got, e, 'grouping differs from the spec precedence / associativity')
        chk.count('flat-' + mode, cases, [s for (m, s), (_, o) in zip(cases, flat) if len(o) >= 2])
    # the kernel itself
    kc = [('climb', t) for t in texts]
    ko = R.model([R.case_line(m, s) for m, s in kc])
    nk = 0
    for (m, s), e, line in zip(kc, exp, ko):
        u, js = parse_line(line)
        if js.get('shape') != e or js.get('left') != 0:
            chk.problems.append({'kind': 'correspondence', 'what': f'Lean kernel climb disagrees with specTree on {s!r}: {js} vs {e}'})
            chk.disagree('kernel', m, s, e, line)
        nk += 1
    chk.extra['kernel_cases'] = nk
    chk.extra['flat_exhaustive_to'] = maxn
    # unary in operand slots
    ucases, uexp = [], []
    for u in UNARY:
        for o in BIN:
            for slot in (0, 1):
                ops_ = [o]
                at = ['a', 'b']
                txt = (u + ' a' if slot == 0 else 'a') + ' ' + o + ' ' + (u + ' b' if slot == 1 else 'b')
                e = '(' + ('{' + u + ' a}' if slot == 0 else 'a') + ' ' + o + ' ' + ('{' + u + ' b}' if slot == 1 else 'b') + ')'
                ucases.append(('expr', txt)); uexp.append(e)
            for o2 in BIN[::3]:
                txt = f'a {o} {u} b {o2} c'
                e = spec_tree(['a', '{' + u + ' b}', 'c'], [o, o2])
                ucases.append(('expr', txt)); uexp.append(e)
        for u2 in UNARY:
            ucases.append(('expr', f'{u} {u2} a * b')); uexp.append('({' + u + ' {' + u2 + ' a}} * b)')
    POSTFIX = [('a.b', 'a.b'), ('a[i]', 'a[i]'), ('a(x)', 'a(x)'), ('a.(T)', 'a.(T)'), ('a[1:2]', 'a[1:2]'), ('T{}', 'T{}'), ('a.b.c(x)[i]', 'a.b.c(x)[i]'), ('a()()', 'a()()')]
    for u in UNARY:
        for ptxt, pshape in POSTFIX:
            ucases.append(('expr', u + ptxt)); uexp.append('{' + u + ' ' + pshape + '}')
            ucases.append(('expr', u + ptxt + ' + c')); uexp.append('({' + u + ' ' + pshape + '} + c)')
    # receive operator in front of a channel-type conversion: `<-chan int(c)` is `<-(chan int(c))` (spec, Conversions)
    for txt, e in [('<-chan int(c)', '{<- chan int(c)}'), ('<-<-chan int(c)', '{<- {<- chan int(c)}}'), ('(<-chan int)(c)', '[<-chan int](c)'),
                   ('a + <-chan int(c) * b', '(a + ({<- chan int(c)} * b))'), ('<-chan int(c) + b', '({<- chan int(c)} + b)'),
                   ('<-chan<- int(c)', '{<- chan<- int(c)}'), ('-chan int(c)', '{- chan int(c)}'), ('<-chan int(c).f', '{<- chan int(c).f}'),
                   ('<-chan int(c)[i]', '{<- chan int(c)[i]}'), ('!<-chan bool(c)', '{! {<- chan bool(c)}}')]:
        ucases.append(('expr', txt)); uexp.append(e)
    a, b = run_both(chk, 'unary', ucases)
    for (m, s), e, line in zip(ucases, uexp, a):
        x = expr_of(line, 'expr')
        got = shape(x) if x is not None else None
        if got != e:
            chk.oracle_fail('grouping-unary', m, s, got, e, 'a unary operator does not bind tighter than binary / looser than postfix')
    chk.count('unary', ucases, [s for m, s in ucases])
    # operand forms: every pair of operators over operands of every lexical kind, written without blanks wherever the
    # spec tokenisation allows it (a scanner that mis-measures an operand shifts the operator that follows it)
    ATOMS = ['a', '世', 'x1', '1', '1.5', '0x1p-2', '2i', '`é`', '`ab`', '`日本\n語`', '"é"', '"a b"', "'é'", "'\\n'", 'f(x)', 'a.b', 'a[i]']
    def joined(parts):
        want = None
        txt = ''
        for k, part in enumerate(parts):
            cand = txt + part
            ref = gospec.tokens(cand, insert_semicolons=False)
            exp_toks = gospec.tokens(' '.join(parts[:k + 1]), insert_semicolons=False)
            if ref is not None and exp_toks is not None and [t[2] for t in ref] == [t[2] for t in exp_toks]: txt = cand
            else: txt = txt + ' ' + part
        return txt
    ocases, oexp = [], []
    for o1 in BIN:
        for o2 in BIN:
            for _ in range(2 if chk.tier == 'quick' else 12):
                at = [rng.choice(ATOMS) for _ in range(3)]
                parts = [at[0], o1, at[1], o2, at[2]]
                ocases.append(('expr', joined(parts))); oexp.append(spec_tree(at, [o1, o2]))
    for at0 in ATOMS:
        for o1 in BIN:
            ocases.append(('expr', joined([at0, o1, 'b', '||', 'c']))); oexp.append(spec_tree([at0, 'b', 'c'], [o1, '||']))
    a, b = run_both(chk, 'operands', ocases)
    for (m, s), e, line in zip(ocases, oexp, a):
        x = expr_of(line, 'expr')
        got = shape(x) if x is not None else None
        if got != e:
            chk.oracle_fail('grouping-operands', m, s, got, e, 'grouping differs from the spec precedence / associativity when the operands are literals or postfix forms written without blanks')
    chk.count('operands', ocases, [s for m, s in ocases])
    # other expression positions that have their own code paths: the array length of a type declaration (decided
    # against a type-parameter list by re-reading the tokens), array lengths elsewhere, call arguments, index, case
    def at(path):
        def f(v):
            for k in path: v = v[k]
            return v
        return f
    CTX = [('package p; type T [%s]bool', at(['decl', 0, 'Type', 'specs', 0, 'typ', 'TypeArray', 'len'])),
           ('package p; var v [%s]bool', at(['decl', 0, 'Variable', 'specs', 0, 'typ', 'TypeArray', 'len'])),
           ('package p; var v = f(%s)', at(['decl', 0, 'Variable', 'specs', 0, 'values', 0, 'Call', 'args', 0])),
           ('package p; var v = m[%s]', at(['decl', 0, 'Variable', 'specs', 0, 'values', 0, 'Index', 'index'])),
           ('package p; func f() { switch { case %s: } }', at(['decl', 0, 'Function', 'body', 'list', 0, 'Switch', 'block', 'body', 0, 'list', 0]))]
    xc, xe, xg = [], [], []
    for n in (2, 3):
        tuples = list(itertools.product(BIN, repeat=n))
        if n == 3 and chk.tier == 'quick': tuples = rng.sample(tuples, 1500)
        for ops in tuples:
            atoms = list(NAMES[:n + 1])
            txt = ' '.join(x for pair in zip(atoms, list(ops) + ['']) for x in pair if x)
            for tmpl, get in (CTX if n == 2 else CTX[:2]):
                xc.append(('file', tmpl % txt)); xe.append(spec_tree(atoms, list(ops))); xg.append(get)
    a, b = run_both(chk, 'positions', xc)
    for (m, s_), e, get, line in zip(xc, xe, xg, a):
        k, v = outcome(line)
        try: got = shape(get(v)) if k == 'ok' else None
        except Exception: got = 'other shape'
        if got != e:
            chk.oracle_fail('grouping-position', m, s_, got, e, 'grouping differs from the spec precedence / associativity in this expression position')
    chk.count('positions', xc, [s_ for m, s_ in xc])
    # parentheses
    pcases, pexp = [], []
    for o1 in BIN:
        for o2 in BIN:
            pcases.append(('expr', f'(a {o1} b) {o2} c')); pexp.append(f'([(a {o1} b)] {o2} c)')
            pcases.append(('expr', f'a {o1} (b {o2} c)')); pexp.append(f'(a {o1} [(b {o2} c)])')
            pcases.append(('expr', f'((a)) {o1} (b) {o2} ((c))')); pexp.append(None)
    a, b = run_both(chk, 'parens', pcases)
    for (m, s), e, line in zip(pcases, pexp, a):
        x = expr_of(line, 'expr')
        if x is None:
            chk.oracle_fail('grouping-parens', m, s, None, e, 'parenthesised expression rejected'); continue
        if e is not None and shape(x) != e:
            chk.oracle_fail('grouping-parens', m, s, shape(x), e, 'needed parentheses do not determine the grouping')
        if e is None:
            # redundant parentheses around operands: grouping as without them
            o1, o2 = s.split(' ')[1], s.split(' ')[3]
            if shape(x, strip_paren=True) != spec_tree(['a', 'b', 'c'], [o1, o2]):
                chk.oracle_fail('grouping-parens', m, s, shape(x, True), spec_tree(['a', 'b', 'c'], [o1, o2]), 'redundant parentheses change the grouping')
    chk.count('parens', pcases, [s for m, s in pcases])
    for (m, s), e in list(zip(ucases, uexp))[:2] + [(('expr', texts[400]), exp[400]), (('expr', texts[-1]), exp[-1])]:
        chk.sample({'mode': m, 'input': s, 'expected_grouping': e})
    chk.programs = 2 * len(texts) + len(kc) + len(ucases) + len(pcases) + len(ocases) + len(xc)
    chk.disagreements_checked = chk.programs
