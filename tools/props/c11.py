"""C11 — the file's comment list holds every comment exactly once, in order, verbatim."""
import random, json
from orch import run as R, streams, goprint, golayout
from .common import *
from . import genprog

LEVEL = 'proof'
ASSUMPTIONS = ["the expected comment list is the one the layout engine wrote (tools/orch/golayout.py): (char offset, text) of every comment, in source order",
               "a line comment in a CR LF file keeps the carriage return in its text (pinned by scanner::tests::scan_comment)"]


def run(chk):
    progs_i, li = interaction_stream(chk)
    sc_i = scan_comments(li, list(li))
    for t_, l_ in li.items():
        k_, v_ = outcome(l_)
        if k_ != 'ok' or sc_i.get(t_) is None: continue
        got_ = [(c['pos'], c['text']) for c in v_['comments']]
        if got_ != sc_i[t_]:
            chk.oracle_fail('comments-vs-scan', 'file', t_, got_[:8], sc_i[t_][:8], 'File::comments is not the list of comment tokens of the source (offset, text, order, each once)')
    rng = random.Random(chk.seed)
    n = 700 if chk.tier == 'quick' else 4000
    k = 3 if chk.tier == 'quick' else 4
    chk.rule = ('%d generated programs + the token lists of all accepted corpus programs, each rendered %d times with line and general comments injected at random token gaps (densities 0.2 .. 1.0 = every gap, up to three comments per gap), '
                'including gaps inside type-parameter lists, array lengths, interface and struct bodies, at line ends; oracle: File.comments = the comments written, in order, with offset and text.  '
                'non-trivial: renderings with at least 2 comments; distinct by text.' % (n, k))
    groups = [toks for tree, toks in genprog.programs(rng, n)]
    corp = [c for c in streams.dedup(streams.snippet_cases()) if c[0] == 'file' and c[1] not in genprog.KNOWN_INVALID_CORPUS]
    la = R.impl([R.case_line(m, s) for m, s in corp])
    for (m, s), l in zip(corp, la):
        kx, vx = outcome(l)
        if kx == 'ok': groups.append(goprint.file_tokens(vx))
    cases, exp = [], []
    for toks in groups:
        for _ in range(k):
            st = golayout.Style.random(rng, comments=rng.choice([0.2, 0.5, 0.8, 1.0]))
            text, cm, offs = golayout.layout(toks, st)
            if st.crlf:
                cm = [(p, t + '\r' if t.startswith('//') and text[p + len(t):p + len(t) + 2] == '\r\n' else t) for p, t in cm]
            cases.append(('file', text)); exp.append(cm)
    a, b = run_both(chk, 'comments', cases, robust=True)
    total = 0
    for (m, s), cm, x in zip(cases, exp, a):
        kx, vx = outcome(x)
        if kx != 'ok':
            continue                    # acceptance of layouts is C02 / C13
        got = [(c['pos'], c['text']) for c in vx['comments']]
        total += len(cm)
        if got != cm:
            missing = [c for c in cm if c not in got]
            dup = [c for c in set(got) if got.count(c) > 1]
            extra = [c for c in got if c not in cm]
            sig = 'comment-missing' if missing else ('comment-duplicated' if dup else ('comment-extra' if extra else 'comment-order'))
            chk.oracle_fail(sig, m, s, {'missing': missing[:3], 'duplicated': dup[:3], 'extra': extra[:3]}, f'{len(cm)} comments in source order', 'File.comments is not the list of comments of the source')
    chk.count('comments', cases, [s for (m, s), cm in zip(cases, exp) if len(cm) >= 2])
    chk.extra['comments_checked'] = total
    chk.extra['renderings'] = len(cases)
    for (m, s), cm in list(zip(cases, exp))[1:10:4]:
        chk.sample({'mode': m, 'input': s[:300], 'expected_comments': cm[:4]})
    chk.programs = len(cases)
    chk.disagreements_checked = len(cases)
