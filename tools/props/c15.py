"""C15 — a fragment parses the same alone, embedded, or after arbitrary other code."""
import random, json
from orch import run as R, streams, goprint, golayout, gogen
from .common import *
from . import genprog

LEVEL = 'proof'
ASSUMPTIONS = ["prefixes end with a blank line, so that no comment of the prefix is adjacent to the fragment (adjacent comments legitimately become its documentation)",
               "fragments are nested less than 40 deep, so that the nesting cap cannot tell the embeddings apart"]
POSKEYS = ('pos', 'pos0', 'pos1', 'dots')


def shift(v, d):
    if isinstance(v, dict):
        out = {}
        for k, x in v.items():
            if k in POSKEYS:
                out[k] = None if x is None else (x + d if isinstance(x, int) else [p + d for p in x])
            elif k == 'op' and isinstance(x, list) and len(x) == 2 and isinstance(x[0], int):
                out[k] = [x[0] + d, x[1]]
            else:
                out[k] = shift(x, d)
        return out
    if isinstance(v, list): return [shift(x, d) for x in v]
    return v


def strip_method_pos(v):
    """FuncType.pos of an interface method element is the constant 0 (there is no `func` keyword): not a position"""
    if isinstance(v, dict):
        if list(v.keys()) == ['TypeInterface']:
            for f in v['TypeInterface']['methods']['list']:
                if f['name'] and list(f['typ'].keys()) == ['TypeFunction']:
                    f['typ']['TypeFunction']['pos'] = None
        for x in v.values(): strip_method_pos(x)
    elif isinstance(v, list):
        for x in v: strip_method_pos(x)
    return v


def prefixes(rng, n):
    """declaration sequences that leave as much state behind as possible: re-read type-parameter lists and array
    lengths (backtracking marks, line table), control headers (level saved/restored), deep nesting, interface
    elements that fail as methods (caught error), comments - also non-ASCII - before blank lines"""
    fixed = [
        '',
        'type T[P any, Q interface{ ~int | string }] struct{ a P }\n',
        'type A [N *\n2]int\ntype B[P *C | ~D,] int\n',
        'type T[\n\tP any, // c\n\tQ any,\n] struct{}\n',
        'func f() {\n\tif x := (T{1}); x.a > 0 {\n\t\tfor i := range (S{}).list {\n\t\t\tswitch y := i.(type) {\n\t\t\tcase int:\n\t\t\t}\n\t\t}\n\t}\n}\n',
        'var v = ' + '(' * 60 + 'x' + ')' * 60 + '\n',
        'var v = ' + '[]' * 30 + 'int{' + '}' + '\n',
        'type I interface {\n\tm(x int) string\n\t~int | G[T]\n\tE\n\tpkg.F\n}\n',
        'var s = `multi\nline\nraw` // trailing é\n',
        'var a = 1 // Größe\n',
        'func g() {}\n\n/* 注释 */\n\n',
        '// detached 😀\n\nvar z int\n/* block\n comment */\n',
        'func h() { L: for { break L }; select { case <-c: default: } }\n',
        'type F func(a, b int, c ...string) (x, y error)\nvar m = map[string][]T{"a": {{1}, {2}}}\n',
        'func k[T any, U []T](x U) T { return x[0] }\nfunc (r *G[_]) m() {}\n',
    ]
    out = list(fixed)
    g = gogen.Gen(rng, maxdepth=3)
    for _ in range(n):
        f = g.file(ndecl=rng.randint(1, 4))
        toks = goprint.file_tokens(f)
        # drop the package clause tokens: `package x SEMI`
        toks = toks[3:]
        st = golayout.Style.random(rng, comments=rng.choice([0, 0.3]))
        text, _, _ = golayout.layout(toks, st)
        out.append(text.strip('\r\n') + '\n')
    return out


def run(chk):
    interaction_stream(chk)
    rng = random.Random(chk.seed)
    nfrag = 150 if chk.tier == 'quick' else 1500
    npre = 12 if chk.tier == 'quick' else 60
    chk.rule = ('fragments: corpus declarations, statements and expressions (+ generated ones) that parse alone; prefixes: %d fixed state-leaving declaration sequences + %d generated ones, each ending in a blank line; '
                'each fragment is parsed alone (declaration: only one in a file; statement: Parser::parse_stmt; expression: Parser::expression) and embedded after each of a sample of prefixes (declaration at top level; statement in a function body; expression as an initialiser); '
                'level probes: declarations nested 56-67 deep after every prefix and after every optional-punctuation form (same verdict as alone); histories: k statements through k calls of parse_stmt on one parser.  oracle: the subtree equals the stand-alone tree with positions shifted by the prefix length.  non-trivial: (fragment, prefix) pairs with a non-empty prefix; distinct by text.' % (15, npre))
    pres = prefixes(rng, npre)
    decls = [d for d in streams.load('decls.txt') if not d.lstrip().startswith('import')]; stmts = streams.load('stmts.txt')
    exprs = [e[4:] for e in stmts if e.startswith('_ = ') and '\n' not in e]
    g = gogen.Gen(rng, maxdepth=3)
    for _ in range(nfrag // 3):
        exprs.append(goprint.canonical(goprint.expr(g.expr(3))).strip())
        stmts.append(goprint.canonical(goprint.stmt(g.stmt(3, 'block'))).strip().rstrip(';'))
    rng.shuffle(decls); rng.shuffle(stmts); rng.shuffle(exprs)
    decls, stmts, exprs = decls[:nfrag], stmts[:nfrag], exprs[:nfrag]
    # stand-alone parses
    alone = {}
    al = [('file', 'package p\n' + d + '\n') for d in decls] + [('stmt', s) for s in stmts] + [('expr', e) for e in exprs]
    aa, ab = run_both(chk, 'alone', al, robust=True)
    for (m, s), x in zip(al, aa):
        k, v = outcome(x)
        if k == 'ok' and not (m == 'stmt' and isinstance(v, dict) and list(v.keys()) == ['Empty']):     # a lone `;` is no structure to compare
            alone[(m, s)] = v
    cases, meta = [], []
    HEAD = 'package p\n'
    for d in decls:
        key = ('file', HEAD + d + '\n')
        if key not in alone: continue
        for pre in rng.sample(pres, 5):
            text = HEAD + pre + '\n' + d + '\n'
            cases.append(('file', text)); meta.append(('decl', key, len(pre) + 1, pre))
    for s in stmts:
        key = ('stmt', s)
        if key not in alone: continue
        for pre in rng.sample(pres, 4):
            head = HEAD + pre + '\nfunc fn() {\n'
            cases.append(('file', head + s + '\n}\n')); meta.append(('stmt', key, len(head), pre))
    for e in exprs:
        key = ('expr', e)
        if key not in alone: continue
        for pre in rng.sample(pres, 4):
            head = HEAD + pre + '\nvar _ = '
            cases.append(('file', head + e + '\n')); meta.append(('expr', key, len(head), pre))
    a, b = run_both(chk, 'embedded', cases, robust=True)
    same = 0
    for (m, text), (kind, key, off, pre), x in zip(cases, meta, a):
        k, v = outcome(x)
        sigpre = 'fixed' if pre in pres[:15] else 'generated'
        if k != 'ok':
            chk.oracle_fail(f'embedded-rejected:{kind}', m, text, R.core(x)[1][:200], 'accepted like the stand-alone fragment', 'a fragment that parses alone is rejected after other code'); continue
        try:
            if kind == 'decl':
                sub = v['decl'][-1]; ref = alone[key]['decl'][-1]
            elif kind == 'stmt':
                body = v['decl'][-1]['Function']['body']['list']
                body = [st for st in body if list(st.keys()) != ['Empty']]
                sub = body[0]; ref = alone[key]
            else:
                sub = v['decl'][-1]['Variable']['specs'][0]['values'][0]; ref = alone[key]
        except Exception as e:
            chk.oracle_fail(f'embedded-shape:{kind}', m, text, str(e), 'the fragment as the last declaration / first statement / initialiser', 'the embedding did not produce the expected enclosing shape'); continue
        want = shift(strip_method_pos(json.loads(json.dumps(ref))), off)
        d = first_diff(want, strip_method_pos(sub))
        if d is None: same += 1
        else:
            chk.oracle_fail(f'embedded-differs:{kind}:{genprog.cell_of(d[0]) if not d[0].endswith(("pos", "pos0", "pos1")) and "/pos" not in d[0] else "position"}', m, text, {'path': d[0], 'embedded': json.dumps(d[2])[:160]}, {'alone(shifted)': json.dumps(d[1])[:160]}, 'the same text parses differently after other code')
    chk.count('embedded', cases, [t for (m, t), mt in zip(cases, meta) if mt[3]])
    chk.extra['pairs_equal'] = same
    # level probes: a declaration nested right up to the parser's fixed cap is accepted / rejected alone exactly as
    # after any prefix - one leaked nesting level anywhere in the prefix flips the verdict
    probes = ['var x = ' + '(' * k + '1' + ')' * k for k in range(56, 68)] + ['var y = ' + '[]' * k + 'int{}' for k in range(28, 36)]
    from orch import interact
    pp = [p_ for p_ in pres if p_] + [e + '\n' for e in genprog.OPTIONAL_FORMS] + [p_['text'][len('package p\n'):] for p_ in interact.programs()]
    probes += ['var z = Point{1, 2}', 'var z = pkg.T{a: 1}.f', 'func zz() { p := Point{X: 1}; _ = p }']
    pa = R.impl([R.case_line('file', HEAD + q + '\n') for q in probes], robust=True)
    lv_cases, lv_meta = [], []
    for q, x0 in zip(probes, pa):
        for pre in pp:
            lv_cases.append(('file', HEAD + pre + '\n' + q + '\n')); lv_meta.append((q, outcome(x0), pre))
    la, lb = run_both(chk, 'level-probes', lv_cases, robust=True)
    for (m, text), (q, (k0, v0), pre), x in zip(lv_cases, lv_meta, la):
        k1, v1 = outcome(x)
        if k1 == k0 == 'ok' and erase(v1['decl'][-1]) != erase(v0['decl'][-1]):
            chk.oracle_fail('level-probe-tree', m, text, 'different tree', 'the tree it has alone', 'a declaration is read differently after this prefix (composite literal vs block: the prefix left the nesting level changed)')
        if k1 != k0:
            chk.oracle_fail('level-probe', m, text, k1, k0, 'a declaration nested up to the cap is ' + ('rejected' if k0 == 'ok' else 'accepted') + ' after this prefix but not alone: the prefix left the nesting level changed')
    chk.count('level-probes', lv_cases, [t for m, t in lv_cases])
    # histories: k statements through k calls on one parser
    hist_cases, hist_meta = [], []
    ok_stmts = [s for s in stmts if ('stmt', s) in alone and '\n' not in s]
    for _ in range(200 if chk.tier == 'quick' else 3000):
        k = rng.randint(2, 4)
        ss = [rng.choice(ok_stmts) for _ in range(k)]
        text = '\n'.join(ss) + '\n'
        hist_cases.append((f'stmts{2 * k + 1}', text)); hist_meta.append(ss)      # extra calls: a call may return the empty statement of a `;`
    ha, hb = run_both(chk, 'histories', hist_cases, robust=True)
    for (m, text), ss, x in zip(hist_cases, hist_meta, ha):
        u, js = parse_line(x)
        if not isinstance(js, list): 
            chk.oracle_fail('history-crash', m, text, x[:200], 'a list of results', 'repeated parse_stmt calls did not return'); continue
        off = 0
        res = [r for r in js if not ('ok' in r and list(r['ok'].keys()) == ['Empty'])]     # empty statements are not structure (C03)
        if len([r for r in res if 'ok' in r]) < len(ss):
            bad = next((r for r in res if 'ok' not in r), None)
            chk.oracle_fail('history-rejected', m, text, str(bad)[:200], f'{len(ss)} statements', 'a statement is rejected / missing when parsed by later calls on the same parser'); continue
        for i, (s, r) in enumerate(zip(ss, res)):
            d = first_diff(shift(strip_method_pos(json.loads(json.dumps(alone[('stmt', s)]))), off), strip_method_pos(r['ok']))
            if d is not None:
                chk.oracle_fail('history-differs', m, text, {'call': i, 'path': d[0], 'got': json.dumps(d[2])[:160]}, json.dumps(d[1])[:160], 'a statement parses differently in a later call on the same parser'); break
            off += len(s) + 1
    chk.count('histories', hist_cases, [t for m, t in hist_cases])
    for (m, text), mt in list(zip(cases, meta))[:: max(1, len(cases) // 3)][:3]:
        chk.sample({'kind': mt[0], 'prefix': mt[3][:120], 'input': text[-200:]})
    chk.programs = len(al) + len(cases) + len(hist_cases) + len(lv_cases)
    chk.disagreements_checked = chk.programs
