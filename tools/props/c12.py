"""C12 — doc comments attach to the declaration they directly precede, and only to it."""
import random, json
from orch import run as R, streams
from .common import *

LEVEL = 'proof'
ASSUMPTIONS = ["expected documentation per DESIGN.md appendix A.6: the group of comments (each starting on the line where the previous one ended or on the next line) whose last comment ends on the line directly above the item, provided the group does not start on the line of a preceding token; otherwise none",
               "placements generated: attached group, detached group (blank line), trailing comment on the previous item's last line, comment inside the previous body on the line above, none, and detached+attached; at any line including the first three"]

PLACEMENTS = ['none', 'none', 'attached', 'attached', 'detached', 'trailing', 'trailing-multi', 'detached+attached', 'attached-general', 'attached-multiline-general',
              'trailing+attached', 'trailing+attached']


class Doc:
    """builds the text line by line and records, per item, the comments expected as its documentation"""
    def __init__(self, rng):
        self.rng, self.lines, self.items, self.n = rng, [], [], 0

    def comment(self, general=False):
        self.n += 1
        w = self.rng.choice(['doc', 'note é', '注释', 'x*y', 'TODO'])
        return f'/* {w} {self.n} */' if general else f'// {w} {self.n}'

    def place(self, kind, indent=''):
        """emit the comments that precede an item according to `kind`; return the expected docs"""
        r = self.rng
        exp = []
        if kind == 'trailing+attached':
            # a comment trailing the previous item's last line, and the item's own group starting on the very next line:
            # the trailing comment belongs to the previous item, the group to this one
            ok = bool(self.lines) and self.lines[-1].strip() and '//' not in self.lines[-1] and not self.lines[-1].rstrip().endswith('*/')
            if ok: self.lines[-1] += ' ' + self.comment()
            for _ in range(r.randint(1, 2)):
                c = self.comment(r.random() < 0.25); self.lines.append(indent + c); exp.append(c)
            return exp
        if kind == 'trailing':
            if self.lines and self.lines[-1].strip() and '//' not in self.lines[-1] and not self.lines[-1].rstrip().endswith('*/'):
                self.lines[-1] += ' ' + self.comment()
            return []
        if kind == 'trailing-multi':
            # a general comment that starts on the previous item's last line and ends one or two lines further down,
            # possibly followed on its closing line by more comments: all of it trails the previous item
            if self.lines and self.lines[-1].strip() and '//' not in self.lines[-1] and not self.lines[-1].rstrip().endswith('*/'):
                self.n += 1
                self.lines[-1] += f' /* t {self.n}'
                if r.random() < 0.3: self.lines.append(indent + '   middle')
                tail = r.choice(['', '', ' ' + self.comment(), ' ' + self.comment(True), ' ' + self.comment(True) + ' ' + self.comment()])
                self.lines.append(indent + '   more */' + tail)
            return []
        if kind in ('detached', 'detached+attached'):
            for _ in range(r.randint(1, 2)): self.lines.append(indent + self.comment(r.random() < 0.3))
            self.lines.append('')
            if r.random() < 0.3: self.lines.append('')
        if kind in ('attached', 'detached+attached'):
            for _ in range(r.randint(1, 3)):
                c = self.comment(r.random() < 0.25); self.lines.append(indent + c); exp.append(c)
        if kind == 'attached-general':
            c = self.comment(True); self.lines.append(indent + c); exp.append(c)
        if kind == 'attached-multiline-general':
            self.n += 1
            c = f'/* doc {self.n}\n{indent}   more */'
            self.lines += (indent + c).split('\n'); exp.append(c)
        return exp


def gen_file(rng):
    d = Doc(rng)
    r = rng
    targets = []          # (path description, expected docs list)
    # leading blank lines so that items fall on lines 1, 2, 3, ...
    for _ in range(r.choice([0, 0, 0, 1, 2])): d.lines.append('')
    k = r.choice(PLACEMENTS)
    if k in ('trailing', 'trailing-multi', 'trailing+attached'): k = 'none'
    exp = d.place(k)
    d.lines.append('package p')
    targets.append((('file',), exp, k))
    # imports: not items with documentation of their own here, but a comment above one is pending when the next item comes
    for ii in range(r.choice([0, 0, 0, 1, 2])):
        if r.random() < 0.3: d.lines.append('')
        if r.random() < 0.5: d.lines.append(d.comment(r.random() < 0.2))
        d.lines.append(f'import "pkg{ii}"' if r.random() < 0.7 else f'import (\n\t"a{ii}"\n\t' + d.comment() + f'\n)')
    ndecl = r.randint(1, 5)
    for di in range(ndecl):
        if r.random() < 0.5: d.lines.append('')
        kind = r.choice(['func', 'func-body-comment', 'var', 'const-group', 'type-struct', 'var-group', 'type'])
        k = r.choice(PLACEMENTS)
        blank_before = bool(d.lines) and d.lines[-1] == ''
        exp = d.place(k)
        if kind in ('func', 'func-body-comment'):
            d.lines.append(f'func f{di}() {{')
            d.lines.append('\tx()')
            if kind == 'func-body-comment': d.lines.append('\t' + d.comment())
            d.lines.append('}')
            targets.append((('decl', di, 'Function'), exp, k))
        elif kind == 'var':
            d.lines.append(f'var v{di} = {di}')
            targets.append((('decl', di, 'Variable', 'single'), exp, k))
        elif kind == 'type':
            d.lines.append(f'type T{di} int')
            targets.append((('decl', di, 'Type', 'single'), exp, k))
        elif kind in ('const-group', 'var-group'):
            kw = 'const' if kind == 'const-group' else 'var'
            d.lines.append(f'{kw} (')
            targets.append((('decl', di, 'Const' if kw == 'const' else 'Variable', 'group'), exp, k))
            for si in range(r.randint(1, 3)):
                if r.random() < 0.3: d.lines.append('')
                k2 = r.choice(PLACEMENTS)
                if si == 0 and k2 in ('trailing', 'trailing-multi', 'trailing+attached'): k2 = 'none'
                e2 = d.place(k2, '\t')
                d.lines.append(f'\tc{di}_{si} = {si}')
                targets.append((('spec', di, 'Const' if kw == 'const' else 'Variable', si), e2, k2))
            d.lines.append(')')
        else:
            d.lines.append(f'type S{di} struct {{')
            targets.append((('decl', di, 'Type', 'single'), exp, k))
            for fi in range(r.randint(1, 3)):
                if r.random() < 0.3: d.lines.append('')
                k2 = r.choice(PLACEMENTS)
                if k2 in ('trailing', 'trailing-multi', 'trailing+attached'): k2 = 'none'          # a field's own line-end comment is the trailing pattern here
                e2 = d.place(k2, '\t')
                line = f'\tf{fi} int'
                tr = None
                if r.random() < 0.4:
                    tr = d.comment(); line += ' ' + tr
                d.lines.append(line)
                targets.append((('field', di, fi), e2 + ([tr] if tr else []), k2 + ('+line-end' if tr else '')))
            d.lines.append('}')
    return '\n'.join(d.lines) + '\n', targets


def docs_of(tree, path):
    texts = lambda cs: [c['text'] for c in cs]
    if path[0] == 'file': return texts(tree['docs'])
    dcl = tree['decl'][path[1]]
    (kind, v), = dcl.items()
    if path[0] == 'decl':
        if kind == 'Function': return texts(v['docs'])
        if path[3] == 'single': return texts(v['docs']) + texts(v['specs'][0]['docs'])
        return texts(v['docs'])
    if path[0] == 'spec': return texts(v['specs'][path[3]]['docs'])
    if path[0] == 'field':
        return texts(v['specs'][0]['typ']['TypeStruct']['fields'][path[2]]['comments'])


def line_of_item(text, path):
    return None


def run(chk):
    progs_i, li = interaction_stream(chk)
    for p_ in progs_i:
        if p_['family'] != 'field-comments': continue
        k_, v_ = outcome(li[p_['text']])
        exp_ = [['// the reader'], ['// c1', '// c2', '// trailing c'], ['// trailing m'], ['// trailing g']]
        try: got_ = [[c['text'] for c in f['comments']] for f in v_['decl'][0]['Type']['specs'][0]['typ']['TypeStruct']['fields']]
        except Exception as e_: got_ = str(e_)
        if got_ != exp_:
            chk.oracle_fail('field-docs-backtracking', 'file', p_['text'], got_, exp_, 'the comments of a struct field whose type is read twice (interface elements, generic instantiation) are lost or misplaced')
    rng = random.Random(chk.seed)
    n = 1500 if chk.tier == 'quick' else 30000
    chk.rule = ('%d generated declaration sequences (package clause, func / var / const / type declarations, grouped specs, struct fields); before each item one of {none, attached group of 1-3 line or general comments, multi-line general comment, detached group, trailing comment on the previous line, multi-line trailing comment with further comments on its closing line, detached+attached}, '
                'items starting at any line including 1-3, comments inside the previous function body; oracle: the documentation reported for each item = the expected group (A.6), struct fields also report the comment trailing them on their line.  non-trivial: files with at least two commented items; distinct by text.' % n)
    files = [gen_file(rng) for _ in range(n)]
    cases = [('file', t) for t, _ in files]
    a, b = run_both(chk, 'docs', cases, robust=True)
    items = 0
    hist = {}
    for (text, targets), x in zip(files, a):
        kx, vx = outcome(x)
        if kx != 'ok':
            chk.oracle_fail('docs-file-rejected', 'file', text, R.core(x)[1][:200], 'accepted', 'a generated declaration sequence with comments is rejected'); continue
        for path, exp, placement in targets:
            items += 1
            got = docs_of(vx, path)
            hist[placement] = hist.get(placement, 0) + 1
            if got != exp:
                # which line does the item start on (1-based)?  needed because the defects depend on it
                what = 'wrong-docs'
                if not exp and got: what = 'spurious-docs'
                elif exp and not got: what = 'docs-lost'
                chk.oracle_fail(f'{what}:{path[0]}:{placement}', 'file', text, {'item': path, 'reported': got}, {'expected': exp}, 'the documentation reported for an item is not the comment group directly above it')
    chk.count('docs', cases, [t for t, tg in files if sum(1 for _, e, _ in tg if e) >= 2])
    chk.extra['items_checked'] = items
    chk.extra['placements'] = hist
    for t, tg in files[:3]:
        chk.sample({'input': t[:400], 'expected': [(p, e) for p, e, _ in tg][:5]})
    chk.programs = len(cases)
    chk.disagreements_checked = len(cases)
