"""shared by C02 C03 C05 C06 C11 C12 C13 C15: generated valid programs with their derivation trees,
rendered in random layouts"""
import random, json
from orch import gogen, goprint, golayout

KNOWN_INVALID_CORPUS = {'L:', 'L:\n', 'package p\nvar x\nint', 'package p\nimport a\n"a"', 'package p\nfunc f() { x /* c\n */ = 1 }'}


def programs(rng, n, maxdepth=4):
    """[(tree, tokens)]"""
    g = gogen.Gen(rng, maxdepth=maxdepth)
    out = []
    for _ in range(n):
        f = g.file(ndecl=rng.randint(0, 4))
        out.append((f, goprint.file_tokens(f)))
    return out


def layouts(rng, toks, k, comments=None):
    """k renderings [(text, comments, offsets, style_description)]"""
    out = []
    for _ in range(k):
        st = golayout.Style.random(rng, comments=comments)
        text, cm, offs = golayout.layout(toks, st)
        desc = f'comments={st.comments} newlines={st.newlines} crlf={st.crlf} explicit_semi={st.explicit_semi} drop_semi={st.drop_semi} trailing_comma={st.trailing_comma} touch={st.touch}'
        out.append((text, cm, offs, desc))
    return out


def coverage_matrix():
    m = {}
    for (prod, ctx), c in gogen.COVER.items():
        m.setdefault(prod, {})[ctx] = c
    return m


def cell_of(tree_path):
    """production x context cell of a differing path: the last two node kinds on the path"""
    parts = [p for p in tree_path.split('/') if p and not p.isdigit() and p[0].isupper()]
    return '>'.join(parts[-2:]) if parts else 'root'


def enumerated():
    """[(name, tree, text)] small derivations around the grammar's ambiguities, each with optional commas omitted and written"""
    out = []
    for name, tree in gogen.enum_typeparam_decls() + gogen.enum_array_decls():
        toks = goprint.file_tokens(tree)
        out.append((name, tree, goprint.canonical(toks)))
        out.append((name + ':commas', tree, goprint.canonical([',' if t == goprint.OPTC else t for t in toks])))
    return out


def repeated(reps=70):
    """long flat files: every corpus declaration / statement repeated `reps` times in one file.  What a single
    copy leaves behind (nesting level, pending comments, line table) accumulates, so a leak that one copy does
    not show is exposed"""
    from orch import streams
    out = []
    for e in streams.load('decls.txt'):
        out.append(('decl', e, 'package p\n' + (e + '\n') * reps))
    for e in streams.load('stmts.txt'):
        out.append(('stmt', e, 'package p\nfunc f() {\n' + (e + '\n') * reps + '}\n'))
        out.append(('stmt-funcs', e, 'package p\n' + ('func f() {\n' + e + '\n}\n') * reps))
    # every optional-punctuation form (trailing commas / semicolons in every kind of list), which the corpus
    # files rarely write: a leak behind one of them needs many copies to show
    for e in OPTIONAL_FORMS:
        out.append(('decl-optional', e, 'package p\n' + (e + '\n') * reps))
        out.append(('decl-optional-funcs', e, 'package p\n' + ('func f() {\n' + e + '\n}\n') * reps))
    return out


OPTIONAL_FORMS = [
    'var v Pair[int, string,]', 'var v G[int,]', 'var v Tri[int, string, bool,]', 'var v pkg.Map[K, V,]',
    'var v Pair[\n\tint,\n\tstring,\n]', 'var v = f(a, b,)', 'var v = f(\n\ta,\n\tb,\n)', 'var v = T{1, 2,}', 'var v = []int{1,}',
    'var v = map[string]int{"a": 1,}', 'var v = g[int, string,](x)', 'var v = g[int,](x)', 'var v = a[i,]',
    'type F func(a, b int,) (c, d string,)', 'type S struct { Pair[int, string,]; x G[int,] }', 'type I interface { M(a int,) (b int,); Pair[int, string,] }',
    'type T2[P any, Q any,] struct{}', 'type T3[P any,] int', 'var v, w = 1, 2;', 'var (\n\ta = 1;\n\tb = 2;\n)', 'const (\n\ta = iota;\n\tb;\n)', 'type (\n\tA int;\n\tB string;\n)',
    'var v = func(a, b int,) (int,) { return a }', 'var v = [...]int{1, 2,}', 'var v = struct{ a, b int }{1, 2,}', 'var v *Pair[int, string,]', 'var v []Pair[int, string,]',
    'var v map[Pair[int, string,]]G[int,]', 'var v chan Pair[int, string,]', 'var v func(Pair[int, string,]) G[int,]',
]


# forms that raise and lower the nesting level (type arguments, literals, calls, function literals, conversions,
# assertions), used as the first clause of a control header; what follows the clause must be read at the header's
# level: `ok {} {}` is a condition, a body and then a syntax error — never a composite literal `ok{}` with body `{}` —
# and a composite literal after the statement must still be one
HEADER_FORMS = [
    'x.(G[int,])', 'x.(Pair[int, string,])', 'x.(G[int])', 'x.(func(Pair[A, B,],) G[C,])', 'g[int,](x)', 'g[int, string,](x)',
    'a[i,]', 'f(a, b,)', '([]int{1, 2,})', '(T{1, 2,})', '(map[string]G[int,]{"a": {},})', 'func() G[int,] { return nil }()',
    'func(a, b int,) (int,) { return a }(1, 2)', '(*Pair[int, string,])(p)', '[]G[int,](nil)', '<-(chan G[int,])(c)',
    '(struct{ a G[int,] }{})', 'new(Pair[int, string,])', 'make([]G[int,], 1)', 'x.(interface{ M(a int,) (b int,) })',
    'func() { for range ch {} }', 'func() T { return T{} }()', 'func() { type L[P any,] int }',
]


def header_probes():
    out = []
    for e in HEADER_FORMS:
        for kw, sep in (('if', '; ok'), ('switch', '; ok'), ('for', '; ok;')):
            out.append('package p\nfunc f() {\n\t%s v := %s%s {} {}\n}\n' % (kw, e, sep))
            out.append('package p\nfunc f() {\n\t%s v := %s%s {}\n\tw := T{1}\n\t_ = w\n}\n' % (kw, e, sep))
            out.append('package p\nfunc f() {\n\t%s v := %s%s {\n\t\tw := T{1}\n\t\t_ = w\n\t}\n}\n' % (kw, e, sep))
        out.append('package p\nfunc f() {\n\tfor range %s {}\n\tw := T{1}\n\t_ = w\n}\n' % e)
        out.append('package p\nfunc f() {\n\tfor range %s {} {}\n}\n' % e)
        out.append('package p\nfunc f() {\n\tfor _, e := range %s {}\n\treturn T{}\n}\n' % e)
        out.append('package p\nfunc f() {\n\tif f := func() T { _ = %s; return T{} }; f != nil {}\n}\n' % e)
        out.append('package p\nfunc f() {\n\tif f := func() T { _ = %s; return T{} } {}\n}\n' % e)
    return out
