"""C14 — the tree is lossless: printing it back and re-parsing reproduces it."""
import random, json
from orch import run as R, streams, goprint
from .common import *

LEVEL = 'proof'
ASSUMPTIONS = ["printer = tools/orch/goprint.py: each node prints the concrete syntax of the production that builds it; parentheses only where the tree has a Paren node (plus the operand of `&`, whose parentheses the parser itself drops) and the trailing comma of a lone type parameter",
               "a re-parse failure is first examined as a shortcoming of the printer (false alarm) before it is recorded as a finding"]


def print_tree(m, v):
    if m == 'file': return goprint.file_tokens(v)
    if m == 'expr': return goprint.expr(v)
    return goprint.stmt(v)


def sig_of(m, v, what):
    """coarse class of a failing tree: the set of node kinds involved in the first differing / failing place is
    not known here, so the class is the entry point and the top-level node kind"""
    try:
        if m == 'file': return what + ':file'
        (k, _), = v.items()
        return f'{what}:{m}:{k}'
    except Exception:
        return what


def run(chk):
    rng = random.Random(chk.seed)
    chk.rule = ('every accepted input of: corpus programs / statements / expressions, control-header probes (every level-raising form as a header clause followed by `ok {} {}` / a composite literal), 1-3 token mutants of them, token soup, exhaustive short token sequences in 19 syntactic contexts; '
                'the implementation tree is printed by goprint and re-parsed through the same entry point; oracle: accepted again and equal up to positions, comments and empty statements.  '
                'non-trivial: accepted inputs; distinct by text.')
    base = [c for c in streams.snippet_cases() if c[0] in ('file', 'expr', 'stmt')]
    n = 3 if chk.tier == 'quick' else 12
    from orch import interact
    base = base + [('file', t_) for p_ in interact.programs() for t_ in [p_['text']] + p_['variants']]
    from . import genprog
    base = base + [('file', t_) for t_ in genprog.header_probes()]
    cases = streams.dedup(base + streams.mutants(rng, base, n, 3) + streams.soup(rng, 6000 * n, modes=('file', 'expr', 'stmt')) + [(m, s) for _, m, s in streams.contexts(chk.tier != 'quick')])
    a, b = run_both(chk, 'first-parse', cases, robust=True)
    acc = [((m, s), outcome(l)[1]) for (m, s), l in zip(cases, a) if outcome(l)[0] == 'ok']
    re_cases, origin = [], []
    for (m, s), v in acc:
        try:
            toks = print_tree(m, v)
        except goprint.Unprintable as e:
            chk.oracle_fail(sig_of(m, v, 'unprintable') + ':' + str(e)[:40], m, s, str(e), 'a tree every node of which has concrete syntax', 'the accepted tree has a shape with no concrete syntax')
            continue
        re_cases.append((m, goprint.canonical(toks))); origin.append(((m, s), v))
    a2, b2 = run_both(chk, 're-parse', re_cases, robust=True)
    same = 0
    for (m, t), ((_, s), v), l in zip(re_cases, origin, a2):
        k, w = outcome(l)
        if k != 'ok':
            chk.oracle_fail(sig_of(m, v, 'reparse-rejected'), m, s, {'printed': t[:300], 'result': R.core(l)[1][:200]}, 'the printed tree parses', 'the printed form of an accepted tree is rejected')
        elif erase(w) != erase(v):
            chk.oracle_fail(sig_of(m, v, 'reparse-differs'), m, s, {'printed': t[:300]}, 'equal trees up to positions and comments', 'printing and re-parsing gives a different tree')
        else:
            same += 1
    chk.count('accepted', [c for c, _ in acc], [s for (m, s), _ in acc])
    chk.evaluations += len(cases) - len(acc)
    chk.extra['accepted'] = len(acc)
    chk.extra['round_tripped_equal'] = same
    chk.extra['accepted_by_source'] = {'corpus': sum(1 for (c, _) in acc if c in set(base))}
    for ((m, s), v), (m2, t) in list(zip(origin, re_cases))[:: max(1, len(origin) // 4)][:4]:
        chk.sample({'mode': m, 'input': s[:120], 'printed': t[:160]})
    chk.programs = len(cases) + len(re_cases)
    chk.disagreements_checked = chk.programs
