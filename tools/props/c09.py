"""C09 — numeric literals are accepted, delimited and classified exactly per the spec."""
import random, itertools, json, re
from orch import run as R, gospec, streams
from .common import *

LEVEL = 'proof'
ASSUMPTIONS = ["oracle = regular-expression transcription of the spec's int_lit / float_lit / imaginary_lit EBNF (tools/orch/gospec.py), independent of the Lean model",
               "each string s is embedded as `package p; var _ = <s>` (the property's observation point)"]
ALPHA = "01789aefpxXoObB_.+-i"
PRE = 'package p; var _ = '


def shape(s):
    t = re.sub(r'[1-7]', '1', s); t = re.sub(r'[89]', '9', t); t = re.sub(r'[a-df]', 'a', t)
    return t


def impl_verdict(line):
    """(kind, value) if the input was accepted as exactly one BasicLit initialiser, else None"""
    k, v = outcome(line)
    if k != 'ok': return None
    try:
        vals = v['decl'][0]['Variable']['specs'][0]['values']
        if len(v['decl']) == 1 and len(vals) == 1 and 'BasicLit' in vals[0]:
            b = vals[0]['BasicLit']
            return (b['kind'], b['value'])
    except Exception:
        pass
    return ('?', None)


def judge(chk, stream, strs, a):
    for s, line in zip(strs, a):
        sp = gospec.number_kind(s)
        im = impl_verdict(line)
        if sp is not None:
            if im != (sp, s):
                chk.oracle_fail('num-' + shape(s), 'file', PRE + s, im, (sp, s), 'a numeric literal of the spec is rejected, cut or misclassified')
        else:
            # not a literal: must not be accepted as one literal spanning the run
            if im is not None and im[1] == s:
                chk.oracle_fail('num-' + shape(s), 'file', PRE + s, im, None, 'a string that is no numeric literal of the spec is accepted as one')


def run(chk):
    rng = random.Random(chk.seed)
    maxlen = 4 if chk.tier == 'quick' else 5
    chk.rule = ('all strings up to length %d over the alphabet {%s} embedded as `%s<s>` (exhaustive), a seeded sample of lengths %d-7, random structured literals up to length 14; '
                'oracle: accepted as exactly one BasicLit with value s and the spec kind  <=>  s is an int_lit / float_lit / imaginary_lit.  non-trivial: s is a literal of the spec or is accepted; distinct by s.'
                % (maxlen, ALPHA, PRE, maxlen + 1))
    strs = [''.join(t) for n in range(1, maxlen + 1) for t in itertools.product(ALPHA, repeat=n)]
    cases = [('file', PRE + s) for s in strs]
    a, b = run_both(chk, 'exhaustive', cases)
    judge(chk, 'exhaustive', strs, a)
    nt = [s for s, l in zip(strs, a) if gospec.number_kind(s) or impl_verdict(l)]
    chk.count('exhaustive', cases, nt)
    chk.extra['exhaustive_to_length'] = maxlen
    chk.extra['spec_literals_in_exhaustive'] = sum(1 for s in strs if gospec.number_kind(s))
    # sampled longer
    n = 60000 if chk.tier == 'quick' else 1500000
    strs2 = list(dict.fromkeys(''.join(rng.choice(ALPHA) for _ in range(rng.randint(maxlen + 1, 7))) for _ in range(n)))
    # structured: valid literals and one-char damages of them
    def digits(v, k): return '_'.join(''.join(rng.choice(v) for _ in range(rng.randint(1, 3))) for _ in range(k))
    def gen():
        r = rng.random()
        if r < 0.25: s = rng.choice(['0b', '0B', '0o', '0O', '0x', '0X', '0', '']) + rng.choice(['', '_']) + digits('0123456789abcdefABCDEF'[:rng.choice([2, 8, 10, 22])], rng.randint(1, 2))
        elif r < 0.6: s = digits('0123456789', rng.randint(0, 2)) + rng.choice(['.', '', '.']) + digits('0123456789', rng.randint(0, 2)) + rng.choice(['', 'e', 'E', 'e+', 'E-', 'p']) + digits('0123456789', rng.randint(0, 1))
        else: s = rng.choice(['0x', '0X']) + rng.choice(['', '_']) + digits('0123456789abcdefABCDEF', rng.randint(0, 2)) + rng.choice(['.', '']) + digits('09afAF', rng.randint(0, 1)) + rng.choice(['p', 'P', 'p+', 'P-', 'e', '']) + digits('0123456789', rng.randint(0, 1))
        if rng.random() < 0.3: s += 'i'
        if rng.random() < 0.4 and s:
            i = rng.randrange(len(s)); s = s[:i] + rng.choice(ALPHA + '') + s[i + rng.randint(0, 1):]
        return s
    strs3 = list(dict.fromkeys(x for x in (gen() for _ in range(n // 3)) if x and all(c.isalnum() or c in '_.+-' for c in x)))
    more = strs2 + strs3
    cases2 = [('file', PRE + s) for s in more]
    a2, b2 = run_both(chk, 'sampled', cases2)
    judge(chk, 'sampled', more, a2)
    chk.count('sampled', cases2, [s for s, l in zip(more, a2) if gospec.number_kind(s) or impl_verdict(l)])
    # literal followed by something (delimiting): the literal must be the maximal run
    lits = [s for s in strs if gospec.number_kind(s)][:4000]
    follow = [' ', ';', '\n', ' // c', '/*c*/', '+1', ' +x', '\n\nvar y int', '; var y = 2', '/* c\n*/']
    cases3, exp3 = [], []
    for s in rng.sample(lits, min(len(lits), 1500)):
        cases3.append(('file', PRE + s + rng.choice(follow))); exp3.append(s)
    a3, b3 = run_both(chk, 'delimited', cases3)
    for (m, src), s, line in zip(cases3, exp3, a3):
        k, v = outcome(line)
        lv = leaves(v) if k == 'ok' else []
        if (len(PRE), s) not in lv:
            chk.oracle_fail('num-delimit', m, src, lv[:4], (len(PRE), s), 'the literal text in the tree is not the full run')
    chk.count('delimited', cases3, exp3)
    for s, l in list(zip(strs, a))[4000:4003]:
        chk.sample({'input': PRE + s, 'spec': gospec.number_kind(s), 'impl': impl_verdict(l)})
    chk.sample({'input': PRE + '0x1.8p-2i', 'spec': gospec.number_kind('0x1.8p-2i')})
    chk.programs = len(cases) + len(cases2) + len(cases3)
    chk.disagreements_checked = chk.programs
