"""C03 — the returned tree is the derivation the Go spec assigns to the source."""
import random, json
from orch import run as R, streams, gogen, goprint
from .common import *
from . import genprog

LEVEL = 'proof'
ASSUMPTIONS = ["the expected tree is the derivation tree the generator built before rendering (tools/orch/gogen.py); comparison after erase (positions, comments, empty statements) and norm (three context-dependent spellings of one structure, see common.norm)"]


def run(chk):
    interaction_stream(chk)          # correspondence on the interaction corpus (tools/orch/interact.py)
    rng = random.Random(chk.seed)
    n = 1500 if chk.tier == 'quick' else 30000
    k = 2 if chk.tier == 'quick' else 3
    chk.rule = ('%d generated derivations of SourceFile, each rendered canonically and in %d random layouts; 1676 enumerated small derivations around the type-parameter / array-length ambiguity, with and without optional commas; oracle: the erased, normalised implementation tree equals the derivation tree; first differing path reported.  '
                'non-trivial: distinct program texts with at least one declaration.' % (n, k))
    progs = genprog.programs(rng, n)
    cases, exp = [], []
    for tree, toks in progs:
        e = norm(erase(tree))
        cases.append(('file', goprint.canonical(toks))); exp.append(e)
        for text, cm, offs, desc in genprog.layouts(rng, toks, k):
            cases.append(('file', text)); exp.append(e)
    a, b = run_both(chk, 'generated', cases, robust=True)
    same = 0
    for (m, s), e, x in zip(cases, exp, a):
        kx, vx = outcome(x)
        if kx != 'ok':
            continue                      # acceptance is C02's business
        d = first_diff(e, norm(erase(vx)))
        if d is None:
            same += 1
        else:
            chk.oracle_fail('tree:' + genprog.cell_of(d[0]), m, s, {'path': d[0], 'implementation': json.dumps(d[2])[:200]}, {'derivation': json.dumps(d[1])[:200]}, 'the tree differs from the derivation the generator built')
    chk.count('generated', cases, [s for (m, s) in cases if s.count('\n') > 1 or ';' in s])
    en = genprog.enumerated()
    ec = [('file', t) for _, _, t in en]
    a3, b3 = run_both(chk, 'enumerated', ec)
    for (name, tree, t), x in zip(en, a3):
        kx, vx = outcome(x)
        if kx != 'ok': continue
        d = first_diff(norm(erase(tree)), norm(erase(vx)))
        if d is None: same += 1
        else:
            chk.oracle_fail('tree-enum:' + ':'.join(name.split(':')[:2]), 'file', t, {'path': d[0], 'implementation': json.dumps(d[2])[:200]}, {'derivation': json.dumps(d[1])[:200]}, f'the tree differs from the derivation ({name})')
    chk.count('enumerated', ec, [t for _, _, t in en])
    chk.extra['trees_equal'] = same
    chk.extra['coverage_matrix_production_x_context'] = genprog.coverage_matrix()
    for (m, s) in cases[1:8:3]:
        chk.sample({'mode': m, 'input': s[:400]})
    chk.programs = len(cases)
    chk.disagreements_checked = chk.programs
