"""C03 — the returned tree is the derivation the Go spec assigns to the source."""
import random, json
from orch import run as R, streams, gogen, goprint
from .common import *
from . import genprog

LEVEL = 'proof'
ASSUMPTIONS = ["the expected tree is the derivation tree the generator built before rendering (tools/orch/gogen.py); comparison after erase (positions, comments, empty statements) and norm (three context-dependent spellings of one structure, see common.norm)"]


def run(chk):
    interaction_stream(chk)          # correspondence on the interaction corpus (tools/orch/interact.py)
    rng = random.Random(chk.seed)
    n = 1500 if chk.tier == 'quick' else 30000
    k = 2 if chk.tier == 'quick' else 3
    chk.rule = ('%d generated derivations of SourceFile, each rendered canonically and in %d random layouts; 1676 enumerated small derivations around the type-parameter / array-length ambiguity, with and without optional commas; oracle: the erased, normalised implementation tree equals the derivation tree; first differing path reported; control-header probes: every composite literal written is a CompositeLit node.  '
                'non-trivial: distinct program texts with at least one declaration.' % (n, k))
    progs = genprog.programs(rng, n)
    cases, exp = [], []
    for tree, toks in progs:
        e = norm(erase(tree))
        cases.append(('file', goprint.canonical(toks))); exp.append(e)
        for text, cm, offs, desc in genprog.layouts(rng, toks, k):
            cases.append(('file', text)); exp.append(e)
    a, b = run_both(chk, 'generated', cases, robust=True)
    same = 0
    for (m, s), e, x in zip(cases, exp, a):
        kx, vx = outcome(x)
        if kx != 'ok':
            continue                      # acceptance is C02's business
        d = first_diff(e, norm(erase(vx)))
        if d is None:
            same += 1
        else:
            chk.oracle_fail('tree:' + genprog.cell_of(d[0]), m, s, {'path': d[0], 'implementation': json.dumps(d[2])[:200]}, {'derivation': json.dumps(d[1])[:200]}, 'the tree differs from the derivation the generator built')
    chk.count('generated', cases, [s for (m, s) in cases if s.count('\n') > 1 or ';' in s])
    en = genprog.enumerated()
    ec = [('file', t) for _, _, t in en]
    a3, b3 = run_both(chk, 'enumerated', ec)
    for (name, tree, t), x in zip(en, a3):
        kx, vx = outcome(x)
        if kx != 'ok': continue
        d = first_diff(norm(erase(tree)), norm(erase(vx)))
        if d is None: same += 1
        else:
            chk.oracle_fail('tree-enum:' + ':'.join(name.split(':')[:2]), 'file', t, {'path': d[0], 'implementation': json.dumps(d[2])[:200]}, {'derivation': json.dumps(d[1])[:200]}, f'the tree differs from the derivation ({name})')
    chk.count('enumerated', ec, [t for _, _, t in en])
    # control-header probes: every `T{` written in a probe is, by the grammar, a composite literal of type T (inside
    # parentheses, inside a function literal's body, or after the statement); the accepted tree must hold exactly
    # that many CompositeLit nodes of type T — a block read in place of a literal value loses one
    hp = [('file', t) for t in genprog.header_probes()]
    a4, b4 = run_both(chk, 'header-probes', hp, robust=True)

    def lits(v):
        if isinstance(v, dict):
            n = 0
            for k_, x in v.items():
                if k_ == 'CompositeLit' and isinstance(x, dict) and isinstance(x.get('typ'), dict) and x['typ'].get('Ident', {}).get('name') == 'T': n += 1
                n += lits(x)
            return n
        if isinstance(v, list): return sum(lits(x) for x in v)
        return 0
    for (m, t), x in zip(hp, a4):
        kx, vx = outcome(x)
        if kx != 'ok': continue
        want, got = t.count('T{'), lits(vx)
        if want != got:
            chk.oracle_fail('header-probe:literal-count', m, t, {'composite literals of type T in the tree': got}, {'written in the text': want}, 'a composite literal written in the text is not a CompositeLit node of the tree (read as an operand followed by a block)')
        else: same += 1
    chk.count('header-probes', hp, [t for m, t in hp])
    chk.extra['trees_equal'] = same
    chk.extra['coverage_matrix_production_x_context'] = genprog.coverage_matrix()
    for (m, s) in cases[1:8:3]:
        chk.sample({'mode': m, 'input': s[:400]})
    chk.programs = len(cases)
    chk.disagreements_checked = chk.programs
