"""C17 — every string built with from_utf8_unchecked is valid UTF-8."""
import random, itertools
from orch import run as R, streams
from .common import *

LEVEL = 'proof'
ASSUMPTIONS = ["hook H2 counts (does not panic on) every byte slice at the unsafe conversion that is not valid UTF-8; the harness reads the counter after every case",
               "the byte-level model of next_nstr is Gosyn/Model/Utf8.lean; its agreement with scanner.rs is by reading (8 lines) + this hook"]
ALPHA = ['a', 'é', '世', '😀', '+', '<', '=', '&', '.', '0', '1', "'", '"', ' ']


def run(chk):
    rng = random.Random(chk.seed)
    maxlen = 4 if chk.tier == 'quick' else 5
    chk.rule = ('all strings up to length %d over the %d-symbol alphabet %s in expression position (modes expr and file `package p; var _ = <s>`); '
                'oracle: hook H2 counter is zero.  non-trivial: contains a multi-byte char; distinct by text.' % (maxlen, len(ALPHA), ''.join(ALPHA)))
    cases = []
    for n in range(1, maxlen + 1):
        for t in itertools.product(ALPHA, repeat=n):
            s = ''.join(t)
            cases.append(('expr', s))
            if n <= 3 or chk.tier != 'quick':
                cases.append(('file', 'package p; var _ = ' + s))
    a, b = run_both(chk, 'exhaustive', cases)   # run_both reports every u != 0 as oracle failure 'utf8-invalid-slice'
    chk.count('exhaustive', cases, [s for (m, s) in cases if any(ord(c) > 127 for c in s)])
    chk.extra['exhaustive'] = True
    # random longer soup with multi-byte chars
    sp = streams.utf8_soup(rng, 4000 if chk.tier == 'quick' else 80000)
    a2, b2 = run_both(chk, 'utf8-soup', sp, robust=False)
    chk.count('utf8-soup', sp, [s for (m, s) in sp if any(ord(c) > 127 for c in s)])
    for (m, s), l in list(zip(cases, a))[5000:5003]:
        chk.sample({'mode': m, 'input': s, 'impl': l[:200]})
    chk.programs = len(cases) + len(sp)
    chk.disagreements_checked = chk.programs
