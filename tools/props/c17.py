"""C17 — every string built with from_utf8_unchecked is valid UTF-8."""
import random, itertools
from orch import run as R, streams
from .common import *

LEVEL = 'proof'
ASSUMPTIONS = ["hook H2 counts (does not panic on) every byte slice at the unsafe conversion that is not valid UTF-8; the harness reads the counter after every case",
               "the byte-level model of next_nstr is Gosyn/Model/Utf8.lean; its agreement with scanner.rs is by reading (8 lines) + this hook"]
ALPHA = ['a', 'é', '世', '😀', '+', '<', '=', '&', '.', '0', '1', "'", '"', ' ', '\u00a0', '\u3000',   # 2- and 3-byte blanks (char::is_whitespace)
         '\u0080', '\u0800', '\U00010000']   # the first code point of each encoded length (boundaries of any ASCII / width shortcut)


def died(chk, cases, lines):
    """a process that dies on one of these short inputs (std's debug check of the unchecked conversion aborts; a release
    build reads out of bounds) is the undefined behaviour itself"""
    for (m, s), l in zip(cases, lines):
        k, v = outcome(l)
        if k == 'crash':
            chk.oracle_fail('ub-process-died', m, s, str(v)[:200], 'a tree or an error value', 'the process died while scanning this input (abort / signal): undefined behaviour at the unchecked conversion manifested')


def run(chk):
    rng = random.Random(chk.seed)
    maxlen = 4 if chk.tier == 'quick' else 5
    chk.rule = ('all strings up to length %d over the %d-symbol alphabet %s in expression position (modes expr and file `package p; var _ = <s>`); '
                'and short bodies in files with 0-2 byte order marks and LF / CR LF through parse_file; oracle: hook H2 counter is zero.  non-trivial: contains a multi-byte char; distinct by text.' % (maxlen, len(ALPHA), ''.join(ALPHA)))
    cases = []
    for n in range(1, maxlen + 1):
        for t in itertools.product(ALPHA, repeat=n):
            s = ''.join(t)
            cases.append(('expr', s))
            if n <= 3 or chk.tier != 'quick':
                cases.append(('file', 'package p; var _ = ' + s))
    a, b = run_both(chk, 'exhaustive', cases, robust=True)   # run_both reports every u != 0 as oracle failure 'utf8-invalid-slice'
    died(chk, cases, a)
    chk.count('exhaustive', cases, [s for (m, s) in cases if any(ord(c) > 127 for c in s)])
    chk.extra['exhaustive'] = True
    # random longer soup with multi-byte chars
    sp = streams.utf8_soup(rng, 4000 if chk.tier == 'quick' else 80000)
    a2, b2 = run_both(chk, 'utf8-soup', sp, robust=True)
    died(chk, sp, a2)
    chk.count('utf8-soup', sp, [s for (m, s) in sp if any(ord(c) > 127 for c in s)])
    # the same conversions behind the file entry point (BOM stripping, CR LF): bytes on disk through parse_file
    import os
    BOM = '\ufeff'
    bodies = [''.join(t) for n in range(1, 4) for t in itertools.product(ALPHA, repeat=n)]
    rng.shuffle(bodies)
    bodies = bodies[:1500 if chk.tier == 'quick' else len(bodies)]
    disk = []
    for i, bdy in enumerate(bodies):
        pre = [BOM, '', BOM + BOM, BOM][i % 4]
        nl = ['\n', '\r\n'][i % 2]
        disk.append(('disk', pre + 'package p' + nl + 'func f() { x := ' + bdy + ' }' + nl))
    disk += [('disk', BOM + t) for (m, t) in sp[:500] if m == 'file']
    dl = [R.case_line(m, t) for m, t in disk]
    da = R.impl(dl, robust=True, extra=['--workdir', os.path.join(R.WORK, 'tmp')])
    db = R.model(dl)
    for i in R.compare(dl, da, db):
        chk.disagree('disk', disk[i][0], disk[i][1], da[i], db[i])
        if len(chk.disagreements) <= 3: chk.log(f'[disk] DISAGREEMENT on {disk[i][1]!r:.200}\n   impl : {R.core(da[i])[1][:300]}\n   model: {R.core(db[i])[1][:300]}')
    for (m, t), l in zip(disk, da):
        if l.startswith('u=') and not l.startswith('u=0 '):
            chk.oracle_fail('utf8-invalid-slice', m, t, l[:200], 'u=0', 'hook H2: a byte slice that is not valid UTF-8 reached from_utf8_unchecked through parse_file')
    chk.count('disk', disk, [t for (m, t) in disk if t.startswith(BOM)])
    for (m, s), l in list(zip(cases, a))[5000:5003]:
        chk.sample({'mode': m, 'input': s, 'impl': l[:200]})
    chk.programs = len(cases) + len(sp) + len(disk)
    chk.disagreements_checked = chk.programs
