"""C07 — tokenisation is lossless, longest-match and classifies tokens as the spec does."""
import random, itertools, json
from orch import run as R, gospec, streams
from .common import *

LEVEL = 'proof'
ASSUMPTIONS = ["identifier characters drawn from code points where the crate's Unicode tables and the spec agree; white space from the spec's four characters (the property's quantifier)",
               "oracle = tools/orch/gospec.py, an independent transcription of the spec's lexical grammar"]

REPR = (list(gospec.OPERATORS) + sorted(gospec.KEYWORDS) +
        ['x', '_', 'a1', 'é', '世界', 'ж9', 'iff', 'forx', 'func_', 'breakfast', 'x٣',
         '0', '42', '0x1F', '0b101', '0o17', '017', '1_000', '1.5', '.5', '1e3', '0x1p-2', '2i', '1.5e3i',
         "'a'", "'\\n'", "'世'", '"s"', '"a\\"b"', '`r`', '`r\nq`', '`héllo`', '`世\n界😀`', '"日本語"', '"é\\n😀"', "'😀'"])
# one literal for every branch of the spec's literal productions (and their look-alikes), each a single token
LITS = ['00', '0_7', '0_0', '08.5', '09.', '09e1', '0_8.25E-3', '089i', '08.5i', '0e0', '0.i', '1.', '1.e2', '1.E+2', '.5e-3', '.0', '0.0', '1_0.0_1',
        '0B1', '0b_1', '0O17', '0o_7', '0X_1', '0XaB', '0x1P+3', '0x.8p1', '0X1.p-1', '0x_f.fp0', '0b1i', '0o7i', '0xfi', '0x1p0i', '1e1i', '.5i', '123456789012345678901234567890',
        "'\\a'", "'\\''", "'\\\\'", "'\\000'", "'\\377'", "'\\x00'", "'\\xff'", "'\\u00e9'", "'\\U0010FFFF'", "'\\uD7FF'", "'\\uE000'", "'\t'", "'é'",
        '"\\a\\b\\f\\n\\r\\t\\v\\\\\\""', '"\\101\\x41\\u0041\\U00000041"', '""', '"\t"', "\"'\"", '``', '`\\`', '`"`', "`'`", '`\r\n`', '"//"', '"/*"', '`//\n/*`']
SEPS = [('nothing', ''), ('space', ' '), ('tab', '\t'), ('newline', '\n'), ('general', '/*c*/'), ('line', '//c\n'), ('general-mb', '/*注😀*/'), ('line-mb', '//é\n')]


def real_tokens(src, toks):
    """drop synthetic semicolons (C08's business): a ';' whose offset does not hold a ';' char"""
    return [t for t in toks if not (t[1] == 'Operator' and t[2] == ';' and (t[0] >= len(src) or src[t[0]] != ';'))]


def judge(chk, stream, cases, a, sigf):
    n = 0
    for (m, s), line in zip(cases, a):
        ref = gospec.tokens(s, insert_semicolons=False)
        if ref is None:
            continue
        n += 1
        u, js = parse_line(line)
        if 'toks' not in js:
            chk.oracle_fail(sigf(s, None), m, s, line[:300], ref, 'scanner crashed or gave no token list on lexically valid input')
            continue
        got = real_tokens(s, impl_tokens(js))
        ref3 = [t[:3] for t in ref]
        if js.get('err') is not None or got != ref3:
            # first difference
            k = 0
            while k < min(len(got), len(ref3)) and got[k] == ref3[k]: k += 1
            chk.oracle_fail(sigf(s, k), m, s, got[k:k + 3] if js.get('err') is None else js['err'], ref3[k:k + 3],
                            'token list differs from the spec tokenisation (offset, kind, text)')
        # tiling: texts found at their offsets, only white space in between
        pos = 0
        for (p, k_, x) in got:
            if s[p:p + len(x)] != x or s[pos:p].strip(' \t\r\n') != '':
                chk.oracle_fail('tiling', m, s, (p, k_, x), s[pos:p + len(x)], 'token text is not the source text at its offset / non-blank gap')
                break
            pos = p + len(x)
    return n


def run(chk):
    progs_i, li = interaction_stream(chk)
    sc_i = scan_comments(li, list(li))
    for t_, l_ in li.items():
        k_, v_ = outcome(l_)
        if k_ != 'ok' or sc_i.get(t_) is None: continue
        got_ = [(c['pos'], c['text']) for c in v_['comments']]
        if got_ != sc_i[t_]:
            chk.oracle_fail('comments-vs-scan', 'file', t_, got_[:8], sc_i[t_][:8], 'File::comments is not the list of comment tokens of the source (offset, text, order, each once)')
    rng = random.Random(chk.seed)
    chk.rule = ('scan mode (hook H1). Stream pairs: every ordered pair of the %d representative tokens x 6 separators (exhaustive); '
                'stream comment-shapes: every text over {/ * newline c} to length 6 (7 thorough) holding a comment opener, between two tokens and at the end of input; stream literal-forms: one literal for every branch of the literal productions alone, beside 18 neighbours x 3 separators, and in pairs; stream random: token sequences of 3-12 tokens with random separators. A case is non-trivial when the reference lexer '
                'accepts it (so it is judged by the oracle) and it has >= 2 tokens; distinct by source text.' % len(REPR))
    cases = []
    for (sn, sep) in SEPS:
        for t1 in REPR:
            for t2 in REPR:
                cases.append(('scan', t1 + sep + t2))
    cases = streams.dedup(cases)
    a, b = run_both(chk, 'pairs', cases)
    def sig_pair(s, k):
        return 'token-mismatch'
    judged = judge(chk, 'pairs', cases, a, sig_pair)
    chk.count('pairs', cases, [s for (m, s) in cases if gospec.tokens(s, insert_semicolons=False)])
    chk.extra['pairs_exhaustive'] = True
    chk.extra['pairs_judged_by_oracle'] = judged
    # random streams
    n = 5000 if chk.tier == 'quick' else 100000
    seps = [' ', ' ', '\t', '\n', '\r\n', '/*c*/', ' /* c\n */ ', '//c\n', '  ', '', '/*注*/', '//é😀\n']
    rc = []
    for _ in range(n):
        k = rng.randint(3, 12)
        s = ''
        for i in range(k):
            s += rng.choice(REPR) + rng.choice(seps)
        rc.append(('scan', s))
    rc = streams.dedup(rc)
    a2, b2 = run_both(chk, 'random', rc)
    judged2 = judge(chk, 'random', rc, a2, sig_pair)
    chk.count('random', rc, [s for (m, s) in rc if gospec.tokens(s, insert_semicolons=False)])
    chk.extra['random_judged_by_oracle'] = judged2
    # every literal form alone, next to every operator-like neighbour, and in pairs
    lc = []
    for t in LITS:
        lc.append(('scan', t))
        for nb in ['+', '-', '(', ')', '[', ']', '{', '}', ',', ';', '.', ':', '=', '<-', '&^', '...', 'x', 'if']:
            for sep in ['', ' ', '\n']:
                if nb == '.' and sep == '': continue
                lc.append(('scan', nb + sep + t)); lc.append(('scan', t + sep + nb))
    for t1 in LITS:
        for t2 in LITS:
            lc.append(('scan', t1 + ' ' + t2))
    lc = streams.dedup(lc)
    a4, b4 = run_both(chk, 'literal-forms', lc)
    judged4 = judge(chk, 'literal-forms', lc, a4, sig_pair)
    chk.count('literal-forms', lc, [s for (m, s) in lc if gospec.tokens(s, insert_semicolons=False)])
    chk.extra['literal_forms_judged_by_oracle'] = judged4
    # comment shapes, exhaustively: every text over {/ * newline c} up to length 6 (7 thorough) between two tokens
    # (how a general comment opens, closes, nests stars and slashes, spans lines, or runs into the end of input)
    import itertools
    cc = []
    for n_ in range(2, (6 if chk.tier == 'quick' else 7) + 1):
        for w_ in itertools.product(['/', '*', '\n', 'c'], repeat=n_):
            w_ = ''.join(w_)
            if '/*' not in w_ and '//' not in w_: continue
            cc.append(('scan', 'x ' + w_ + ' y')); cc.append(('scan', 'x' + w_))
    cc = streams.dedup(cc)
    a5, b5 = run_both(chk, 'comment-shapes', cc)
    judged5 = judge(chk, 'comment-shapes', cc, a5, sig_pair)
    chk.count('comment-shapes', cc, [s for (m, s) in cc if gospec.tokens(s, insert_semicolons=False)])
    chk.extra['comment_shapes_judged_by_oracle'] = judged5
    # snippets of real Go in the corpus
    sn = [('scan', s) for (m, s) in streams.snippet_cases()]
    sn = streams.dedup(sn)
    a3, b3 = run_both(chk, 'snippets', sn)
    judged3 = judge(chk, 'snippets', sn, a3, sig_pair)
    chk.count('snippets', sn, [s for (m, s) in sn if gospec.tokens(s, insert_semicolons=False)])
    for (m, s), l in list(zip(cases, a))[1000:1003] + list(zip(rc, a2))[:2]:
        chk.sample({'mode': m, 'input': s, 'impl': l[:300]})
    chk.programs = len(cases) + len(rc) + len(sn) + len(lc) + len(cc)
    chk.disagreements_checked = chk.programs
