"""C13 — layout never changes the tree: blanks, comments, semicolon style are irrelevant."""
import random, json
from orch import run as R, streams, gogen, goprint
from .common import *
from . import genprog

LEVEL = 'proof'
ASSUMPTIONS = ["renderings come from tools/orch/golayout.py: one token sequence (after automatic semicolon insertion), k independent layouts",
               "corpus programs are re-rendered from the token list of their own implementation tree (goprint), so they contribute token sequences the generator does not produce"]


def run(chk):
    progs_i, li = interaction_stream(chk)
    for p_ in progs_i:
        k0, v0 = outcome(li[p_['text']])
        for w_ in p_['variants']:
            k1, v1 = outcome(li[w_])
            if k0 != k1 or (k0 == 'ok' and erase(v0) != erase(v1)):
                chk.oracle_fail('interaction-variant:' + p_['family'], 'file', p_['text'], (k0, w_[:120]), k1, 'two renderings that differ only in layout / optional punctuation are read as different programs')
    rng = random.Random(chk.seed)
    n = 1000 if chk.tier == 'quick' else 15000
    k = 3 if chk.tier == 'quick' else 8
    chk.rule = ('%d generated programs + every accepted corpus program, each rendered in %d independently randomised layouts of the same token sequence (comments at any gap, blanks, tabs, CR LF, line breaks where no semicolon is inserted, explicit/newline/omitted terminators, trailing commas); '
                'oracle: all renderings are accepted and give the same tree up to positions and comments.  non-trivial: a group of k renderings with at least two distinct texts.' % (n, k))
    groups = [toks for tree, toks in genprog.programs(rng, n)]
    corp = [c for c in streams.dedup(streams.snippet_cases()) if c[0] == 'file' and c[1] not in genprog.KNOWN_INVALID_CORPUS]
    la = R.impl([R.case_line(m, s) for m, s in corp])
    for (m, s), l in zip(corp, la):
        kx, vx = outcome(l)
        if kx == 'ok':
            groups.append(goprint.file_tokens(vx))
    cases, gid, descs = [], [], []
    for gi, toks in enumerate(groups):
        cases.append(('file', goprint.canonical(toks))); gid.append(gi); descs.append('canonical')
        for text, cm, offs, desc in genprog.layouts(rng, toks, k, comments=rng.choice([0, 0.2, 0.5])):
            cases.append(('file', text)); gid.append(gi); descs.append(desc)
    a, b = run_both(chk, 'layouts', cases, robust=True)
    ref = {}
    nt = set()
    for (m, s), gi, desc, x in zip(cases, gid, descs, a):
        kx, vx = outcome(x)
        if desc == 'canonical':
            ref[gi] = (kx, erase(vx) if kx == 'ok' else None, s)
            continue
        rk, rv, rs = ref[gi]
        if s != rs: nt.add(gi)
        if kx != rk:
            chk.oracle_fail('layout-acceptance', m, s, R.core(x)[1][:200], f'as the canonical rendering ({rk})', f'a different layout of the same tokens changes acceptance (layout: {desc})')
        elif kx == 'ok' and erase(vx) != rv:
            d = first_diff(rv, erase(vx))
            chk.oracle_fail('layout-tree:' + genprog.cell_of(d[0]), m, s, {'path': d[0], 'got': json.dumps(d[2])[:160]}, {'canonical': json.dumps(d[1])[:160]}, f'a different layout of the same tokens changes the tree (layout: {desc})')
    chk.count('layouts', cases, nt)
    chk.extra['token_sequences'] = len(groups)
    chk.extra['renderings_per_sequence'] = k + 1
    for (m, s) in cases[1:12:4]:
        chk.sample({'mode': m, 'input': s[:400]})
    chk.programs = len(cases)
    chk.disagreements_checked = chk.programs
