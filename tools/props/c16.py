"""C16 — every rejection is a typed error that points at the offending place."""
import random, json
from orch import run as R, gospec, streams
from .common import *

LEVEL = 'proof'
ASSUMPTIONS = ["known finding K2: line numbers are one too small from line 2 on (pinned by scanner::tests::get_line_info); the oracle accepts line in {true, true-1} only through that listed finding",
               "the harness formats every error with Display under catch_unwind"]


def line_starts(src):
    st = [0]
    for i, c in enumerate(src):
        if c == '\n': st.append(i + 1)
    return st


def positions_for(src, line, col):
    """char offsets p with (1-based true line, col) = (line, col)"""
    st = line_starts(src)
    if 1 <= line <= len(st):
        p = st[line - 1] + col
        end = st[line] - 1 if line < len(st) else len(src)
        if p <= end: return p
    return None


def tok_text(actual):
    kind, x = actual
    if kind == 'Operator': return OPTEXT.get(x)
    if kind == 'Keyword': return KWTEXT.get(x)
    return x


def judge(chk, cases, a):
    nrej = 0
    for (m, s), line in zip(cases, a):
        k, v = outcome(line)
        if k in ('panic', 'crash', 'timeout'):
            chk.oracle_fail('error-' + k, m, s, line[:300], 'an error value', 'the call did not return (panic while parsing or while formatting the error)'); continue
        if k != 'err': continue
        nrej += 1
        if v['kind'] not in ('Unexpected', 'Else'):
            chk.oracle_fail('error-untyped-' + v['kind'], m, s, v, 'gosyn::Error::{UnexpectedToken, Else}', "the rejection is not the crate's error type"); continue
        x = v.get('x', {})
        if x.get('path') != '<input>' or not isinstance(x.get('display'), str) or not x.get('display'):
            chk.oracle_fail('error-path-display', m, s, x, 'path <input> and a display string', 'path missing or Display empty'); continue
        L, C = v['line'], v['col']
        if v['kind'] == 'Unexpected':
            act = v['actual']
            if act is None:
                want = len(s)
                p1, p2 = positions_for(s, L, C), positions_for(s, L + 1, C)
                if p1 == want: pass
                elif p2 == want: chk.oracle_fail('line-off-by-one', m, s, (L, C), 'end of input', 'unexpected EOF located one line too high (K2)')
                else: chk.oracle_fail('eof-location', m, s, (L, C), ('offset', want), 'unexpected EOF not located at the end of input')
            else:
                t = tok_text(act)
                if act[0] == 'Operator' and act[1] == 'SemiColon':
                    # may be synthetic: located at a line end / EOF; then no text is there
                    t = None
                p1, p2 = positions_for(s, L, C), positions_for(s, L + 1, C)
                def found(p):
                    if p is None: return False
                    if t is None: return p == len(s) or s[p] in ';\n\r /' or True
                    return s.startswith(t, p)
                if found(p1): pass
                elif found(p2): chk.oracle_fail('line-off-by-one', m, s, (L, C, act), 'token text at the reported place', 'unexpected token located one line too high (K2)')
                else: chk.oracle_fail('token-not-at-location', m, s, (L, C, act), 'token text at (line, col)', 'the unexpected token is not found at the reported location')
        else:
            p1, p2 = positions_for(s, L, C), positions_for(s, L + 1, C)
            if p1 is None and p2 is None:
                chk.oracle_fail('location-not-real', m, s, (L, C), 'a position inside the input', 'the location is not a real position of the input')
    return nrej


def run(chk):
    progs_e, le = interaction_stream(chk, suffix='var zz = )\n', name='interactions-error')
    judge(chk, [('file', t_) for t_ in le], list(le.values()))
    rng = random.Random(chk.seed)
    chk.rule = ('rejected inputs: corpus programs damaged by 1-3 token-level mutations, token soup, UTF-8 soup, unterminated literal/comment inserted at every line of multi-line programs, multi-line tokens before the error (also with CR LF line ends and the error on the line where the token closes), an unterminated multi-line token met inside a region the parser reads twice (interface method attempt, type-parameter list, index or instantiation), nesting 62..70 deep; '
                'entry points parse_source / expression / parse_stmt.  oracle: typed error, path, Display returns, (line, col) is a real position and the unexpected token text is there.  non-trivial: the input is rejected; distinct by text.')
    base = streams.snippet_cases()
    n = 2 if chk.tier == 'quick' else 12
    cases = streams.mutants(rng, base, n, 3) + streams.soup(rng, 3000 if chk.tier == 'quick' else 40000) + streams.utf8_soup(rng, 2000 if chk.tier == 'quick' else 30000)
    # unterminated things at every line
    multi = [s for (m, s) in base if m == 'file' and s.count('\n') >= 3]
    bad = ['"abc', "'a", '`raw', '/* open', "'\\400'", '"\\q"', '0x', '1e+', '#', '@x', '"a\nb"', '\'\'']
    for s in multi[:: (4 if chk.tier == 'quick' else 1)]:
        ls = s.split('\n')
        for i in range(1, len(ls)):
            b = rng.choice(bad)
            cases.append(('file', '\n'.join(ls[:i] + [ls[i] + ' ' + b] + ls[i + 1:])))
            cases.append(('file', '\n'.join(ls[:i] + ['var _ = `multi\nline\nraw`; /* multi\nline */ ' + b] + ls[i:])))
    # the same shapes with CR LF line ends, tabs and non-ASCII text inside the multi-line tokens, and the error on the
    # very line where a multi-line token closes (the line table is built from the token text)
    crlf = []
    for (m, t) in cases[-(len(multi) // (4 if chk.tier == 'quick' else 1) * 8 + 1):]:
        if m == 'file' and rng.random() < 0.5: crlf.append((m, t.replace('\n', '\r\n')))
    for nl in ('\n', '\r\n'):
        for body in ('usage:' + nl + '  tool [flags]', 'é' + nl + nl + '\t世' + nl, nl, 'a' + nl + 'b' + nl + 'c'):
            for errtok in (')', ']', '}', '#', '"open', 'x y'):
                crlf.append(('file', 'package main' + nl + nl + 'var usage = `' + body + '` ' + errtok + nl))
                crlf.append(('file', 'package main' + nl + '/* ' + body + ' */ var x = ' + errtok + nl))
                crlf.append(('file', 'package main' + nl + 'func f() {' + nl + '\ts := `' + body + '`; t := ' + errtok + nl + '}' + nl))
    cases += crlf
    # the unexpected token itself long and multi-byte, at every byte alignment (the error text quotes it)
    LONG = ['"こんにちは、世界。長いメッセージをここに書きます"', 'こんにちは世界のみなさんこんにちは', '`é è ê ë à â ä ù û ü î ï ô ö ç é è ê`', "'世'", '"' + 'é' * 40 + '"', 'x' * 70, '"' + 'a' * 31 + '世界"', '12345678901234567890123456789012345']
    for lt in LONG:
        for pad in ('', 'a', 'ab', 'abc'):
            cases.append(('file', 'package p\nvar v = f("%s" %s)\n' % (pad, lt)))
            cases.append(('expr', 'f(x%s %s)' % (pad, lt)))
            cases.append(('stmt', 'x%s := 1 %s' % (pad, lt)))
    # multi-line type parameter lists (backtracking) before an error
    for k in range(1, 6):
        cases.append(('file', 'package p\n' + 'type T[P\nany,\nQ any] int\n' * k + 'var x = )\n'))
        cases.append(('file', 'package p\n' + 'type A [N *\n2]int\n' * k + 'func f() { x := }\n'))
    # a scanner error met *inside a region the parser reads twice* (the caught method-element attempt of an
    # interface, a type-parameter list, an index that may be an instantiation): the failing token is multi-line, so the
    # line table has entries beyond the position the parser goes back to before the error is reported again
    reread = ['type I interface {\n\tM(x ', 'type I interface {\n\tM ', 'type I interface {\n\tm.N ', 'type I interface {\n\t~',
              'type I interface {\n\tA | ', 'type I interface { M(a int,\n b ', 'type T[P ', 'type T[P any,\nQ ', 'type A [N * ', 'type A [',
              'var v = a[b, ', 'func f() { x[\n', 'func f[T ', 'func (r R[\nT]) m(a ', 'var s struct {\n\ta, b ', 'func f() { go func(a ']
    tails = ['`abc\ndef\nghi', '/* open\n\nxx', '"abc\ndef"', '`a`; `b\n\n\n', "'x\n'", '`ok\nok` `bad\nbad\nbad', '/* ok\n */ /* bad\n\n']
    for pre in reread:
        for tl in tails:
            for lead in ('', 'var a = 1\n', 'var r = `l1\nl2`\n\n'):
                for nl in ('\n', '\r\n'):
                    cases.append(('file', ('package main\n' + lead + pre + tl).replace('\n', nl)))
                    cases.append(('file', ('package main\n' + lead + pre + tl + '\n}\nvar z = 1\n').replace('\n', nl)))
    # deep nesting: the depth cap must be a typed error
    for d in (62, 63, 64, 65, 70, 200):
        for op, cl in (('(', ')'), ('[', ']'), ('{', '}')):
            cases.append(('expr', op * d + 'x' + cl * d))
        cases.append(('file', 'package p; var v = ' + '(' * d + 'x' + ')' * d))
        cases.append(('file', 'package p; func f() { ' + '{' * d + '}' * d + ' }'))
        cases.append(('file', 'package p; var v ' + '[]' * d + 'int'))
        cases.append(('file', 'package p; var v = ' + 'f(' * d + ')' * d))
        cases.append(('stmt', 'x = ' + '[]int{' * d + '}' * d))
    cases = streams.dedup([c for c in cases if c[0] in ('file', 'expr', 'stmt')])
    a, b = run_both(chk, 'rejected', cases, robust=True)
    nrej = judge(chk, cases, a)
    chk.count('rejected', cases, [s for (m, s), l in zip(cases, a) if outcome(l)[0] == 'err'])
    chk.extra['rejected'] = nrej
    kinds = {}
    for l in a:
        k, v = outcome(l)
        if k == 'err': kinds[v['kind']] = kinds.get(v['kind'], 0) + 1
        else: kinds[k] = kinds.get(k, 0) + 1
    chk.extra['outcome_histogram'] = kinds
    for (m, s), l in [x for x in zip(cases, a) if outcome(x[1])[0] == 'err'][:4]:
        chk.sample({'mode': m, 'input': s[:200], 'impl': R.core(l)[1][:200]})
    chk.programs = len(cases)
    chk.disagreements_checked = len(cases)
