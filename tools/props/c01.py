"""C01 — total on any input: never panics, aborts, overflows the stack or hangs."""
import random, json, os, time
from orch import run as R, streams, families
from .common import *

LEVEL = 'proof'
NEED_RELEASE = True
ASSUMPTIONS = ["every case runs in a child process on the default 8 MiB main-thread stack; a dying batch is bisected to the input; wall-clock limit 20 s per case",
               "known findings K3 (recursion not counted against MAX_DEPTH), K4 (Drop/Debug of left-deep trees), K5 (exponential re-parse): listed per family in known_findings.json",
               "the model carries no stack model: it predicts ok / error / panic; crashes and timeouts are decided on the real process"]


def klass(line):
    k, v = outcome(line)
    if k == 'ok' or (k == 'other' and isinstance(v, dict) and 'ok_debug_len' in v): return 'ok'
    if k == 'err': return 'err'
    return k


def judge(chk, fam, profile, m, s, line):
    k = klass(line)
    if k == 'panic':
        u, js = parse_line(line)
        chk.oracle_fail(f'panic:{fam}', m, s, str(js)[:300], 'tree or error value', f'panic ({profile} build)')
    elif k == 'crash':
        chk.oracle_fail(f'crash:{fam}', m, s, line[:100], 'tree or error value', f'the process died ({profile} build): stack exhaustion or abort while parsing, printing or dropping')
    elif k == 'timeout':
        chk.oracle_fail(f'timeout:{fam}', m, s, line[:100], 'an answer within 20 s', f'no answer within the time limit ({profile} build)')
    elif k not in ('ok', 'err'):
        u, js = parse_line(line)
        if not (isinstance(js, dict) and ('ok_debug_len' in js or 'bad-input' in js)):
            chk.oracle_fail(f'other:{fam}', m, s, line[:200], 'tree or error value', 'unexpected answer')


def run(chk):
    rng = random.Random(chk.seed)
    depths = [1, 62, 63, 64, 65, 1000, 10000] + ([100000] if chk.tier != 'quick' else [])
    chk.rule = ('general: corpus programs, 1-3 token mutants, token soup, UTF-8 soup, every token sequence up to length 4-6 over small alphabets in 19 syntactic contexts (slice/index, parameter lists, struct fields, control headers, type parameters, interface elements, ...), the two inputs of tests/fuzz.rs, through parse_source / Parser::expression / Parser::parse_stmt (parse + Debug + drop) and parse_file from disk, debug and release builds; '
                'families: %d deep/long families (one per recursive or iterative construct) at depths %s x {debug, release}; cost: families that re-parse after backtracking at depths 6..14.  '
                'oracle: the child process answers (tree or error) within the time limit.  non-trivial: distinct inputs; family cases count once per (family, depth, profile).' % (len(families.fams(1)), depths))
    # ---- general streams
    base = streams.snippet_cases()
    dbg = {'file': 'dfile', 'expr': 'dexpr', 'stmt': 'dstmt'}
    n = 1 if chk.tier == 'quick' else 8
    gen = base + streams.mutants(rng, base, 2 * n, 3) + streams.soup(rng, 4000 * n, modes=('file', 'expr', 'stmt')) + [c for c in streams.utf8_soup(rng, 3000 * n) if c[0] != 'scan']
    try:
        gen.append(('file', open('/repo/tests/testdata/fuzz001.go.txt').read()))
    except OSError:
        pass
    gen.append(('file', bytes([12, 12, 112, 97, 99, 107, 97, 103, 101, 12, 102, 12, 12, 12, 12, 12, 116, 121, 112, 101, 12, 12, 97, 103, 101, 12, 102, 12, 12, 12, 12, 12, 116, 121, 112, 101, 12, 12, 12, 12, 108, 91, 47, 47, 47, 91, 0, 0, 12, 54, 54, 12, 12, 12, 12, 12, 54, 54, 12, 12, 63, 12, 12, 12, 34]).decode()))
    gen += [(m, s) for _, m, s in streams.contexts(chk.tier != 'quick')]
    from orch import interact
    gen += [('file', t) for p_ in interact.programs() for t in [p_['text']] + p_['variants']] + [('file', t) for t in interact.invalid_programs()]
    gen = streams.dedup(gen)
    cases = [(dbg[m], s) for m, s in gen] + [('disk', s) for m, s in gen if m == 'file'][:: 4]
    for profile in ('debug', 'release'):
        lines = [R.case_line(m, s) for m, s in cases]
        a = R.impl(lines, profile=profile, robust=True, timeout_per_case=20)
        if profile == 'debug':
            b = R.model(lines)
            bad = R.compare(lines, a, b)
            for i in bad:
                if klass(a[i]) in ('crash', 'timeout'): continue
                chk.disagree('general', cases[i][0], cases[i][1], a[i], b[i])
                if len(chk.disagreements) <= 3:
                    chk.log(f'[general] DISAGREEMENT on {cases[i][0]} {cases[i][1]!r:.200}\n   impl : {R.core(a[i])[1][:300]}\n   model: {R.core(b[i])[1][:300]}')
        for (m, s), line in zip(cases, a):
            judge(chk, 'general', profile, m, s, line)
            if line.startswith('u=') and not line.startswith('u=0 '):
                chk.oracle_fail('utf8-invalid-slice', m, s, line[:100], 'u=0', 'hook H2: invalid UTF-8 slice (C17)')
        chk.count('general-' + profile, cases, [s for m, s in cases] if profile == 'debug' else None)
    # ---- families
    hist = {}
    for d in depths:
        F = families.fams(d)
        names = list(F)
        lines = [R.case_line(*F[k]) for k in names]
        for profile in ('debug', 'release'):
            a = R.impl(lines, profile=profile, robust=True, timeout_per_case=20, batch=1)
            for k, line in zip(names, a):
                judge(chk, k, profile, F[k][0], F[k][1], line)
                hist.setdefault(k, {})[f'{d}/{profile}'] = klass(line)
            if profile == 'debug' and d <= 1000:
                # the model on the same inputs (moderate depth): outcome class must agree wherever the process survived
                b = R.model(lines, timeout=900)
                for k, x, y in zip(names, a, b):
                    if klass(x) in ('crash', 'timeout'): continue
                    if R.core(x)[1] != R.core(y)[1]:
                        chk.disagree('families', F[k][0], F[k][1], x, y)
                        chk.log(f'[families] DISAGREEMENT {k} depth {d}: impl {R.core(x)[1][:120]} model {R.core(y)[1][:120]}')
        chk.count('families', names * 2, [(k, d, p) for k in names for p in ('debug', 'release')])
    chk.extra['family_outcomes'] = hist
    # ---- cost families
    cost = {}
    for fam in families.expo(1):
        ts = {}
        for d in (6, 8, 10, 12, 14):
            m, s = families.expo(d)[fam]
            out = R.impl([R.case_line(m, s)], profile='release', robust=True, timeout_per_case=30, batch=1, extra=['--timing'])
            line = out[0]
            if '\t' in line:
                ts[d] = int(line.rsplit('\t', 1)[1])
            else:
                judge(chk, fam, 'release', m, s, line); ts[d] = None
        cost[fam] = ts
        v = [ts[d] for d in (8, 10, 12, 14) if ts.get(d)]
        if len(v) == 4 and v[3] > 20000 and v[1] / max(v[0], 1) > 2.5 and v[2] / max(v[1], 1) > 2.5 and v[3] / max(v[2], 1) > 2.5:
            m, s = families.expo(14)[fam]
            chk.oracle_fail(f'blowup:{fam}', m, s, ts, 'time growing polynomially with nesting', 'time more than doubles with every two levels of nesting (microseconds per depth, release build)')
    chk.extra['cost_us_by_depth'] = cost
    for k in list(hist)[:3]:
        chk.sample({'family': k, 'depth': 63, 'input': families.fams(63)[k][1][:100], 'outcomes': hist[k]})
    chk.programs = len(cases)
    chk.disagreements_checked = len(cases)
