"""helpers shared by the property modules"""
import json, random
from orch import run as R, gospec

OPNAME = {"+":"Add","-":"Sub","*":"Star","/":"Quo","%":"Rem","&":"And","|":"Or","^":"Xor","<<":"Shl",">>":"Shr","&^":"AndNot",
 "+=":"AddAssign","-=":"SubAssign","*=":"MulAssign","/=":"QuoAssign","%=":"RemAssign","&=":"AndAssign","|=":"OrAssign","^=":"XorAssign",
 "<<=":"ShlAssign",">>=":"ShrAssign","&^=":"AndNotAssign","&&":"AndAnd","||":"OrOr","<-":"Arrow","++":"Inc","--":"Dec","==":"Equal",
 "<":"Less",">":"Greater","=":"Assign","!":"Not","~":"Tiled","!=":"NotEqual","<=":"LessEqual",">=":"GreaterEqual",":=":"Define",
 "...":"DotDotDot","(":"ParenLeft",")":"ParenRight","[":"BarackLeft","]":"BarackRight","{":"BraceLeft","}":"BraceRight",",":"Comma",
 ":":"Colon",".":"Dot",";":"SemiColon"}
OPTEXT = {v: k for k, v in OPNAME.items()}
KWNAME = {k: (k[0].upper() + k[1:]) for k in gospec.KEYWORDS}
KWNAME['fallthrough'] = 'FallThrough'
KWTEXT = {v: k for k, v in KWNAME.items()}


def impl_tokens(js):
    """hook H1 output -> list of (offset, kind, text) in the vocabulary of gospec.tokens"""
    out = []
    for p, k, x in js['toks']:
        if k == 'Operator': out.append((p, 'Operator', OPTEXT.get(x, '?' + x)))
        elif k == 'Keyword': out.append((p, 'Keyword', KWTEXT.get(x, '?' + x)))
        else: out.append((p, k, x))
    return out


def parse_line(line):
    u, js = R.split_u(line)
    return u, json.loads(js)


def run_both(chk, stream, cases, project=None, robust=False, profile='debug'):
    """cases: list of (mode, text|bytes).  Runs implementation and model, records disagreements,
    returns (impl_lines, model_lines)."""
    lines = [R.case_line(m, s) for m, s in cases]
    a = R.impl(lines, profile=profile, robust=robust)
    b = R.model(lines)
    bad = R.compare(lines, a, b, project)
    for i in bad:
        m, s = cases[i]
        chk.disagree(stream, m, s, a[i], b[i])
        if len(chk.disagreements) <= 3:
            chk.log(f'[{stream}] DISAGREEMENT on {m} {s!r:.200}\n   impl : {R.core(a[i])[1][:400]}\n   model: {R.core(b[i])[1][:400]}')
    # hook H2 (C17) is compiled into every harness: any event is reported by whichever check sees it
    for i, l in enumerate(a):
        if l.startswith('u=') and not l.startswith('u=0 '):
            m, s = cases[i]
            chk.oracle_fail('utf8-invalid-slice', m, s, l[:200], 'u=0', 'hook H2: a byte slice that is not valid UTF-8 reached from_utf8_unchecked (property C17)')
    return a, b


# ---- tree projections (JSON as printed by serde_json / the model's Gen/Json.lean)

def erase(v, keep_empty=False):
    """the tree without positions, comments, docs and (unless keep_empty) empty statements.  What is
    structure stays: `pos1` of a declaration (grouped or not) and `dots` of a call become booleans,
    the operator of a range clause is kept without its offset, FieldList.pos (parenthesised or not)
    becomes a boolean."""
    if isinstance(v, dict):
        out = {}
        for k, x in v.items():
            if k in ('pos', 'pos0'):
                if k == 'pos' and (x is None or (isinstance(x, list) and 'list' in v and len(v) == 2)):
                    out['paren'] = x is not None      # FieldList
                continue
            if k in ('comments', 'docs', 'line_info'):
                continue
            if k == 'path' and isinstance(x, str):
                continue
            if k == 'pos1':
                out['grouped'] = x is not None
            elif k == 'dots':
                out['dots'] = x is not None
            elif k == 'op' and isinstance(x, list) and len(x) == 2 and isinstance(x[0], int):
                out['op'] = x[1]
            else:
                out[k] = erase(x, keep_empty)
        return out
    if isinstance(v, list):
        r = [erase(x, keep_empty) for x in v]
        if not keep_empty:
            r = [x for x in r if not (isinstance(x, dict) and list(x.keys()) == ['Empty'])]
        return r
    return v


def leaves(v, out=None):
    """identifier and literal leaves (offset, text) of a tree, in tree order"""
    if out is None: out = []
    if isinstance(v, dict):
        ks = set(v.keys())
        if ks == {'pos', 'name'} and isinstance(v['name'], str):
            out.append((v['pos'], v['name']))
        elif ks == {'pos', 'kind', 'value'}:
            out.append((v['pos'], v['value']))
        elif ks == {'pos', 'value'} and isinstance(v['value'], str):
            out.append((v['pos'], v['value']))
        else:
            for k, x in v.items():
                if k in ('comments', 'docs'):
                    continue
                leaves(x, out)
    elif isinstance(v, list):
        for x in v: leaves(x, out)
    return out


def outcome(line):
    """('ok', tree) | ('err', errdict) | ('panic', msg) | ('crash', sig) | ('timeout', None) | ('other', js)"""
    u, js = parse_line(line)
    if isinstance(js, dict):
        for k in ('ok', 'err', 'panic', 'crash', 'timeout'):
            if k in js:
                return k, js[k]
    return 'other', js


def norm(v):
    """vocabulary normalisation applied to BOTH sides before derivation trees are compared (C03).  gosyn
    encodes a few constructs differently by syntactic context; these are spellings of one structure, not
    structure (each is listed in DESIGN.md §5 C03):
      * `*T` is TypePointer in a type position, Operation{Star} where it was read as an expression
        (type arguments, conversions), Star in some statement positions;
      * the parentheses of the operand of unary `&` are dropped by the parser (parser.rs "unparen");
      * `G[A, B]` is Index{index: List[…]} in a type position and IndexList in an expression."""
    if isinstance(v, list):
        return [norm(x) for x in v]
    if not isinstance(v, dict):
        return v
    if len(v) == 1:
        (k, x), = v.items()
        if k == 'TypePointer' and isinstance(x, dict) and 'typ' in x: return {'Ptr': norm(x['typ'])}
        if k == 'Star' and isinstance(x, dict) and 'right' in x: return {'Ptr': norm(x['right'])}
        if k == 'Operation' and isinstance(x, dict) and x.get('y') is None and x.get('op') == 'Star': return {'Ptr': norm(x['x'])}
        if k == 'Operation' and isinstance(x, dict) and x.get('y') is None and x.get('op') == 'And':
            inner = x['x']
            while isinstance(inner, dict) and list(inner.keys()) == ['Paren']:
                inner = inner['Paren']['expr']
            return {'Operation': {**{kk: norm(vv) for kk, vv in x.items() if kk != 'x'}, 'x': norm(inner)}}
        if k == 'IndexList' and isinstance(x, dict) and 'indices' in x:
            return {'Index': {**{kk: norm(vv) for kk, vv in x.items() if kk not in ('indices',)}, 'index': {'List': norm(x['indices'])}}}
    return {k: norm(x) for k, x in v.items()}


def first_diff(x, y, path=''):
    """first differing path between two JSON values, or None"""
    if type(x) != type(y): return path, x, y
    if isinstance(x, dict):
        for k in x:
            if k not in y: return path + '/' + k, x[k], None
            r = first_diff(x[k], y[k], path + '/' + k)
            if r: return r
        for k in y:
            if k not in x: return path + '/' + k, None, y[k]
        return None
    if isinstance(x, list):
        if len(x) != len(y): return path + '/#len', len(x), len(y)
        for i, (p, q) in enumerate(zip(x, y)):
            r = first_diff(p, q, path + '/%d' % i)
            if r: return r
        return None
    return None if x == y else (path, x, y)


# ---- the interaction corpus (tools/orch/interact.py): run through implementation and model by every parser-level check

def interaction_stream(chk, mode='file', suffix='', name='interactions'):
    """runs every interaction program (and its variants) with `suffix` appended; returns (programs, {text: impl line})"""
    from orch import interact
    progs = interact.programs()
    texts = []
    for p in progs:
        for t in [p['text']] + p['variants']:
            if t + suffix not in texts: texts.append(t + suffix)
    cases = [(mode, t) for t in texts]
    a, b = run_both(chk, name, cases, robust=True)
    chk.count(name, cases, [t for m, t in cases])
    return progs, dict(zip(texts, a))


def scan_comments(lines_by_text, texts):
    """comment tokens (offset, text) of each text, from scan mode"""
    sc = R.impl([R.case_line('scan', t) for t in texts])
    out = {}
    for t, l in zip(texts, sc):
        u, js = parse_line(l)
        out[t] = [(p, x) for (p, k, x) in impl_tokens(js) if k == 'Comment'] if 'toks' in js else None
    return out
