"""C20 — trees survive serialisation; optional features and hooks do not change what is parsed."""
import random, json, os, subprocess
from orch import run as R, core, streams
from .common import *

LEVEL = 'proof'
ASSUMPTIONS = ["serde_json's encoding of derived Serialize is modelled by the generated Gen/Json.lean; the byte-for-byte comparison of model and implementation JSON on every accepted input validates that model",
               "four builds of /repo ({serde off,on} x {cfg gosyn_verif off,on}) are compared on the Debug rendering of results and on error variant/location/Display"]
H2 = os.path.join(R.VERIF, 'harness2')
CONFIGS = [('plain', [], ''), ('serde', ['--features', 'serde'], ''), ('hooks', [], '--cfg gosyn_verif'), ('serde-hooks', ['--features', 'serde'], '--cfg gosyn_verif')]

EXTRA = ['package p\nfunc f() () {}\n', 'package p\nvar h func(int) ()\n', 'package p\ntype I interface{ M() () }\n', 'package p\nvar _ = func() () {}\n',
         'package p\nfunc f[]() {}\n', 'package p\ntype T struct{}\n', 'package p\nfunc (T) m() {}\n', 'package p\nvar _ = x[:]\n', 'package p\nvar _ = f(a...)\n',
         'package p\nimport . "a"\nimport _ "b"\nimport c "d"\n', 'package p\nfunc f() { for range ch {} }\n', 'package p\nfunc f() { select {} }\n',
         'package p\nfunc f() { switch x := y.(type) {} }\n', 'package p\nvar _ chan<- <-chan int\n', 'package p\ntype T[P any] = []P\n', 'package p\nconst (a = iota; b)\n']


def build_all(chk):
    probs = {}
    with core.Lock():
        if not os.path.exists(os.path.join(H2, 'Cargo.lock')):
            import shutil; shutil.copy('/repo/Cargo.lock', os.path.join(H2, 'Cargo.lock'))
        for name, feat, flags in CONFIGS:
            env = {'CARGO_TARGET_DIR': os.path.join(H2, 'target-' + name), 'RUSTFLAGS': flags}
            rc, so, se = core.sh(['cargo', 'build', '--offline'] + feat, cwd=H2, timeout=1200, env=env)
            if rc != 0:
                probs[name] = (so + se)[-2000:]
    return probs


def run(chk):
    rng = random.Random(chk.seed)
    chk.rule = ('json: every corpus program (+ unusual shapes: empty result lists, empty type-parameter brackets, ...) and 1-3 token mutants of them through mode json: serialise, deserialise, compare Debug, serialise again; '
                'builds: the same inputs (accepted and rejected) through four builds of the crate {serde off,on} x {hooks off,on}, outputs compared line by line.  non-trivial: the input is accepted (a tree is round-tripped); distinct by text.')
    base = [c for c in streams.snippet_cases() if c[0] in ('file',)] + [('file', s) for s in EXTRA]
    muts = streams.mutants(rng, base, 2 if chk.tier == 'quick' else 10, 3)
    cases = streams.dedup(base + muts)
    jc = [('json', s) for (m, s) in cases]
    a, b = run_both(chk, 'json', jc, robust=True)
    acc = 0
    for (m, s), line in zip(jc, a):
        u, js = parse_line(line)
        if 'rt' in js:
            acc += 1
            if js.get('rt') != 'done' or not js.get('same_json') or not js.get('same_debug'):
                chk.oracle_fail('serde-roundtrip', m, s, js, {'rt': 'done', 'same_json': True, 'same_debug': True}, 'the tree does not survive serialise / deserialise / serialise')
        elif 'panic' in js or 'crash' in js:
            chk.oracle_fail('serde-panic', m, s, js, 'a result', 'panic in the round trip')
    chk.count('json', jc, [s for (m, s), l in zip(jc, a) if '"rt"' in l])
    chk.extra['trees_round_tripped'] = acc
    # byte-for-byte JSON of model vs implementation on the accepted ones (validates Gen/Json.lean against serde)
    fc = [c for c, l in zip(cases, a) if '"rt"' in l]
    a2, b2 = run_both(chk, 'json-text', fc)
    chk.count('json-text', fc)
    # four builds
    probs = build_all(chk)
    for k, v in probs.items():
        chk.problems.append({'kind': 'build', 'what': f'build of configuration {k} failed', 'log': v})
        chk.oracle_fail('config-does-not-build', 'file', '', k, 'builds', f'the crate does not build in configuration {k}')
    if not probs:
        allc = streams.dedup(cases + streams.mutants(rng, [c for c in streams.snippet_cases() if c[0] in ('expr', 'stmt')], 1, 2) + [c for c in streams.snippet_cases() if c[0] in ('expr', 'stmt')])
        lines = [R.case_line(m, s) for m, s in allc]
        outs = {}
        for name, _, _ in CONFIGS:
            outs[name] = R.run_lines([os.path.join(H2, 'target-' + name, 'debug', 'harness2')], lines)
        ref = outs['plain']
        ndiff = 0
        for name in outs:
            for i, (x, y) in enumerate(zip(ref, outs[name])):
                if x != y:
                    ndiff += 1
                    m, s = allc[i]
                    chk.oracle_fail('config-changes-result', m, s, f'{name}: {y[:200]}', f'plain: {x[:200]}', f'build configuration {name} changes the result')
        chk.count('builds', allc * 4, [s for (m, s), l in zip(allc, ref) if l.startswith('ok')])
        chk.extra['configurations'] = [c[0] for c in CONFIGS]
        chk.extra['inputs_per_configuration'] = len(allc)
    for (m, s), l in list(zip(jc, a))[:3]:
        chk.sample({'mode': m, 'input': s[:160], 'impl': l[:160]})
    chk.programs = len(jc) + len(fc)
    chk.disagreements_checked = chk.programs
