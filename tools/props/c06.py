"""C06 — an accepted file is fully accounted for: no token dropped, invented, unbalanced."""
import random, json
from orch import run as R, streams, goprint
from .common import *
from . import genprog

LEVEL = 'proof'
ASSUMPTIONS = ["the token list of a source is the crate's own scanner output (hook verif_scan), itself validated against the spec lexer by C07",
               "the Ident `.` of a dot import stands for the `.` token and is not an identifier leaf"]
LIT = ('Ident', 'Integer', 'Float', 'Imag', 'Char', 'String')
OPEN = {'(': ')', '[': ']', '{': '}'}


def run(chk):
    interaction_stream(chk)
    from orch import interact
    inv = [('file', t) for t in interact.invalid_programs()]
    ia, ib = run_both(chk, 'interactions-invalid', inv, robust=True)
    for (m_, t_), l_ in zip(inv, ia):
        if outcome(l_)[0] == 'ok':
            chk.oracle_fail('unbalanced-accepted', m_, t_, 'accepted', 'rejected', 'a file with a surplus bracket (label / interface element at the end of a block) is accepted')
    rng = random.Random(chk.seed)
    n = 600 if chk.tier == 'quick' else 4000
    m = 4 if chk.tier == 'quick' else 16
    chk.rule = ('file-mode inputs judged whenever the parser says Ok: %d generated valid programs, 1-3 token deletions / insertions / duplications / swaps of them and of the corpus files (%d mutants each), token soup, the file-mode exhaustive context streams, and EVERY single-token deletion, duplication and adjacent swap of every corpus file; '
                'oracle: identifier and literal leaves of the tree = identifier and literal tokens of the source (text, offset, each once, in order); brackets balanced; package clause first, imports before other declarations.  non-trivial: accepted inputs; distinct by text.' % (n, m))
    progs = [('file', goprint.canonical(toks)) for tree, toks in genprog.programs(rng, n)]
    files = [c for c in streams.snippet_cases() if c[0] == 'file']
    cases = progs + files + streams.mutants(rng, progs[:: 2] + files, m, 3) + streams.soup(rng, 5000 * m, modes=('file',)) + [(mo, s) for _, mo, s in streams.contexts(chk.tier != 'quick') if mo == 'file']
    cases += streams.single_edits(files)            # every single-token deletion / duplication / adjacent swap of every corpus file
    cases = streams.dedup(cases)
    a, b = run_both(chk, 'parse', cases, robust=True)
    acc = [(c, outcome(x)[1]) for c, x in zip(cases, a) if outcome(x)[0] == 'ok']
    sc = [('scan', s) for (m_, s), _ in acc]
    sa = R.impl([R.case_line(mo, s) for mo, s in sc])
    for ((mo, s), tree), tl in zip(acc, sa):
        u, js = parse_line(tl)
        if js.get('err') is not None:
            chk.oracle_fail('accepted-but-scanner-error', mo, s, js['err'], 'a lexically valid file', 'the file is accepted although its token list cannot be produced'); continue
        toks = impl_tokens(js)
        real = [t for t in toks if not (t[1] == 'Operator' and t[2] == ';' and (t[0] >= len(s) or s[t[0]] != ';'))]
        want = [(p, x) for (p, k, x) in real if k in LIT]
        got = sorted((p, x) for (p, x) in leaves(tree) if x != '.')
        if got != sorted(want):
            missing = [t for t in want if t not in got]
            extra = [t for t in got if t not in want]
            dup = [t for t in set(got) if got.count(t) > 1]
            sig = 'leaf-dropped' if missing else ('leaf-duplicated' if dup else 'leaf-invented')
            # which production swallowed it: the token before the first missing one
            ctxtok = ''
            if missing:
                before = [t for t in real if t[0] < missing[0][0]]
                ctxtok = ':after-' + (before[-1][2] if before and before[-1][1] in ('Keyword', 'Operator') else (before[-1][1] if before else 'start'))
            chk.oracle_fail(sig + ctxtok, mo, s, {'missing': missing[:3], 'extra': extra[:3], 'duplicated': dup[:3]}, 'leaves = identifier and literal tokens', 'the accepted tree does not account for every identifier / literal token exactly once')
        # bracket balance
        st, bad = [], False
        for (p, k, x) in real:
            if k == 'Operator' and x in OPEN: st.append(OPEN[x])
            elif k == 'Operator' and x in OPEN.values():
                if not st or st.pop() != x: bad = True; break
        if bad or st:
            chk.oracle_fail('brackets-unbalanced', mo, s, 'unbalanced', 'balanced brackets', 'a file with a surplus or missing bracket is accepted')
        # file shape
        nc = [t for t in real if t[1] != 'Comment']
        if not (len(nc) >= 2 and nc[0][1:] == ('Keyword', 'package') and nc[1][1] == 'Ident'):
            chk.oracle_fail('shape-package', mo, s, nc[:2], 'package clause first', 'an accepted file does not start with a package clause')
        depth, seen_decl = 0, False
        for (p, k, x) in nc[2:]:
            if k == 'Operator' and x in OPEN: depth += 1
            elif k == 'Operator' and x in OPEN.values(): depth -= 1
            elif depth == 0 and k == 'Keyword' and x in ('func', 'var', 'const', 'type'): seen_decl = True
            elif depth == 0 and k == 'Keyword' and x == 'import' and seen_decl:
                chk.oracle_fail('shape-import-after-decl', mo, s, p, 'imports before declarations', 'an import after another declaration is accepted'); break
    chk.count('accepted', [c for c, _ in acc], [s for (mo, s), _ in acc])
    chk.evaluations += len(cases) - len(acc)
    chk.extra['accepted'] = len(acc)
    chk.extra['accepted_mutants_or_soup'] = sum(1 for (c, _) in acc if c not in set(progs) and c not in set(files))
    for (mo, s), _ in acc[:: max(1, len(acc) // 3)][:3]:
        chk.sample({'mode': mo, 'input': s[:300]})
    chk.programs = len(cases)
    chk.disagreements_checked = len(cases)
