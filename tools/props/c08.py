"""C08 — semicolons are inserted automatically exactly where the spec says."""
import random, json
from orch import run as R, gospec, streams
from .common import *

LEVEL = 'proof'
ASSUMPTIONS = ["white space from the spec's four characters (the property's quantifier)",
               "oracle = tools/orch/gospec.py (independent transcription of the semicolon rule)",
               "known finding K1: the code's trigger table contains `package` (pinned by parser::test::parse_package)"]

LITS = [('Ident', 'x'), ('Ident', 'é9'), ('Integer', '42'), ('Integer', '0x1F'), ('Float', '1.5'), ('Float', '1e3'), ('Imag', '2i'),
        ('Char', "'a'"), ('String', '"s"'), ('String', '`r`'), ('String', '`r\nq`')]
CONTEXTS = [('newline', '\n'), ('crlf', '\r\n'), ('eof', ''), ('spaces-newline', '  \t \n'), ('line-comment', ' // c\n'),
            ('line-comment-eof', '//c'), ('general-then-newline', ' /* c */\n'), ('general-spanning', ' /* c\n d */ '),
            ('general-then-token', ' /* c */ y'), ('general-star-run', ' /***/ y'), ('general-star-newline', ' /* *\n*/ y'),
            ('two-generals', '/*a*//*b*/\n'), ('unterminated-general', ' /* c'), ('general-eof', ' /* c */')]


def tok_texts():
    out = [('Operator', o) for o in gospec.OPERATORS] + [('Keyword', k) for k in sorted(gospec.KEYWORDS)] + LITS
    return out


def synthetic(src, toks):
    return [t[0] for t in toks if t[1] == 'Operator' and t[2] == ';' and (t[0] >= len(src) or src[t[0]] != ';')]


def sig_for(kind, text, ctx):
    if kind == 'Keyword' and text == 'package':
        return 'trigger-package'
    return f'semicolon-{kind}-{ctx}'


def run(chk):
    progs_i, li = interaction_stream(chk)
    for p_ in progs_i:
        k0, v0 = outcome(li[p_['text']])
        for w_ in p_['variants']:
            k1, v1 = outcome(li[w_])
            if k0 != k1 or (k0 == 'ok' and erase(v0) != erase(v1)):
                chk.oracle_fail('interaction-variant:' + p_['family'], 'file', p_['text'], (k0, w_[:120]), k1, 'two renderings that differ only in layout / optional punctuation are read as different programs')
    rng = random.Random(chk.seed)
    chk.rule = ('grid: every token kind (48 operators, 25 keywords, 11 literal forms) x %d line-ending contexts, followed by a second line, scan mode (hook H1), '
                'exhaustive; look-ahead: every text over {/ * newline c} to length 7 (with blank, to length 8, thorough) containing a comment opener, between a trigger / non-trigger token and the next token or the end of input, exhaustive; oracle: positions of synthetic semicolons = spec rule.  programs: every accepted corpus program and its rendering with all automatic '
                'semicolons written out must give the same erased tree.  non-trivial: the reference lexer accepts the input; distinct by text.' % len(CONTEXTS))
    # ---- grid
    cases, meta = [], []
    for kind, text in tok_texts():
        for cname, ctx in CONTEXTS:
            for pre in ('', 'a + '):
                s = pre + text + ctx + ('z' if ctx.endswith('\n') or ctx.endswith(' ') else '')
                cases.append(('scan', s)); meta.append((kind, text, cname))
    a, b = run_both(chk, 'grid', cases)
    judged = 0
    for (m, s), (kind, text, cname), line in zip(cases, meta, a):
        ref = gospec.tokens(s)
        if ref is None:
            continue
        judged += 1
        u, js = parse_line(line)
        exp = [t[0] for t in ref if len(t) == 4]
        if 'toks' not in js or js.get('err') is not None:
            chk.oracle_fail(sig_for(kind, text, cname), m, s, line[:300], exp, 'scanner failed on lexically valid input')
            continue
        got = synthetic(s, impl_tokens(js))
        if got != exp:
            chk.oracle_fail(sig_for(kind, text, cname), m, s, got, exp, f'synthetic semicolons after `{text}` in context {cname} differ from the spec rule')
    chk.count('grid', cases, [s for (m, s) in cases if gospec.tokens(s) is not None])
    chk.extra['grid_exhaustive'] = True
    chk.extra['grid_judged_by_oracle'] = judged
    # ---- the look-ahead, exhaustively: every text over {/ * newline c blank} up to length 7 (8 thorough) between a
    # trigger token / a non-trigger token and the next token: every way a comment can open, close, nest stars and
    # slashes, span a line or run into the end of input
    import itertools
    ALPH = ['/', '*', '\n', 'c'] if chk.tier == 'quick' else ['/', '*', '\n', 'c', ' ']
    maxw = 7 if chk.tier == 'quick' else 8
    lc, lmeta = [], []
    for n in range(0, maxw + 1):
        for w in itertools.product(ALPH, repeat=n):
            w = ''.join(w)
            if '/*' not in w and '//' not in w and n > 3: continue          # blanks and newlines only: covered by the grid
            for tok in ('x', ')', '+'):
                for tail in (' y', ''):
                    lc.append(('scan', tok + ' ' + w + tail)); lmeta.append(tok)
    a5, b5 = run_both(chk, 'look-ahead', lc)
    judged5 = 0
    for (m, s_), tok, line in zip(lc, lmeta, a5):
        ref = gospec.tokens(s_)
        if ref is None: continue
        judged5 += 1
        u, js = parse_line(line)
        exp = [t[0] for t in ref if len(t) == 4]
        if 'toks' not in js or js.get('err') is not None:
            chk.oracle_fail('look-ahead-error', m, s_, line[:300], exp, 'scanner failed on lexically valid input'); continue
        got = synthetic(s_, impl_tokens(js))
        if got != exp:
            chk.oracle_fail('look-ahead-' + ('trigger' if tok != '+' else 'plain'), m, s_, got, exp, 'synthetic semicolons differ from the spec rule (comment shape in the look-ahead)')
    chk.count('look-ahead', lc, [s_ for (m, s_) in lc if gospec.tokens(s_) is not None])
    chk.extra['look_ahead_exhaustive_to'] = maxw
    chk.extra['look_ahead_judged_by_oracle'] = judged5
    # ---- random token lines
    n = 3000 if chk.tier == 'quick' else 60000
    words = [t for _, t in tok_texts()]
    seps = [' ', ' ', '\n', '\n', '\r\n', ' /*c*/ ', ' /* c\n */ ', ' //c\n', '\t', ' /***/ ', ' /* * */ ', '/**/',
            # blanks that are not the spec's (outside the oracle; the model knows what the scanner does with them)
            '\u00a0\n', '\u2028', '\x0b\n', '\u0085 ', '\u3000\n', '\x0c']
    rc = []
    for _ in range(n):
        s = ''.join(rng.choice(words) + rng.choice(seps) for _ in range(rng.randint(2, 9)))
        rc.append(('scan', s))
    rc = streams.dedup(rc)
    a2, b2 = run_both(chk, 'random', rc)
    for (m, s), line in zip(rc, a2):
        ref = gospec.tokens(s)
        if ref is None: continue
        u, js = parse_line(line)
        exp = [t[0] for t in ref if len(t) == 4]
        if 'toks' not in js or js.get('err') is not None:
            chk.oracle_fail('scanner-error', m, s, line[:300], exp, 'scanner failed on lexically valid input'); continue
        toks = impl_tokens(js)
        got = synthetic(s, toks)
        if got != exp:
            # attribute to the token before the first differing semicolon
            d = next((x for x in sorted(set(got) ^ set(exp))), None)
            prev = [t for t in toks if t[0] < (d if d is not None else 0) and not (t[1] == 'Operator' and t[2] == ';')]
            pk = prev[-1] if prev else (0, '?', '?')
            chk.oracle_fail('trigger-package' if (pk[1], pk[2]) == ('Keyword', 'package') else 'semicolon-random', m, s, got, exp, 'synthetic semicolons differ from the spec rule')
    chk.count('random', rc, [s for (m, s) in rc if gospec.tokens(s) is not None])
    # ---- newline style vs explicit semicolons: same tree
    progs = [(m, s) for (m, s) in streams.snippet_cases() if m == 'file']
    progs = streams.dedup(progs)
    a3, b3 = run_both(chk, 'programs', progs)
    pairs, src_of = [], []
    for (m, s), line in zip(progs, a3):
        k, v = outcome(line)
        if k != 'ok': continue
        ref = gospec.tokens(s)
        if ref is None: continue
        ins = sorted(t[0] for t in ref if len(t) == 4)
        if not ins: continue
        t2, last = [], 0
        for p in ins:
            t2.append(s[last:p]); t2.append(';'); last = p
        t2.append(s[last:])
        pairs.append(('file', ''.join(t2))); src_of.append((s, v))
    a4, b4 = run_both(chk, 'programs-explicit', pairs)
    same = 0
    for (m, s2), (s, tree), line in zip(pairs, src_of, a4):
        k, v = outcome(line)
        if k != 'ok':
            chk.oracle_fail('explicit-semicolons-rejected', m, s2, line[:300], 'accepted like the newline rendering', 'the same program with automatic semicolons written out is rejected'); continue
        if erase(v) != erase(tree):
            chk.oracle_fail('explicit-semicolons-tree', m, s2, 'different erased tree', 'equal erased trees', 'newline and explicit-semicolon renderings give different trees')
        else:
            same += 1
    chk.count('programs', progs + pairs, [s for (m, s) in pairs])
    chk.extra['program_pairs_equal'] = same
    for (m, s), l in list(zip(cases, a))[100:103] + list(zip(pairs, a4))[:1]:
        chk.sample({'mode': m, 'input': s, 'impl': l[:240]})
    chk.programs = len(cases) + len(rc) + len(progs) + len(pairs) + len(lc)
    chk.disagreements_checked = chk.programs
