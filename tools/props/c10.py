"""C10 — string and rune literals are accepted exactly per the spec and kept verbatim."""
import random, itertools, json
from orch import run as R, gospec, streams
from .common import *

LEVEL = 'proof'
ASSUMPTIONS = ["oracle = recogniser transcribed from the spec's rune/string literal grammar and prose (tools/orch/gospec.py), independent of the Lean model",
               "each literal is embedded as `package p; var _ = <lit>`"]
ALPHA = ['a', '\\', "'", '"', '`', 'n', 'x', 'u', 'U', '0', '3', '7', '8', 'D', 'F', '\n', '世', '😀']
PRE = 'package p; var _ = '


def impl_verdict(line):
    k, v = outcome(line)
    if k != 'ok': return None
    try:
        vals = v['decl'][0]['Variable']['specs'][0]['values']
        if len(v['decl']) == 1 and len(vals) == 1 and 'BasicLit' in vals[0]:
            b = vals[0]['BasicLit']
            return (b['kind'], b['value'])
    except Exception:
        pass
    return ('?', None)


def cls(q, body):
    t = ''.join('h' if c in '03DF78' and False else c for c in body)
    return {'\'': 'rune', '"': 'str', '`': 'raw'}[q]


def judge(chk, lits, a):
    for (q, body), line in zip(lits, a):
        lit = q + body + q
        ok = gospec.quoted_ok(q, body)
        im = impl_verdict(line)
        kind = 'Char' if q == "'" else 'String'
        if ok:
            if im != (kind, lit):
                chk.oracle_fail('lit-rejected-' + cls(q, body), 'file', PRE + lit, im, (kind, lit), 'a well-formed literal is rejected, cut or altered')
        else:
            # accepted as one literal with exactly this text -> violation (an ill-formed body may legitimately
            # scan as a shorter literal followed by other tokens, which then fails to parse)
            if im is not None and im[1] == lit:
                chk.oracle_fail('lit-accepted-' + cls(q, body), 'file', PRE + lit, im, None, 'an ill-formed literal is accepted')
            elif im is not None and im[1] is not None and not gospec.quoted_ok(im[1][0], im[1][1:-1]):
                chk.oracle_fail('lit-accepted-' + cls(q, body), 'file', PRE + lit, im, None, 'the accepted literal text is not a well-formed literal')


def run(chk):
    progs_i, li = interaction_stream(chk)
    from orch import interact
    for p_ in progs_i:
        if p_['family'] != 'reread-literal': continue
        k_, v_ = outcome(li[p_['text']])
        lits_ = [x for x in interact.RUNES + interact.STRS if x in p_['text']]
        vals_ = [lf[1] for lf in leaves(v_)] if k_ == 'ok' else []
        if k_ != 'ok' or not any(x in vals_ for x in lits_):
            chk.oracle_fail('lit-reread', 'file', p_['text'], (k_, vals_[:6]), lits_[:3], 'a well-formed literal inside a construct the parser reads twice is rejected or altered')
    rng = random.Random(chk.seed)
    maxlen = 3 if chk.tier == 'quick' else 4
    chk.rule = ('all literal bodies up to length %d over the 18-symbol alphabet of the property x 3 quote kinds (exhaustive), seeded sample of lengths %d-6, '
                'structured escapes (every escape form with correct / short / long / out-of-range digits; every digit position of every form filled with characters that alias a digit under truncation, are non-ASCII digits, or are tolerated by library integer parsers: sign, `_`, blanks, radix marks); oracle: accepted verbatim <=> well formed per spec.  '
                'non-trivial: well formed or accepted; distinct by literal text.' % (maxlen, maxlen + 1))
    lits = [(q, ''.join(t)) for q in "'\"`" for n in range(0, maxlen + 1) for t in itertools.product(ALPHA, repeat=n)]
    cases = [('file', PRE + q + b + q) for q, b in lits]
    a, b_ = run_both(chk, 'exhaustive', cases)
    judge(chk, lits, a)
    chk.count('exhaustive', cases, [q + b + q for (q, b), l in zip(lits, a) if gospec.quoted_ok(q, b) or impl_verdict(l)])
    chk.extra['exhaustive_to_length'] = maxlen
    n = 60000 if chk.tier == 'quick' else 1200000
    lits2 = list(dict.fromkeys((rng.choice("'\"`"), ''.join(rng.choice(ALPHA) for _ in range(rng.randint(maxlen + 1, 6)))) for _ in range(n)))
    # characters outside the property's alphabet that a scanner may be tempted to normalise: CR, CR LF, tab, line separators
    ODD = ['\r', '\r\n', '\t', '\u2028', '\u0085', '\ufeff', 'a', '\\', 'n', '`', '"', "'", '\n']
    lits2 += list(dict.fromkeys((q, ''.join(rng.choice(ODD) for _ in range(rng.randint(1, 5)))) for q in "'\"`" for _ in range(n // 30)))
    lits2 += [(q, pre_ + o + post_) for q in '"`' for o in ODD[:6] for pre_ in ('', 'a', 'a\n' if q == '`' else 'ab') for post_ in ('', 'b')]
    lits2 = list(dict.fromkeys(lits2))
    HEX = '0123456789abcdefABCDEF'
    def esc():
        r = rng.random()
        if r < 0.15: return '\\' + rng.choice('abfnrtv\\\'"') 
        if r < 0.30: return '\\' + ''.join(rng.choice('01234567') for _ in range(rng.choice([1, 2, 3, 3, 3, 4])))
        if r < 0.45: return '\\x' + ''.join(rng.choice(HEX + 'g') for _ in range(rng.choice([1, 2, 2, 3])))
        if r < 0.65: return '\\u' + rng.choice(['', 'D8', 'DF', 'd7', 'E0', 'FF', '00']) + ''.join(rng.choice(HEX) for _ in range(rng.choice([2, 2, 3, 1])))
        if r < 0.90: return '\\U' + rng.choice(['0000', '0010', '0011', '0001', 'FFFF', '000', '00000']) + rng.choice(['D800', 'DFFF', 'FFFF', '0000', 'D7FF', 'E000', '12', 'FFFFF']) 
        return rng.choice(['a', '世', '😀', ' ', '\n', '\\', '%'])
    lits3 = []
    for _ in range(n // 2):
        q = rng.choice("'\"\"")
        body = ''.join(esc() for _ in range(1 if q == "'" and rng.random() < 0.8 else rng.randint(0, 4)))
        lits3.append((q, body))
    lits3 = list(dict.fromkeys(lits3))
    more = lits2 + lits3
    cases2 = [('file', PRE + q + b + q) for q, b in more]
    a2, b2 = run_both(chk, 'sampled', cases2)
    judge(chk, more, a2)
    chk.count('sampled', cases2, [q + b + q for (q, b), l in zip(more, a2) if gospec.quoted_ok(q, b) or impl_verdict(l)])
    # digit positions of every escape form filled with characters that are digits only under a careless conversion:
    # non-ASCII code points whose low byte (or low 16 bits) is an ASCII digit / hex letter, full-width and other
    # Unicode decimal digits, and the ASCII neighbours of the digit ranges
    ALIAS = ['\u0130', '\u0141', '\u0166', '\u4e30', '\u4e41', '\U0001f630', '\U00010041', '\uff11', '\uff21', '\u0661', '\u0967',
             '/', ':', '@', 'G', '`', 'g', '8', '9',
             # what library integer parsers tolerate around or inside digits: sign, separator, blanks, radix marks
             '+', '-', '_', ' ', '\t', '.', 'x', 'X', 'h', 'L']
    FORMS = [('\\x', 2, HEX), ('\\u', 4, HEX), ('\\U', 8, '0'), ('\\', 3, '0123')]
    lits4 = []
    for q in "'\"":
        for pre_, nd, good_ in FORMS:
            base = [rng.choice(good_) for _ in range(nd)]
            if pre_ == '\\U': base = list('0000' + ''.join(rng.choice(HEX) for _ in range(4)))
            for pos in range(nd):
                for al in ALIAS:
                    d = list(base); d[pos] = al
                    lits4.append((q, pre_ + ''.join(d)))
                    if q == '"': lits4.append((q, 'a' + pre_ + ''.join(d) + 'b'))
    lits4 = list(dict.fromkeys(lits4))
    cases4 = [('file', PRE + q + b + q) for q, b in lits4]
    a4, b4 = run_both(chk, 'alias-digits', cases4)
    judge(chk, lits4, a4)
    chk.count('alias-digits', cases4, [q + b + q for (q, b) in lits4])
    # unterminated at end of input
    cases3 = [('file', PRE + q + b) for q, b in lits[:20000:7]]
    a3, b3 = run_both(chk, 'unterminated', cases3)
    for (m, s), line in zip(cases3, a3):
        im = impl_verdict(line)
        body = s[len(PRE):]
        if im is not None and im[1] == body and not (len(body) >= 2 and gospec.quoted_ok(body[0], body[1:-1]) and body[-1] == body[0]):
            chk.oracle_fail('lit-unterminated', m, s, im, None, 'an unterminated literal is accepted')
    chk.count('unterminated', cases3)
    for (q, bd), l in list(zip(lits, a))[3000:3003]:
        chk.sample({'input': PRE + q + bd + q, 'spec_ok': gospec.quoted_ok(q, bd), 'impl': impl_verdict(l)})
    chk.programs = len(cases) + len(cases2) + len(cases3) + len(cases4)
    chk.disagreements_checked = chk.programs
