#!/usr/bin/env python3
"""seedtest.py <seed-id> <prop> [<prop>...] [--tier quick]: applies seeded/<seed-id>/patch.diff to /repo,
runs ./check for each property, records the outcome in seeded/<seed-id>/detect.json, and restores /repo
(git checkout -- .) whatever happens."""
import sys, os, subprocess, json, time
VERIF = os.path.dirname(os.path.dirname(os.path.abspath(__file__)))
args = [a for a in sys.argv[1:] if not a.startswith('--')]
tier = 'quick'
if '--tier' in sys.argv: tier = sys.argv[sys.argv.index('--tier') + 1]; args.remove(tier)
sid, props = args[0], args[1:]
d = os.path.join(VERIF, 'seeded', sid)
st = subprocess.run(['git', '-C', '/repo', 'status', '--porcelain', '--untracked-files=no'], capture_output=True, text=True).stdout.strip()
if st:
    sys.exit('/repo has local changes; refusing: ' + st)
res = {}
import shutil
for p in props:
    ev = os.path.join(VERIF, 'evidence', p + '.json')
    if os.path.exists(ev): shutil.copy(ev, ev + '.bak')
try:
    subprocess.run(['git', '-C', '/repo', 'apply', os.path.join(d, 'patch.diff')], check=True)
    for p in props:
        t = time.time()
        r = subprocess.run(['./check', p, '--tier', tier], cwd=VERIF, capture_output=True, text=True)
        lines = [l for l in r.stdout.split('\n') if l.startswith('VIOLATION') or l.startswith('KNOWN-FINDING')]
        fails = [l for l in r.stdout.split('\n') if l.startswith('[oracle] FAIL') or 'DISAGREEMENT' in l or 'PROBLEM' in l][:6]
        res[p] = {'exit': r.returncode, 'lines': lines, 'first_failures': fails, 'wall_s': round(time.time() - t, 1)}
        rp = [l.split('replay=')[1].split()[0] for l in lines if l.startswith('VIOLATION')]
        if rp and os.path.exists(rp[0]):
            res[p]['replay'] = json.load(open(rp[0]))
            for k in ('correspondence_disagreements', 'broken_obligations'):
                if k in res[p]['replay']: res[p]['replay'][k] = res[p]['replay'][k][:2]
        print(p, 'exit', r.returncode, *lines[:3], sep='\n  ')
        for f in fails[:3]: print('    ', f[:300])
finally:
    subprocess.run(['git', '-C', '/repo', 'checkout', '--', '.'], check=True)
    for p in props:
        ev = os.path.join(VERIF, 'evidence', p + '.json')
        if os.path.exists(ev + '.bak'): shutil.move(ev + '.bak', ev)
    # rebuild the harness from the restored tree so that nothing stale is left behind
    subprocess.run('cargo build --offline -q 2>/dev/null; cargo build --release --offline -q 2>/dev/null', shell=True, cwd=os.path.join(VERIF, 'harness'), env=dict(os.environ, CARGO_NET_OFFLINE='true'))
old = {}
dp = os.path.join(d, 'detect.json')
if os.path.exists(dp): old = json.load(open(dp))
old.update(res)
json.dump(old, open(dp, 'w'), indent=1, ensure_ascii=False)
